import ColumnVerif.Conc.Skel
/-!
# C14 — what the current source says about the protocol parts this property rests on

Obligations over the *regenerated* token lists of `Generated/Skeleton.lean` (rewritten from /repo on
every run); `decide +kernel` evaluates the structural predicate of `Conc/Skel.lean` in the kernel.
A change to the code that moves a call out of its lock, drops a `defer`, reorders the commit closure …
makes exactly the corresponding theorem fail.
-/
namespace ColumnVerif.Props.C14skel
open ColumnVerif.Skel

theorem dict_version_matches : ColumnVerif.Generated.dictVersion = expectedDictVersion := by decide +kernel
theorem flag_snapshotProtocol : snapshotProtocol = true := by decide +kernel
theorem flag_openCleansOnCasFailure : openCleansOnCasFailure = true := by decide +kernel
/-- `readChunk` releases the chunk read latch and the collection lock by `defer`: an error returned by the
    writer callback cannot leak them -/
theorem flag_snapReadLocked : snapReadLocked = true := by decide +kernel
theorem flag_compressorsClosed : compressorsClosed = true := by decide +kernel

end ColumnVerif.Props.C14skel
