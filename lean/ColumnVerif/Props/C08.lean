import ColumnVerif.Conc.SnapInvariants
/-!
# C08 — a snapshot taken under concurrent commits restores to a consistent cut

`Conc/SnapMachine.lean` is `Snapshot` running against committing writers as a small-step machine:
any number of writers, any number of chunks, any schedule; the recorder pointer load and the log
append of a writer are separate steps, so `sClose` and `sCopy` may fall between them. A chunk's
content is the list of commit ids applied to it, most recent first; "the block after a prefix of its
commits (in apply order)" is therefore a *suffix* `(w.content c).drop k` of that list.

Everything below holds in **every** world reachable from an initial world (`Init w0`, `Reach w0 w`).

* N1  latch mutual exclusion; the content of a chunk is strictly decreasing with ids in `(0, next]`;
      `lastId` is the head of the content, or the id drawn and not yet applied; the log of a chunk is
      strictly decreasing and contained in the content;
* N2  the recorder is on exactly while `spc = .opened _`; what `readChunk` stored is a suffix of the
      content, and the id stored with it is its head;
* N3  prefix closure of the recorded set: (logged ids of `c` newer than the id read) ++ (content read)
      is a suffix of the content — exactly the content, up to the commit of a holder that has applied
      and not yet appended, while the recorder is on;
* N4  `consistent_cut`: after `sCopy` the restored block is a suffix of the content at the moment of
      the copy, hence of the final content, and contains every commit whose latch section had
      finished when the snapshot call began;
* N5  the restored list is strictly decreasing (no commit twice, none out of order);
* N6  a concrete run: one commit before the snapshot, one recorded during it, `restored = [2, 1]`.
-/
namespace ColumnVerif.Props.C08
open ColumnVerif.Conc.Snap

section
variable {w0 w : W}

/-! ### N1 — basic invariants -/

/-- `InLatch p c` spelled out: the pc is one of `held/drawn/applied/sawRecorder/recorded c …` -/
theorem inLatch_iff (p : WPC) (c : Nat) :
    InLatch p c ↔ p = .held c ∨ (∃ id, p = .drawn c id) ∨ (∃ id, p = .applied c id) ∨
      (∃ id b, p = .sawRecorder c id b) ∨ ∃ id, p = .recorded c id := by
  cases p <;> simp [InLatch, latchChunk]

/-- a writer at `held/drawn/applied/sawRecorder/recorded c …` is the holder of `c` -/
theorem latch_holder (hi : Init w0) (hr : Reach w0 w) {t c : Nat} (h : InLatch (w.pc t) c) :
    w.holder c = some t :=
  (reach_inv hi hr).m.whold t c h

/-- … and the holder of `c` is at such a pc -/
theorem holder_in_section (hi : Init w0) (hr : Reach w0 w) {t c : Nat} (h : w.holder c = some t) :
    InLatch (w.pc t) c :=
  (reach_inv hi hr).m.hpc t c h

/-- at most one writer per chunk is inside the latch section -/
theorem latch_exclusive (hi : Init w0) (hr : Reach w0 w) {t u c : Nat} (ht : InLatch (w.pc t) c)
    (hu : InLatch (w.pc u) c) : t = u :=
  (reach_inv hi hr).m.unique ht hu

/-- the content of a chunk is strictly decreasing: no commit applied twice, ids increase in apply order -/
theorem content_strictly_ordered (hi : Init w0) (hr : Reach w0 w) (c : Nat) :
    (w.content c).Pairwise (· > ·) :=
  (reach_inv hi hr).c.sorted c

/-- applied ids are non-zero and at most the counter -/
theorem content_bounds (hi : Init w0) (hr : Reach w0 w) (c : Nat) :
    ∀ x ∈ w.content c, 0 < x ∧ x ≤ w.next :=
  fun x hx => ⟨(reach_inv hi hr).c.pos c x hx, (reach_inv hi hr).c.bound c x hx⟩

/-- a writer between `draw` and `apply`: `commits[c]` is its id, which is above everything applied -/
theorem lastId_drawn (hi : Init w0) (hr : Reach w0 w) {t c id : Nat} (h : w.pc t = .drawn c id) :
    w.lastId c = id ∧ ∀ x ∈ w.content c, x < id :=
  ⟨(reach_inv hi hr).c.drawn_last t c id h, fun x hx => (reach_inv hi hr).c.drawn_gt t c id x h hx⟩

/-- otherwise `commits[c]` is the id of the last commit applied to `c` -/
theorem lastId_head (hi : Init w0) (hr : Reach w0 w) {c : Nat} (h : ∀ t id, w.pc t ≠ .drawn c id) :
    w.lastId c = (w.content c).headD 0 :=
  (reach_inv hi hr).lastId_head h

/-- the log restricted to a chunk is strictly decreasing (most recent first) -/
theorem log_strictly_ordered (hi : Init w0) (hr : Reach w0 w) (c : Nat) :
    ((w.log.filter (·.1 = c)).map (·.2)).Pairwise (· > ·) :=
  (reach_inv hi hr).l.sorted c

/-- every logged commit of a chunk has been applied to it -/
theorem log_subset_content (hi : Init w0) (hr : Reach w0 w) (c : Nat) :
    ∀ x ∈ (w.log.filter (·.1 = c)).map (·.2), x ∈ w.content c :=
  (reach_inv hi hr).l.mem c

/-! ### N2 — recorder flag, `readChunk` -/

/-- the recorder is installed exactly while the snapshot thread is between `sOpen` and `sClose` -/
theorem recorder_iff_opened (hi : Init w0) (hr : Reach w0 w) :
    w.recorder = true ↔ ∃ todo, w.spc = .opened todo := by
  have h := (reach_inv hi hr).r
  constructor
  · intro hrec
    cases hs : w.spc with
    | notStarted => have := h.rec_ns hs; rw [hrec] at this; simp at this
    | opened todo => exact ⟨todo, rfl⟩
    | closed => have := h.rec_closed hs; rw [hrec] at this; simp at this
    | copied => have := h.rec_copied hs; rw [hrec] at this; simp at this
  · rintro ⟨todo, hs⟩; exact h.rec_open todo hs

/-- what `readChunk` stored for a chunk is the chunk after a prefix of its commits, and the id stored
    with it is the last commit of that prefix -/
theorem read_is_prefix (hi : Init w0) (hr : Reach w0 w) {c l : Nat} {cont : List Nat}
    (hread : w.snapRead c = some (l, cont)) :
    (∃ k, cont = (w.content c).drop k) ∧ l = cont.headD 0 :=
  ⟨suffix_drop ((reach_inv hi hr).r.read_suffix c l cont hread),
    (reach_inv hi hr).r.read_last c l cont hread⟩

/-! ### N3 — prefix closure of the recorded set -/

/-- the logged commits of `c` newer than the id read, followed by the content read, are the chunk
    after a prefix of its commits: no commit is missing from the middle, at every point of the run -/
theorem recorded_prefix_closed (hi : Init w0) (hr : Reach w0 w) {c l : Nat} {cont : List Nat}
    (hread : w.snapRead c = some (l, cont)) :
    ∃ k, ((w.log.filter (fun p => p.1 = c ∧ p.2 > l)).map (·.2)) ++ cont = (w.content c).drop k :=
  suffix_drop ((reach_inv hi hr).n.suffix c l cont hread)

/-- while the recorder is on nothing is missing at all, except the commit of the current holder of
    `c` between `apply` and `appendLog` -/
theorem recorded_complete_while_open (hi : Init w0) (hr : Reach w0 w) (hrec : w.recorder = true)
    {c l : Nat} {cont : List Nat} (hread : w.snapRead c = some (l, cont)) :
    ((w.log.filter (fun p => p.1 = c ∧ p.2 > l)).map (·.2)) ++ cont = w.content c ∨
      ∃ t id, (w.pc t = .applied c id ∨ w.pc t = .sawRecorder c id true) ∧
        w.content c = id :: (((w.log.filter (fun p => p.1 = c ∧ p.2 > l)).map (·.2)) ++ cont) :=
  (reach_inv hi hr).recorded_tight hrec hread

/-- … i.e. the recorded set lags the content by at most one commit while the recorder is on -/
theorem recorded_lag_le_one (hi : Init w0) (hr : Reach w0 w) (hrec : w.recorder = true)
    {c l : Nat} {cont : List Nat} (hread : w.snapRead c = some (l, cont)) :
    ∃ j, j ≤ 1 ∧
      ((w.log.filter (fun p => p.1 = c ∧ p.2 > l)).map (·.2)) ++ cont = (w.content c).drop j := by
  rcases recorded_complete_while_open hi hr hrec hread with h | ⟨t, id, _, h⟩
  · exact ⟨0, by omega, by rw [h]; rfl⟩
  · exact ⟨1, by omega, by rw [h]; rfl⟩

/-- a writer that saw the recorder on will append exactly the one missing commit — also after
    `sClose` -/
theorem late_append_is_next (hi : Init w0) (hr : Reach w0 w) {t c id l : Nat} {cont : List Nat}
    (hread : w.snapRead c = some (l, cont)) (hpc : w.pc t = .sawRecorder c id true) :
    w.content c = id :: (((w.log.filter (fun p => p.1 = c ∧ p.2 > l)).map (·.2)) ++ cont) :=
  (reach_inv hi hr).n.sawOn t c id l cont hread hpc

/-! ### N4 — the consistent cut -/

/-- After `sCopy`, for every chunk that was read: the restored block is
    1. the primary's block after a prefix of the commits applied to it *as of the copy* (nothing that
       was not committed when `Snapshot` returned),
    2. hence the block after a prefix of the commits in the final apply order (nothing lost from the
       middle, nothing out of order), and
    3. it contains every commit whose latch section had finished when the snapshot call began. -/
theorem consistent_cut (hi : Init w0) (hr : Reach w0 w) (hc : w.spc = .copied) (c : Nat) (l : Nat)
    (cont : List Nat) (hread : w.snapRead c = some (l, cont)) :
    (∃ k, restored w c = some ((w.contentAtCopy c).drop k)) ∧
    (∃ k, restored w c = some ((w.content c).drop k)) ∧
    (∃ m r, restored w c = some r ∧ w.doneBeforeOpen c = r.drop m) := by
  have h := reach_inv hi hr
  obtain ⟨h1, h2, h3⟩ := h.restored_cut hc hread
  rw [restored_eq hread]
  refine ⟨?_, ?_, ?_⟩
  · obtain ⟨k, hk⟩ := suffix_drop h1
    exact ⟨k, by rw [hk]⟩
  · obtain ⟨k, hk⟩ := suffix_drop (h1.trans h2)
    exact ⟨k, by rw [hk]⟩
  · obtain ⟨m, hm⟩ := suffix_drop h3
    exact ⟨m, _, rfl, hm⟩

/-- a restored commit was applied to the chunk (no phantom commits), in every reachable world -/
theorem restored_subset_content (hi : Init w0) (hr : Reach w0 w) {c : Nat} {r : List Nat}
    (hres : restored w c = some r) : ∀ x ∈ r, x ∈ w.content c := by
  have h := reach_inv hi hr
  cases hread : w.snapRead c with
  | none => simp [restored, hread] at hres
  | some p =>
    obtain ⟨l, cont⟩ := p
    rw [restored_eq hread] at hres
    injection hres with hres
    subst hres
    exact fun x hx => (h.restored_suffix hread).subset hx

/-! ### N5 — no commit twice -/

/-- the restored list is strictly decreasing: no commit is applied twice or out of order -/
theorem restored_strictly_ordered (hi : Init w0) (hr : Reach w0 w) {c : Nat} {r : List Nat}
    (hres : restored w c = some r) : r.Pairwise (· > ·) := by
  have h := reach_inv hi hr
  cases hread : w.snapRead c with
  | none => simp [restored, hread] at hres
  | some p =>
    obtain ⟨l, cont⟩ := p
    rw [restored_eq hread] at hres
    injection hres with hres
    subst hres
    exact (h.c.sorted c).sublist (h.restored_suffix hread).sublist

end

/-! ### N6 — non-vacuity: a concrete run -/

namespace Demo

/-- writers 0 and 1 each commit chunk 0 -/
def w0 : W where
  next := 0
  holder := fun _ => none
  lastId := fun _ => 0
  content := fun _ => []
  recorder := false
  log := []
  pc := fun _ => .idle
  todo := fun t => if t < 2 then [0] else []
  spc := .notStarted
  snapRead := fun _ => none
  snapLog := []
  doneBeforeOpen := fun _ => []
  contentAtCopy := fun _ => []

theorem init_w0 : Init w0 :=
  ⟨fun _ => rfl, fun _ => rfl, rfl, rfl, rfl, rfl, fun _ => rfl,
    fun _ => ⟨by simp [w0], rfl, by simp [w0], by simp [w0]⟩⟩

/-- writer 0 commits chunk 0 (id 1, not recorded); `sOpen`; `readChunk 0`; writer 1 commits chunk 0
    (id 2, recorded); `sClose`; `sCopy` -/
theorem run : ∃ w, Reach w0 w ∧ w.spc = .copied ∧ w.snapRead 0 = some (1, [1]) ∧
    w.snapLog = [(0, 2)] ∧ w.content 0 = [2, 1] ∧ w.contentAtCopy 0 = [2, 1] ∧
    w.doneBeforeOpen 0 = [1] ∧ restored w 0 = some [2, 1] := by
  have r0 : Reach w0 w0 := Reach.refl
  have r1 := Reach.step r0 (Step.begin _ 0 0 [] rfl rfl)
  have r2 := Reach.step r1 (Step.acquire _ 0 0 rfl rfl)
  have r3 := Reach.step r2 (Step.draw _ 0 0 rfl)
  have r4 := Reach.step r3 (Step.apply _ 0 0 1 rfl)
  have r5 := Reach.step r4 (Step.loadRecorder _ 0 0 1 rfl)
  have r6 := Reach.step r5 (Step.skipLog _ 0 0 1 rfl)
  have r7 := Reach.step r6 (Step.release _ 0 0 1 rfl)
  have r8 := Reach.step r7 (Step.sOpen _ [0] rfl)
  have r9 := Reach.step r8 (Step.sRead _ 0 [] rfl rfl)
  have r10 := Reach.step r9 (Step.begin _ 1 0 [] rfl rfl)
  have r11 := Reach.step r10 (Step.acquire _ 1 0 rfl rfl)
  have r12 := Reach.step r11 (Step.draw _ 1 0 rfl)
  have r13 := Reach.step r12 (Step.apply _ 1 0 2 rfl)
  have r14 := Reach.step r13 (Step.loadRecorder _ 1 0 2 rfl)
  have r15 := Reach.step r14 (Step.appendLog _ 1 0 2 rfl)
  have r16 := Reach.step r15 (Step.release _ 1 0 2 rfl)
  have r17 := Reach.step r16 (Step.sClose _ rfl)
  have r18 := Reach.step r17 (Step.sCopy _ rfl)
  exact ⟨_, r18, rfl, rfl, rfl, rfl, rfl, rfl, rfl⟩

/-- the hypotheses of `consistent_cut` are satisfiable, and its conclusion on the run above -/
example : ∃ w, Reach w0 w ∧ w.spc = .copied ∧ (∃ l cont, w.snapRead 0 = some (l, cont)) ∧
    restored w 0 = some [2, 1] := by
  obtain ⟨w, hr, hc, hread, _, _, _, _, hres⟩ := run
  exact ⟨w, hr, hc, ⟨_, _, hread⟩, hres⟩

end Demo

end ColumnVerif.Props.C08
