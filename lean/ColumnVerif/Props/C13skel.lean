import ColumnVerif.Conc.Skel
/-!
# C13 — what the current source says about the protocol parts this property rests on

Obligations over the *regenerated* token lists of `Generated/Skeleton.lean` (rewritten from /repo on
every run); `decide +kernel` evaluates the structural predicate of `Conc/Skel.lean` in the kernel.
A change to the code that moves a call out of its lock, drops a `defer`, reorders the commit closure …
makes exactly the corresponding theorem fail.
-/
namespace ColumnVerif.Props.C13skel
open ColumnVerif.Skel

theorem dict_version_matches : ColumnVerif.Generated.dictVersion = expectedDictVersion := by decide +kernel
theorem flag_appendCopyShareMutex : appendCopyShareMutex = true := by decide +kernel
theorem flag_restoreFiltersById : restoreFiltersById = true := by decide +kernel
/-- the chunk states a snapshot file holds are read under the chunk's read latch: none of them is a half-applied commit -/
theorem flag_snapReadLocked : snapReadLocked = true := by decide +kernel
/-- the recorded log of a snapshot file is complete: every chunk commit asks for the recorder itself, inside its own latch
    section, after it has applied (a commit of a chunk already written that is not recorded makes every prefix of the file
    restore to a state the collection never had) -/
theorem flag_commitClosureOrder : commitClosureOrder = true := by decide +kernel
theorem flag_snapshotProtocol : snapshotProtocol = true := by decide +kernel

end ColumnVerif.Props.C13skel
