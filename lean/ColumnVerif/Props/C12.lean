import ColumnVerif.Lemmas.Key
import ColumnVerif.Props.C11
/-!
# C12 — the primary-key table and the four key operations

"With a key column, at most one live row holds any given key and a lookup by key reaches exactly
the row whose key it is. InsertKey fails iff the key exists, UpsertKey updates the existing row or
creates exactly one, QueryKey and DeleteKey fail iff the key is absent, and after a row is deleted
or re-keyed its old key no longer resolves and can be inserted again."

The key column keeps per offset a presence bit and the key bytes (stale after a delete) and the
table `seek : key → offset`. `KeyInv` (K1, in `Lemmas/Key.lean`) says the table maps exactly the
keys of present rows to their rows. K2: every single `stepKey` keeps it under the guard `WFKeyOp`
(a `Put`'s key is new or already this row's; a `Delete` hits a present row). K3: op lists / the
main pass of a commit. K4: what happens outside the guard — the two recorded findings. K5: the
decision logic of `InsertKey` / `UpsertKey` / `QueryKey` / `DeleteKey` / `rwKey.Set` against the
committed table, for every store, transaction and callback. K6: non-vacuity.
-/
namespace ColumnVerif.Props.C12
open ColumnVerif.Codec ColumnVerif.Bits ColumnVerif.Store

/-! ## K1 — the invariant -/

theorem key_unique {c : Col} (h : KeyInv c) {o1 o2 : Nat}
    (p1 : Bits.get c.bits o1 = true) (p2 : Bits.get c.bits o2 = true)
    (d1 : o1 < c.data.size) (d2 : o2 < c.data.size)
    (e : keyAt c o1 = keyAt c o2) : o1 = o2 := by
  have b1 : o1 < c.bits.size := by
    false_or_by_contra; rw [get_of_ge _ _ (by omega)] at p1; cases p1
  have b2 : o2 < c.bits.size := by
    false_or_by_contra; rw [get_of_ge _ _ (by omega)] at p2; cases p2
  have h1 := (h (keyAt c o1) o1).2 ⟨p1, rfl, b1, d1⟩
  have h2 := (h (keyAt c o1) o2).2 ⟨p2, e.symm, b2, d2⟩
  rw [h1] at h2
  exact Option.some.inj h2

/-- the same with the size relation every key column has (`bits` and `data` are grown together) -/
theorem key_unique_of_sizes {c : Col} (h : KeyInv c) (hsz : c.bits.size ≤ c.data.size) {o1 o2 : Nat}
    (p1 : Bits.get c.bits o1 = true) (p2 : Bits.get c.bits o2 = true)
    (e : keyAt c o1 = keyAt c o2) : o1 = o2 := by
  have b1 : o1 < c.bits.size := by
    false_or_by_contra; rw [get_of_ge _ _ (by omega)] at p1; cases p1
  have b2 : o2 < c.bits.size := by
    false_or_by_contra; rw [get_of_ge _ _ (by omega)] at p2; cases p2
  exact key_unique h p1 p2 (by omega) (by omega) e

/-- what a reader of the key column sees (`Col.read`): present and in an allocated chunk -/
theorem read_key_iff (c : Col) (hk : c.kind = .key) (hsz : c.data.size = 16384 * c.nchunks) (o : Nat) (k : Bytes) :
    c.read o = some k ↔ (Bits.get c.bits o = true ∧ keyAt c o = k ∧ o < c.data.size) := by
  unfold Col.read keyAt
  simp only [hk, getD_eq]
  have : o / 16384 < c.nchunks ↔ o < c.data.size := by rw [hsz]; omega
  constructor
  · intro h
    split at h
    · rename_i hc
      exact ⟨hc.2, Option.some.inj h, this.1 hc.1⟩
    · cases h
  · intro h
    rw [if_pos ⟨this.2 h.2.2, h.1⟩, h.2.1]

/-- lookup by key reaches exactly the row whose key it is -/
theorem lookup_reaches (c : Col) (hinv : KeyInv c) (hk : c.kind = .key) (hsz : c.data.size = 16384 * c.nchunks)
    (k : Bytes) (o : Nat) : c.seek.get? k = some o ↔ c.read o = some k := by
  rw [read_key_iff c hk hsz, hinv k o]
  constructor
  · intro h; exact ⟨h.1, h.2.1, h.2.2.2⟩
  · intro h
    refine ⟨h.1, h.2.1, ?_, h.2.2⟩
    false_or_by_contra
    have := h.1
    rw [get_of_ge _ _ (by omega)] at this; cases this

/-- at most one live row holds any given key -/
theorem key_unique_read (c : Col) (hinv : KeyInv c) (hk : c.kind = .key) (hsz : c.data.size = 16384 * c.nchunks)
    (k : Bytes) (o1 o2 : Nat) (h1 : c.read o1 = some k) (h2 : c.read o2 = some k) : o1 = o2 := by
  have e1 := (lookup_reaches c hinv hk hsz k o1).2 h1
  have e2 := (lookup_reaches c hinv hk hsz k o2).2 h2
  rw [e1] at e2
  exact Option.some.inj e2

/-! ## K2 — one op -/

theorem stepKey_put_inv (acc : ApplyAcc) (o : Op) (h : o.typ = opPut) (hinv : KeyInv acc.1)
    (hb : o.idx < acc.1.bits.size) (hd : o.idx < acc.1.data.size)
    (hk : acc.1.seek.get? (valRaw o.val) = none ∨ acc.1.seek.get? (valRaw o.val) = some o.idx) :
    KeyInv (stepKey acc o).1 := by
  intro k j
  have hs := stepKey_shape acc o
  rw [stepKey_put_seek _ _ h, stepKey_put_bits _ _ h hb, hs.bsize, hs.dsize]
  show _ ↔ (_ ∧ keyAt (stepKey acc o).1 j = k ∧ _)
  rw [stepKey_put_data _ _ h hd]
  by_cases e : valRaw o.val = k
  · rw [if_pos e]
    by_cases ej : j = o.idx
    · subst ej; simp [e, hb, hd]
    · rw [if_neg ej, if_neg ej]
      have := hinv k j
      subst e
      constructor
      · intro hh; exact absurd (Option.some.inj hh).symm ej
      · intro hh
        have h2 := this.2 hh
        rcases hk with hk | hk <;> rw [hk] at h2
        · cases h2
        · exact absurd (Option.some.inj h2).symm ej
  · rw [if_neg e]
    by_cases ej : j = o.idx
    · subst ej
      rw [if_pos rfl, if_pos rfl]
      constructor
      · intro hh
        split at hh
        · cases hh
        · rename_i hc
          have h2 := (hinv k o.idx).1 hh
          exact absurd ⟨h2.1, fun e2 => e (e2.symm.trans h2.2.1),
            by rw [show keyAt acc.1 o.idx = k from h2.2.1]; exact hh, h2.2.1⟩ hc
      · intro hh; exact absurd hh.2.1 e
    · rw [if_neg ej, if_neg ej]
      split
      · rename_i hc
        constructor
        · intro hh; cases hh
        · intro hh
          have h2 := (hinv k j).2 hh
          rw [← hc.2.2.2, hc.2.2.1] at h2
          exact absurd (Option.some.inj h2).symm ej
      · exact hinv k j

/-- after the `Put` the new key resolves to the row -/
theorem stepKey_put_resolves (acc : ApplyAcc) (o : Op) (h : o.typ = opPut) :
    (stepKey acc o).1.seek.get? (valRaw o.val) = some o.idx := by
  rw [stepKey_put_seek _ _ h, if_pos rfl]

/-- re-keying: the row's old key no longer resolves (and may be inserted again: it meets the
    precondition of `stepKey_put_inv` for any row) -/
theorem stepKey_put_releases_old (acc : ApplyAcc) (o : Op) (h : o.typ = opPut) (hinv : KeyInv acc.1)
    (hp : Bits.get acc.1.bits o.idx = true) (hd : o.idx < acc.1.data.size)
    (hne : keyAt acc.1 o.idx ≠ valRaw o.val) :
    (stepKey acc o).1.seek.get? (keyAt acc.1 o.idx) = none := by
  have hb : o.idx < acc.1.bits.size := by
    false_or_by_contra; rw [get_of_ge _ _ (by omega)] at hp; cases hp
  have hs : acc.1.seek.get? (keyAt acc.1 o.idx) = some o.idx := (hinv _ _).2 ⟨hp, rfl, hb, hd⟩
  rw [stepKey_put_seek _ _ h, if_neg (fun e => hne e.symm), if_pos ⟨hp, hne, hs, rfl⟩]

theorem stepKey_delete_inv (acc : ApplyAcc) (o : Op) (h : o.typ = opDelete) (hinv : KeyInv acc.1)
    (hp : Bits.get acc.1.bits o.idx = true) (hd : o.idx < acc.1.data.size) :
    KeyInv (stepKey acc o).1 ∧ (stepKey acc o).1.seek.get? (keyAt acc.1 o.idx) = none := by
  have hb : o.idx < acc.1.bits.size := by
    false_or_by_contra; rw [get_of_ge _ _ (by omega)] at hp; cases hp
  have hsk : acc.1.seek.get? (keyAt acc.1 o.idx) = some o.idx := (hinv _ _).2 ⟨hp, rfl, hb, hd⟩
  refine ⟨?_, by rw [stepKey_delete_seek _ _ h, if_pos rfl]⟩
  intro k j
  have hs := stepKey_shape acc o
  rw [stepKey_delete_seek _ _ h, stepKey_delete_bits _ _ h hb, hs.bsize, hs.dsize, stepKey_delete_data _ _ h]
  by_cases ej : j = o.idx
  · subst ej
    rw [if_pos rfl]
    constructor
    · intro hh
      split at hh
      · cases hh
      · rename_i hc
        exact absurd ((hinv k o.idx).1 hh).2.1 hc
    · intro hh; cases hh.1
  · rw [if_neg ej]
    split
    · rename_i hc
      constructor
      · intro hh; cases hh
      · intro hh
        have h2 := (hinv k j).2 hh
        rw [← hc, hsk] at h2
        exact absurd (Option.some.inj h2).symm ej
    · exact hinv k j

theorem stepKey_other_inv (acc : ApplyAcc) (o : Op) (h1 : o.typ ≠ opPut) (h2 : o.typ ≠ opDelete)
    (hinv : KeyInv acc.1) : KeyInv (stepKey acc o).1 := by
  rw [stepKey_other _ _ h1 h2]; exact hinv

/-- after a delete the old key can be inserted again, at any row -/
theorem reinsert_after_delete (acc : ApplyAcc) (o : Op) (h : o.typ = opDelete) (hinv : KeyInv acc.1)
    (hp : Bits.get acc.1.bits o.idx = true) (hd : o.idx < acc.1.data.size)
    (j : Nat) (hj : j < acc.1.bits.size ∧ j < acc.1.data.size) :
    WFKeyOp (stepKey acc o).1 ⟨opPut, j, .str (keyAt acc.1 o.idx)⟩ := by
  have hs := stepKey_shape acc o
  unfold WFKeyOp
  rw [if_pos rfl]
  exact ⟨by rw [hs.bsize]; exact hj.1, by rw [hs.dsize]; exact hj.2,
    Or.inl (stepKey_delete_inv acc o h hinv hp hd).2⟩

/-- after re-keying a row the old key can be inserted again, at any row -/
theorem reinsert_after_rekey (acc : ApplyAcc) (o : Op) (h : o.typ = opPut) (hinv : KeyInv acc.1)
    (hp : Bits.get acc.1.bits o.idx = true) (hd : o.idx < acc.1.data.size)
    (hne : keyAt acc.1 o.idx ≠ valRaw o.val)
    (j : Nat) (hj : j < acc.1.bits.size ∧ j < acc.1.data.size) :
    WFKeyOp (stepKey acc o).1 ⟨opPut, j, .str (keyAt acc.1 o.idx)⟩ := by
  have hs := stepKey_shape acc o
  unfold WFKeyOp
  rw [if_pos rfl]
  exact ⟨by rw [hs.bsize]; exact hj.1, by rw [hs.dsize]; exact hj.2,
    Or.inl (stepKey_put_releases_old acc o h hinv hp hd hne)⟩

/-! ## K3 — op lists -/

theorem stepKey_wf_inv (acc : ApplyAcc) (o : Op) (hinv : KeyInv acc.1) (hw : WFKeyOp acc.1 o) :
    KeyInv (stepKey acc o).1 := by
  unfold WFKeyOp at hw
  by_cases h1 : o.typ = opPut
  · rw [if_pos h1] at hw
    exact stepKey_put_inv acc o h1 hinv hw.1 hw.2.1 hw.2.2
  · rw [if_neg h1] at hw
    by_cases h2 : o.typ = opDelete
    · rw [if_pos h2] at hw
      exact (stepKey_delete_inv acc o h2 hinv hw.1 hw.2).1
    · exact stepKey_other_inv acc o h1 h2 hinv

theorem foldl_stepKey_inv_acc (ops : List Op) (acc : ApplyAcc) (hinv : KeyInv acc.1) (hw : WFKeyOps acc.1 ops) :
    KeyInv (ops.foldl stepKey acc).1 := by
  induction ops generalizing acc with
  | nil => exact hinv
  | cons o os ih =>
    simp only [List.foldl_cons]
    obtain ⟨h1, h2⟩ := hw
    rw [← stepKey_fst acc o] at h2
    exact ih _ (stepKey_wf_inv acc o hinv h1) h2

theorem foldl_stepKey_inv (c : Col) (ops : List Op) (hinv : KeyInv c) (hw : WFKeyOps c ops) :
    KeyInv (ops.foldl stepKey (c, [], [])).1 :=
  foldl_stepKey_inv_acc ops (c, [], []) hinv hw

/-- the same for the main pass of a commit over one section of the key column -/
theorem applyData_key_inv (hash : Bytes → Nat) (c : Col) (chunk : Nat) (ops : List Op)
    (hk : c.kind = .key) (hc : chunk < c.nchunks) (hinv : KeyInv c) (hw : WFKeyOps c ops) :
    KeyInv (applyData hash c chunk ops).col := by
  rw [applyData_key hash c chunk ops hk hc]
  exact foldl_stepKey_inv c ops hinv hw

/-! ## K4 — what the guard excludes (recorded findings) -/

/-- the key column of a fresh collection: one chunk, nothing present, empty table -/
def kc0 : Col :=
  { name := "id", kind := .key, nchunks := 1, bits := Array.replicate 16384 false, data := Array.replicate 16384 [] }

example : kc0 = Col.grow { name := "id", kind := .key } 0 := by
  simp [kc0, Col.grow]

theorem kc0_inv : KeyInv kc0 := keyInv_of_empty kc0 rfl (get_replicate_false _)

theorem dup_put_breaks (c : Col) (i j : Nat) (v : Bytes) (hij : i ≠ j)
    (hi : i < c.bits.size ∧ i < c.data.size) (hj : j < c.bits.size ∧ j < c.data.size) :
    let c' := ([⟨opPut, i, .str v⟩, ⟨opPut, j, .str v⟩].foldl stepKey (c, [], [])).1
    Bits.get c'.bits i = true ∧ Bits.get c'.bits j = true ∧ keyAt c' i = v ∧ keyAt c' j = v ∧ ¬ KeyInv c' := by
  intro c'
  have hs1 := stepKey_shape (c, [], []) ⟨opPut, i, .str v⟩
  have hs2 := stepKey_shape (stepKey (c, [], []) ⟨opPut, i, .str v⟩) ⟨opPut, j, .str v⟩
  have hb1 : j < (stepKey (c, [], []) ⟨opPut, i, .str v⟩).1.bits.size := by rw [hs1.bsize]; exact hj.1
  have hd1 : j < (stepKey (c, [], []) ⟨opPut, i, .str v⟩).1.data.size := by rw [hs1.dsize]; exact hj.2
  have e1 : Bits.get c'.bits i = true := by
    show Bits.get (stepKey (stepKey (c, [], []) ⟨opPut, i, .str v⟩) ⟨opPut, j, .str v⟩).1.bits i = true
    rw [stepKey_put_bits _ _ rfl hb1, if_neg hij, stepKey_put_bits _ _ rfl hi.1, if_pos rfl]
  have e2 : Bits.get c'.bits j = true := by
    show Bits.get (stepKey (stepKey (c, [], []) ⟨opPut, i, .str v⟩) ⟨opPut, j, .str v⟩).1.bits j = true
    rw [stepKey_put_bits _ _ rfl hb1, if_pos rfl]
  have e3 : keyAt c' i = v := by
    show keyAt (stepKey (stepKey (c, [], []) ⟨opPut, i, .str v⟩) ⟨opPut, j, .str v⟩).1 i = v
    rw [stepKey_put_data _ _ rfl hd1, if_neg hij, stepKey_put_data _ _ rfl hi.2, if_pos rfl]; rfl
  have e4 : keyAt c' j = v := by
    show keyAt (stepKey (stepKey (c, [], []) ⟨opPut, i, .str v⟩) ⟨opPut, j, .str v⟩).1 j = v
    rw [stepKey_put_data _ _ rfl hd1, if_pos rfl]; rfl
  refine ⟨e1, e2, e3, e4, fun hinv => hij ?_⟩
  have hd : c'.data.size = c.data.size := (SameShape.trans hs1 hs2).dsize
  exact key_unique hinv e1 e2 (by rw [hd]; exact hi.2) (by rw [hd]; exact hj.2) (e3.trans e4.symm)

/-- D14, concrete: starting from the empty key column (which satisfies the invariant), the op list
    `[Put 0 "\x07", Put 1 "\x07"]` leaves rows 0 and 1 both present with key `[7]` -/
theorem dup_put_counterexample :
    let c' := ([⟨opPut, 0, .str [7]⟩, ⟨opPut, 1, .str [7]⟩].foldl stepKey (kc0, [], [])).1
    KeyInv kc0 ∧ Bits.get c'.bits 0 = true ∧ Bits.get c'.bits 1 = true ∧ keyAt c' 0 = [7] ∧ keyAt c' 1 = [7] ∧
      c'.seek.get? [7] = some 1 ∧ ¬ KeyInv c' := by
  intro c'
  have h := dup_put_breaks kc0 0 1 [7] (by decide) (by simp [kc0]) (by simp [kc0])
  refine ⟨kc0_inv, h.1, h.2.1, h.2.2.1, h.2.2.2.1, ?_, h.2.2.2.2⟩
  exact stepKey_put_resolves (stepKey (kc0, [], []) ⟨opPut, 0, .str [7]⟩) ⟨opPut, 1, .str [7]⟩ rfl

/-- … and the guard of K3 is what excludes it: the second `Put` does not meet it -/
theorem dup_put_not_wf : ¬ WFKeyOps kc0 [⟨opPut, 0, .str [7]⟩, ⟨opPut, 1, .str [7]⟩] := by
  intro h
  have h2 := h.2.1
  unfold WFKeyOp at h2
  rw [if_pos rfl] at h2
  have h3 := h2.2.2
  rw [show valRaw (Op.mk opPut 1 (.str [7])).val = valRaw (Op.mk opPut 0 (.str [7])).val from rfl,
    stepKey_put_resolves _ _ rfl] at h3
  rcases h3 with h3 | h3
  · cases h3
  · exact absurd (Option.some.inj h3) (by decide)

/-- a `Delete` addressed to a row that is not present erases the key its stale slot holds, even
    when that key now belongs to another live row -/
theorem stale_delete_breaks (c : Col) (i j : Nat)
    (hi : Bits.get c.bits i = false) (hj : Bits.get c.bits j = true) (hdj : j < c.data.size)
    (hk : keyAt c i = keyAt c j) :
    let c' := (stepKey (c, [], []) ⟨opDelete, i, .fixed 0 []⟩).1
    Bits.get c'.bits j = true ∧ keyAt c' j = keyAt c j ∧ c'.seek.get? (keyAt c j) = none ∧ ¬ KeyInv c' := by
  intro c'
  have hij : i ≠ j := by intro e; subst e; rw [hi] at hj; cases hj
  have hs := stepKey_shape (c, [], []) ⟨opDelete, i, .fixed 0 []⟩
  have e1 : Bits.get c'.bits j = true := by
    show Bits.get (stepKey (c, [], []) ⟨opDelete, i, .fixed 0 []⟩).1.bits j = true
    rw [stepKey_delete_bits_ne _ _ rfl j hij]; exact hj
  have e2 : keyAt c' j = keyAt c j := by
    show keyAt (stepKey (c, [], []) ⟨opDelete, i, .fixed 0 []⟩).1 j = _
    unfold keyAt
    rw [stepKey_delete_data _ _ rfl]
  have e3 : c'.seek.get? (keyAt c j) = none := by
    show (stepKey (c, [], []) ⟨opDelete, i, .fixed 0 []⟩).1.seek.get? _ = none
    rw [stepKey_delete_seek _ _ rfl, if_pos hk]
  refine ⟨e1, e2, e3, fun hinv => ?_⟩
  have hb : j < c'.bits.size := by
    false_or_by_contra; rw [get_of_ge _ _ (by omega)] at e1; cases e1
  have := (hinv (keyAt c j) j).2 ⟨e1, e2, hb, by rw [hs.dsize]; exact hdj⟩
  rw [e3] at this
  cases this


/-- a reachable state with a stale slot: row 0 was inserted with key `[7]` and deleted, then row 1
    was inserted with the same key -/
def staleOps : List Op := [⟨opPut, 0, .str [7]⟩, ⟨opDelete, 0, .fixed 0 []⟩, ⟨opPut, 1, .str [7]⟩]

def kc1 : Col := (staleOps.foldl stepKey (kc0, [], [])).1

private def a1 : ApplyAcc := stepKey (kc0, [], []) ⟨opPut, 0, .str [7]⟩
private def a2 : ApplyAcc := stepKey a1 ⟨opDelete, 0, .fixed 0 []⟩
private def a3 : ApplyAcc := stepKey a2 ⟨opPut, 1, .str [7]⟩

private theorem kc1_eq : kc1 = a3.1 := rfl

private theorem a1_shape : SameShape kc0 a1.1 := stepKey_shape (kc0, [], []) _
private theorem a2_shape : SameShape kc0 a2.1 := SameShape.trans a1_shape (stepKey_shape a1 _)
private theorem a3_shape : SameShape kc0 a3.1 := SameShape.trans a2_shape (stepKey_shape a2 _)

private theorem a1_facts : Bits.get a1.1.bits 0 = true ∧ Bits.get a1.1.bits 1 = false ∧ keyAt a1.1 0 = [7] := by
  unfold a1
  refine ⟨?_, ?_, ?_⟩
  · rw [stepKey_put_bits _ _ rfl (by simp [kc0])]; rfl
  · rw [stepKey_put_bits _ _ rfl (by simp [kc0]), if_neg (by decide)]; exact get_replicate_false _ _
  · rw [stepKey_put_data _ _ rfl (by simp [kc0])]; rfl

private theorem a2_facts : Bits.get a2.1.bits 0 = false ∧ Bits.get a2.1.bits 1 = false ∧ keyAt a2.1 0 = [7] ∧
    a2.1.seek.get? [7] = none := by
  have hb : 0 < a1.1.bits.size := by rw [a1_shape.bsize]; simp [kc0]
  unfold a2
  refine ⟨?_, ?_, ?_, ?_⟩
  · rw [stepKey_delete_bits _ _ rfl hb]; rfl
  · rw [stepKey_delete_bits_ne _ _ rfl 1 (by decide)]; exact a1_facts.2.1
  · unfold keyAt; rw [stepKey_delete_data _ _ rfl]; exact a1_facts.2.2
  · rw [stepKey_delete_seek _ _ rfl, if_pos a1_facts.2.2]

private theorem a3_facts : Bits.get a3.1.bits 0 = false ∧ Bits.get a3.1.bits 1 = true ∧ keyAt a3.1 0 = [7] ∧
    keyAt a3.1 1 = [7] ∧ a3.1.seek.get? [7] = some 1 := by
  have hb : 1 < a2.1.bits.size := by rw [a2_shape.bsize]; simp [kc0]
  have hd : 1 < a2.1.data.size := by rw [a2_shape.dsize]; simp [kc0]
  unfold a3
  refine ⟨?_, ?_, ?_, ?_, ?_⟩
  · rw [stepKey_put_bits _ _ rfl hb, if_neg (by decide)]; exact a2_facts.1
  · rw [stepKey_put_bits _ _ rfl hb]; rfl
  · rw [stepKey_put_data _ _ rfl hd, if_neg (by decide)]; exact a2_facts.2.2.1
  · rw [stepKey_put_data _ _ rfl hd]; rfl
  · exact stepKey_put_resolves _ _ rfl

theorem staleOps_wf : WFKeyOps kc0 staleOps := by
  show WFKeyOps ((kc0, [], []) : ApplyAcc).1 _
  unfold staleOps
  rw [WFKeyOps_cons, WFKeyOps_cons, WFKeyOps_cons]
  refine ⟨?_, ?_, ?_, trivial⟩
  · unfold WFKeyOp; rw [if_pos rfl]
    exact ⟨by simp [kc0], by simp [kc0], Or.inl (by simp [kc0])⟩
  · unfold WFKeyOp; rw [if_neg (by decide), if_pos rfl]
    exact ⟨a1_facts.1, by show 0 < a1.1.data.size; rw [a1_shape.dsize]; simp [kc0]⟩
  · unfold WFKeyOp; rw [if_pos rfl]
    exact ⟨by show 1 < a2.1.bits.size; rw [a2_shape.bsize]; simp [kc0],
      by show 1 < a2.1.data.size; rw [a2_shape.dsize]; simp [kc0], Or.inl a2_facts.2.2.2⟩

theorem kc1_inv : KeyInv kc1 := foldl_stepKey_inv kc0 staleOps kc0_inv staleOps_wf

theorem stale_delete_counterexample :
    let c' := (stepKey (kc1, [], []) ⟨opDelete, 0, .fixed 0 []⟩).1
    KeyInv kc1 ∧ Bits.get kc1.bits 0 = false ∧ kc1.seek.get? [7] = some 1 ∧
      Bits.get c'.bits 1 = true ∧ keyAt c' 1 = [7] ∧ c'.seek.get? [7] = none ∧ ¬ KeyInv c' := by
  intro c'
  have f := a3_facts
  rw [← kc1_eq] at f
  have h := stale_delete_breaks kc1 0 1 f.1 f.2.1 (by rw [kc1_eq, a3_shape.dsize]; simp [kc0])
    (f.2.2.1.trans f.2.2.2.1.symm)
  rw [f.2.2.2.1] at h
  exact ⟨kc1_inv, f.1, f.2.2.2.2, h.1, h.2.1, h.2.2.1, h.2.2.2⟩


/-! ## K5 — decision logic of the key operations against the committed table -/


theorem offsetOf_of_noKey (s : Store) (key : Bytes) (h : s.pk = none) : s.offsetOf key = none := by
  unfold Store.offsetOf; rw [h]; rfl

theorem offsetOf_eq (s : Store) (key : Bytes) (pk : String) (kc : Col) (h : s.pk = some pk)
    (hc : s.findCol pk = some kc) : s.offsetOf key = kc.seek.get? key := by
  unfold Store.offsetOf; rw [h]; simp [hc]

/-- under the invariant a key resolves to `i` exactly when row `i` is present and holds it -/
theorem offsetOf_iff_present (s : Store) (key : Bytes) (pk : String) (kc : Col) (h : s.pk = some pk)
    (hc : s.findCol pk = some kc) (hinv : KeyInv kc) (i : Nat) :
    s.offsetOf key = some i ↔
      (Bits.get kc.bits i = true ∧ keyAt kc i = key ∧ i < kc.bits.size ∧ i < kc.data.size) := by
  rw [offsetOf_eq s key pk kc h hc]; exact hinv key i

/-- every form of `keyOp` answers `.noKey` iff there is no key column -/
theorem keyOp_noKey_iff (s : Store) (t : Txn) (cmd : String) (key : Bytes) (body : Store → Txn → Txn) (fail : Bool) :
    (t.keyOp s cmd key body fail).2.2 = .noKey ↔ s.pk = none := by
  unfold Txn.keyOp
  cases hpk : s.pk with
  | none => simp
  | some pk =>
    simp only
    cases s.offsetOf key with
    | some i => simp only; split <;> simp
    | none => simp only; split <;> simp

theorem deleteKey_noKey_iff (s : Store) (t : Txn) (key : Bytes) :
    (t.deleteKey s key).2 = .noKey ↔ s.pk = none := by
  unfold Txn.deleteKey
  cases hpk : s.pk with
  | none => simp
  | some pk =>
    simp only
    cases s.offsetOf key <;> simp

theorem insertKey_fails_iff_exists (s : Store) (t : Txn) (key : Bytes) (body : Store → Txn → Txn) (fail : Bool)
    (i : Nat) :
    (t.keyOp s "inskey" key body fail).2.2 = .existsAt i ↔ s.offsetOf key = some i := by
  unfold Txn.keyOp
  cases hpk : s.pk with
  | none => simp [offsetOf_of_noKey s key hpk]
  | some pk =>
    simp only
    cases s.offsetOf key with
    | some j => simp
    | none => simp

/-- … and then nothing happens: store and transaction are returned as they were -/
theorem insertKey_refused_unchanged (s : Store) (t : Txn) (key : Bytes) (body : Store → Txn → Txn) (fail : Bool)
    (i : Nat) (h : s.offsetOf key = some i) :
    t.keyOp s "inskey" key body fail = (s, t, .existsAt i) := by
  unfold Txn.keyOp
  cases hpk : s.pk with
  | none => rw [offsetOf_of_noKey s key hpk] at h; cases h
  | some pk => simp only [h]; rfl

theorem reserve_eq (s : Store) (t : Txn) :
    t.reserve s = (s.next.1, { (t.putOp rowColumn ⟨opInsert, s.next.2, .fixed 0 []⟩) with cursor := s.next.2 }, s.next.2) := rfl

/-- the creating path shared by `InsertKey` and `UpsertKey`: exactly one offset is reserved
    (`Store.next`, released again when the callback failed), the callback runs at it, and the key
    `Put` for that offset is buffered after the callback -/
theorem keyOp_creates (s : Store) (t : Txn) (cmd : String) (key : Bytes) (body : Store → Txn → Txn) (fail : Bool)
    (pk : String) (hpk : s.pk = some pk) (h : s.offsetOf key = none) (hc : cmd ≠ "qkey") :
    t.keyOp s cmd key body fail =
      (if fail then s.next.1.free s.next.2 else s.next.1,
       (body s.next.1 (t.reserve s).2.1).putOp pk ⟨opPut, s.next.2, .str key⟩,
       .inserted s.next.2) := by
  unfold Txn.keyOp
  simp only [hpk, h]
  rw [if_neg hc]
  rfl

theorem upsertKey_updates_existing (s : Store) (t : Txn) (key : Bytes) (body : Store → Txn → Txn) (fail : Bool)
    (i : Nat) (h : s.offsetOf key = some i) :
    t.keyOp s "upskey" key body fail = (s, body s { t with cursor := i }, .existsAt i) := by
  unfold Txn.keyOp
  cases hpk : s.pk with
  | none => rw [offsetOf_of_noKey s key hpk] at h; cases h
  | some pk => simp only [h]; rfl

theorem upsertKey_creates_one (s : Store) (t : Txn) (key : Bytes) (body : Store → Txn → Txn) (fail : Bool)
    (pk : String) (hpk : s.pk = some pk) (h : s.offsetOf key = none) :
    let r := t.keyOp s "upskey" key body fail
    r.2.2 = .inserted s.next.2 ∧
    r.1 = (if fail then s.next.1.free s.next.2 else s.next.1) ∧
    (∃ b ∈ r.2.1.updates, b.column = pk) ∧
    (∀ b ∈ r.2.1.updates, b.column = pk → b.allOps.getLast? = some ⟨opPut, s.next.2, .str key⟩) := by
  intro r
  have hr : r = _ := keyOp_creates s t "upskey" key body fail pk hpk h (by decide)
  rw [hr]
  exact ⟨rfl, rfl, putOp_last _ _ _⟩

/-- `UpsertKey`, both halves: an existing key ⇒ the callback runs at its row and nothing is
    reserved (the store is returned as it was); an absent key ⇒ exactly one offset is reserved
    (`Store.next`; released again iff the callback failed) and the key `Put` for that offset is the
    last op of the key column's buffer -/
theorem upsertKey_updates_or_creates_one (s : Store) (t : Txn) (key : Bytes) (body : Store → Txn → Txn) (fail : Bool)
    (pk : String) (hpk : s.pk = some pk) :
    (∀ i, s.offsetOf key = some i →
      t.keyOp s "upskey" key body fail = (s, body s { t with cursor := i }, .existsAt i)) ∧
    (s.offsetOf key = none →
      let r := t.keyOp s "upskey" key body fail
      r.2.2 = .inserted s.next.2 ∧
      r.1 = (if fail then s.next.1.free s.next.2 else s.next.1) ∧
      (∃ b ∈ r.2.1.updates, b.column = pk) ∧
      (∀ b ∈ r.2.1.updates, b.column = pk → b.allOps.getLast? = some ⟨opPut, s.next.2, .str key⟩)) :=
  ⟨fun i h => upsertKey_updates_existing s t key body fail i h,
   fun h => upsertKey_creates_one s t key body fail pk hpk h⟩

theorem insertKey_creates_one (s : Store) (t : Txn) (key : Bytes) (body : Store → Txn → Txn) (fail : Bool)
    (pk : String) (hpk : s.pk = some pk) (h : s.offsetOf key = none) :
    let r := t.keyOp s "inskey" key body fail
    r.2.2 = .inserted s.next.2 ∧
    r.1 = (if fail then s.next.1.free s.next.2 else s.next.1) ∧
    (∃ b ∈ r.2.1.updates, b.column = pk) ∧
    (∀ b ∈ r.2.1.updates, b.column = pk → b.allOps.getLast? = some ⟨opPut, s.next.2, .str key⟩) := by
  intro r
  have hr : r = _ := keyOp_creates s t "inskey" key body fail pk hpk h (by decide)
  rw [hr]
  exact ⟨rfl, rfl, putOp_last _ _ _⟩

theorem queryKey_fails_iff_absent (s : Store) (t : Txn) (key : Bytes) (body : Store → Txn → Txn) (fail : Bool)
    (pk : String) (hpk : s.pk = some pk) :
    (t.keyOp s "qkey" key body fail).2.2 = .notFound ↔ s.offsetOf key = none := by
  unfold Txn.keyOp
  simp only [hpk]
  cases s.offsetOf key with
  | some j => simp
  | none => simp

theorem queryKey_absent_unchanged (s : Store) (t : Txn) (key : Bytes) (body : Store → Txn → Txn) (fail : Bool)
    (pk : String) (hpk : s.pk = some pk) (h : s.offsetOf key = none) :
    t.keyOp s "qkey" key body fail = (s, t, .notFound) := by
  unfold Txn.keyOp
  simp only [hpk, h]
  rfl

theorem queryKey_found (s : Store) (t : Txn) (key : Bytes) (body : Store → Txn → Txn) (fail : Bool)
    (i : Nat) (h : s.offsetOf key = some i) :
    t.keyOp s "qkey" key body fail = (s, body s { t with cursor := i }, .existsAt i) := by
  unfold Txn.keyOp
  cases hpk : s.pk with
  | none => rw [offsetOf_of_noKey s key hpk] at h; cases h
  | some pk => simp only [h]; rfl

theorem deleteKey_fails_iff_absent (s : Store) (t : Txn) (key : Bytes) (pk : String) (hpk : s.pk = some pk) :
    (t.deleteKey s key).2 = .notFound ↔ s.offsetOf key = none := by
  unfold Txn.deleteKey
  simp only [hpk]
  cases s.offsetOf key with
  | some j => simp
  | none => simp

theorem deleteKey_absent_unchanged (s : Store) (t : Txn) (key : Bytes) (pk : String) (hpk : s.pk = some pk)
    (h : s.offsetOf key = none) : t.deleteKey s key = (t, .notFound) := by
  unfold Txn.deleteKey
  simp only [hpk, h]

/-- a resolving key: the delete marker of exactly that row is buffered -/
theorem deleteKey_found (s : Store) (t : Txn) (key : Bytes) (i : Nat) (h : s.offsetOf key = some i) :
    t.deleteKey s key = (t.putOp rowColumn ⟨opDelete, i, .fixed 0 []⟩, .existsAt i) := by
  unfold Txn.deleteKey
  cases hpk : s.pk with
  | none => rw [offsetOf_of_noKey s key hpk] at h; cases h
  | some pk => simp only [h]

/-- `rwKey.Set` (re-keying the cursor row) is refused iff the new key already resolves -/
theorem setKey_refused_iff_exists (s : Store) (t : Txn) (key : Bytes) (pk : String) (hpk : s.pk = some pk) :
    (t.setKey s key).2 = false ↔ (s.offsetOf key).isSome = true := by
  unfold Txn.setKey
  simp only [hpk]
  split <;> simp_all

/-! ### the transaction-level root of D14

The decision consults only the *committed* table: reserving a row (and releasing it) does not touch
it, so a second `InsertKey` / `UpsertKey` of the same key in the same transaction (or in a
concurrent one) is accepted again and buffers a second `Put` of that key for another row — the op
list of `dup_put_counterexample`. -/

theorem offsetOf_next (s : Store) (key : Bytes) : s.next.1.offsetOf key = s.offsetOf key := rfl

theorem offsetOf_free (s : Store) (i : Nat) (key : Bytes) : (s.free i).offsetOf key = s.offsetOf key := rfl

theorem keyOp_creates_keeps_table (s : Store) (t : Txn) (cmd : String) (key : Bytes) (body : Store → Txn → Txn)
    (fail : Bool) (pk : String) (hpk : s.pk = some pk) (h : s.offsetOf key = none) (hc : cmd ≠ "qkey") (k : Bytes) :
    (t.keyOp s cmd key body fail).1.offsetOf k = s.offsetOf k ∧ (t.keyOp s cmd key body fail).1.pk = s.pk := by
  rw [keyOp_creates s t cmd key body fail pk hpk h hc]
  cases fail <;> exact ⟨rfl, rfl⟩

theorem dup_key_same_txn (s : Store) (t : Txn) (cmd1 cmd2 : String) (key : Bytes) (body1 body2 : Store → Txn → Txn)
    (fail2 : Bool) (pk : String) (hpk : s.pk = some pk) (h : s.offsetOf key = none)
    (hc1 : cmd1 ≠ "qkey") (hc2 : cmd2 ≠ "qkey") (hfill : C11.FillInv s) :
    let r1 := t.keyOp s cmd1 key body1 false
    let r2 := r1.2.1.keyOp r1.1 cmd2 key body2 fail2
    ∃ i j, r1.2.2 = .inserted i ∧ r2.2.2 = .inserted j ∧ i ≠ j := by
  intro r1 r2
  have hk := keyOp_creates_keeps_table s t cmd1 key body1 false pk hpk h hc1 key
  have e1 : r1 = _ := keyOp_creates s t cmd1 key body1 false pk hpk h hc1
  have e2 : r2 = _ := keyOp_creates r1.1 r1.2.1 cmd2 key body2 fail2 pk (hk.2.trans hpk) (hk.1.trans h) hc2
  refine ⟨s.next.2, r1.1.next.2, by rw [e1], by rw [e2], ?_⟩
  have hs : r1.1 = s.next.1 := by rw [e1]; rfl
  rw [hs]
  intro e
  have h1 := C11.next_is_free s.next.1 (C11.next_inv s hfill)
  have h2 := C11.next_occupies s
  rw [← e, h2] at h1
  cases h1

/-! ## K6 — non-vacuity -/


def twoOps : List Op := [⟨opPut, 0, .str [1]⟩, ⟨opPut, 1, .str [2]⟩]
/-- a key column with two live keys: `[1] ↦ 0`, `[2] ↦ 1` -/
def kc2 : Col := (twoOps.foldl stepKey (kc0, [], [])).1

private def b1 : ApplyAcc := stepKey (kc0, [], []) ⟨opPut, 0, .str [1]⟩
private theorem b1_shape : SameShape kc0 b1.1 := stepKey_shape (kc0, [], []) _

private theorem b1_facts : Bits.get b1.1.bits 1 = false ∧ b1.1.seek.get? [1] = some 0 ∧ b1.1.seek.get? [2] = none := by
  unfold b1
  refine ⟨?_, stepKey_put_resolves _ _ rfl, ?_⟩
  · rw [stepKey_put_bits _ _ rfl (by simp [kc0]), if_neg (by decide)]; exact get_replicate_false _ _
  · rw [stepKey_put_seek _ _ rfl, if_neg (by decide), if_neg]
    · simp [kc0]
    · intro hh
      have := hh.1
      rw [show Bits.get ((kc0, [], []) : ApplyAcc).1.bits _ = false from get_replicate_false _ _] at this
      cases this

theorem twoOps_wf : WFKeyOps kc0 twoOps := by
  show WFKeyOps ((kc0, [], []) : ApplyAcc).1 _
  unfold twoOps
  rw [WFKeyOps_cons, WFKeyOps_cons]
  refine ⟨?_, ?_, trivial⟩
  · unfold WFKeyOp; rw [if_pos rfl]
    exact ⟨by simp [kc0], by simp [kc0], Or.inl (by simp [kc0])⟩
  · unfold WFKeyOp; rw [if_pos rfl]
    exact ⟨by show 1 < b1.1.bits.size; rw [b1_shape.bsize]; simp [kc0],
      by show 1 < b1.1.data.size; rw [b1_shape.dsize]; simp [kc0], Or.inl b1_facts.2.2⟩

theorem kc2_inv : KeyInv kc2 := foldl_stepKey_inv kc0 twoOps kc0_inv twoOps_wf

theorem kc2_two_keys : kc2.seek.get? [1] = some 0 ∧ kc2.seek.get? [2] = some 1 := by
  show (stepKey b1 ⟨opPut, 1, .str [2]⟩).1.seek.get? [1] = some 0 ∧ (stepKey b1 ⟨opPut, 1, .str [2]⟩).1.seek.get? [2] = some 1
  refine ⟨?_, stepKey_put_resolves _ _ rfl⟩
  rw [stepKey_put_seek _ _ rfl, if_neg (by decide), if_neg]
  · exact b1_facts.2.1
  · intro hh
    have := hh.1
    rw [show Bits.get b1.1.bits (Op.mk opPut 1 (.str [2])).idx = false from b1_facts.1] at this
    cases this

theorem kc2_rows : Bits.get kc2.bits 0 = true ∧ keyAt kc2 0 = [1] ∧ 0 < kc2.data.size ∧
    Bits.get kc2.bits 1 = true ∧ keyAt kc2 1 = [2] ∧ 1 < kc2.data.size := by
  have h0 := (kc2_inv [1] 0).1 kc2_two_keys.1
  have h1 := (kc2_inv [2] 1).1 kc2_two_keys.2
  exact ⟨h0.1, h0.2.1, h0.2.2.2, h1.1, h1.2.1, h1.2.2.2⟩

theorem kc2_shape : kc2.kind = .key ∧ kc2.data.size = 16384 * kc2.nchunks ∧ kc2.bits.size ≤ kc2.data.size := by
  have hs : SameShape kc0 kc2 := foldl_stepKey_shape twoOps (kc0, [], [])
  rw [hs.kind, hs.dsize, hs.nchunks, hs.bsize]
  simp [kc0]

/-! ### the hypotheses added to the statements are satisfiable -/

/-- `key_unique`: two present rows inside `data` (here with different keys) -/
example : ∃ c o1 o2, KeyInv c ∧ Bits.get c.bits o1 = true ∧ Bits.get c.bits o2 = true ∧
    o1 < c.data.size ∧ o2 < c.data.size ∧ o1 ≠ o2 :=
  ⟨kc2, 0, 1, kc2_inv, kc2_rows.1, kc2_rows.2.2.2.1, kc2_rows.2.2.1, kc2_rows.2.2.2.2.2, by decide⟩

/-- `key_unique_of_sizes`, `read_key_iff`, `lookup_reaches`, `key_unique_read`: the shape hypotheses -/
example : ∃ c, KeyInv c ∧ c.kind = .key ∧ c.data.size = 16384 * c.nchunks ∧ c.bits.size ≤ c.data.size :=
  ⟨kc2, kc2_inv, kc2_shape⟩

/-- `stepKey_put_inv`: an in-bounds `Put` of a new key, and one of the key the row already has -/
example : ∃ c i v, KeyInv c ∧ i < c.bits.size ∧ i < c.data.size ∧ c.seek.get? v = none :=
  ⟨kc0, 0, [1], kc0_inv, by simp [kc0], by simp [kc0], by simp [kc0]⟩
example : ∃ c i v, KeyInv c ∧ i < c.bits.size ∧ i < c.data.size ∧ c.seek.get? v = some i := by
  have hb : 0 < kc2.bits.size := ((kc2_inv [1] 0).1 kc2_two_keys.1).2.2.1
  exact ⟨kc2, 0, [1], kc2_inv, hb, kc2_rows.2.2.1, kc2_two_keys.1⟩

/-- `stepKey_delete_inv` / `stepKey_put_releases_old` / `reinsert_after_*`: a present row inside `data` -/
example : ∃ c i, KeyInv c ∧ Bits.get c.bits i = true ∧ i < c.data.size :=
  ⟨kc2, 0, kc2_inv, kc2_rows.1, kc2_rows.2.2.1⟩

/-- `WFKeyOps`: `twoOps_wf`, `staleOps_wf` (puts and a delete) -/
example : ∃ c ops, KeyInv c ∧ WFKeyOps c ops ∧ ops.length = 3 := ⟨kc0, staleOps, kc0_inv, staleOps_wf, rfl⟩

end ColumnVerif.Props.C12
