import ColumnVerif.Lemmas.StoreComputed
import ColumnVerif.Props.C16
import ColumnVerif.Props.C03store
/-!
# C16 at store level — a sorted index through the real `Store.commit`

`Props/C16.lean` proves, for one pass, that `applyOther` keeps the invariant of a sorted index (`sorted_apply_inv`) and
that the index fed the rewritten section of a string column agrees with the column again (`sorted_sync_apply`, guard: no
resizing merge). Here the index `ix` attached to a data column `x` is followed through `Store.commit` (plumbing:
`C03store.commit_computed`):

* `commit_sortInv` (any data kind of the target, any ops): `SortInv` — strictly sorted entries, one per offset, each
  recorded in `back` — holds after the commit.
* `commit_inSync` (string / record target, guard `NoAppend`: no buffer pass appends, i.e. no resizing merge): index and
  column agree on every offset after the commit (`InSync`), row deletes through markers included; `commits_inSync` for
  any list of transactions (guard: the merge function keeps the length of the delta, or no `Merge` is issued for `x`);
  `commits_sorted_reads`: the key the index holds for an offset is what the typed reader returns.
* non-vacuity.
-/
namespace ColumnVerif.Props.C16store
open ColumnVerif.Codec ColumnVerif.Store ColumnVerif.Bits

/-- **the invariant of a sorted index survives every commit** — any data kind of the target, any ops, resizing merges
    included (guard `ChunksOK` only so that what the index receives is known, `C03store.commit_computed`) -/
theorem commit_sortInv (s : Store) (t : Txn) (x ix tg : String) (col ic : Col)
    (hxr : x ≠ rowColumn) (hf : s.findCol x = some col) (hd : col.kind.isData = true)
    (hfi : s.findCol ix = some ic) (hik : ic.kind = .sorted tg) (hcount : col.computed.count ix = 1)
    (hcomp : ∀ v ∈ t.updates, ∀ c, s.findCol v.column = some c → x ∉ c.computed)
    (hatt : ∀ v ∈ t.updates, v.column ≠ x → v.column ≠ ix ∧ ∀ c, s.findCol v.column = some c → ix ∉ c.computed)
    (hok : ChunksOK s.hash t.updates x t.dirtyChunks (capCol s t col)) (hinv : SortInv ic) :
    ∃ ic', (s.commit t).findCol ix = some ic' ∧ ic'.kind = .sorted tg ∧ SortInv ic' ∧
      ic' = compChunks s.hash t.updates x t.dirtyChunks (capCol s t col) ic := by
  have g1 := Store.commit_computed s t x ix col ic hxr hf hd hfi (isComputed_sorted hik) hcount hcomp hatt hok
  rw [capCol_sorted s t ic tg hik] at g1
  exact ⟨_, g1, (compChunks_sig _ _ _ _ _ _).kind.trans hik, compChunks_sortInv _ _ _ _ _ _ hinv, rfl⟩

/-- **C16 at store level, one transaction**: `x` a string / record column (`StrCol`), `ix` a sorted index attached to
    it (`Attached`), well-formed buffers, `Insert` / `Delete` markers only, no buffer written to `ix` directly, and no
    buffer pass of `x` appending a put (`NoAppend`: no resizing merge — finding D12 is what happens otherwise). If the
    index satisfies its invariant and agrees with the column on every offset before `s.commit t`, it does afterwards.
    Every hypothesis on the store is re-established. -/
theorem commit_inSync (s : Store) (t : Txn) (x ix tg : String) (col ic : Col)
    (hxr : x ≠ rowColumn) (hc : StrCol s x col) (hfi : s.findCol ix = some ic) (hik : ic.kind = .sorted tg)
    (hatt : Attached s x ix) (hinv : ∀ v ∈ t.updates, (v.column = x ∨ isMarkerBuf v = true) → ChunkOK v)
    (hmk : ∀ o ∈ markerAll t.updates, isMarkerOp o) (hnb : ∀ v ∈ t.updates, v.column ≠ ix)
    (hna : NoAppend s.hash t.updates x t.dirtyChunks (capCol s t col))
    (hsi : SortInv ic) (hs : InSync col ic) :
    ∃ col' ic', StrCol (s.commit t) x col' ∧ col'.merge = col.merge ∧ (s.commit t).findCol ix = some ic' ∧
      ic'.kind = .sorted tg ∧ Attached (s.commit t) x ix ∧ SortInv ic' ∧ InSync col' ic' := by
  have hd : col.kind.isData = true := by rcases hc.kind with h | h <;> (rw [h]; rfl)
  obtain ⟨hcomp, hatt'⟩ := hatt.hyps t.updates hnb
  obtain ⟨_, m2, _, _⟩ := capCol_meta s t col
  have hok := ChunksOK_of_noAppend s.hash t.updates x t.dirtyChunks (capCol s t col) hna
  obtain ⟨col', f1, f2, f3, f4, f5, f6, f7, _⟩ := commit_slot_ok s t x col (slotEffect col.merge 0) hxr hc.find hd
    hc.wf hc.cov hcomp hok (slotLaw_str s.hash col.kind hc.kind col.merge) hinv
  obtain ⟨ic', g1, g2, g3, g4⟩ := commit_sortInv s t x ix tg col ic hxr hc.find hd hfi hik (hatt.once col hc.find)
    hcomp hatt' hok hsi
  obtain ⟨_, _, _, _, c5, c6⟩ := capCol_data s t col hd
  have hk' : (capCol s t col).kind = .str ∨ (capCol s t col).kind = .record := by rw [m2]; exact hc.kind
  refine ⟨col', ic', ⟨f1, by rw [f2]; exact hc.kind, f4, commit_cov s t col col' hc.cov f5 f6⟩, f3, g1, g2,
    hatt.commit t, g3, ?_⟩
  rw [f7, g4]
  have := inSync_chunks s.hash t.updates x tg t.dirtyChunks (capCol s t col) (capCol s t ic) hk'
    ((capCol_meta s t ic).2.1.trans hik) (c5 hc.wf) (c6 hc.cov) (chunkOps_chunk t x hinv)
    (fun c _ o ho => isMarkerOp_ne_merge (hmk o (markerOps_sub_markerAll t.updates c o ho)))
    (by rw [capCol_sorted s t ic tg hik]; exact hsi) (inSync_capCol s t col ic tg hd hik hs) hna
  rw [capCol_sorted s t ic tg hik] at this
  exact this

/-- the guard from the transaction alone: no `Merge` issued for `x`, or a merge function that keeps the delta's length -/
theorem noAppend_of_guard (s : Store) (t : Txn) (x : String) (col : Col)
    (h : (∀ v d, (col.merge v d).length = d.length) ∨ ∀ o ∈ allFor t.updates x, o.typ ≠ opMerge) :
    NoAppend s.hash t.updates x t.dirtyChunks (capCol s t col) := by
  rcases h with h | h
  · exact NoAppend_of_len _ _ _ _ _ (by rw [(capCol_meta s t col).2.2.2]; exact h)
  · exact NoAppend_of_no_merge _ _ _ _ _ (fun c _ o ho => h o (opsFor_sub_allFor t.updates x c o ho))

/-- **C16 at store level, any list of transactions** -/
theorem commits_inSync (x ix tg : String) (hxr : x ≠ rowColumn) (ts : List Txn) :
    ∀ (s : Store) (col ic : Col), StrCol s x col → s.findCol ix = some ic → ic.kind = .sorted tg → Attached s x ix →
      (∀ t ∈ ts, (∀ v ∈ t.updates, (v.column = x ∨ isMarkerBuf v = true) → ChunkOK v) ∧
        (∀ o ∈ markerAll t.updates, isMarkerOp o) ∧ ∀ v ∈ t.updates, v.column ≠ ix) →
      ((∀ v d, (col.merge v d).length = d.length) ∨ ∀ t ∈ ts, ∀ o ∈ allFor t.updates x, o.typ ≠ opMerge) →
      SortInv ic → InSync col ic →
      ∃ col' ic', StrCol (ts.foldl Store.commit s) x col' ∧ (ts.foldl Store.commit s).findCol ix = some ic' ∧
        ic'.kind = .sorted tg ∧ SortInv ic' ∧ InSync col' ic' := by
  induction ts with
  | nil => intro s col ic hc hfi hik _ _ _ hsi hs; exact ⟨col, ic, hc, hfi, hik, hsi, hs⟩
  | cons t ts ih =>
    intro s col ic hc hfi hik hatt hts hg hsi hs
    have hg1 : (∀ v d, (col.merge v d).length = d.length) ∨ ∀ o ∈ allFor t.updates x, o.typ ≠ opMerge := by
      rcases hg with h | h
      · exact Or.inl h
      · exact Or.inr (h t (by simp))
    obtain ⟨col1, ic1, a1, a2, a3, a4, a5, a6, a7⟩ := commit_inSync s t x ix tg col ic hxr hc hfi hik hatt
      (hts t (by simp)).1 (hts t (by simp)).2.1 (hts t (by simp)).2.2 (noAppend_of_guard s t x col hg1) hsi hs
    simp only [List.foldl_cons]
    refine ih _ col1 ic1 a1 a3 a4 a5 (fun t' ht' => hts t' (by simp [ht'])) ?_ a6 a7
    rcases hg with h | h
    · exact Or.inl (by rw [a2]; exact h)
    · exact Or.inr (fun t' ht' => h t' (by simp [ht']))

/-- read through the typed reader: after any list of commits, the key the index holds for offset `o` is the string the
    column returns for `o` (none iff the row has no value); with `SortInv`, `C16.ascend_*` then give the iteration order -/
theorem commits_sorted_reads (x ix tg : String) (hxr : x ≠ rowColumn) (ts : List Txn) (s : Store) (col ic : Col)
    (hc : StrCol s x col) (hfi : s.findCol ix = some ic) (hik : ic.kind = .sorted tg) (hatt : Attached s x ix)
    (hts : ∀ t ∈ ts, (∀ v ∈ t.updates, (v.column = x ∨ isMarkerBuf v = true) → ChunkOK v) ∧
      (∀ o ∈ markerAll t.updates, isMarkerOp o) ∧ ∀ v ∈ t.updates, v.column ≠ ix)
    (hg : (∀ v d, (col.merge v d).length = d.length) ∨ ∀ t ∈ ts, ∀ o ∈ allFor t.updates x, o.typ ≠ opMerge)
    (hsi : SortInv ic) (hs : InSync col ic) :
    ∃ col' ic', (ts.foldl Store.commit s).findCol x = some col' ∧ (ts.foldl Store.commit s).findCol ix = some ic' ∧
      SortInv ic' ∧ ∀ o, entryOf ic' o = col'.read o := by
  obtain ⟨col', ic', a1, a2, _, a4, a5⟩ := commits_inSync x ix tg hxr ts s col ic hc hfi hik hatt hts hg hsi hs
  refine ⟨col', ic', a1.find, a2, a4, fun o => ?_⟩
  rw [a5 o, read_eq_strVal col' a1.kind (by rw [a1.wf.bsize]; exact Nat.le_refl _) o]

/-! ## non-vacuity: a string column with a sorted index, a transaction over two chunks with an in-place merge -/

/-- merge = "last wins" (the default): keeps the length of the delta -/
def sCol : Col :=
  { name := "s", kind := .str, nchunks := 1, bits := Array.replicate 16384 false, data := Array.replicate 16384 [],
    computed := ["by_s"] }

def bySIdx : Col := { name := "by_s", kind := .sorted "s" }

def exStore : Store := { cols := #[sCol, bySIdx], commits := #[0] }

/-- insert rows 3 and 4, write "hi" to row 3, merge "yo" onto it (same length: swapped in place), write "zz" to row 20000
    (second chunk), then "aa" to row 4 (a second section of chunk 0) -/
def exTxn : Txn :=
  ([(rowColumn, ⟨opInsert, 3, .fixed 0 []⟩), (rowColumn, ⟨opInsert, 4, .fixed 0 []⟩),
    ("s", ⟨opPut, 3, .str [104, 105]⟩), ("s", ⟨opMerge, 3, .str [121, 111]⟩),
    ("s", ⟨opPut, 20000, .str [122, 122]⟩), ("s", ⟨opPut, 4, .str [97, 97]⟩)] : List (String × Op)).foldl
      (fun t p => t.putOp p.1 p.2) {}

/-- delete row 3 through a marker -/
def delTxn : Txn := ({} : Txn).putOp rowColumn ⟨opDelete, 3, .fixed 0 []⟩

theorem exStore_find_s : exStore.findCol "s" = some sCol := by simp [exStore, Store.findCol, sCol]
theorem exStore_find_ix : exStore.findCol "by_s" = some bySIdx := by simp [exStore, Store.findCol, sCol, bySIdx]

theorem ex_strCol : StrCol exStore "s" sCol :=
  ⟨exStore_find_s, Or.inl rfl, ⟨by simp [sCol], by simp [sCol]⟩, by decide⟩

theorem exStore_cases : ∀ n c, exStore.findCol n = some c → (n = "s" ∧ c = sCol) ∨ (n = "by_s" ∧ c = bySIdx) := by
  intro n c h
  have hn := findCol_name h
  have := findCol_mem h
  simp only [exStore, List.mem_toArray, List.mem_cons, List.not_mem_nil, or_false] at this
  rcases this with rfl | rfl
  · exact Or.inl ⟨hn.symm, rfl⟩
  · exact Or.inr ⟨hn.symm, rfl⟩

theorem ex_attached : Attached exStore "s" "by_s" := by
  refine ⟨?_, ?_, ?_⟩
  · intro n c h
    rcases exStore_cases n c h with ⟨_, rfl⟩ | ⟨_, rfl⟩ <;> decide
  · intro n c h hn
    rcases exStore_cases n c h with ⟨e, _⟩ | ⟨_, rfl⟩
    · exact absurd e hn
    · decide
  · intro c h
    rw [exStore_find_s] at h
    cases h
    decide

theorem sCol_slot (o : Nat) : slot sCol o = (false, []) := by
  have hd : (sCol.data[o]?).getD [] = [] := by
    show ((Array.replicate 16384 ([] : Bytes))[o]?).getD [] = []
    rw [Array.getElem?_replicate]
    split <;> rfl
  unfold slot
  rw [show Bits.get sCol.bits o = false from get_replicate_false _ _, hd]

theorem ex_inSync : InSync sCol bySIdx := by
  intro o
  have h1 : entryOf bySIdx o = none := rfl
  have h2 : strVal sCol o = none := by
    unfold strVal
    rw [show Bits.get sCol.bits o = false from get_replicate_false _ _]
    rfl
  rw [h1, h2]

theorem ex_sortInv : SortInv bySIdx := C16.sorted_empty_inv "by_s" "s"

theorem ex_txns : ∀ t ∈ [exTxn, delTxn], (∀ v ∈ t.updates, (v.column = "s" ∨ isMarkerBuf v = true) → ChunkOK v) ∧
    (∀ o ∈ markerAll t.updates, isMarkerOp o) ∧ ∀ v ∈ t.updates, v.column ≠ "by_s" := by
  intro t ht
  simp only [List.mem_cons, List.not_mem_nil, or_false] at ht
  rcases ht with rfl | rfl
  · refine ⟨?_, by decide, by decide⟩
    have : ∀ v ∈ exTxn.updates, ∀ s ∈ v.rsecs, ∀ o ∈ s.rops, chunkOf o.idx = s.chunk := by decide
    intro v hv _
    exact this v hv
  · refine ⟨?_, by decide, by decide⟩
    have : ∀ v ∈ delTxn.updates, ∀ s ∈ v.rsecs, ∀ o ∈ s.rops, chunkOf o.idx = s.chunk := by decide
    intro v hv _
    exact this v hv

/-- the theorem applied: after the two-chunk transaction the index is sorted and agrees with the column -/
theorem ex_commit : ∃ col' ic', StrCol (exStore.commit exTxn) "s" col' ∧ col'.merge = sCol.merge ∧
    (exStore.commit exTxn).findCol "by_s" = some ic' ∧ ic'.kind = .sorted "s" ∧
    Attached (exStore.commit exTxn) "s" "by_s" ∧ SortInv ic' ∧ InSync col' ic' :=
  commit_inSync exStore exTxn "s" "by_s" "s" sCol bySIdx (by decide) ex_strCol exStore_find_ix rfl ex_attached
    (ex_txns exTxn (by simp)).1 (ex_txns exTxn (by simp)).2.1 (ex_txns exTxn (by simp)).2.2
    (noAppend_of_guard _ _ _ _ (Or.inl (fun _ _ => rfl))) ex_sortInv ex_inSync

/-- the concrete entries: row 3 is indexed under the merged value "yo", row 4 under "aa", row 20000 (second chunk) under
    "zz", row 5 not at all -/
theorem ex_entries : ∃ ic', (exStore.commit exTxn).findCol "by_s" = some ic' ∧ SortInv ic' ∧
    entryOf ic' 3 = some [121, 111] ∧ entryOf ic' 4 = some [97, 97] ∧ entryOf ic' 20000 = some [122, 122] ∧
    entryOf ic' 5 = none := by
  obtain ⟨col', ic', h1, _, h3, _, _, h6, h7⟩ := ex_commit
  obtain ⟨c2, f1, _, _, _, _, _, _, f8⟩ := commit_slot_ok exStore exTxn "s" sCol (slotEffect sCol.merge 0)
    (by decide) exStore_find_s rfl ex_strCol.wf ex_strCol.cov (ex_attached.hyps exTxn.updates (by decide)).1
    (ChunksOK_of_noAppend _ _ _ _ _ (noAppend_of_guard _ _ _ _ (Or.inl (fun _ _ => rfl))))
    (slotLaw_str _ _ (Or.inl rfl) _) (ex_txns exTxn (by simp)).1
  rw [h1.find] at f1
  cases f1
  have hget : ∀ o, entryOf ic' o = if (slot col' o).1 = true then some (slot col' o).2 else none := fun o => h7 o
  refine ⟨ic', h3, h6, ?_, ?_, ?_, ?_⟩
  · rw [hget, f8, sCol_slot]; decide
  · rw [hget, f8, sCol_slot]; decide
  · rw [hget, f8, sCol_slot]; decide
  · rw [hget, f8, sCol_slot]; decide

/-- … and after a later row delete, through the typed reader -/
example : ∃ col' ic', ([exTxn, delTxn].foldl Store.commit exStore).findCol "s" = some col' ∧
    ([exTxn, delTxn].foldl Store.commit exStore).findCol "by_s" = some ic' ∧ SortInv ic' ∧
    ∀ o, entryOf ic' o = col'.read o :=
  commits_sorted_reads "s" "by_s" "s" (by decide) [exTxn, delTxn] exStore sCol bySIdx ex_strCol exStore_find_ix rfl
    ex_attached ex_txns (Or.inl (fun _ _ => rfl)) ex_sortInv ex_inSync

/-! ### a RESIZING merge (finding D12's territory): the plumbing and `commit_sortInv` still apply

merge = concatenation; "hi" is written to row 3, then "!" merged onto it: "hi!" has another length than the delta, the op is
marked `Skip` and the result appended through the buffer. Every chunk has one section in the buffer of "s", so the guard
`ChunksOK` holds (`ChunksOK_of_nodup`). -/

def cCol : Col := { sCol with merge := fun a d => a ++ d }
def cStore : Store := { cols := #[cCol, bySIdx], commits := #[0] }

def mTxn : Txn :=
  ([(rowColumn, ⟨opInsert, 3, .fixed 0 []⟩), ("s", ⟨opPut, 3, .str [104, 105]⟩), ("s", ⟨opMerge, 3, .str [33]⟩),
    ("s", ⟨opPut, 20000, .str [121, 111]⟩)] : List (String × Op)).foldl (fun t p => t.putOp p.1 p.2) {}

theorem cStore_find_s : cStore.findCol "s" = some cCol := by simp [cStore, Store.findCol, cCol, sCol]
theorem cStore_find_ix : cStore.findCol "by_s" = some bySIdx := by
  simp [cStore, Store.findCol, cCol, sCol, bySIdx]

theorem cStore_cases : ∀ n c, cStore.findCol n = some c → (n = "s" ∧ c = cCol) ∨ (n = "by_s" ∧ c = bySIdx) := by
  intro n c h
  have hn := findCol_name h
  have := findCol_mem h
  simp only [cStore, List.mem_toArray, List.mem_cons, List.not_mem_nil, or_false] at this
  rcases this with rfl | rfl
  · exact Or.inl ⟨hn.symm, rfl⟩
  · exact Or.inr ⟨hn.symm, rfl⟩

theorem c_attached : Attached cStore "s" "by_s" := by
  refine ⟨?_, ?_, ?_⟩
  · intro n c h
    rcases cStore_cases n c h with ⟨_, rfl⟩ | ⟨_, rfl⟩ <;> decide
  · intro n c h hn
    rcases cStore_cases n c h with ⟨e, _⟩ | ⟨_, rfl⟩
    · exact absurd e hn
    · decide
  · intro c h
    rw [cStore_find_s] at h
    cases h
    decide

theorem mTxn_ok (col : Col) : ChunksOK cStore.hash mTxn.updates "s" mTxn.dirtyChunks col := by
  apply ChunksOK_of_nodup
  have : ∀ v ∈ mTxn.updates, v.column = "s" → bufOKb v = true ∧ v.chunks.Nodup := by decide
  intro v hv hx
  exact ⟨bufOK_of_check v (this v hv hx).1, (this v hv hx).2⟩

/-- the guard of `commit_inSync` does NOT hold for this transaction -/
example : ¬ NoAppend cStore.hash mTxn.updates "s" [0] cCol := by decide +kernel

/-- what the index receives in the pass of chunk 0: the marker, the put, the merge marked `Skip` (its bytes stay), and —
    last — the appended put of the merged value -/
theorem m_seen0 : seenChunk cStore.hash mTxn.updates "s" 0 cCol =
    [⟨opInsert, 3, .fixed 0 []⟩, ⟨opPut, 3, .str [104, 105]⟩, ⟨opSkip, 3, .str [33]⟩,
     ⟨opPut, 3, .str [104, 105, 33]⟩] := by decide +kernel

/-- P1 applied: the index after the first dirty chunk, and the entry of row 3: the merged value -/
example : ∃ ic', (cStore.commitChunk 0 true mTxn.updates).1.findCol "by_s" = some ic' ∧
    entryOf ic' 3 = some [104, 105, 33] := by
  have h := C03store.commitChunk_computed cStore 0 true mTxn.updates "s" "by_s" cCol bySIdx (by decide) cStore_find_s rfl
    cStore_find_ix rfl (by decide) (c_attached.hyps mTxn.updates (by decide)).1
    (c_attached.hyps mTxn.updates (by decide)).2
    (BufsOK_of_one _ _ _ _ (by
      have : ∀ v ∈ mTxn.updates, v.column = "s" → bufOKb v = true ∧ v.chunks.Nodup := by decide
      intro v hv hx
      exact ⟨bufOK_of_check v (this v hv hx).1, OneSec_of_nodup v (this v hv hx).2 0⟩) _)
  have e : markerOpsCr true mTxn.updates 0 = markerOps mTxn.updates 0 := rfl
  rw [e] at h
  have e2 : markerOps mTxn.updates 0 ++ seenFor cStore.hash "s" 0 mTxn.updates
      (applyData cStore.hash cCol 0 (markerOps mTxn.updates 0)).col = seenChunk cStore.hash mTxn.updates "s" 0 cCol := rfl
  rw [e2, m_seen0] at h
  refine ⟨_, h, ?_⟩
  rw [C16.sorted_apply_sem bySIdx "s" rfl ex_sortInv]
  decide

/-- `commit_sortInv` applied to the whole two-chunk commit: the invariant of the index holds afterwards -/
example : ∃ ic', (cStore.commit mTxn).findCol "by_s" = some ic' ∧ ic'.kind = .sorted "s" ∧ SortInv ic' ∧
    ic' = compChunks cStore.hash mTxn.updates "s" mTxn.dirtyChunks (capCol cStore mTxn cCol) bySIdx :=
  commit_sortInv cStore mTxn "s" "by_s" "s" cCol bySIdx (by decide) cStore_find_s rfl cStore_find_ix rfl
    (by decide) (c_attached.hyps mTxn.updates (by decide)).1 (c_attached.hyps mTxn.updates (by decide)).2
    (mTxn_ok _) ex_sortInv

section Axioms
#print axioms commit_sortInv
#print axioms commit_inSync
#print axioms commits_inSync
#print axioms commits_sorted_reads
#print axioms ex_entries
end Axioms

end ColumnVerif.Props.C16store
