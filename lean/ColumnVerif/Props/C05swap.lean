import ColumnVerif.Lemmas.Swap
/-!
# C05 (last sentence) — what later readers see after a reader swapped a merge for its result

"After a reader has replaced a merge delta by its merged result, later readers see for every offset
the same sequence of operations with that merge turned into a put of the result."

Model: `Buf.swapAt b chunk k v` (`Model/Swap`, Go `Reader.Swap*` while ranging over `chunk`,
positioned on the `k`-th op). Vocabulary (all plain functions of the model's data):

* `opsOf b chunk` = `b.rangeOps chunk`: the ops of the sections of `chunk`, concatenated in write
  order. `rangeOps` does **not** filter `Skip`-marked ops, and neither does `locate`: position `k`
  counts every op of the chunk, skipped ones included.
* `rewriteNth ops k f` (`Model/Swap`): `ops` with position `k` replaced by `f` of it.
* `atIdx ops i` = the ops on offset `i`; `visible ops i` = the ops on offset `i` that are not
  marked `Skip` (what a later reader acts on); `NoLater ops k i` = no op after position `k` is on
  offset `i` (all three in `Lemmas/Swap`).
* `Buf.withSecs`, `Sec.withOps`, `Located` (`Lemmas/Swap`): the buffer with its section list
  replaced / a section with its ops replaced (header kept) / "the `k`-th op `o` of `chunk` is op
  `pos` of section `sec`, and `b.secs = pre ++ sec :: post`".

Added hypotheses (all decidable, satisfiable — see the examples at the end):
`b.Inv` (every buffer built through the writer API has it: `Buf.putAll_inv`) where `Buf.put` is
involved or the invariant is re-established; `v.WF` (the swapped-in value fits the wire format: a
fixed value has its code's width, a string is < 65536 bytes) **only** for re-establishing `Inv`;
`NoLater` for the per-offset sentence in the resizing case — necessary, see
`swapAt_resize_later_counterexample` (finding D12).
-/
namespace ColumnVerif.Props.C05swap
open ColumnVerif.Codec

/-- the ops a reader ranging over `chunk` walks, in order (`Skip`-marked ops included) -/
abbrev opsOf (b : Buf) (chunk : Nat) : List Op := b.rangeOps chunk

/-! ## 1. when `swapAt` is defined -/

/-- `swapAt` succeeds iff `k` is a position of the chunk and the new value either has the shape of
    the old one (in-place) or is a byte string (resizing swap). No invariant needed. -/
theorem swapAt_some_iff (b : Buf) (chunk k : Nat) (v : Val) :
    (b.swapAt chunk k v).isSome ↔
      ∃ o, (opsOf b chunk)[k]? = some o ∧ (sameShape o.val v = true ∨ ∃ bs, v = .str bs) := by
  rcases swapAt_unfold b chunk k v with ⟨hn, he⟩ | ⟨pre, sec, post, pos, o, _, _, _, _, ho, h1, h2, h3⟩
  · simp only [opsOf, hn, he]
    simp
  · constructor
    · intro h
      refine ⟨o, ho, ?_⟩
      cases hs : sameShape o.val v with
      | true => exact Or.inl rfl
      | false =>
        right
        cases v with
        | str bs => exact ⟨bs, rfl⟩
        | fixed c bs =>
          rw [h3 hs (by intro bs h; cases h)] at h
          simp at h
    · rintro ⟨o', ho', h⟩
      have : o' = o := by
        have := ho'.symm.trans ho
        simpa using this
      subst this
      cases hs : sameShape o'.val v with
      | true => rw [h1 hs]; rfl
      | false =>
        rcases h with h | ⟨bs, hv⟩
        · rw [hs] at h; cases h
        · rw [h2 hs bs hv]; rfl

/-- the same, from the position: `k` in range and shape or string ⇒ a result exists -/
theorem swapAt_defined (b : Buf) (chunk k : Nat) (v : Val) (hk : k < (opsOf b chunk).length)
    (hv : sameShape (opsOf b chunk)[k].val v = true ∨ ∃ bs, v = .str bs) :
    ∃ b', b.swapAt chunk k v = some b' := by
  have := (swapAt_some_iff b chunk k v).2 ⟨(opsOf b chunk)[k], List.getElem?_eq_getElem hk, hv⟩
  exact Option.isSome_iff_exists.1 this

/-- out of range ⇒ `none` -/
theorem swapAt_none_of_le (b : Buf) (chunk k : Nat) (v : Val) (hk : (opsOf b chunk).length ≤ k) :
    b.swapAt chunk k v = none := by
  cases h : b.swapAt chunk k v with
  | none => rfl
  | some b' =>
    have := (swapAt_some_iff b chunk k v).1 (by rw [h]; rfl)
    obtain ⟨o, ho, _⟩ := this
    rw [List.getElem?_eq_none_iff.2 hk] at ho
    cases ho

/-! ## 2. same-shape swap: rewritten in place -/

/-- Section-wise: exactly the located section changes, and only at position `pos`; every header
    (`chunk`, `value`), `last`, `cur` and the column stay. -/
theorem swapAt_inplace_sections (b : Buf) (chunk k : Nat) (v : Val) (b' : Buf) (o : Op)
    (ho : (opsOf b chunk)[k]? = some o) (hs : sameShape o.val v = true)
    (h : b.swapAt chunk k v = some b') :
    ∃ pre sec post pos, Located b chunk k o pre sec post pos ∧
      b' = b.withSecs (pre ++ sec.withOps (rewriteNth sec.ops pos (fun o => swapInPlace o v)) :: post) :=
  swapAt_inplace_secs b chunk k v b' o ho hs h

/-- The chunk's ops are the old ones with the `k`-th replaced by `swapInPlace o v` (kind `Put`,
    same offset, value `v`); the chunk keeps its sections and their lengths; every other chunk's
    sections are untouched. -/
theorem swapAt_inplace_range (b : Buf) (chunk k : Nat) (v : Val) (b' : Buf) (o : Op)
    (ho : (opsOf b chunk)[k]? = some o) (hs : sameShape o.val v = true)
    (h : b.swapAt chunk k v = some b') :
    opsOf b' chunk = rewriteNth (opsOf b chunk) k (fun o => swapInPlace o v) ∧
    (b'.range chunk).map List.length = (b.range chunk).map List.length ∧
    (∀ c, c ≠ chunk → b'.range c = b.range c) ∧
    b'.chunks = b.chunks ∧ b'.last = b.last ∧ b'.cur = b.cur := by
  obtain ⟨pre, sec, post, pos, hl, rfl⟩ := swapAt_inplace_secs b chunk k v b' o ho hs h
  refine ⟨hl.rangeOps_rewrite _, hl.range_rewrite_lengths _ chunk,
    fun c hc => hl.range_rewrite_other _ c hc, ?_, rfl, rfl⟩
  simp [Buf.chunks, hl.secs_eq]

theorem swapInPlace_eq (o : Op) (v : Val) : swapInPlace o v = ⟨opPut, o.idx, v⟩ := rfl

/-- the invariant survives (needs the new value to fit the format) -/
theorem swapAt_inplace_inv (b : Buf) (chunk k : Nat) (v : Val) (b' : Buf) (o : Op)
    (hinv : b.Inv) (hv : v.WF)
    (ho : (opsOf b chunk)[k]? = some o) (hs : sameShape o.val v = true)
    (h : b.swapAt chunk k v = some b') : b'.Inv := by
  obtain ⟨pre, sec, post, pos, hl, rfl⟩ := swapAt_inplace_secs b chunk k v b' o ho hs h
  exact hl.inv_rewrite hinv _ (swapInPlace_idx v) (fun o ho => swapInPlace_WF o v ho hv)

/-- Per offset: every other offset's sequence is untouched; on the op's own offset the sequence is
    the old one with exactly this op (its position among the ops of that offset: the number of
    earlier ops on it) turned into `Put v`. -/
theorem swapAt_inplace_per_offset (b : Buf) (chunk k : Nat) (v : Val) (b' : Buf) (o : Op)
    (ho : (opsOf b chunk)[k]? = some o) (hs : sameShape o.val v = true)
    (h : b.swapAt chunk k v = some b') :
    (∀ i, i ≠ o.idx → atIdx (opsOf b' chunk) i = atIdx (opsOf b chunk) i) ∧
    atIdx (opsOf b' chunk) o.idx =
      rewriteNth (atIdx (opsOf b chunk) o.idx) (atIdx ((opsOf b chunk).take k) o.idx).length
        (fun o => ⟨opPut, o.idx, v⟩) := by
  have hr := (swapAt_inplace_range b chunk k v b' o ho hs h).1
  rw [hr]
  exact ⟨fun i hi => atIdx_rewriteNth_ne _ k _ o i ho (swapInPlace_idx v) (fun e => hi e.symm),
    atIdx_rewriteNth_eq _ k _ o ho (swapInPlace_idx v)⟩

/-- The property's sentence, same-shape case (no side condition): later readers see, for every
    offset, the same sequence with that op turned into a put of the result. -/
theorem swapAt_inplace_visible (b : Buf) (chunk k : Nat) (v : Val) (b' : Buf) (o : Op)
    (ho : (opsOf b chunk)[k]? = some o) (hs : sameShape o.val v = true)
    (h : b.swapAt chunk k v = some b') (i : Nat) :
    visible (opsOf b' chunk) i =
      visible (rewriteNth (opsOf b chunk) k (fun o => ⟨opPut, o.idx, v⟩)) i := by
  rw [(swapAt_inplace_range b chunk k v b' o ho hs h).1]
  rfl

/-! ## 3. resizing swap (`.str` of another length): `Skip` + appended `Put` -/

/-- What `Buf.put` does here. The appended `Put o.idx v` belongs to the reader's chunk. If that
    chunk is the buffer's current one (`b.cur = some chunk`), the last section — which is a section
    of `chunk` — is extended; otherwise a new section `⟨chunk, b.last, [Put]⟩` is opened at the END
    of the buffer. In both cases `last` becomes `o.idx` and `cur` becomes `chunk`. -/
theorem swapAt_resize_sections (b : Buf) (chunk k : Nat) (v : Val) (b' : Buf) (o : Op) (bs : Bytes)
    (hinv : b.Inv)
    (ho : (opsOf b chunk)[k]? = some o) (hs : sameShape o.val v = false) (hv : v = .str bs)
    (h : b.swapAt chunk k v = some b') :
    chunkOf o.idx = chunk ∧ b'.last = o.idx ∧ b'.cur = some chunk ∧ b'.column = b.column ∧
    ∃ pre sec post pos, Located b chunk k o pre sec post pos ∧
      let marked := pre ++ sec.withOps (rewriteNth sec.ops pos markSkip) :: post
      (b.cur = some chunk ∧ ∃ init l, marked = init ++ [l] ∧ l.chunk = chunk ∧
          b'.secs = init ++ [l.withOps (l.ops ++ [⟨opPut, o.idx, v⟩])]) ∨
      (b.cur ≠ some chunk ∧ b'.secs = marked ++ [⟨chunk, b.last, [⟨opPut, o.idx, v⟩]⟩]) := by
  obtain ⟨pre, sec, post, pos, hl, rfl⟩ := swapAt_resize_secs b chunk k v b' o bs ho hs hv h
  have hch : chunkOf o.idx = chunk := by
    rw [← hl.chunk_eq]
    exact hinv.chunk_ok sec hl.mem_rsecs o (by simpa [Sec.ops] using hl.mem_ops)
  have hinv1 := hl.inv_rewrite hinv markSkip markSkip_idx markSkip_WF
  refine ⟨hch, Buf.last_put _ _, ?_, ?_, pre, sec, post, pos, hl, ?_⟩
  · rcases Buf.put_cases _ ⟨opPut, o.idx, v⟩ hinv1 with ⟨s, rest, hr, hc, hsc, he⟩ | ⟨hc, he⟩
    · rw [he]; simpa [hch] using hc
    · rw [he]; simp [hch]
  · rcases Buf.put_cases _ ⟨opPut, o.idx, v⟩ hinv1 with ⟨s, rest, hr, hc, hsc, he⟩ | ⟨hc, he⟩
    · rw [he]; rfl
    · rw [he]; rfl
  · intro marked
    rcases Buf.put_cases _ ⟨opPut, o.idx, v⟩ hinv1 with ⟨s, rest, hr, hc, hsc, he⟩ | ⟨hc, he⟩
    · left
      refine ⟨by simpa [hch, Buf.withSecs] using hc, rest.reverse, s, ?_, by simpa [hch] using hsc, ?_⟩
      · have : marked.reverse = s :: rest := hr
        have := congrArg List.reverse this
        simpa using this
      · rw [he]
        simp [Buf.secs, Sec.withOps, Sec.ops]
    · right
      refine ⟨by simpa [hch, Buf.withSecs] using hc, ?_⟩
      rw [he]
      simp [Buf.secs, Buf.withSecs, hch, marked]

/-- Flattened ops of the chunk: the `k`-th op is marked `Skip` (its bytes stay) and `Put o.idx v`
    is appended at the end of the chunk's ops; every other chunk's sections are untouched. -/
theorem swapAt_resize_range (b : Buf) (chunk k : Nat) (v : Val) (b' : Buf) (o : Op) (bs : Bytes)
    (hinv : b.Inv)
    (ho : (opsOf b chunk)[k]? = some o) (hs : sameShape o.val v = false) (hv : v = .str bs)
    (h : b.swapAt chunk k v = some b') :
    opsOf b' chunk = rewriteNth (opsOf b chunk) k markSkip ++ [⟨opPut, o.idx, v⟩] ∧
    (∀ c, c ≠ chunk → b'.range c = b.range c) := by
  obtain ⟨pre, sec, post, pos, hl, rfl⟩ := swapAt_resize_secs b chunk k v b' o bs ho hs hv h
  have hch : chunkOf o.idx = chunk := by
    rw [← hl.chunk_eq]
    exact hinv.chunk_ok sec hl.mem_rsecs o (by simpa [Sec.ops] using hl.mem_ops)
  have hinv1 := hl.inv_rewrite hinv markSkip markSkip_idx markSkip_WF
  constructor
  · show Buf.rangeOps _ chunk = _
    rw [Buf.rangeOps_put _ _ _ hinv1, hl.rangeOps_rewrite, if_pos hch]
  · intro c hc
    rw [Buf.range_put_other _ _ _ hinv1 (by rw [hch]; exact fun e => hc e.symm)]
    exact hl.range_rewrite_other _ c hc

/-- the invariant survives (needs the new string to fit the format: < 65536 bytes) -/
theorem swapAt_resize_inv (b : Buf) (chunk k : Nat) (v : Val) (b' : Buf) (o : Op) (bs : Bytes)
    (hinv : b.Inv) (hwf : v.WF)
    (ho : (opsOf b chunk)[k]? = some o) (hs : sameShape o.val v = false) (hv : v = .str bs)
    (h : b.swapAt chunk k v = some b') : b'.Inv := by
  obtain ⟨pre, sec, post, pos, hl, rfl⟩ := swapAt_resize_secs b chunk k v b' o bs ho hs hv h
  have hinv1 := hl.inv_rewrite hinv markSkip markSkip_idx markSkip_WF
  have how : o.WF :=
    (hinv.lt_ok.2 sec hl.mem_rsecs).2 o (by simpa [Sec.ops] using hl.mem_ops)
  exact Buf.put_inv _ _ hinv1 ⟨(by decide : opPut < 16), how.2.1, hwf⟩

/-- **The property's sentence, resizing case.** If no later op of the chunk is on the swapped op's
    offset, later readers see for every offset the same sequence of (non-skipped) operations with
    that merge turned into a put of the result. -/
theorem swapAt_resize_visible (b : Buf) (chunk k : Nat) (v : Val) (b' : Buf) (o : Op) (bs : Bytes)
    (hinv : b.Inv)
    (ho : (opsOf b chunk)[k]? = some o) (hs : sameShape o.val v = false) (hv : v = .str bs)
    (h : b.swapAt chunk k v = some b')
    (hno : NoLater (opsOf b chunk) k o.idx) (i : Nat) :
    visible (opsOf b' chunk) i =
      visible (rewriteNth (opsOf b chunk) k (fun o => ⟨opPut, o.idx, v⟩)) i := by
  rw [(swapAt_resize_range b chunk k v b' o bs hinv ho hs hv h).1]
  exact visible_resize _ k o v i ho hno

/-- Without `NoLater` the other offsets are still exact: only the swapped op's own offset can see
    the appended `Put` overtake a later op. -/
theorem swapAt_resize_visible_other (b : Buf) (chunk k : Nat) (v : Val) (b' : Buf) (o : Op)
    (bs : Bytes) (hinv : b.Inv)
    (ho : (opsOf b chunk)[k]? = some o) (hs : sameShape o.val v = false) (hv : v = .str bs)
    (h : b.swapAt chunk k v = some b') (i : Nat) (hi : i ≠ o.idx) :
    visible (opsOf b' chunk) i = visible (opsOf b chunk) i := by
  rw [(swapAt_resize_range b chunk k v b' o bs hinv ho hs hv h).1]
  exact visible_resize_other _ k o v i ho (fun e => hi e.symm)

/-! ## 4. finding D12: `NoLater` is necessary -/

/-- a merge on offset 1 followed by a later put on the same offset -/
def laterBuf : Buf :=
  (Buf.empty "s").putAll [⟨opMerge, 1, .str [97, 98]⟩, ⟨opPut, 1, .str [122, 122]⟩]

/-- The reader swaps the merge (position 0) for a 3-byte result. Every hypothesis of
    `swapAt_resize_visible` but `NoLater` holds, and the per-offset sequences differ: later readers
    see `Put "zz"` THEN `Put "abc"` on offset 1 (the appended put overtook the later op), where the
    property promises `Put "abc"` then `Put "zz"`. -/
theorem swapAt_resize_later_counterexample :
    laterBuf.Inv ∧
    ∃ b' o, laterBuf.swapAt 0 0 (.str [97, 98, 99]) = some b' ∧
      (opsOf laterBuf 0)[0]? = some o ∧ sameShape o.val (.str [97, 98, 99]) = false ∧
      ¬ NoLater (opsOf laterBuf 0) 0 o.idx ∧
      visible (opsOf b' 0) 1 = [⟨opPut, 1, .str [122, 122]⟩, ⟨opPut, 1, .str [97, 98, 99]⟩] ∧
      visible (rewriteNth (opsOf laterBuf 0) 0 (fun o => ⟨opPut, o.idx, .str [97, 98, 99]⟩)) 1 =
        [⟨opPut, 1, .str [97, 98, 99]⟩, ⟨opPut, 1, .str [122, 122]⟩] ∧
      visible (opsOf b' 0) 1 ≠
        visible (rewriteNth (opsOf laterBuf 0) 0 (fun o => ⟨opPut, o.idx, .str [97, 98, 99]⟩)) 1 := by
  refine ⟨Buf.putAll_inv _ _ (Buf.empty_inv "s") (by decide), ?_⟩
  refine ⟨(laterBuf.swapAt 0 0 (.str [97, 98, 99])).get (by decide), ⟨opMerge, 1, .str [97, 98]⟩,
    by simp, by decide, by decide, by decide, by decide, by decide, by decide⟩

/-! ## 5. non-vacuity -/

/-- two chunks interleaved: chunk 0 has two sections -/
def sampleBuf : Buf :=
  (Buf.empty "s").putAll
    [⟨opPut, 5, .fixed 1 [1, 2]⟩, ⟨opMerge, 7, .str [104, 105]⟩, ⟨opPut, 20000, .fixed 2 [0, 0, 0, 1]⟩,
     ⟨opMerge, 9, .fixed 3 [0, 0, 0, 0, 0, 0, 0, 1]⟩, ⟨opPut, 6, .str [120]⟩]

theorem sampleBuf_inv : sampleBuf.Inv := Buf.putAll_inv _ _ (Buf.empty_inv "s") (by decide)

example : sampleBuf.range 0 =
    [[⟨opPut, 5, .fixed 1 [1, 2]⟩, ⟨opMerge, 7, .str [104, 105]⟩],
     [⟨opMerge, 9, .fixed 3 [0, 0, 0, 0, 0, 0, 0, 1]⟩, ⟨opPut, 6, .str [120]⟩]] := by decide

/-- in place, fixed width, in the second section of chunk 0 (position 2 of the chunk) -/
example : ∃ b' o, sampleBuf.swapAt 0 2 (.fixed 3 [0, 0, 0, 0, 0, 0, 0, 7]) = some b' ∧
    (opsOf sampleBuf 0)[2]? = some o ∧ sameShape o.val (.fixed 3 [0, 0, 0, 0, 0, 0, 0, 7]) = true ∧
    (Val.fixed 3 [0, 0, 0, 0, 0, 0, 0, 7]).WF ∧
    b'.range 0 = [[⟨opPut, 5, .fixed 1 [1, 2]⟩, ⟨opMerge, 7, .str [104, 105]⟩],
      [⟨opPut, 9, .fixed 3 [0, 0, 0, 0, 0, 0, 0, 7]⟩, ⟨opPut, 6, .str [120]⟩]] :=
  ⟨(sampleBuf.swapAt 0 2 (.fixed 3 [0, 0, 0, 0, 0, 0, 0, 7])).get (by decide),
    ⟨opMerge, 9, .fixed 3 [0, 0, 0, 0, 0, 0, 0, 1]⟩,
    by simp, by decide, by decide, by decide, by decide⟩

/-- in place, same-length string (position 1) -/
example : ∃ b' o, sampleBuf.swapAt 0 1 (.str [72, 73]) = some b' ∧
    (opsOf sampleBuf 0)[1]? = some o ∧ sameShape o.val (.str [72, 73]) = true ∧
    opsOf b' 0 = [⟨opPut, 5, .fixed 1 [1, 2]⟩, ⟨opPut, 7, .str [72, 73]⟩,
      ⟨opMerge, 9, .fixed 3 [0, 0, 0, 0, 0, 0, 0, 1]⟩, ⟨opPut, 6, .str [120]⟩] :=
  ⟨(sampleBuf.swapAt 0 1 (.str [72, 73])).get (by decide), ⟨opMerge, 7, .str [104, 105]⟩, by simp, by decide, by decide, by decide⟩

/-- resizing, `NoLater` holds, the buffer's current chunk is the reader's: last section extended -/
example : ∃ b' o, sampleBuf.swapAt 0 1 (.str [72, 73, 74]) = some b' ∧
    (opsOf sampleBuf 0)[1]? = some o ∧ sameShape o.val (.str [72, 73, 74]) = false ∧
    (Val.str [72, 73, 74]).WF ∧ NoLater (opsOf sampleBuf 0) 1 o.idx ∧ sampleBuf.cur = some 0 ∧
    b'.range 0 = [[⟨opPut, 5, .fixed 1 [1, 2]⟩, ⟨opSkip, 7, .str [104, 105]⟩],
      [⟨opMerge, 9, .fixed 3 [0, 0, 0, 0, 0, 0, 0, 1]⟩, ⟨opPut, 6, .str [120]⟩,
       ⟨opPut, 7, .str [72, 73, 74]⟩]] :=
  ⟨(sampleBuf.swapAt 0 1 (.str [72, 73, 74])).get (by decide), ⟨opMerge, 7, .str [104, 105]⟩,
    by simp, by decide, by decide, by decide, by decide, by decide, by decide⟩

/-- resizing while the buffer's current chunk is another one: a new section at the end -/
def sampleBuf2 : Buf :=
  (Buf.empty "s").putAll [⟨opMerge, 7, .str [104, 105]⟩, ⟨opPut, 20000, .fixed 2 [0, 0, 0, 1]⟩]

example : sampleBuf2.Inv := Buf.putAll_inv _ _ (Buf.empty_inv "s") (by decide)

example : ∃ b' o, sampleBuf2.swapAt 0 0 (.str []) = some b' ∧
    (opsOf sampleBuf2 0)[0]? = some o ∧ sameShape o.val (.str []) = false ∧
    NoLater (opsOf sampleBuf2 0) 0 o.idx ∧ sampleBuf2.cur = some 1 ∧
    b'.chunks = [0, 1, 0] ∧
    b'.range 0 = [[⟨opSkip, 7, .str [104, 105]⟩], [⟨opPut, 7, .str []⟩]] ∧
    b'.range 1 = sampleBuf2.range 1 :=
  ⟨(sampleBuf2.swapAt 0 0 (.str [])).get (by decide), ⟨opMerge, 7, .str [104, 105]⟩,
    by simp, by decide, by decide, by decide, by decide, by decide, by decide, by decide⟩

/-- why `v.WF` is asked for the invariant: `sameShape` on fixed values compares the width CODE only,
    so the model accepts a 1-byte payload under the 8-byte code and the op is no longer well-formed -/
example : ∃ b', sampleBuf.swapAt 0 2 (.fixed 3 [1]) = some b' ∧ ¬ (∀ o ∈ opsOf b' 0, o.WF) :=
  ⟨(sampleBuf.swapAt 0 2 (.fixed 3 [1])).get (by decide), by simp, by decide⟩

/-- a fixed value of another width on a string op is refused -/
example : sampleBuf.swapAt 0 1 (.fixed 1 [0, 0]) = none := by decide
/-- out of range -/
example : sampleBuf.swapAt 0 4 (.str [1]) = none := by decide

end ColumnVerif.Props.C05swap

section Axioms
open ColumnVerif.Props.C05swap
#print axioms swapAt_some_iff
#print axioms swapAt_defined
#print axioms swapAt_inplace_sections
#print axioms swapAt_inplace_range
#print axioms swapAt_inplace_inv
#print axioms swapAt_inplace_per_offset
#print axioms swapAt_inplace_visible
#print axioms swapAt_resize_sections
#print axioms swapAt_resize_range
#print axioms swapAt_resize_inv
#print axioms swapAt_resize_visible
#print axioms swapAt_resize_visible_other
#print axioms swapAt_resize_later_counterexample
end Axioms
