import ColumnVerif.Lemmas.StoreRead
/-!
# C01 at store level — what `Store.commit` leaves in a numeric column, for whole transactions

`Props/C01.lean` says what one `applyData` pass does to one column. Here the same statement is carried through the
plumbing of `Model/Txn`: the registry (`findCol` / `setCol`), `mainPass` over the sections of a buffer, `commitUpdates`
over all buffers of a transaction (main pass, then the computed pass), `commitMarkers`, `commitChunk`, the chunk loop of
`commit` with `commitCapacity` in front. The end result (`commit_readback`):

  after `s.commit t`, every slot (presence bit + raw value) of a numeric column `x` is the fold — over what the slot held
  before — of the markers of the transaction addressed to that offset (`Delete` clears the presence bit, `Insert` leaves
  the slot alone) followed by the operations issued for `x` at that offset, **in issue order**

for any number of buffers, any number of dirty chunks, any offsets in any order, any merge function, whatever other
columns (of any kind, with any computed columns) the transaction touches. `commit_no_panic` adds that the sticky panic
flag is not raised, `commit_fill` what the fill list holds, and `commit_coveredAll` / `commit_computedKinds` /
`commit_cov` that the hypotheses hold again afterwards — so the statements chain over any sequence of commits.

Hypotheses used (all listed with the theorems; examples at the end show they are satisfiable):
* `ColWF col` — the arrays of the column have `16384 * nchunks` slots (what `Col.grow` produces);
* `s.commits.size ≤ col.nchunks` — the column covers every committed chunk (`commitCapacity` + the `CreateColumn` repair);
* `x ≠ "row"`, and `x` is not a computed column attached to an updated column;
* `ChunkOK b` for the buffers of `x` and the marker buffer — every op sits in a section of its own chunk
  (the `chunk_ok` field of `Buf.Inv`, kept by `Buf.put`);
* for the panic flag: `CoveredAll s`, `ComputedKinds s` (computed columns are indexes / triggers / sorted indexes).
-/
namespace ColumnVerif.Props.C01store
open ColumnVerif.Codec ColumnVerif.Store ColumnVerif.Bits

/-! ## R1 — the registry -/

/-- `setCol c` makes the registry resolve `c.name` to `c` (when the name is registered; first-match semantics) -/
theorem findCol_setCol_same (s : Store) (c : Col) (h : (s.findCol c.name).isSome) :
    (s.setCol c).findCol c.name = some c := Store.findCol_setCol_same s c h

/-- … and leaves every other name alone -/
theorem findCol_setCol_other (s : Store) (c : Col) (n : String) (hn : n ≠ c.name) :
    (s.setCol c).findCol n = s.findCol n := Store.findCol_setCol_other s c n hn

/-- the list of registered names never changes by `setCol`, so `NamesDistinct` is kept -/
theorem setCol_keeps_names (s : Store) (c : Col) :
    (s.setCol c).cols.toList.map (·.name) = s.cols.toList.map (·.name) ∧ (NamesDistinct s → NamesDistinct (s.setCol c)) :=
  ⟨setCol_names s c, setCol_namesDistinct s c⟩

/-- what a name resolves to has that name; with distinct names every registered column resolves to itself -/
theorem findCol_sound (s : Store) (n : String) (c : Col) (h : s.findCol n = some c) : c.name = n ∧ c ∈ s.cols :=
  ⟨findCol_name h, findCol_mem h⟩

theorem findCol_complete (s : Store) (hn : NamesDistinct s) (c : Col) (hc : c ∈ s.cols) : s.findCol c.name = some c :=
  findCol_of_distinct hn hc

/-! ## R2 — the main pass of a numeric column over a buffer -/

/-- after `mainPass`, slot `i` is the fold of the ops of the chunk's sections addressed to `i`, in section order -/
theorem mainPass_slot (hash : Bytes → Nat) (col : Col) (k : NumKind) (hk : col.kind = .num k) (chunk : Nat)
    (hch : chunk < col.nchunks) (u : Buf) (hin : InBounds col (u.rangeOps chunk)) (i : Nat) :
    slot (mainPass hash col chunk u).1 i =
      ((u.rangeOps chunk).filter (fun o => o.idx = i)).foldl (slotEffect col.merge k.width) (slot col i) ∧
    (mainPass hash col chunk u).2.2 = false ∧ SameShape col (mainPass hash col chunk u).1 :=
  ⟨mainPass_num_slot hash col k hk chunk hch u hin i, mainPass_num_panic hash col k hk chunk hch u,
   mainPass_num_shape hash col k hk chunk hch u⟩

/-- with the buffer invariant: these are the ops the transaction issued for that chunk and offset, in issue order;
    the in-bounds hypothesis follows from the shape of the column -/
theorem mainPass_slot_issued (hash : Bytes → Nat) (col : Col) (k : NumKind) (hk : col.kind = .num k) (chunk : Nat)
    (hch : chunk < col.nchunks) (hw : ColWF col) (u : Buf) (hu : u.Inv) (i : Nat) :
    slot (mainPass hash col chunk u).1 i =
      ((u.allOps.filter (fun o => chunkOf o.idx = chunk)).filter (fun o => o.idx = i)).foldl
        (slotEffect col.merge k.width) (slot col i) :=
  mainPass_num_slot_issued hash col k hk chunk hch hw u hu.chunkOK i

/-- the sections of the other chunks are not touched by the pass (they are still there for their own pass) -/
theorem mainPass_other_chunks (hash : Bytes → Nat) (col : Col) (k : NumKind) (hk : col.kind = .num k) (chunk : Nat)
    (hch : chunk < col.nchunks) (u : Buf) (c2 : Nat) (h : c2 ≠ chunk) :
    (mainPass hash col chunk u).2.1.range c2 = u.range c2 ∧ (mainPass hash col chunk u).2.1.column = u.column :=
  ⟨mainPass_num_range_other hash col k hk chunk hch u c2 h, mainPass_num_column hash col k hk chunk hch u⟩

/-! ## R3 — `commitUpdates` -/

/-- `bufferFor` / `putOp` keep the buffer names of a transaction pairwise distinct -/
theorem buffers_distinct (t : Txn) (name : String) (o : Op) (h : BufsDistinct t.updates) :
    BufsDistinct (t.bufferFor name).updates ∧ BufsDistinct (t.putOp name o).updates :=
  ⟨bufferFor_distinct t name h, putOp_distinct t name o h⟩

example : BufsDistinct ({} : Txn).updates := by decide

/-- after `commitUpdates chunk ups`: the numeric column `x` resolves to a column of the same shape whose every slot is the
    fold of the ops its buffer(s) hold for the chunk (`opsFor`: in buffer order, each buffer's sections in order).
    Nothing is assumed about the other buffers but that `x` is not one of their computed columns. -/
theorem commitUpdates_read (s : Store) (chunk : Nat) (ups : List Buf) (x : String) (k : NumKind) (col : Col)
    (hxr : x ≠ rowColumn) (hf : s.findCol x = some col) (hk : col.kind = .num k) (hch : chunk < col.nchunks)
    (hcomp : ∀ v ∈ ups, ∀ c, s.findCol v.column = some c → x ∉ c.computed)
    (hin : ∀ v ∈ ups, v.column = x → InBounds col (v.rangeOps chunk)) :
    ∃ col', (s.commitUpdates chunk ups).1.findCol x = some col' ∧ SameShape col col' ∧
      ∀ i, slot col' i =
        ((opsFor ups x chunk).filter (fun o => o.idx = i)).foldl (slotEffect col.merge k.width) (slot col i) :=
  Store.commitUpdates_read s chunk ups x k col hxr hf hk hch hcomp hin

/-- with distinct buffer names, `opsFor` is the chunk's ops of the one buffer of `x` -/
theorem opsFor_single (ups : List Buf) (h : BufsDistinct ups) (u : Buf) (hu : u ∈ ups) (chunk : Nat) :
    opsFor ups u.column chunk = u.rangeOps chunk := by
  induction ups with
  | nil => cases hu
  | cons v vs ih =>
    unfold BufsDistinct at h
    simp only [List.map_cons, List.nodup_cons] at h
    rcases List.mem_cons.1 hu with rfl | hu
    · rw [opsFor_cons_self u vs u.column chunk rfl]
      have : opsFor vs u.column chunk = [] := by
        unfold opsFor
        have : vs.filter (fun b => b.column == u.column) = [] := by
          rw [List.filter_eq_nil_iff]
          intro w hw e
          exact h.1 (List.mem_map.2 ⟨w, hw, by simpa using e⟩)
        rw [this]; rfl
      rw [this, List.append_nil]
    · have hne : v.column ≠ u.column := fun e => h.1 (List.mem_map.2 ⟨u, hu, e.symm⟩)
      rw [opsFor_cons_other v vs u.column chunk hne]
      exact ih h.2 hu

/-- a column that is neither a buffer's column nor a computed column of one is unchanged by `commitUpdates`
    (in particular: no buffer for `x` ⇒ `findCol x` unchanged) -/
theorem commitUpdates_unchanged (s : Store) (chunk : Nat) (ups : List Buf) (x : String)
    (hne : ∀ v ∈ ups, v.column ≠ x) (hcomp : ∀ v ∈ ups, ∀ c, s.findCol v.column = some c → x ∉ c.computed) :
    (s.commitUpdates chunk ups).1.findCol x = s.findCol x := by
  rw [commitUpdates_eq]
  exact commitUpdates_frame chunk ups x s [] false hne hcomp

/-- `commitUpdates` never changes names, kinds, computed lists, allocation, the hash function, the fill list or the
    commit table -/
theorem commitUpdates_sim (s : Store) (chunk : Nat) (ups : List Buf) : Sim s (s.commitUpdates chunk ups).1 := by
  rw [commitUpdates_eq]; exact cuFold_sim chunk ups s [] false

/-! ## R4 — `commitMarkers` -/

/-- numeric column: after the markers of the chunk every slot is the fold of the markers addressed to it -/
theorem commitMarkers_read (s : Store) (chunk : Nat) (m : Buf) (x : String) (k : NumKind) (col : Col)
    (hf : s.findCol x = some col) (hk : col.kind = .num k) (hch : chunk < col.nchunks)
    (hin : InBounds col (m.rangeOps chunk)) :
    ∃ col', (s.commitMarkers chunk m).findCol x = some col' ∧ SameShape col col' ∧
      ∀ i, slot col' i =
        ((m.rangeOps chunk).filter (fun o => o.idx = i)).foldl (slotEffect col.merge k.width) (slot col i) :=
  Store.commitMarkers_read s chunk m x k col hf hk hch hin

/-- every data column (numeric, string, enum, key, record): with a marker buffer holding `Insert` / `Delete` ops, slot `i`
    keeps its raw data and its presence bit is cleared iff the last marker addressed to `i` is a `Delete`
    (an `Insert` leaves the slot untouched) -/
theorem commitMarkers_read_data (s : Store) (chunk : Nat) (m : Buf) (x : String) (col : Col)
    (hf : s.findCol x = some col) (hd : col.kind.isData = true) (hch : chunk < col.nchunks)
    (hm : ∀ o ∈ m.rangeOps chunk, isMarkerOp o) (hin : ∀ o ∈ m.rangeOps chunk, o.idx < col.bits.size) :
    ∃ col', (s.commitMarkers chunk m).findCol x = some col' ∧ SameSig col col' ∧
      ∀ i, slot col' i =
        ((m.rangeOps chunk).filter (fun o => o.idx = i)).foldl
          (fun st o => (if o.typ = opDelete then false else st.1, st.2)) (slot col i) :=
  Store.commitMarkers_read_data s chunk m x col hf hd hch hm hin

/-- the fill list: bit `j` is the fold of the markers addressed to `j` (`Insert` sets, `Delete` clears) -/
theorem commitMarkers_fill (s : Store) (chunk : Nat) (m : Buf) (j : Nat) :
    Bits.get (s.commitMarkers chunk m).fill j =
      ((m.rangeOps chunk).filter (fun o => o.idx = j)).foldl (flagEffect opInsert) (Bits.get s.fill j) := by
  rw [Store.commitMarkers_fill, foldFill_get]

/-- under `Covered s chunk` the markers raise no panic; without it they do (a data column without the chunk) -/
theorem commitMarkers_no_panic (s : Store) (chunk : Nat) (m : Buf) (hcov : Covered s chunk)
    (hm : ∀ o ∈ m.rangeOps chunk, chunkOf o.idx = chunk) : (s.commitMarkers chunk m).panicked = s.panicked :=
  Store.commitMarkers_no_panic s chunk m hcov hm

/-! ## R5 — `commitChunk`, `commit` -/

/-- one dirty chunk (`commitChunk`): markers first, then the column buffers -/
theorem commitChunk_read (s : Store) (chunk : Nat) (ups : List Buf) (x : String) (k : NumKind) (col : Col)
    (hxr : x ≠ rowColumn) (hf : s.findCol x = some col) (hk : col.kind = .num k) (hch : chunk < col.nchunks)
    (hcomp : ∀ v ∈ ups, ∀ c, s.findCol v.column = some c → x ∉ c.computed)
    (hinm : InBounds col (markerOps ups chunk))
    (hin : ∀ v ∈ ups, v.column = x → InBounds col (v.rangeOps chunk)) :
    ∃ col', (s.commitChunk chunk (ups.find? isMarkerBuf).isSome ups).1.findCol x = some col' ∧ SameShape col col' ∧
      ∀ i, slot col' i =
        ((markerOps ups chunk ++ opsFor ups x chunk).filter (fun o => o.idx = i)).foldl
          (slotEffect col.merge k.width) (slot col i) :=
  (Store.commitChunk_read s chunk ups x k col hxr hf hk hch hcomp hinm hin).2.1

/-- frame: the pass of chunk `c` only touches offsets `i` with `i / 16384 = c` -/
theorem commitChunk_frame (s : Store) (chunk : Nat) (ups : List Buf) (x : String) (k : NumKind) (col : Col)
    (hxr : x ≠ rowColumn) (hf : s.findCol x = some col) (hk : col.kind = .num k) (hch : chunk < col.nchunks)
    (hw : ColWF col) (hcomp : ∀ v ∈ ups, ∀ c, s.findCol v.column = some c → x ∉ c.computed)
    (hco : ChunkOps x ups [chunk]) (i : Nat) (hi : chunkOf i ≠ chunk) :
    ∃ col', (s.commitChunk chunk (ups.find? isMarkerBuf).isSome ups).1.findCol x = some col' ∧ slot col' i = slot col i := by
  have hinm : InBounds col (markerOps ups chunk) :=
    inBounds_of_chunk col chunk _ hw hch (markerOps_chunk x ups [chunk] hco chunk (by simp))
  have hin : ∀ v ∈ ups, v.column = x → InBounds col (v.rangeOps chunk) := fun v hv hvx =>
    inBounds_of_chunk col chunk _ hw hch (hco v hv (Or.inl hvx) chunk (by simp))
  obtain ⟨col', f, _, sl⟩ := commitChunk_read s chunk ups x k col hxr hf hk hch hcomp hinm hin
  refine ⟨col', f, ?_⟩
  rw [sl i]
  apply foldl_filter_none
  intro o ho e
  apply hi
  rw [← e]
  rcases List.mem_append.1 ho with ho | ho
  · exact markerOps_chunk x ups [chunk] hco chunk (by simp) o ho
  · exact opsFor_chunk x ups [chunk] hco chunk (by simp) o ho

/-- **`commit_readback`** (any number of dirty chunks): see the header. `markerAll` = all ops of the marker buffer
    `findMarkers` finds, `allFor x` = all ops of the buffer(s) named `x`, both in issue order. -/
theorem commit_readback (s : Store) (t : Txn) (x : String) (k : NumKind) (col : Col)
    (hxr : x ≠ rowColumn) (hf : s.findCol x = some col) (hk : col.kind = .num k) (hw : ColWF col)
    (hcov : s.commits.size ≤ col.nchunks)
    (hcomp : ∀ v ∈ t.updates, ∀ c, s.findCol v.column = some c → x ∉ c.computed)
    (hinv : ∀ v ∈ t.updates, (v.column = x ∨ isMarkerBuf v = true) → ChunkOK v) :
    ∃ col', (s.commit t).findCol x = some col' ∧ col'.kind = .num k ∧ col'.merge = col.merge ∧ ColWF col' ∧
      col.nchunks ≤ col'.nchunks ∧ (∀ c ∈ t.dirtyChunks, c < col'.nchunks) ∧
      ∀ i, slot col' i =
        ((markerAll t.updates ++ allFor t.updates x).filter (fun o => o.idx = i)).foldl
          (slotEffect col.merge k.width) (slot col i) :=
  Store.commit_readback s t x k col hxr hf hk hw hcov hcomp hinv

/-- the same for buffers built through the writer API (`Buf.Inv`) with distinct names (`bufferFor`): the markers are the
    ops of the `row` buffer, the ops of `x` those of its one buffer `u` -/
theorem commit_readback_distinct (s : Store) (t : Txn) (u : Buf) (k : NumKind) (col : Col)
    (hu : u ∈ t.updates) (hd : BufsDistinct t.updates)
    (hxr : u.column ≠ rowColumn) (hf : s.findCol u.column = some col) (hk : col.kind = .num k) (hw : ColWF col)
    (hcov : s.commits.size ≤ col.nchunks)
    (hcomp : ∀ v ∈ t.updates, ∀ c, s.findCol v.column = some c → u.column ∉ c.computed)
    (hinv : ∀ v ∈ t.updates, v.Inv) :
    ∃ col', (s.commit t).findCol u.column = some col' ∧ col'.kind = .num k ∧ ColWF col' ∧
      ∀ i, slot col' i =
        ((allFor t.updates rowColumn ++ u.allOps).filter (fun o => o.idx = i)).foldl
          (slotEffect col.merge k.width) (slot col i) := by
  obtain ⟨col', f, k', _, w', _, _, sl⟩ := commit_readback s t u.column k col hxr hf hk hw hcov hcomp
    (fun v hv _ => (hinv v hv).chunkOK)
  refine ⟨col', f, k', w', ?_⟩
  intro i
  rw [sl i, markerAll_of_distinct _ hd, allFor_of_distinct _ hd u hu]

/-- single dirty chunk `c`, phrased with what the reader of chunk `c` yields (`Buf.rangeOps c`): markers' effect first,
    then the ops issued for `x`, in issue order -/
theorem commit_readback_single_chunk (s : Store) (t : Txn) (c : Nat) (x : String) (k : NumKind) (col : Col)
    (hdirty : t.dirtyChunks = [c])
    (hxr : x ≠ rowColumn) (hf : s.findCol x = some col) (hk : col.kind = .num k) (hw : ColWF col)
    (hcov : s.commits.size ≤ col.nchunks)
    (hcomp : ∀ v ∈ t.updates, ∀ c, s.findCol v.column = some c → x ∉ c.computed)
    (hinv : ∀ v ∈ t.updates, (v.column = x ∨ isMarkerBuf v = true) → ChunkOK v) :
    ∃ col', (s.commit t).findCol x = some col' ∧ col'.kind = .num k ∧ ColWF col' ∧ c < col'.nchunks ∧
      ∀ i, slot col' i =
        ((markerOps t.updates c ++ opsFor t.updates x c).filter (fun o => o.idx = i)).foldl
          (slotEffect col.merge k.width) (slot col i) := by
  obtain ⟨col', f, k', _, w', _, d', sl⟩ := commit_readback s t x k col hxr hf hk hw hcov hcomp hinv
  refine ⟨col', f, k', w', d' c (by rw [hdirty]; simp), ?_⟩
  intro i
  rw [sl i]
  by_cases hi : chunkOf i = c
  · rw [List.filter_append, List.filter_append, ← hi,
      markerOps_filter_idx t.updates i (fun v hv hm => hinv v hv (Or.inr hm)),
      opsFor_filter_idx t.updates x i (fun v hv hx => hinv v hv (Or.inl hx))]
  · have hco : ChunkOps x t.updates [c] := fun v hv hor c' _ o ho => rangeOps_chunk v (hinv v hv hor) c' o ho
    have h1 : ((markerAll t.updates ++ allFor t.updates x).filter (fun o => o.idx = i)) = [] := by
      rw [List.filter_eq_nil_iff]
      intro o ho
      have := issued_chunk_dirty t x hinv o ho
      rw [hdirty] at this
      simp only [List.mem_singleton] at this
      intro e
      apply hi
      rw [← this]
      congr 1
      exact (by simpa using e : o.idx = i).symm
    have h2 : ((markerOps t.updates c ++ opsFor t.updates x c).filter (fun o => o.idx = i)) = [] := by
      rw [List.filter_eq_nil_iff]
      intro o ho e
      apply hi
      have e' : o.idx = i := by simpa using e
      rw [← e']
      rcases List.mem_append.1 ho with ho | ho
      · exact markerOps_chunk x t.updates [c] hco c (by simp) o ho
      · exact opsFor_chunk x t.updates [c] hco c (by simp) o ho
    rw [h1, h2]

/-- what the typed reader returns after the commit -/
theorem commit_read (s : Store) (t : Txn) (x : String) (k : NumKind) (col : Col)
    (hxr : x ≠ rowColumn) (hf : s.findCol x = some col) (hk : col.kind = .num k) (hw : ColWF col)
    (hcov : s.commits.size ≤ col.nchunks)
    (hcomp : ∀ v ∈ t.updates, ∀ c, s.findCol v.column = some c → x ∉ c.computed)
    (hinv : ∀ v ∈ t.updates, (v.column = x ∨ isMarkerBuf v = true) → ChunkOK v) :
    ∃ col', (s.commit t).findCol x = some col' ∧
      ∀ i, col'.read i =
        if i / 16384 < col'.nchunks ∧
            (((markerAll t.updates ++ allFor t.updates x).filter (fun o => o.idx = i)).foldl
              (slotEffect col.merge k.width) (slot col i)).1 = true then
          some (((markerAll t.updates ++ allFor t.updates x).filter (fun o => o.idx = i)).foldl
              (slotEffect col.merge k.width) (slot col i)).2
        else none := by
  obtain ⟨col', f, k', _, _, _, _, sl⟩ := commit_readback s t x k col hxr hf hk hw hcov hcomp hinv
  refine ⟨col', f, fun i => ?_⟩
  rw [read_raw col' (by rw [k']; rfl) i, sl i]

/-- the last store decides: when the last op (marker or column op) of the transaction addressed to `i` is a `Put`, a reader
    of `x` at `i` gets exactly its value — whatever the slot held before, whatever else the transaction did -/
theorem commit_read_last_put (s : Store) (t : Txn) (x : String) (k : NumKind) (col : Col)
    (hxr : x ≠ rowColumn) (hf : s.findCol x = some col) (hk : col.kind = .num k) (hw : ColWF col)
    (hcov : s.commits.size ≤ col.nchunks)
    (hcomp : ∀ v ∈ t.updates, ∀ c, s.findCol v.column = some c → x ∉ c.computed)
    (hinv : ∀ v ∈ t.updates, (v.column = x ∨ isMarkerBuf v = true) → ChunkOK v)
    (i : Nat) (pre : List Op) (p : Op) (hp : p.typ = opPut)
    (hlast : (markerAll t.updates ++ allFor t.updates x).filter (fun o => o.idx = i) = pre ++ [p]) :
    ∃ col', (s.commit t).findCol x = some col' ∧ col'.read i = some (valRaw p.val) := by
  obtain ⟨col', f, k', _, _, _, d', sl⟩ := commit_readback s t x k col hxr hf hk hw hcov hcomp hinv
  refine ⟨col', f, ?_⟩
  have hmem : p ∈ (markerAll t.updates ++ allFor t.updates x).filter (fun o => o.idx = i) := by rw [hlast]; simp
  have hpi : p.idx = i := by simpa using (List.mem_filter.1 hmem).2
  have hdirty := issued_chunk_dirty t x hinv p (List.mem_filter.1 hmem).1
  have hlt := d' _ hdirty
  rw [hpi] at hlt
  unfold chunkOf chunkSize at hlt
  have he : ∀ st, slotEffect col.merge k.width st p = (true, valRaw p.val) := by
    intro st; unfold slotEffect; rw [if_pos hp]
  have hslot : slot col' i = (true, valRaw p.val) := by
    rw [sl i, hlast, List.foldl_append]
    exact he _
  rw [read_raw col' (by rw [k']; rfl) i, hslot, if_pos ⟨hlt, rfl⟩]

/-- … and when it is a `Delete` (row deleted through the marker, or a column delete) the reader finds nothing -/
theorem commit_read_last_delete (s : Store) (t : Txn) (x : String) (k : NumKind) (col : Col)
    (hxr : x ≠ rowColumn) (hf : s.findCol x = some col) (hk : col.kind = .num k) (hw : ColWF col)
    (hcov : s.commits.size ≤ col.nchunks)
    (hcomp : ∀ v ∈ t.updates, ∀ c, s.findCol v.column = some c → x ∉ c.computed)
    (hinv : ∀ v ∈ t.updates, (v.column = x ∨ isMarkerBuf v = true) → ChunkOK v)
    (i : Nat) (pre : List Op) (p : Op) (hp : p.typ = opDelete)
    (hlast : (markerAll t.updates ++ allFor t.updates x).filter (fun o => o.idx = i) = pre ++ [p]) :
    ∃ col', (s.commit t).findCol x = some col' ∧ col'.read i = none := by
  obtain ⟨col', f, k', _, _, _, _, sl⟩ := commit_readback s t x k col hxr hf hk hw hcov hcomp hinv
  refine ⟨col', f, ?_⟩
  have he : ∀ st, (slotEffect col.merge k.width st p).1 = false := by
    intro st; unfold slotEffect
    rw [if_neg (by rw [hp]; decide), if_neg (by rw [hp]; decide), if_pos hp]
  have hslot : (slot col' i).1 = false := by
    rw [sl i, hlast, List.foldl_append]
    exact he _
  rw [read_raw col' (by rw [k']; rfl) i, if_neg]
  intro h
  rw [hslot] at h
  exact absurd h.2 (by decide)

/-- rows the transaction does not address read exactly as before -/
theorem commit_read_untouched (s : Store) (t : Txn) (x : String) (k : NumKind) (col : Col)
    (hxr : x ≠ rowColumn) (hf : s.findCol x = some col) (hk : col.kind = .num k) (hw : ColWF col)
    (hcov : s.commits.size ≤ col.nchunks)
    (hcomp : ∀ v ∈ t.updates, ∀ c, s.findCol v.column = some c → x ∉ c.computed)
    (hinv : ∀ v ∈ t.updates, (v.column = x ∨ isMarkerBuf v = true) → ChunkOK v)
    (i : Nat) (hnone : ∀ o ∈ markerAll t.updates ++ allFor t.updates x, o.idx ≠ i) :
    ∃ col', (s.commit t).findCol x = some col' ∧ slot col' i = slot col i ∧ col'.read i = col.read i := by
  obtain ⟨col', f, k', _, w', n', _, sl⟩ := commit_readback s t x k col hxr hf hk hw hcov hcomp hinv
  have hs : slot col' i = slot col i := by
    rw [sl i]; exact foldl_filter_none _ _ i _ hnone
  refine ⟨col', f, hs, ?_⟩
  rw [read_raw col' (by rw [k']; rfl) i, read_raw col (by rw [hk]; rfl) i, hs]
  by_cases h1 : i / 16384 < col.nchunks
  · have h2 : i / 16384 < col'.nchunks := by omega
    simp only [h1, h2, true_and]
  · have hb : (slot col i).1 = false := by
      unfold slot
      simp only
      apply get_of_ge
      rw [hw.bsize]
      have : 16384 * col.nchunks ≤ 16384 * (i / 16384) := Nat.mul_le_mul_left _ (by omega)
      omega
    have hA : ¬ (i / 16384 < col'.nchunks ∧ (slot col i).1 = true) := by
      intro h; rw [hb] at h; exact absurd h.2 (by decide)
    have hB : ¬ (i / 16384 < col.nchunks ∧ (slot col i).1 = true) := fun h => h1 h.1
    rw [if_neg hA, if_neg hB]

/-- the fill list after the commit: `Insert` sets, `Delete` clears, last marker wins -/
theorem commit_fill (s : Store) (t : Txn) (hinv : ∀ m ∈ t.updates, isMarkerBuf m = true → ChunkOK m) (j : Nat) :
    Bits.get (s.commit t).fill j =
      ((markerAll t.updates).filter (fun o => o.idx = j)).foldl (flagEffect opInsert) (Bits.get s.fill j) :=
  Store.commit_fill s t hinv j

/-- the sticky panic flag is not raised (no Go panic), for transactions over columns of every kind -/
theorem commit_no_panic (s : Store) (t : Txn) (hcov : CoveredAll s) (hck : ComputedKinds s)
    (hinv : ∀ v ∈ t.updates, ChunkOK v) : (s.commit t).panicked = s.panicked :=
  Store.commit_no_panic s t hcov hck hinv

/-- the hypotheses on the store hold again after the commit: the statements chain over any sequence of commits -/
theorem commit_keeps_invariants (s : Store) (t : Txn) :
    (CoveredAll s → CoveredAll (s.commit t)) ∧ (ComputedKinds s → ComputedKinds (s.commit t)) ∧
    (∀ n c', (s.commit t).findCol n = some c' → ∃ c0, s.findCol n = some c0 ∧ c'.computed = c0.computed ∧ c'.kind = c0.kind) :=
  ⟨commit_coveredAll s t, commit_computedKinds s t, commit_back s t⟩

/-- … and so does "the column covers every committed chunk" for the column of `commit_readback` -/
theorem commit_keeps_cover (s : Store) (t : Txn) (col col' : Col) (hcov : s.commits.size ≤ col.nchunks)
    (h1 : col.nchunks ≤ col'.nchunks) (h2 : ∀ c ∈ t.dirtyChunks, c < col'.nchunks) :
    (s.commit t).commits.size ≤ col'.nchunks := commit_cov s t col col' hcov h1 h2

/-- **any sequence of committed transactions** (fixed schema): every slot of `x` is the fold of everything the transactions
    issued for that offset, transaction after transaction, each in issue order — so a reader gets "the value most recently
    committed for that row and column" -/
theorem commits_readback (x : String) (k : NumKind) (hxr : x ≠ rowColumn) (ts : List Txn) (s : Store) (col : Col)
    (hf : s.findCol x = some col) (hk : col.kind = .num k) (hw : ColWF col) (hcov : s.commits.size ≤ col.nchunks)
    (hcomp : ∀ t ∈ ts, ∀ v ∈ t.updates, ∀ c, s.findCol v.column = some c → x ∉ c.computed)
    (hinv : ∀ t ∈ ts, ∀ v ∈ t.updates, (v.column = x ∨ isMarkerBuf v = true) → ChunkOK v) :
    ∃ col', (ts.foldl Store.commit s).findCol x = some col' ∧ col'.kind = .num k ∧ ColWF col' ∧
      ∀ i, slot col' i =
        ((ts.flatMap (fun t => issued t x)).filter (fun o => o.idx = i)).foldl
          (slotEffect col.merge k.width) (slot col i) := by
  obtain ⟨col', f, k', _, w', _, _, sl⟩ := Store.commits_readback x k hxr ts s col hf hk hw hcov hcomp hinv
  exact ⟨col', f, k', w', sl⟩

/-- no panic over any sequence of commits of well-formed buffers -/
theorem commits_no_panic (ts : List Txn) (s : Store) (hcov : CoveredAll s) (hck : ComputedKinds s)
    (hinv : ∀ t ∈ ts, ∀ v ∈ t.updates, ChunkOK v) : (ts.foldl Store.commit s).panicked = s.panicked := by
  induction ts generalizing s with
  | nil => rfl
  | cons t ts ih =>
    simp only [List.foldl_cons]
    rw [ih (s.commit t) (commit_coveredAll s t hcov) (commit_computedKinds s t hck) (fun t' ht' => hinv t' (by simp [ht'])),
      commit_no_panic s t hcov hck (hinv t (by simp))]

/-- stores built by `Store.new` + `commitCapacity` / `Col.grow`: growing a numeric column keeps `ColWF` and its slots -/
theorem grow_keeps (c : Col) (k : NumKind) (hk : c.kind = .num k) (hw : ColWF c) (idx : Nat) :
    ColWF (c.grow idx) ∧ c.nchunks ≤ (c.grow idx).nchunks ∧ idx / 16384 < (c.grow idx).nchunks ∧
    ∀ i, slot (c.grow idx) i = slot c i := grow_num c k hk hw idx

/-! ## R7 — non-vacuity: a store with a 16-bit counter column, a transaction over two chunks -/

def exCol : Col :=
  { name := "n", kind := .num .u16, nchunks := 1, bits := Array.replicate 16384 false, data := Array.replicate 16384 [],
    merge := fun v d => natToBE 2 (beNat v + beNat d) }

def exStore : Store := { cols := #[exCol], commits := #[0] }

/-- insert row 3 (marker), write 7 to it, add 1 twice, write 5 to row 20000 (second chunk), delete row 9 -/
def exTxn : Txn :=
  ([(rowColumn, ⟨opInsert, 3, .fixed 0 []⟩), ("n", ⟨opPut, 3, .fixed 1 [0, 7]⟩), ("n", ⟨opMerge, 3, .fixed 1 [0, 1]⟩),
    ("n", ⟨opPut, 20000, .fixed 1 [0, 5]⟩), ("n", ⟨opMerge, 3, .fixed 1 [0, 1]⟩),
    (rowColumn, ⟨opDelete, 9, .fixed 0 []⟩)] : List (String × Op)).foldl (fun t p => t.putOp p.1 p.2) {}

theorem exStore_find : exStore.findCol "n" = some exCol := by
  simp [exStore, Store.findCol, exCol]
theorem exCol_wf : ColWF exCol := ⟨by simp [exCol], by simp [exCol]⟩
example : exTxn.dirtyChunks = [0, 1] := by decide
example : BufsDistinct exTxn.updates := by decide
example : ∀ v ∈ exTxn.updates, ∀ s ∈ v.rsecs, ∀ o ∈ s.rops, chunkOf o.idx = s.chunk := by decide

theorem exTxn_chunkOK : ∀ v ∈ exTxn.updates, ChunkOK v := by
  have : ∀ v ∈ exTxn.updates, ∀ s ∈ v.rsecs, ∀ o ∈ s.rops, chunkOf o.idx = s.chunk := by decide
  exact this

theorem exStore_computed : ∀ n c, exStore.findCol n = some c → c.computed = [] := by
  intro n c h
  have := findCol_mem h
  simp only [exStore, List.mem_toArray, List.mem_singleton] at this
  rw [this]; rfl

/-- the hypotheses of `commit_readback` hold for the example, so its conclusion does -/
theorem ex_readback :
    ∃ col', (exStore.commit exTxn).findCol "n" = some col' ∧ col'.read 3 = some [0, 9] ∧ col'.read 20000 = some [0, 5] ∧
      col'.read 9 = none ∧ col'.read 4 = none := by
  obtain ⟨col', f, k', _, _, _, d', sl⟩ := commit_readback exStore exTxn "n" .u16 exCol (by decide) exStore_find rfl exCol_wf
    (by decide) (fun v _ c hc => by rw [exStore_computed _ c hc]; simp) (fun v hv _ => exTxn_chunkOK v hv)
  have h0 := d' 0 (by decide)
  have h1 := d' 1 (by decide)
  have e3 : slot col' 3 = (true, [0, 9]) := by
    rw [sl 3]
    have : slot exCol 3 = (false, []) := by simp [slot, exCol, Bits.get]
    rw [this]; decide
  have e2 : slot col' 20000 = (true, [0, 5]) := by
    rw [sl 20000]
    have : slot exCol 20000 = (false, []) := by simp [slot, exCol, Bits.get]
    rw [this]; decide
  have e9 : (slot col' 9).1 = false := by
    rw [sl 9]
    have : slot exCol 9 = (false, []) := by simp [slot, exCol, Bits.get]
    rw [this]; decide
  have e4 : (slot col' 4).1 = false := by
    rw [sl 4]
    have : slot exCol 4 = (false, []) := by simp [slot, exCol, Bits.get]
    rw [this]; decide
  refine ⟨col', f, ?_, ?_, ?_, ?_⟩
  · rw [read_raw col' (by rw [k']; rfl), e3, if_pos ⟨by omega, rfl⟩]
  · rw [read_raw col' (by rw [k']; rfl), e2, if_pos ⟨by omega, rfl⟩]
  · rw [read_raw col' (by rw [k']; rfl), if_neg (by rw [e9]; simp)]
  · rw [read_raw col' (by rw [k']; rfl), if_neg (by rw [e4]; simp)]

/-- `CoveredAll` / `ComputedKinds` hold for the example store, so `commit_no_panic` applies -/
theorem exStore_covered : CoveredAll exStore := by
  intro chunk hlt c hc
  simp only [exStore, List.mem_toArray, List.mem_singleton] at hc
  have hch : chunk = 0 := by
    have : exStore.commits.size = 1 := rfl
    omega
  subst hch
  rw [hc]
  exact ⟨fun _ => by decide, fun h => by cases h⟩

theorem exStore_computedKinds : ComputedKinds exStore := by
  intro n c h m hm
  rw [exStore_computed n c h] at hm
  cases hm

example : (exStore.commit exTxn).panicked = false :=
  commit_no_panic exStore exTxn exStore_covered exStore_computedKinds exTxn_chunkOK

/-- the fill list of the example: row 3 inserted, row 9 (never inserted) stays clear -/
example : Bits.get (exStore.commit exTxn).fill 3 = true ∧ Bits.get (exStore.commit exTxn).fill 9 = false := by
  constructor
  · rw [commit_fill exStore exTxn (fun m hm _ => exTxn_chunkOK m hm) 3]; decide
  · rw [commit_fill exStore exTxn (fun m hm _ => exTxn_chunkOK m hm) 9]; decide

end ColumnVerif.Props.C01store
