import ColumnVerif.Lemmas.Sorted
/-!
# C16 — sorted index: invariant, per-offset semantics, ordered iteration

"Ascending iteration over a sorted index visits exactly the rows of the current selection that hold a
value in the indexed string column, each once, in non-decreasing order of their current values —
including rows with equal values, after any history of inserts, overwrites, merges and deletes."

* S1 `bytesLt` / `entryLt` are strict total orders.
* S2 `SortInv` (strictly sorted entries, every entry recorded in `back`) holds for the empty index and
  is kept by `applyOther` on any op list (and by the back-fill of `CreateSortIndex`).
* S3 the entry of an offset after a section is decided by the last Put / Delete addressed to it.
* S4 `Ascend` = the offsets of the entries, in entry order, restricted to the selection: no duplicates,
  exactly the selected offsets that have an entry, keys non-decreasing (ties in offset order).
* S5 concrete examples: equal keys coexist; non-vacuity of `SortInv`.
-/
namespace ColumnVerif.Props.C16
open ColumnVerif.Codec ColumnVerif.Bits ColumnVerif.Store

/-! ## S1 — the comparators are strict total orders -/

theorem bytesLt_irrefl (a : Bytes) : bytesLt a a = false := Store.bytesLt_irrefl a

theorem bytesLt_trans (a b c : Bytes) (h1 : bytesLt a b = true) (h2 : bytesLt b c = true) : bytesLt a c = true :=
  Store.bytesLt_trans h1 h2

theorem bytesLt_trichotomy (a b : Bytes) : bytesLt a b = true ∨ a = b ∨ bytesLt b a = true :=
  Store.bytesLt_trichotomy a b

theorem entryLt_irrefl (a : Bytes × Nat) : entryLt a a = false := Store.entryLt_irrefl a

theorem entryLt_trans (a b c : Bytes × Nat) (h1 : entryLt a b = true) (h2 : entryLt b c = true) :
    entryLt a c = true := Store.entryLt_trans h1 h2

theorem entryLt_trichotomy (a b : Bytes × Nat) : entryLt a b = true ∨ a = b ∨ entryLt b a = true :=
  Store.entryLt_trichotomy a b

/-- exactly one of the three cases holds -/
theorem entryLt_asymm (a b : Bytes × Nat) (h : entryLt a b = true) : entryLt b a = false ∧ a ≠ b := by
  refine ⟨Store.entryLt_asymm h, ?_⟩
  intro e; subst e; rw [Store.entryLt_irrefl] at h; cases h

theorem bytesLt_asymm (a b : Bytes) (h : bytesLt a b = true) : bytesLt b a = false ∧ a ≠ b :=
  ⟨Store.bytesLt_asymm h, Store.bytesLt_ne h⟩

/-! ## S2 — the invariant -/

/-- `SortInv c`: the entries are strictly sorted by `entryLt`, and every entry `(k, o)` is the one
    `back` records for `o` (hence at most one entry per offset) -/
example (c : Col) : SortInv c ↔
    (List.Pairwise (fun a b => entryLt a b = true) c.entries ∧
     ∀ k o, (k, o) ∈ c.entries → c.back.get? o = some k) := Iff.rfl

/-- a fresh sorted index (`CreateSortIndex` before the back-fill) -/
theorem sorted_empty_inv (name target : String) : SortInv { name := name, kind := .sorted target } := by
  refine ⟨List.Pairwise.nil, ?_⟩
  intro k o h
  cases h

/-- any column whose `entries` are empty -/
theorem sorted_nil_inv (c : Col) (h : c.entries = []) : SortInv c := by
  refine ⟨by rw [h]; exact List.Pairwise.nil, ?_⟩
  intro k o hm
  rw [h] at hm
  cases hm

/-- at most one entry per offset -/
theorem one_entry_per_offset (c : Col) (h : SortInv c) (a b : Bytes × Nat) (ha : a ∈ c.entries)
    (hb : b ∈ c.entries) (e : a.2 = b.2) : a = b := entry_unique c h ha hb e

/-- `applyOther` keeps the invariant, for every op list (and every column kind: the other kinds never
    touch `entries` / `back`) -/
theorem sorted_apply_inv (c : Col) (ops : List Op) (h : SortInv c) : SortInv (applyOther c ops).1 :=
  applyOther_inv c ops h

/-- a sorted index never panics -/
theorem sorted_apply_no_panic (c : Col) (t : String) (hk : c.kind = .sorted t) (ops : List Op) :
    (applyOther c ops).2 = false := by
  rw [applyOther_sorted c t hk]

/-- the invariant after any history of sections applied to a fresh index -/
theorem sorted_history_inv (name target : String) (history : List (List Op)) :
    SortInv (history.foldl (fun c ops => (applyOther c ops).1) { name := name, kind := .sorted target }) := by
  apply foldl_preserves SortInv
  · intro c ops h; exact applyOther_inv c ops h
  · exact sorted_empty_inv name target

/-- the back-fill of `CreateSortIndex` keeps the invariant -/
theorem sorted_backfill_inv (s : Store) (target : Col) (name tgt : String) :
    SortInv (s.backfill target { name := name, kind := .sorted tgt }).1 :=
  backfill_inv s target _ (sorted_empty_inv name tgt)

/-! ## S3 — the entry of an offset -/

example (c : Col) (o : Nat) : entryOf c o = (c.entries.find? (fun e => e.2 = o)).map (·.1) := rfl

/-- under the invariant `entryOf` is membership -/
theorem entryOf_eq_some (c : Col) (h : SortInv c) (o : Nat) (k : Bytes) :
    entryOf c o = some k ↔ (k, o) ∈ c.entries := entryOf_eq_some_iff c h o k

/-- the entry of offset `o` after a section: the fold of the Puts / Deletes addressed to `o`, in
    order, over its previous entry. A Put after a Put replaces, a Delete removes, delete-then-reinsert
    works; ops on other offsets — even with the same key — do not matter. -/
theorem sorted_apply_sem (c : Col) (t : String) (hk : c.kind = .sorted t) (h : SortInv c) (ops : List Op) (o : Nat) :
    entryOf (applyOther c ops).1 o =
      (ops.filter (·.idx = o)).foldl
        (fun cur op => if op.typ = opPut then some (valRaw op.val) else if op.typ = opDelete then none else cur)
        (entryOf c o) := by
  rw [applyOther_sorted c t hk]
  exact foldl_sortedStep_sem ops c h o

/-- the kind (and name) of the column do not change -/
theorem sorted_apply_kind (c : Col) (t : String) (hk : c.kind = .sorted t) (ops : List Op) :
    (applyOther c ops).1.kind = .sorted t ∧ (applyOther c ops).1.name = c.name := by
  rw [applyOther_sorted c t hk]
  simp only
  have : ∀ (c' : Col), (c'.kind = .sorted t ∧ c'.name = c.name) →
      ((ops.foldl sortedStep c').kind = .sorted t ∧ (ops.foldl sortedStep c').name = c.name) := by
    intro c' hc'
    apply foldl_preserves (fun (a : Col) => a.kind = .sorted t ∧ a.name = c.name) _ _ ops c' hc'
    intro a o ha
    unfold sortedStep
    split
    · exact ha
    · split
      · exact ha
      · exact ha
  exact this c ⟨hk, rfl⟩

/-! ## S4 — ascending iteration -/

/-- membership of offset `o` in the transaction's selection when `Ascend` runs -/
def selected (s : Store) (t : Txn) (o : Nat) : Bool := Bits.get (t.initialize s).sel o

/-- the current key of offset `o` in the index -/
def keyOf (c : Col) (o : Nat) : Bytes := (entryOf c o).getD []

/-- what `Ascend` returns for a sorted index -/
theorem ascend_eq (s : Store) (t : Txn) (name tgt : String) (c : Col)
    (hc : s.findCol name = some c) (hk : c.kind = .sorted tgt) :
    t.ascend s name = (t.initialize s, some ((c.entries.map (·.2)).filter (selected s t))) := by
  unfold Txn.ascend
  simp only [hc, hk]
  rfl

theorem ascend_nodup (s : Store) (t : Txn) (c : Col) (h : SortInv c) :
    ((c.entries.map (·.2)).filter (selected s t)).Nodup :=
  (offsets_nodup c h).filter _

theorem ascend_mem (s : Store) (t : Txn) (c : Col) (o : Nat) :
    o ∈ (c.entries.map (·.2)).filter (selected s t) ↔ selected s t o = true ∧ (entryOf c o).isSome = true := by
  rw [List.mem_filter, entryOf_isSome_iff, List.mem_map, and_comm]
  constructor
  · rintro ⟨hs, ⟨k, o'⟩, hm, e⟩
    simp only at e; subst e
    exact ⟨hs, k, hm⟩
  · rintro ⟨hs, k, hm⟩
    exact ⟨hs, (k, o), hm, rfl⟩

theorem ascend_sorted (s : Store) (t : Txn) (c : Col) (h : SortInv c) :
    List.Pairwise (fun a b => ¬ bytesLt (keyOf c b) (keyOf c a) = true)
      ((c.entries.map (·.2)).filter (selected s t)) :=
  (offsets_keys_sorted c h).filter _

/-- C16: `Ascend` over a sorted index that satisfies the invariant returns a list `l` that
    has no duplicates, contains exactly the selected offsets holding an entry, and whose keys never
    decrease -/
theorem ascend_sem (s : Store) (t : Txn) (name tgt : String) (c : Col)
    (hc : s.findCol name = some c) (hk : c.kind = .sorted tgt) (h : SortInv c) :
    ∃ l, (t.ascend s name).2 = some l ∧
      l = (c.entries.map (·.2)).filter (selected s t) ∧
      l.Nodup ∧
      (∀ o, o ∈ l ↔ selected s t o = true ∧ (entryOf c o).isSome = true) ∧
      List.Pairwise (fun a b => ¬ bytesLt (keyOf c b) (keyOf c a) = true) l := by
  refine ⟨_, by rw [ascend_eq s t name tgt c hc hk], rfl, ascend_nodup s t c h, ?_, ascend_sorted s t c h⟩
  intro o
  exact ascend_mem s t c o

/-- the same on the entries: the visited offsets are those of the sub-list of selected entries, which is
    strictly sorted by (key, offset) — equal keys are visited in offset order — and each visited
    offset's current key is the key of its entry -/
theorem ascend_entries (s : Store) (t : Txn) (c : Col) (h : SortInv c) :
    let sub := c.entries.filter (fun e => selected s t e.2)
    (c.entries.map (·.2)).filter (selected s t) = sub.map (·.2) ∧
    List.Pairwise (fun a b => entryLt a b = true) sub ∧
    List.Sublist sub c.entries ∧
    ∀ e ∈ sub, keyOf c e.2 = e.1 := by
  refine ⟨?_, h.1.filter _, List.filter_sublist, ?_⟩
  · rw [List.filter_map]; rfl
  · intro e he
    unfold keyOf
    rw [entryOf_of_mem c h (List.mem_filter.mp he).1]
    rfl

/-- S3 + S4: after a section, `Ascend` visits the selected offsets whose last Put / Delete is a Put -/
theorem ascend_after_apply (s : Store) (t : Txn) (c : Col) (tgt : String) (hk : c.kind = .sorted tgt)
    (h : SortInv c) (ops : List Op) (o : Nat) :
    o ∈ ((applyOther c ops).1.entries.map (·.2)).filter (selected s t) ↔
      selected s t o = true ∧
      ((ops.filter (·.idx = o)).foldl
        (fun cur op => if op.typ = opPut then some (valRaw op.val) else if op.typ = opDelete then none else cur)
        (entryOf c o)).isSome = true := by
  rw [ascend_mem, sorted_apply_sem c tgt hk h]

/-! ## the index follows its string column (extra; guard D12) -/

/-- `strVal c o`: the value the string / record column `c` holds at `o`; `InSync c ix`: the index has
    an entry for `o` iff the column holds a value there, and the entry's key is that value -/
example (c ix : Col) : InSync c ix ↔ ∀ o, entryOf ix o = strVal c o := Iff.rfl

example (c : Col) (o : Nat) :
    strVal c o = if Bits.get c.bits o then some ((c.data[o]?).getD []) else none := rfl

/-- `strVal` is what `LoadString` returns (presence bitmap no longer than the allocated chunks) -/
theorem strVal_is_read (c : Col) (hk : c.kind = .str ∨ c.kind = .record)
    (hsz : c.bits.size ≤ 16384 * c.nchunks) (o : Nat) : c.read o = strVal c o :=
  read_eq_strVal c hk hsz o

/-- one section applied to a string column (main pass: Puts, Deletes, merges rewritten in place
    into Puts of the merged value) and then, as rewritten, to its sorted index: if they agreed before
    they agree after — provided no merge of the section changed the length of its delta (the section
    appended nothing: finding D12 otherwise). -/
theorem sorted_sync_apply (hash : Bytes → Nat) (c ix : Col) (t : String) (chunk : Nat) (ops : List Op)
    (hk : c.kind = .str ∨ c.kind = .record) (hik : ix.kind = .sorted t)
    (hch : chunk < c.nchunks) (hin : InBounds c ops) (hinv : SortInv ix) (hs : InSync c ix)
    (happ : (applyData hash c chunk ops).appended = []) :
    InSync (applyData hash c chunk ops).col (applyOther ix (applyData hash c chunk ops).ops).1 :=
  applyData_sync hash c ix t chunk ops hk hik hch hin hinv hs happ

/-- in particular for sections of Puts and Deletes only -/
theorem sorted_sync_apply_nomerge (hash : Bytes → Nat) (c ix : Col) (t : String) (chunk : Nat) (ops : List Op)
    (hk : c.kind = .str ∨ c.kind = .record) (hik : ix.kind = .sorted t)
    (hch : chunk < c.nchunks) (hin : InBounds c ops) (hinv : SortInv ix) (hs : InSync c ix)
    (hm : ∀ o ∈ ops, o.typ ≠ opMerge) :
    InSync (applyData hash c chunk ops).col (applyOther ix (applyData hash c chunk ops).ops).1 :=
  applyData_sync hash c ix t chunk ops hk hik hch hin hinv hs (applyData_appended_nomerge hash c chunk ops hk hm)

/-- C16 in terms of the column: with index and column in sync, `Ascend` visits exactly the selected
    rows holding a value in the column, each once, in non-decreasing order of those values -/
theorem ascend_sem_column (s : Store) (t : Txn) (name tgt : String) (c ix : Col)
    (hc : s.findCol name = some ix) (hk : ix.kind = .sorted tgt) (h : SortInv ix) (hs : InSync c ix) :
    ∃ l, (t.ascend s name).2 = some l ∧
      l.Nodup ∧
      (∀ o, o ∈ l ↔ selected s t o = true ∧ (strVal c o).isSome = true) ∧
      List.Pairwise (fun a b => ¬ bytesLt ((strVal c b).getD []) ((strVal c a).getD []) = true) l := by
  obtain ⟨l, h1, _, h3, h4, h5⟩ := ascend_sem s t name tgt ix hc hk h
  refine ⟨l, h1, h3, ?_, ?_⟩
  · intro o; rw [h4 o, hs o]
  · apply List.Pairwise.imp _ h5
    intro a b hab
    unfold keyOf at hab
    rw [hs a, hs b] at hab
    exact hab

/-- the hypotheses are satisfiable: an empty string column and a fresh index are in sync -/
example : InSync { name := "name", kind := .str } { name := "by_name", kind := .sorted "name" } := by
  intro o
  simp [entryOf, strVal, Bits.get]

/-! ## S5 — concrete examples (non-vacuity) -/

/-- a fresh sorted index over the column `name` -/
def idx0 : Col := { name := "by_name", kind := .sorted "name" }
def putS (i : Nat) (k : Bytes) : Op := ⟨opPut, i, .str k⟩
def del (i : Nat) : Op := ⟨opDelete, i, .fixed 0 []⟩

/-- two rows with the same key are both present after two Puts, in offset order -/
theorem equal_keys_coexist :
    (applyOther idx0 [putS 1 [7], putS 2 [7]]).1.entries = [([7], 1), ([7], 2)] := by
  rw [applyOther_sorted idx0 "name" rfl]
  simp [sortedStep, idx0, putS, opPut, valRaw, insertSorted, entryLt, Std.HashMap.get?_eq_getElem?]

/-- the same through `entryOf` (by the general semantics theorem, no evaluation of the index) -/
example : entryOf (applyOther idx0 [putS 1 [7], putS 2 [7]]).1 1 = some [7] ∧
          entryOf (applyOther idx0 [putS 1 [7], putS 2 [7]]).1 2 = some [7] := by
  rw [sorted_apply_sem idx0 "name" rfl (sorted_empty_inv _ _), sorted_apply_sem idx0 "name" rfl (sorted_empty_inv _ _)]
  simp [putS, valRaw, entryOf, idx0]

/-- equal keys inserted in descending offset order still end up in offset order -/
example : (applyOther idx0 [putS 2 [7], putS 1 [7]]).1.entries = [([7], 1), ([7], 2)] := by
  rw [applyOther_sorted idx0 "name" rfl]
  simp [sortedStep, idx0, putS, opPut, valRaw, insertSorted, entryLt, Std.HashMap.get?_eq_getElem?]

/-- a history with an overwrite (offset 2: "\x07" → "\x09"), a delete-then-reinsert (offset 3) and
    three rows sharing the key "\x07" at some time -/
def history : List Op := [putS 2 [7], putS 1 [7], putS 3 [5], putS 2 [9], del 3, putS 3 [7, 0], putS 4 [7]]
def idx1 : Col := (applyOther idx0 history).1

theorem idx1_entries : idx1.entries = [([7], 1), ([7], 4), ([7, 0], 3), ([9], 2)] := by
  unfold idx1 history
  rw [applyOther_sorted idx0 "name" rfl]
  simp [sortedStep, idx0, putS, del, opPut, opDelete, valRaw, insertSorted, entryLt, bytesLt,
    Std.HashMap.get?_eq_getElem?, Std.HashMap.getElem_insert]

/-- non-vacuity: a non-empty index that satisfies the invariant -/
example : SortInv idx1 ∧ idx1.entries ≠ [] :=
  ⟨sorted_apply_inv idx0 history (sorted_empty_inv _ _), by rw [idx1_entries]; simp⟩

/-- the invariant is not trivially true: entries out of order violate it … -/
example : ¬ SortInv { name := "x", kind := .sorted "y", entries := [([7], 2), ([7], 1)] } := by
  intro h
  have := h.1
  simp [entryLt] at this

/-- … and so does an entry `back` does not know -/
example : ¬ SortInv { name := "x", kind := .sorted "y", entries := [([7], 2)] } := by
  intro h
  have := h.2 [7] 2 (by simp)
  simp [Std.HashMap.get?_eq_getElem?] at this

/-- `Ascend` on a concrete store: rows 1, 3, 4 selected (2 is not), keys "\x07", "\x07", "\x07\x00" -/
example :
    let st : Store := { cols := #[{ name := "name", kind := .str }, idx1] }
    let tx : Txn := { setup := true, sel := #[false, true, false, true, true, true] }
    (tx.ascend st "by_name").2 = some [1, 4, 3] := by
  intro st tx
  have hk : idx1.kind = .sorted "name" := (sorted_apply_kind idx0 "name" rfl history).1
  have hn : idx1.name = "by_name" := (sorted_apply_kind idx0 "name" rfl history).2
  have hc : st.findCol "by_name" = some idx1 := by
    simp [st, Store.findCol, hn]
  rw [ascend_eq st tx "by_name" "name" idx1 hc hk, idx1_entries]
  simp [selected, Txn.initialize, tx, Bits.get]

/-! ### the hypotheses of the sync theorem are satisfiable -/

def col0 : Col := Col.grow { name := "name", kind := .str } 0

theorem col0_shape : col0.kind = .str ∧ col0.nchunks = 1 ∧ col0.bits.size = 16384 ∧ col0.data.size = 16384 := by
  simp [col0, Col.grow]

theorem col0_sync : InSync col0 idx0 := by
  intro o
  have : Bits.get col0.bits o = false := by
    simp [col0, Col.grow, Bits.get, Array.getElem?_replicate]
    split <;> rfl
  simp [entryOf, strVal, this, idx0]

/-- all hypotheses of `sorted_sync_apply_nomerge` hold for a fresh one-chunk string column, a fresh
    index and the history of the examples above -/
example : InSync (applyData (fun _ => 0) col0 0 history).col
    (applyOther idx0 (applyData (fun _ => 0) col0 0 history).ops).1 := by
  apply sorted_sync_apply_nomerge _ col0 idx0 "name" 0 history (Or.inl col0_shape.1) rfl
  · rw [col0_shape.2.1]; decide
  · intro o ho
    rw [col0_shape.2.2.1, col0_shape.2.2.2]
    simp [history, putS, del] at ho
    rcases ho with h | h | h | h | h | h | h <;> (subst h; decide)
  · exact sorted_empty_inv _ _
  · exact col0_sync
  · intro o ho
    simp [history, putS, del] at ho
    rcases ho with h | h | h | h | h | h | h <;> (subst h; decide)
end ColumnVerif.Props.C16
