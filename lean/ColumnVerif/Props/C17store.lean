import ColumnVerif.Lemmas.TTL
import ColumnVerif.Props.C01
import ColumnVerif.Props.C01store
import ColumnVerif.Props.C17
/-!
# C17 at store level — `Set` / `Extend` move the stored deadline accordingly

`Props/C17.lean` proves the decision a vacuum pass takes for a stored value. Here the stored value is tied to what the
writer did: the deadline column `expire` is an ordinary `int64` column whose merge is wrapping addition (`addMerge64`),
`TTL.Set(ttl)` is a `Put` of the 8 big-endian bytes of `writeTTL now ttl`, `TTL.Extend(delta)` a `Merge` of the bytes of `delta`.

1. `int64OfBytes_natToBE`, `bytesOfInt64_int64OfBytes` — encoder / decoder are inverse (8 bytes, `int64` range);
2. `addMerge64_sem`, `addMerge64_no_overflow` — the default merge is two's-complement addition; without overflow it is `extendTTL`;
3. `extend_slot`, `extend_read`, `set_slot`, `set_read` — what one `applyData` pass leaves in the slot;
4. `set_then_vacuum`, `extend_then_vacuum` — the decision of a later pass on the value so written
   (`set_decision`, `extend_decision` are the same on bytes; `commit_set_then_vacuum`, `commit_extend_then_vacuum`,
   `commit_set_then_vacuumPass`, `commit_extend_then_vacuumPass` carry it through `Store.commit` and `Store.vacuumPass`);
5. `new_expire_column` — a new store has the `expire` column with that kind and merge.

`bytesOfInt64`, `wrap64` are defined in `Lemmas/TTL.lean` (not in the model):
`bytesOfInt64 x = natToBE 8 ((x % 2^64).toNat)`, `wrap64 x = ((x + 2^63) % 2^64) - 2^63`.
-/
namespace ColumnVerif.Props.C17store
open ColumnVerif.Codec ColumnVerif.Store ColumnVerif.Bits

/-! ## 1 — encoder / decoder -/

/-- an `int64` written as 8 big-endian bytes decodes to itself -/
theorem int64OfBytes_natToBE (x : Int) (hlo : -(2 ^ 63) ≤ x) (hhi : x < 2 ^ 63) :
    int64OfBytes (bytesOfInt64 x) = x := by
  rw [int64OfBytes_bytesOfInt64_wrap, wrap64_of_range x ⟨hlo, hhi⟩]

/-- without the range assumption: it decodes to the wrapped value -/
theorem int64OfBytes_natToBE_wrap (x : Int) : int64OfBytes (bytesOfInt64 x) = wrap64 x :=
  int64OfBytes_bytesOfInt64_wrap x

/-- 8 stored bytes are the encoding of what they decode to -/
theorem bytesOfInt64_int64OfBytes (bs : Bytes) (h : bs.length = 8) : bytesOfInt64 (int64OfBytes bs) = bs :=
  bytesOfInt64_int64OfBytes8 bs h

/-- … and what they decode to is an `int64` -/
theorem int64OfBytes_in_range (bs : Bytes) (h : bs.length = 8) :
    -(2 ^ 63) ≤ int64OfBytes bs ∧ int64OfBytes bs < 2 ^ 63 := int64OfBytes_range bs h

theorem bytesOfInt64_len (x : Int) : (bytesOfInt64 x).length = 8 := bytesOfInt64_length x

/-! ## 2 — the default merge of the deadline column -/

/-- `addMerge64` is two's-complement (wrapping) addition. The length hypotheses of the task (`v`, `d` 8 bytes) are not
    needed: the statement holds for byte strings of any length. -/
theorem addMerge64_sem (v d : Bytes) :
    int64OfBytes (addMerge64 v d) = wrap64 (int64OfBytes v + int64OfBytes d) := int64OfBytes_addMerge64 v d

/-- no overflow ⇒ `Extend` adds exactly -/
theorem addMerge64_no_overflow (v d : Bytes)
    (hlo : -(2 ^ 63) ≤ int64OfBytes v + int64OfBytes d) (hhi : int64OfBytes v + int64OfBytes d < 2 ^ 63) :
    int64OfBytes (addMerge64 v d) = extendTTL (int64OfBytes v) (int64OfBytes d) := by
  rw [addMerge64_sem, wrap64_of_range _ ⟨hlo, hhi⟩]; rfl

/-- the merged bytes themselves: always 8 bytes, the encoding of the sum -/
theorem addMerge64_bytes (v d : Bytes) :
    addMerge64 v d = bytesOfInt64 (int64OfBytes v + int64OfBytes d) ∧ (addMerge64 v d).length = 8 :=
  ⟨addMerge64_eq v d, addMerge64_length v d⟩

/-! ## 3 — column level: one `applyData` pass over the deadline column -/

/-- `Extend(delta)`: after the pass, the slot addressed by the last op for that offset — a `Merge` carrying the bytes of
    `delta` — is present and holds the encoding of `old + delta`, where `old` is what the slot held just before the op
    (its content before the pass folded with the earlier ops of the section addressed to it). Nothing is assumed about the
    presence bit or the length of the old content (an empty slot counts as 0, as `padTo` does). -/
theorem extend_slot (hash : Bytes → Nat) (c : Col) (hk : c.kind = .num .i64) (hm : c.merge = addMerge64) (chunk : Nat)
    (hc : chunk < c.nchunks) (pre post : List Op) (p : Op) (hin : InBounds c (pre ++ p :: post))
    (hp : p.typ = opMerge) (code : Nat) (delta : Int) (hv : p.val = .fixed code (bytesOfInt64 delta))
    (hpost : ∀ o ∈ post, o.idx ≠ p.idx) :
    slot (applyData hash c chunk (pre ++ p :: post)).col p.idx =
      (true, bytesOfInt64 (int64OfBytes
        ((pre.filter (fun o => o.idx = p.idx)).foldl (slotEffect addMerge64 8) (slot c p.idx)).2 + delta)) := by
  rw [(C01.num_slot_fold hash c .i64 hk chunk hc _ hin p.idx).1]
  have hf : (pre ++ p :: post).filter (fun o => o.idx = p.idx) = pre.filter (fun o => o.idx = p.idx) ++ [p] := by
    rw [List.filter_append, List.filter_cons]
    have : post.filter (fun o => o.idx = p.idx) = [] := by
      rw [List.filter_eq_nil_iff]; intro o ho; simpa using hpost o ho
    simp [this]
  rw [hf, List.foldl_append, hm]
  simp only [List.foldl_cons, List.foldl_nil]
  rw [slotEffect_extend _ p hp delta (by rw [hv]; rfl)]
  rfl

/-- `Extend(delta)` on a row whose deadline reads `d`, the only op of the section addressed to that row: the reader then
    gets the encoding of `d + delta`, which — no overflow — decodes to `extendTTL d delta = d + delta` -/
theorem extend_read (hash : Bytes → Nat) (c : Col) (hk : c.kind = .num .i64) (hm : c.merge = addMerge64) (chunk : Nat)
    (hc : chunk < c.nchunks) (pre post : List Op) (p : Op) (hin : InBounds c (pre ++ p :: post))
    (hp : p.typ = opMerge) (code : Nat) (delta : Int) (hv : p.val = .fixed code (bytesOfInt64 delta))
    (hpre : ∀ o ∈ pre, o.idx ≠ p.idx) (hpost : ∀ o ∈ post, o.idx ≠ p.idx)
    (bs : Bytes) (hr : c.read p.idx = some bs) (d : Int) (hd : int64OfBytes bs = d)
    (hlo : -(2 ^ 63) ≤ d + delta) (hhi : d + delta < 2 ^ 63) :
    (applyData hash c chunk (pre ++ p :: post)).col.read p.idx = some (bytesOfInt64 (d + delta)) ∧
    int64OfBytes (bytesOfInt64 (d + delta)) = extendTTL d delta := by
  refine ⟨?_, int64OfBytes_natToBE _ hlo hhi⟩
  have hsh := C01.num_shape hash c .i64 hk chunk hc (pre ++ p :: post)
  rw [C01.read_of_slot c .i64 hk] at hr
  split at hr
  · rename_i hpres
    have hbs : (slot c p.idx).2 = bs := by simpa using hr
    rw [C01.read_of_slot _ .i64 (hsh.kind.trans hk), extend_slot hash c hk hm chunk hc pre post p hin hp code delta hv hpost]
    have : pre.filter (fun o => o.idx = p.idx) = [] := by
      rw [List.filter_eq_nil_iff]; intro o ho; simpa using hpre o ho
    rw [this, hsh.nchunks]
    simp only [List.foldl_nil, hbs, hd]
    rw [if_pos ⟨hpres.1, trivial⟩]
  · cases hr

/-- `Set(ttl)`: after the pass, the slot addressed by the last op for that offset — a `Put` of the bytes of
    `writeTTL now ttl` — is present and holds exactly these bytes -/
theorem set_slot (hash : Bytes → Nat) (c : Col) (hk : c.kind = .num .i64) (chunk : Nat)
    (hc : chunk < c.nchunks) (pre post : List Op) (p : Op) (hin : InBounds c (pre ++ p :: post))
    (hp : p.typ = opPut) (code : Nat) (now ttl : Int) (hv : p.val = .fixed code (bytesOfInt64 (writeTTL now ttl)))
    (hpost : ∀ o ∈ post, o.idx ≠ p.idx) :
    slot (applyData hash c chunk (pre ++ p :: post)).col p.idx = (true, bytesOfInt64 (writeTTL now ttl)) := by
  rw [C01.num_last_put hash c .i64 hk chunk hc pre post p hin hp hpost, hv]; rfl

/-- … and a reader gets them (the op sits in the section of its own chunk) -/
theorem set_read (hash : Bytes → Nat) (c : Col) (hk : c.kind = .num .i64) (chunk : Nat)
    (hc : chunk < c.nchunks) (pre post : List Op) (p : Op) (hin : InBounds c (pre ++ p :: post))
    (hp : p.typ = opPut) (code : Nat) (now ttl : Int) (hv : p.val = .fixed code (bytesOfInt64 (writeTTL now ttl)))
    (hpost : ∀ o ∈ post, o.idx ≠ p.idx) (hch : p.idx / 16384 = chunk) :
    (applyData hash c chunk (pre ++ p :: post)).col.read p.idx = some (bytesOfInt64 (writeTTL now ttl)) := by
  have hsh := C01.num_shape hash c .i64 hk chunk hc (pre ++ p :: post)
  rw [C01.read_of_slot _ .i64 (hsh.kind.trans hk), set_slot hash c hk chunk hc pre post p hin hp code now ttl hv hpost,
    hsh.nchunks, if_pos ⟨by omega, rfl⟩]

/-! ## 4 — the decision of a later vacuum pass on the value so written -/

/-- on bytes: the deadline written by `Set(ttl)`, `0 < ttl`, at clock `now` is `now + ttl`; it is non-zero when
    `now + ttl ≠ 0`, and then a pass at clock `now'` deletes iff `now + ttl < now'` -/
theorem set_decision (now ttl now' : Int) (httl : 0 < ttl) (hlo : -(2 ^ 63) ≤ now + ttl) (hhi : now + ttl < 2 ^ 63) :
    int64OfBytes (bytesOfInt64 (writeTTL now ttl)) = now + ttl ∧
    (now + ttl ≠ 0 → (vacuumDeletes now' (some (bytesOfInt64 (writeTTL now ttl))) = true ↔ now + ttl < now')) ∧
    (vacuumDeletes now' (some (bytesOfInt64 (writeTTL now ttl))) = true ↔ (now + ttl ≠ 0 ∧ now + ttl < now')) := by
  have hw : writeTTL now ttl = now + ttl := ((C17.set_ttl_deadline now ttl).1 httl).1
  have hv : int64OfBytes (bytesOfInt64 (writeTTL now ttl)) = now + ttl := by
    rw [hw]; exact int64OfBytes_natToBE _ hlo hhi
  refine ⟨hv, ?_, ?_⟩
  · intro hnz
    rw [C17.vacuumDeletes_some, hv]
    simp [hnz]
  · rw [C17.vacuumDeletes_some, hv]
    simp

/-- on bytes: a stored deadline `d` extended by `delta` (no overflow, `d + delta ≠ 0`) is deleted at `now'` iff
    `d + delta < now'` -/
theorem extend_decision (old : Bytes) (delta now' : Int)
    (hlo : -(2 ^ 63) ≤ int64OfBytes old + delta) (hhi : int64OfBytes old + delta < 2 ^ 63)
    (hnz : int64OfBytes old + delta ≠ 0) :
    int64OfBytes (addMerge64 (padTo 8 old) (bytesOfInt64 delta)) = extendTTL (int64OfBytes old) delta ∧
    (vacuumDeletes now' (some (addMerge64 (padTo 8 old) (bytesOfInt64 delta))) = true ↔ int64OfBytes old + delta < now') := by
  have hv : int64OfBytes (addMerge64 (padTo 8 old) (bytesOfInt64 delta)) = int64OfBytes old + delta := by
    rw [addMerge64_delta]; exact int64OfBytes_natToBE _ hlo hhi
  refine ⟨hv, ?_⟩
  rw [C17.vacuumDeletes_some, hv]
  simp [hnz]

/-- **after `Set(ttl)`** (`0 < ttl`, clock `now`, `now + ttl` an `int64` and `≠ 0`): the reader of the column after the pass
    gets a value that decodes to `now + ttl`, and a vacuum pass at clock `now'` deletes the row iff `now + ttl < now'` -/
theorem set_then_vacuum (hash : Bytes → Nat) (c : Col) (hk : c.kind = .num .i64) (chunk : Nat)
    (hc : chunk < c.nchunks) (pre post : List Op) (p : Op) (hin : InBounds c (pre ++ p :: post))
    (hp : p.typ = opPut) (code : Nat) (now ttl : Int) (hv : p.val = .fixed code (bytesOfInt64 (writeTTL now ttl)))
    (hpost : ∀ o ∈ post, o.idx ≠ p.idx) (hch : p.idx / 16384 = chunk)
    (httl : 0 < ttl) (hlo : -(2 ^ 63) ≤ now + ttl) (hhi : now + ttl < 2 ^ 63) (hnz : now + ttl ≠ 0) (now' : Int) :
    ∃ stored, (applyData hash c chunk (pre ++ p :: post)).col.read p.idx = some stored ∧
      int64OfBytes stored = now + ttl ∧ int64OfBytes stored ≠ 0 ∧
      (vacuumDeletes now' (some stored) = true ↔ now + ttl < now') := by
  obtain ⟨h1, h2, _⟩ := set_decision now ttl now' httl hlo hhi
  exact ⟨_, set_read hash c hk chunk hc pre post p hin hp code now ttl hv hpost hch, h1, by rw [h1]; exact hnz, h2 hnz⟩

/-- **after `Extend(delta)`** of a row whose deadline reads `d` (no overflow, `d + delta ≠ 0`): the reader gets a value that
    decodes to `d + delta`, and a vacuum pass at clock `now'` deletes the row iff `d + delta < now'`.
    (`d ≠ 0` is not needed; for `d = 0` this is observation O1 of `Props/C17.lean`.) -/
theorem extend_then_vacuum (hash : Bytes → Nat) (c : Col) (hk : c.kind = .num .i64) (hm : c.merge = addMerge64) (chunk : Nat)
    (hc : chunk < c.nchunks) (pre post : List Op) (p : Op) (hin : InBounds c (pre ++ p :: post))
    (hp : p.typ = opMerge) (code : Nat) (delta : Int) (hv : p.val = .fixed code (bytesOfInt64 delta))
    (hpre : ∀ o ∈ pre, o.idx ≠ p.idx) (hpost : ∀ o ∈ post, o.idx ≠ p.idx)
    (bs : Bytes) (hr : c.read p.idx = some bs) (d : Int) (hd : int64OfBytes bs = d)
    (hlo : -(2 ^ 63) ≤ d + delta) (hhi : d + delta < 2 ^ 63) (hnz : d + delta ≠ 0) (now' : Int) :
    ∃ stored, (applyData hash c chunk (pre ++ p :: post)).col.read p.idx = some stored ∧
      int64OfBytes stored = extendTTL d delta ∧ int64OfBytes stored ≠ 0 ∧
      (vacuumDeletes now' (some stored) = true ↔ d + delta < now') := by
  obtain ⟨h1, h2⟩ := extend_read hash c hk hm chunk hc pre post p hin hp code delta hv hpre hpost bs hr d hd hlo hhi
  have h3 : int64OfBytes (bytesOfInt64 (d + delta)) = d + delta := h2
  refine ⟨_, h1, h2, by rw [h3]; exact hnz, ?_⟩
  rw [C17.vacuumDeletes_some, h3]
  simp [hnz]

/-! ## 4b — through `Store.commit` and `Store.vacuumPass` -/

theorem expire_ne_row : expireColumn ≠ rowColumn := by decide

/-- a numeric column that reads a value at `i` has its index bit set there -/
theorem indexBit_of_read (c : Col) (k : NumKind) (hk : c.kind = .num k) (i : Nat) (bs : Bytes) (h : c.read i = some bs) :
    c.indexBit i = true := by
  rw [C01.read_of_slot c k hk] at h
  split at h
  · rename_i hp
    unfold Col.indexBit
    rw [hk]
    have h2 : Bits.get c.bits i = true := hp.2
    simp [hp.1, h2]
  · cases h

/-- the decision of `vacuumPass` for a row whose deadline reads `stored` -/
theorem vacuumPass_of_read (s : Store) (now' : Int) (c : Col) (hf : s.findCol expireColumn = some c) (k : NumKind)
    (hk : c.kind = .num k) (i : Nat) (stored : Bytes) (hr : c.read i = some stored) :
    i ∈ s.vacuumPass now' ↔ (Bits.get s.fill i = true ∧ vacuumDeletes now' (some stored) = true) := by
  rw [C17.vacuum_deletes_iff s now' c hf i, C17.vacuumDeletes_some]
  have hi := indexBit_of_read c k hk i stored hr
  constructor
  · rintro ⟨h1, _, bs, hb, hz, hlt⟩
    rw [hr] at hb
    cases hb
    exact ⟨h1, by simp [hz, hlt]⟩
  · rintro ⟨h1, h2⟩
    simp only [Bool.and_eq_true, decide_eq_true_eq] at h2
    exact ⟨h1, hi, stored, hr, h2.1, h2.2⟩

/-- **`Set(ttl)` through a commit**: when the last op of the transaction addressed to row `i` of `expire` (markers
    included) is the `Put` of `writeTTL now ttl`, then after `s.commit t` the deadline of `i` reads `now + ttl`, and a vacuum
    pass at clock `now'` decides accordingly. Hypotheses on the store / transaction are those of `C01store.commit_read_last_put`. -/
theorem commit_set_then_vacuum (s : Store) (t : Txn) (col : Col)
    (hf : s.findCol expireColumn = some col) (hk : col.kind = .num .i64) (hw : ColWF col)
    (hcov : s.commits.size ≤ col.nchunks)
    (hcomp : ∀ v ∈ t.updates, ∀ c, s.findCol v.column = some c → expireColumn ∉ c.computed)
    (hinv : ∀ v ∈ t.updates, (v.column = expireColumn ∨ isMarkerBuf v = true) → ChunkOK v)
    (i : Nat) (pre : List Op) (p : Op) (hp : p.typ = opPut) (code : Nat) (now ttl : Int)
    (hv : p.val = .fixed code (bytesOfInt64 (writeTTL now ttl)))
    (hlast : (markerAll t.updates ++ allFor t.updates expireColumn).filter (fun o => o.idx = i) = pre ++ [p])
    (httl : 0 < ttl) (hlo : -(2 ^ 63) ≤ now + ttl) (hhi : now + ttl < 2 ^ 63) (hnz : now + ttl ≠ 0) (now' : Int) :
    ∃ col' stored, (s.commit t).findCol expireColumn = some col' ∧ col'.kind = .num .i64 ∧ col'.read i = some stored ∧
      int64OfBytes stored = now + ttl ∧
      (vacuumDeletes now' (some stored) = true ↔ now + ttl < now') := by
  obtain ⟨col', f, r⟩ := C01store.commit_read_last_put s t expireColumn .i64 col expire_ne_row hf hk hw hcov hcomp hinv
    i pre p hp hlast
  obtain ⟨col2, f2, k2, _⟩ := C01store.commit_readback s t expireColumn .i64 col expire_ne_row hf hk hw hcov hcomp hinv
  rw [f] at f2
  cases f2
  obtain ⟨h1, h2, _⟩ := set_decision now ttl now' httl hlo hhi
  refine ⟨col', _, f, k2, r, ?_, ?_⟩
  · rw [hv]; exact h1
  · rw [hv]; exact h2 hnz

/-- … and in terms of the pass itself: row `i` is deleted by `vacuumPass now'` iff it is live and `now + ttl < now'` -/
theorem commit_set_then_vacuumPass (s : Store) (t : Txn) (col : Col)
    (hf : s.findCol expireColumn = some col) (hk : col.kind = .num .i64) (hw : ColWF col)
    (hcov : s.commits.size ≤ col.nchunks)
    (hcomp : ∀ v ∈ t.updates, ∀ c, s.findCol v.column = some c → expireColumn ∉ c.computed)
    (hinv : ∀ v ∈ t.updates, (v.column = expireColumn ∨ isMarkerBuf v = true) → ChunkOK v)
    (i : Nat) (pre : List Op) (p : Op) (hp : p.typ = opPut) (code : Nat) (now ttl : Int)
    (hv : p.val = .fixed code (bytesOfInt64 (writeTTL now ttl)))
    (hlast : (markerAll t.updates ++ allFor t.updates expireColumn).filter (fun o => o.idx = i) = pre ++ [p])
    (httl : 0 < ttl) (hlo : -(2 ^ 63) ≤ now + ttl) (hhi : now + ttl < 2 ^ 63) (hnz : now + ttl ≠ 0) (now' : Int) :
    i ∈ (s.commit t).vacuumPass now' ↔ (Bits.get (s.commit t).fill i = true ∧ now + ttl < now') := by
  obtain ⟨col', stored, f, k, r, _, d⟩ := commit_set_then_vacuum s t col hf hk hw hcov hcomp hinv i pre p hp code now ttl hv
    hlast httl hlo hhi hnz now'
  rw [vacuumPass_of_read (s.commit t) now' col' f .i64 k i stored r, d]

/-- **`Extend(delta)` through a commit**: when the only op of the transaction addressed to row `i` of `expire` (markers
    included) is the `Merge` of `delta`, and the deadline of `i` read `d` before, then after `s.commit t` it reads `d + delta`
    (no overflow), and a vacuum pass at clock `now'` decides accordingly -/
theorem commit_extend_then_vacuum (s : Store) (t : Txn) (col : Col)
    (hf : s.findCol expireColumn = some col) (hk : col.kind = .num .i64) (hm : col.merge = addMerge64) (hw : ColWF col)
    (hcov : s.commits.size ≤ col.nchunks)
    (hcomp : ∀ v ∈ t.updates, ∀ c, s.findCol v.column = some c → expireColumn ∉ c.computed)
    (hinv : ∀ v ∈ t.updates, (v.column = expireColumn ∨ isMarkerBuf v = true) → ChunkOK v)
    (i : Nat) (p : Op) (hp : p.typ = opMerge) (code : Nat) (delta : Int)
    (hv : p.val = .fixed code (bytesOfInt64 delta))
    (honly : (markerAll t.updates ++ allFor t.updates expireColumn).filter (fun o => o.idx = i) = [p])
    (bs : Bytes) (hr : col.read i = some bs) (d : Int) (hd : int64OfBytes bs = d)
    (hlo : -(2 ^ 63) ≤ d + delta) (hhi : d + delta < 2 ^ 63) (hnz : d + delta ≠ 0) (now' : Int) :
    ∃ col' stored, (s.commit t).findCol expireColumn = some col' ∧ col'.kind = .num .i64 ∧ col'.merge = addMerge64 ∧
      col'.read i = some stored ∧ int64OfBytes stored = extendTTL d delta ∧
      (vacuumDeletes now' (some stored) = true ↔ d + delta < now') := by
  obtain ⟨col', f, k', m', _, n', _, sl⟩ :=
    C01store.commit_readback s t expireColumn .i64 col expire_ne_row hf hk hw hcov hcomp hinv
  rw [C01.read_of_slot col .i64 hk] at hr
  split at hr
  · rename_i hpres
    have hbs : (slot col i).2 = bs := by simpa using hr
    have hslot : slot col' i = (true, bytesOfInt64 (d + delta)) := by
      rw [sl i, honly, hm]
      simp only [List.foldl_cons, List.foldl_nil]
      rw [slotEffect_extend _ p hp delta (by rw [hv]; rfl), hbs, hd]
    have h3 : int64OfBytes (bytesOfInt64 (d + delta)) = d + delta := int64OfBytes_natToBE _ hlo hhi
    refine ⟨col', _, f, k', m'.trans hm, ?_, h3, ?_⟩
    · rw [C01.read_of_slot col' .i64 k', hslot, if_pos ⟨by omega, rfl⟩]
    · rw [C17.vacuumDeletes_some, h3]
      simp [hnz]
  · cases hr

/-- … and in terms of the pass itself -/
theorem commit_extend_then_vacuumPass (s : Store) (t : Txn) (col : Col)
    (hf : s.findCol expireColumn = some col) (hk : col.kind = .num .i64) (hm : col.merge = addMerge64) (hw : ColWF col)
    (hcov : s.commits.size ≤ col.nchunks)
    (hcomp : ∀ v ∈ t.updates, ∀ c, s.findCol v.column = some c → expireColumn ∉ c.computed)
    (hinv : ∀ v ∈ t.updates, (v.column = expireColumn ∨ isMarkerBuf v = true) → ChunkOK v)
    (i : Nat) (p : Op) (hp : p.typ = opMerge) (code : Nat) (delta : Int)
    (hv : p.val = .fixed code (bytesOfInt64 delta))
    (honly : (markerAll t.updates ++ allFor t.updates expireColumn).filter (fun o => o.idx = i) = [p])
    (bs : Bytes) (hr : col.read i = some bs) (d : Int) (hd : int64OfBytes bs = d)
    (hlo : -(2 ^ 63) ≤ d + delta) (hhi : d + delta < 2 ^ 63) (hnz : d + delta ≠ 0) (now' : Int) :
    i ∈ (s.commit t).vacuumPass now' ↔ (Bits.get (s.commit t).fill i = true ∧ d + delta < now') := by
  obtain ⟨col', stored, f, k, _, r, _, dd⟩ := commit_extend_then_vacuum s t col hf hk hm hw hcov hcomp hinv i p hp code delta hv
    honly bs hr d hd hlo hhi hnz now'
  rw [vacuumPass_of_read (s.commit t) now' col' f .i64 k i stored r, dd]

/-! ## 5 — a new store has the deadline column -/

/-- `NewCollection` registers `expire` as an `int64` column whose merge is wrapping addition; the column is well-formed and
    covers the requested capacity (so the hypotheses `ColWF`, `commits.size ≤ nchunks` of the commit theorems hold for a new store) -/
theorem new_expire_column (cap : Nat) (logger : LoggerKind) (hash : Bytes → Nat) :
    ∃ c, (Store.new cap logger hash).findCol "expire" = some c ∧ c.kind = .num .i64 ∧ c.merge = addMerge64 ∧
      c.name = "expire" ∧ c.computed = [] ∧ ColWF c ∧ (Store.new cap logger hash).commits.size ≤ c.nchunks := by
  let c0 : Col := { name := "expire", kind := .num .i64, merge := addMerge64 }
  let cap' := if cap > 0 then cap else 1024
  have hw0 : ColWF c0 := ⟨rfl, rfl⟩
  have hg := grow_num c0 .i64 rfl hw0 cap'
  have hmeta := grow_meta c0 cap'
  refine ⟨c0.grow cap', ?_, hmeta.2.1, hmeta.2.2.2, hmeta.1, hmeta.2.2.1, hg.1, Nat.zero_le _⟩
  unfold Store.new Store.findCol
  have hn : (c0.grow cap').name = "expire" := hmeta.1
  show (#[c0.grow cap'] : Array Col).find? (fun c => c.name == "expire") = some (c0.grow cap')
  simp [hn]

/-- … and no computed column is attached to anything in a new store -/
theorem new_no_computed (cap : Nat) (logger : LoggerKind) (hash : Bytes → Nat) (n : String) (c : Col)
    (h : (Store.new cap logger hash).findCol n = some c) : c.computed = [] := by
  have hm := findCol_mem h
  unfold Store.new at hm
  simp only [List.mem_toArray, List.mem_singleton] at hm
  rw [hm]
  exact (grow_meta _ _).2.2.1

/-! ## 6 — non-vacuity -/

example : bytesOfInt64 1700000000000000000 = [23, 151, 156, 254, 54, 42, 0, 0] := by decide +kernel
example : int64OfBytes (bytesOfInt64 (-5)) = -5 := by decide +kernel
example : bytesOfInt64 (-1) = [255, 255, 255, 255, 255, 255, 255, 255] := by decide +kernel
example : int64OfBytes (addMerge64 (bytesOfInt64 1000) (bytesOfInt64 (-300))) = 700 := by decide +kernel
/-- overflow wraps (so the no-overflow hypothesis of `addMerge64_no_overflow` is needed) -/
example : int64OfBytes (addMerge64 (bytesOfInt64 (2 ^ 63 - 1)) (bytesOfInt64 1)) = -(2 ^ 63) := by decide +kernel
example : wrap64 (2 ^ 63) = -(2 ^ 63) ∧ wrap64 (-(2 ^ 63) - 1) = 2 ^ 63 - 1 ∧ wrap64 12345 = 12345 := by decide +kernel
/-- `now + ttl = 0` (a clock before 1970): the row is never deleted although `0 < now'` — why `set_then_vacuum` assumes `now + ttl ≠ 0` -/
example : vacuumDeletes 10 (some (bytesOfInt64 (writeTTL (-5) 5))) = false := by decide +kernel

/-- a small deadline column: row 0 expires at 1000, row 1 has a stale value but is absent, rows 2, 3 empty -/
def sampleCol : Col :=
  { name := "expire", kind := .num .i64, merge := addMerge64, nchunks := 1, bits := #[true, false, false, false],
    data := #[bytesOfInt64 1000, bytesOfInt64 77, [], []] }

/-- `Extend(500)` on row 0, `Set(ttl = 250)` at clock 2000 on row 2 -/
def extendOp : Op := ⟨opMerge, 0, .fixed 3 (bytesOfInt64 500)⟩
def setOp : Op := ⟨opPut, 2, .fixed 3 (bytesOfInt64 (writeTTL 2000 250))⟩

example : InBounds sampleCol ([setOp] ++ extendOp :: []) := by decide
example : (applyData (fun _ => 0) sampleCol 0 [setOp, extendOp]).col.read 0 = some (bytesOfInt64 1500) := by decide +kernel
example : (applyData (fun _ => 0) sampleCol 0 [setOp, extendOp]).col.read 2 = some (bytesOfInt64 2250) := by decide +kernel

/-- every hypothesis of `extend_then_vacuum` holds for the sample, so its conclusion does: deleted iff `1500 < now'` -/
example (now' : Int) :
    ∃ stored, (applyData (fun _ => 0) sampleCol 0 ([setOp] ++ extendOp :: [])).col.read 0 = some stored ∧
      int64OfBytes stored = extendTTL 1000 500 ∧ int64OfBytes stored ≠ 0 ∧
      (vacuumDeletes now' (some stored) = true ↔ 1000 + 500 < now') :=
  extend_then_vacuum (fun _ => 0) sampleCol rfl rfl 0 (by decide) [setOp] [] extendOp (by decide) rfl 3 500 rfl
    (by decide) (by decide) (bytesOfInt64 1000) (by decide +kernel) 1000 (by decide +kernel) (by decide) (by decide) (by decide) now'

/-- every hypothesis of `set_then_vacuum` holds for the sample: deleted iff `2250 < now'` -/
example (now' : Int) :
    ∃ stored, (applyData (fun _ => 0) sampleCol 0 ([] ++ setOp :: [extendOp])).col.read 2 = some stored ∧
      int64OfBytes stored = 2000 + 250 ∧ int64OfBytes stored ≠ 0 ∧
      (vacuumDeletes now' (some stored) = true ↔ 2000 + 250 < now') :=
  set_then_vacuum (fun _ => 0) sampleCol rfl 0 (by decide) [] [extendOp] setOp (by decide) rfl 3 2000 250 rfl
    (by decide) (by decide) (by decide) (by decide) (by decide) (by decide) now'

/-- O1 again, at column level: `Extend` on the absent row 1 revives it with the stale value plus delta (defect D11) -/
example : (applyData (fun _ => 0) sampleCol 0 [⟨opMerge, 1, .fixed 3 (bytesOfInt64 3)⟩]).col.read 1 = some (bytesOfInt64 80) := by
  decide +kernel

/-! a new store, one transaction: insert row 3 and `Set(ttl = 250)` on it at clock 2000 -/
def newStore : Store := Store.new 1024 .none (fun _ => 0)
def insertOp : Op := ⟨opInsert, 3, .fixed 0 []⟩
def setOp3 : Op := ⟨opPut, 3, .fixed 3 (bytesOfInt64 (writeTTL 2000 250))⟩
def setTxn : Txn :=
  ([(rowColumn, insertOp), (expireColumn, setOp3)] : List (String × Op)).foldl (fun t p => t.putOp p.1 p.2) {}

theorem setTxn_chunkOK : ∀ v ∈ setTxn.updates, ChunkOK v := by
  have : ∀ v ∈ setTxn.updates, ∀ s ∈ v.rsecs, ∀ o ∈ s.rops, chunkOf o.idx = s.chunk := by decide +kernel
  exact this

theorem setTxn_fill : Bits.get (newStore.commit setTxn).fill 3 = true := by
  rw [C01store.commit_fill newStore setTxn (fun m hm _ => setTxn_chunkOK m hm) 3]; decide +kernel

/-- all hypotheses of `commit_set_then_vacuumPass` hold for a new store (through `new_expire_column`), so: the row inserted
    with a TTL of 250 at clock 2000 is removed by a vacuum pass at clock `now'` iff `2250 < now'` -/
theorem new_store_set_then_vacuumPass (now' : Int) : 3 ∈ (newStore.commit setTxn).vacuumPass now' ↔ 2250 < now' := by
  obtain ⟨c, hf, hk, _, _, _, hw, hcov⟩ := new_expire_column 1024 .none (fun _ => 0)
  have h := commit_set_then_vacuumPass newStore setTxn c hf hk hw hcov
    (fun v _ c' hc' => by rw [new_no_computed _ _ _ _ c' hc']; simp) (fun v hv _ => setTxn_chunkOK v hv)
    3 [insertOp] setOp3 rfl 3 2000 250 rfl (by decide +kernel) (by decide) (by decide) (by decide) (by decide) now'
  rw [h, setTxn_fill]
  simp

/-! … then a second transaction: `Extend(100)` on row 3 -/
def extOp3 : Op := ⟨opMerge, 3, .fixed 3 (bytesOfInt64 100)⟩
def extTxn : Txn := ({} : Txn).putOp expireColumn extOp3

theorem extTxn_chunkOK : ∀ v ∈ extTxn.updates, ChunkOK v := by
  have : ∀ v ∈ extTxn.updates, ∀ s ∈ v.rsecs, ∀ o ∈ s.rops, chunkOf o.idx = s.chunk := by decide +kernel
  exact this

/-- the statements chain: all hypotheses of `commit_extend_then_vacuumPass` hold for the store left by the first commit
    (`C01store.commit_readback` / `commit_keeps_cover` / `commit_keeps_invariants` re-establish them), so after
    `Set(250)` at clock 2000 and `Extend(100)` the row is removed by a pass at clock `now'` iff `2350 < now'` -/
theorem new_store_set_extend_then_vacuumPass (now' : Int) :
    3 ∈ ((newStore.commit setTxn).commit extTxn).vacuumPass now' ↔ 2350 < now' := by
  obtain ⟨c, hf, hk, hm, _, _, hw, hcov⟩ := new_expire_column 1024 .none (fun _ => 0)
  have hcomp0 : ∀ v ∈ setTxn.updates, ∀ c', newStore.findCol v.column = some c' → expireColumn ∉ c'.computed :=
    fun v _ c' hc' => by rw [new_no_computed _ _ _ _ c' hc']; simp
  obtain ⟨c1, f1, k1, m1, w1, n1, d1, _⟩ := C01store.commit_readback newStore setTxn expireColumn .i64 c expire_ne_row hf hk hw
    hcov hcomp0 (fun v hv _ => setTxn_chunkOK v hv)
  obtain ⟨c1', stored, f1', _, r1, v1, _⟩ := commit_set_then_vacuum newStore setTxn c hf hk hw hcov hcomp0
    (fun v hv _ => setTxn_chunkOK v hv) 3 [insertOp] setOp3 rfl 3 2000 250 rfl (by decide +kernel) (by decide) (by decide)
    (by decide) (by decide) now'
  rw [f1] at f1'
  cases f1'
  have hcov1 := C01store.commit_keeps_cover newStore setTxn c c1 hcov n1 d1
  have hcomp1 : ∀ v ∈ extTxn.updates, ∀ c', (newStore.commit setTxn).findCol v.column = some c' →
      expireColumn ∉ c'.computed := by
    intro v _ c' hc'
    obtain ⟨c0, h0, e, _⟩ := (C01store.commit_keeps_invariants newStore setTxn).2.2 _ c' hc'
    rw [e, new_no_computed _ _ _ _ c0 h0]; simp
  have h := commit_extend_then_vacuumPass (newStore.commit setTxn) extTxn c1 f1 k1 (m1.trans hm) w1 hcov1 hcomp1
    (fun v hv _ => extTxn_chunkOK v hv) 3 extOp3 rfl 3 100 rfl (by decide +kernel) stored r1 2250 (by rw [v1]; decide)
    (by decide) (by decide) (by decide) now'
  have hfill : Bits.get ((newStore.commit setTxn).commit extTxn).fill 3 = true := by
    rw [C01store.commit_fill _ extTxn (fun m hm _ => extTxn_chunkOK m hm) 3]
    have hm0 : markerAll extTxn.updates = [] := by decide +kernel
    rw [hm0, List.filter_nil, List.foldl_nil]
    exact setTxn_fill
  rw [h, hfill]
  simp

#print axioms int64OfBytes_natToBE
#print axioms bytesOfInt64_int64OfBytes
#print axioms addMerge64_sem
#print axioms addMerge64_no_overflow
#print axioms extend_slot
#print axioms extend_read
#print axioms set_read
#print axioms set_then_vacuum
#print axioms extend_then_vacuum
#print axioms commit_set_then_vacuum
#print axioms commit_set_then_vacuumPass
#print axioms commit_extend_then_vacuum
#print axioms commit_extend_then_vacuumPass
#print axioms new_expire_column
#print axioms new_store_set_then_vacuumPass
#print axioms new_store_set_extend_then_vacuumPass

end ColumnVerif.Props.C17store
