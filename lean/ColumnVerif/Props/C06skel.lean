import ColumnVerif.Conc.Skel
/-!
# C06 — what the current source says about the protocol parts this property rests on

Obligations over the *regenerated* token lists of `Generated/Skeleton.lean` (rewritten from /repo on
every run); `decide +kernel` evaluates the structural predicate of `Conc/Skel.lean` in the kernel.
A change to the code that moves a call out of its lock, drops a `defer`, reorders the commit closure …
makes exactly the corresponding theorem fail.
-/
namespace ColumnVerif.Props.C06skel
open ColumnVerif.Skel

theorem dict_version_matches : ColumnVerif.Generated.dictVersion = expectedDictVersion := by decide +kernel
theorem flag_channelClones : channelClones = true := by decide +kernel
theorem flag_cloneCarriesId : cloneCarriesId = true := by decide +kernel
theorem flag_commitClosureOrder : commitClosureOrder = true := by decide +kernel
theorem flag_delegateInsideLatch : delegateInsideLatch = true := by decide +kernel
theorem flag_computedAfterColumn : computedAfterColumn = true := by decide +kernel
/-- the log-file form of the change stream: `Log.Append` writes and flushes a commit under the log mutex, released by a `defer` -/
theorem flag_appendCopyShareMutex : appendCopyShareMutex = true := by decide +kernel

end ColumnVerif.Props.C06skel
