import ColumnVerif.Lemmas.StoreCol
import ColumnVerif.Props.C12
/-!
# C12 at store level — the key invariant through the real `Store.commit`

`Props/C12.lean` proves that one `applyData` pass over a key column keeps `KeyInv` (the table `seek` maps exactly the keys
of present rows to their rows) when the section meets the guard `WFKeyOps`. Here the statement is carried through
`Store.commit` with `Lemmas/StoreCol.commit_col`: the key column after a commit is the fold over the dirty chunks of
`applyData` over the chunk's markers followed by the ops issued for the key column in that chunk (`chunkOps`), so the guard
is `WFKeyOps` of exactly those op lists, each in the state in which it is applied (`WFKeyChunks`; for a list of
transactions `WFKeyTxns`).

The `row` markers take part: a `Delete` marker reaches the key column through `commitMarkers` and releases the key of the
deleted row (`stepKey`'s delete branch) — which is why `DeleteKey` frees a key — so they are part of the guarded op list.

Hypotheses (all decidable / satisfiable, see the example in `Props/C01storeAny.lean`):
* `pk ≠ "row"`, `s.findCol pk = some kc`, `kc.kind = .key`;
* `ColWF kc` — `bits` and `data` have `16384 * nchunks` slots (what `Col.grow` produces). Needed because `commitCapacity`
  grows both arrays: with `bits` longer than `data` the invariant would not survive the growth;
* `pk` is not a computed column attached to an updated column (follows from `ComputedKinds s`);
* `KeyInv kc` and the guard `WFKeyChunks`.
-/
namespace ColumnVerif.Props.C12store
open ColumnVerif.Codec ColumnVerif.Bits ColumnVerif.Store

/-- the guard of C12 for a whole commit: for every dirty chunk, in order, the markers of the chunk followed by the ops
    issued for the key column in that chunk meet `WFKeyOps` in the state the previous chunks leave -/
def WFKeyChunks (hash : Bytes → Nat) (ups : List Buf) (pk : String) : List Nat → Col → Prop
  | [], _ => True
  | ch :: cs, c =>
    WFKeyOps c (chunkOps ups pk ch) ∧ WFKeyChunks hash ups pk cs (applyData hash c ch (chunkOps ups pk ch)).col

instance decWFKeyChunks (hash : Bytes → Nat) (ups : List Buf) (pk : String) :
    (cs : List Nat) → (c : Col) → Decidable (WFKeyChunks hash ups pk cs c)
  | [], _ => isTrue trivial
  | ch :: cs, c =>
    have := decWFKeyChunks hash ups pk cs (applyData hash c ch (chunkOps ups pk ch)).col
    inferInstanceAs (Decidable (_ ∧ _))

/-- `C12.applyData_key_inv` without the "chunk allocated" hypothesis (a missing chunk leaves the column alone) -/
theorem applyData_key_inv_any (hash : Bytes → Nat) (c : Col) (chunk : Nat) (ops : List Op)
    (hk : c.kind = .key) (hinv : KeyInv c) (hw : WFKeyOps c ops) : KeyInv (applyData hash c chunk ops).col := by
  by_cases hc : chunk < c.nchunks
  · exact C12.applyData_key_inv hash c chunk ops hk hc hinv hw
  · rw [applyData_of_ge hash c chunk ops (by omega)]; exact hinv

/-- the chunk loop keeps the key invariant under the guard -/
theorem colChunks_key_inv (hash : Bytes → Nat) (ups : List Buf) (pk : String) (cs : List Nat) :
    ∀ col : Col, col.kind = .key → KeyInv col → WFKeyChunks hash ups pk cs col →
      KeyInv (colChunks hash ups pk cs col) := by
  induction cs with
  | nil => intro col _ hinv _; exact hinv
  | cons c cs ih =>
    intro col hk hinv hwf
    rw [colChunks_cons]
    exact ih _ (by rw [(applyData_sameShape hash col c _).kind]; exact hk)
      (applyData_key_inv_any hash col c _ hk hinv hwf.1) hwf.2

/-- `Grow` (through `commitCapacity`) keeps the key invariant of a well-formed key column -/
theorem capCol_key_inv (s : Store) (t : Txn) (kc : Col) (hk : kc.kind = .key) (hw : ColWF kc) (hinv : KeyInv kc) :
    KeyInv (capCol s t kc) := by
  have hd : kc.kind.isData = true := by rw [hk]; rfl
  obtain ⟨g1, _, g3, g4, g5, _⟩ := capCol_data s t kc hd
  have hw' := g5 hw
  have hmul : 16384 * kc.nchunks ≤ 16384 * (capCol s t kc).nchunks := Nat.mul_le_mul_left _ g3
  exact keyInv_transfer kc _ g1 g4 (by rw [hw.bsize, hw'.bsize]; exact hmul) (by rw [hw.dsize, hw'.dsize]; exact hmul)
    (by rw [hw.bsize, hw.dsize]; exact Nat.le_refl _) hinv

/-- **`commit_key_inv`**: if `KeyInv` holds for the key column of `s` and the ops of every dirty chunk addressed to the key
    column (markers included) meet `WFKeyOps` in the state in which they are applied, then `KeyInv` holds for the key
    column of `s.commit t` — which is the column `colChunks` computes, of the same kind, well-formed again -/
theorem commit_key_inv (s : Store) (t : Txn) (pk : String) (kc : Col)
    (hxr : pk ≠ rowColumn) (hf : s.findCol pk = some kc) (hk : kc.kind = .key) (hw : ColWF kc)
    (hcomp : ∀ v ∈ t.updates, ∀ c, s.findCol v.column = some c → pk ∉ c.computed)
    (hinv : KeyInv kc)
    (hwf : WFKeyChunks s.hash t.updates pk t.dirtyChunks (capCol s t kc)) :
    ∃ kc', (s.commit t).findCol pk = some kc' ∧ kc'.kind = .key ∧ ColWF kc' ∧ kc.nchunks ≤ kc'.nchunks ∧
      KeyInv kc' ∧ kc' = colChunks s.hash t.updates pk t.dirtyChunks (capCol s t kc) := by
  have hd : kc.kind.isData = true := by rw [hk]; rfl
  have hk1 : (capCol s t kc).kind = .key := (capCol_meta s t kc).2.1.trans hk
  have hna : NoAppend s.hash t.updates pk t.dirtyChunks (capCol s t kc) :=
    NoAppend_of_kind _ _ _ _ _ (by rw [hk1]; exact ⟨fun h => (by cases h), fun h => (by cases h)⟩)
  have hsh := colChunks_shape s.hash t.updates pk t.dirtyChunks (capCol s t kc)
  obtain ⟨_, _, g3, _, g5, _⟩ := capCol_data s t kc hd
  refine ⟨_, commit_col s t pk kc hxr hf hd hcomp hna, hsh.kind.trans hk1, ColWF.of_shape hsh (g5 hw),
    by rw [hsh.nchunks]; exact g3, ?_, rfl⟩
  exact colChunks_key_inv s.hash t.updates pk t.dirtyChunks _ hk1 (capCol_key_inv s t kc hk hw hinv) hwf

/-- the guard for a sequence of transactions: each one's `WFKeyChunks` in the store the previous commits leave -/
def WFKeyTxns (pk : String) : List Txn → Store → Prop
  | [], _ => True
  | t :: ts, s =>
    (∀ kc, s.findCol pk = some kc → WFKeyChunks s.hash t.updates pk t.dirtyChunks (capCol s t kc)) ∧
    WFKeyTxns pk ts (s.commit t)

/-- **`commits_key_inv`**: any sequence of committed transactions (fixed schema) keeps the key invariant -/
theorem commits_key_inv (pk : String) (hxr : pk ≠ rowColumn) (ts : List Txn) :
    ∀ (s : Store) (kc : Col), s.findCol pk = some kc → kc.kind = .key → ColWF kc → KeyInv kc →
      (∀ t ∈ ts, ∀ v ∈ t.updates, ∀ c, s.findCol v.column = some c → pk ∉ c.computed) → WFKeyTxns pk ts s →
      ∃ kc', (ts.foldl Store.commit s).findCol pk = some kc' ∧ kc'.kind = .key ∧ ColWF kc' ∧ kc.nchunks ≤ kc'.nchunks ∧
        KeyInv kc' := by
  induction ts with
  | nil =>
    intro s kc hf hk hw hinv _ _
    exact ⟨kc, hf, hk, hw, Nat.le_refl _, hinv⟩
  | cons t ts ih =>
    intro s kc hf hk hw hinv hcomp hwf
    simp only [List.foldl_cons]
    obtain ⟨kc1, f1, k1, w1, n1, i1, _⟩ := commit_key_inv s t pk kc hxr hf hk hw (hcomp t (by simp)) hinv (hwf.1 kc hf)
    obtain ⟨kc2, f2, k2, w2, n2, i2⟩ := ih (s.commit t) kc1 f1 k1 w1 i1 (by
      intro t' ht' v hv c hc
      obtain ⟨c0, hc0, e, _⟩ := commit_back s t v.column c hc
      rw [e]
      exact hcomp t' (by simp [ht']) v hv c0 hc0) hwf.2
    exact ⟨kc2, f2, k2, w2, Nat.le_trans n1 n2, i2⟩

/-- **`offsetOf_after_commit`**: after the commit, `OffsetOf(key)` answers `i` exactly when row `i` is present in the key
    column and its key is `key` — in the raw form (`C12.offsetOf_iff_present`) and as seen by the typed reader
    (`C12.lookup_reaches`); hence at most one live row holds any given key -/
theorem offsetOf_after_commit (s : Store) (t : Txn) (pk : String) (kc : Col) (hpk : s.pk = some pk)
    (hxr : pk ≠ rowColumn) (hf : s.findCol pk = some kc) (hk : kc.kind = .key) (hw : ColWF kc)
    (hcomp : ∀ v ∈ t.updates, ∀ c, s.findCol v.column = some c → pk ∉ c.computed)
    (hinv : KeyInv kc)
    (hwf : WFKeyChunks s.hash t.updates pk t.dirtyChunks (capCol s t kc)) :
    ∃ kc', (s.commit t).findCol pk = some kc' ∧ KeyInv kc' ∧
      (∀ key i, (s.commit t).offsetOf key = some i ↔
        (Bits.get kc'.bits i = true ∧ keyAt kc' i = key ∧ i < kc'.bits.size ∧ i < kc'.data.size)) ∧
      (∀ key i, (s.commit t).offsetOf key = some i ↔ kc'.read i = some key) ∧
      (∀ key i j, kc'.read i = some key → kc'.read j = some key → i = j) := by
  obtain ⟨kc', f', k', w', _, i', _⟩ := commit_key_inv s t pk kc hxr hf hk hw hcomp hinv hwf
  have hpk' : (s.commit t).pk = some pk := (commit_pk s t).trans hpk
  refine ⟨kc', f', i', ?_, ?_, ?_⟩
  · intro key i
    exact C12.offsetOf_iff_present (s.commit t) key pk kc' hpk' f' i' i
  · intro key i
    rw [C12.offsetOf_eq (s.commit t) key pk kc' hpk' f']
    exact C12.lookup_reaches kc' i' k' w'.dsize key i
  · intro key i j h1 h2
    exact C12.key_unique_read kc' i' k' w'.dsize key i j h1 h2

/-- the same over any sequence of commits -/
theorem offsetOf_after_commits (pk : String) (hxr : pk ≠ rowColumn) (ts : List Txn) (s : Store) (kc : Col)
    (hpk : s.pk = some pk) (hf : s.findCol pk = some kc) (hk : kc.kind = .key) (hw : ColWF kc) (hinv : KeyInv kc)
    (hcomp : ∀ t ∈ ts, ∀ v ∈ t.updates, ∀ c, s.findCol v.column = some c → pk ∉ c.computed)
    (hwf : WFKeyTxns pk ts s) :
    ∃ kc', (ts.foldl Store.commit s).findCol pk = some kc' ∧ KeyInv kc' ∧
      (∀ key i, (ts.foldl Store.commit s).offsetOf key = some i ↔ kc'.read i = some key) ∧
      (∀ key i j, kc'.read i = some key → kc'.read j = some key → i = j) := by
  obtain ⟨kc', f', k', w', _, i'⟩ := commits_key_inv pk hxr ts s kc hf hk hw hinv hcomp hwf
  have hpk' : (ts.foldl Store.commit s).pk = some pk := by
    have : ∀ (ts : List Txn) (s : Store), (ts.foldl Store.commit s).pk = s.pk := by
      intro ts
      induction ts with
      | nil => intro s; rfl
      | cons t ts ih => intro s; simp only [List.foldl_cons]; rw [ih, commit_pk]
    rw [this]; exact hpk
  refine ⟨kc', f', i', ?_, ?_⟩
  · intro key i
    rw [C12.offsetOf_eq _ key pk kc' hpk' f']
    exact C12.lookup_reaches kc' i' k' w'.dsize key i
  · intro key i j h1 h2
    exact C12.key_unique_read kc' i' k' w'.dsize key i j h1 h2

end ColumnVerif.Props.C12store
