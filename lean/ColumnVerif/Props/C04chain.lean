import ColumnVerif.Props.C04
import ColumnVerif.Lemmas.Chain
/-!
# C04 (chains) — a whole filter chain computes the set-algebra expression it spells

`Txn.chain s t ops` is what the driver runs for every `select`. Here every operator gets a
denotation on predicates over offsets (`FilterOp.denote`), written with `bitOf`, `findCol`,
`Col.read` and the presence bits only, and the selection after a chain of any length is the
left-to-right composition of the denotations.

Two facts of the code shape the statements:

* `Union` looks at the *length* of the selection (offsets beyond it are never added), and `Clear()`
  — reached by `With`/`WithUnion(single)` of a missing column, by a typed value filter on a missing
  column or a column of the wrong kind, by `WithValue` on a missing column — truncates the selection to
  length `0`. After that nothing can be selected any more, not even by a later `Union` (finding D22).
  So the meaning of a selection is a pair `Den = (size, mem)`; `FilterOp.step` is the meaning of one
  operator on such pairs (`FilterOp.clears` says when the size drops to `0`), and `chain_sem` gives the
  closed form: `false` everywhere if some operator clears, else the plain fold of `denote` over
  predicates with the universe `i < N` fixed.
* a *first* `Union`/`WithUnion` (transaction not yet set up) intersects its first name with the live
  rows instead of uniting (`union_first_sem`): `FilterOp.stepFirst`. Every other first operator
  initializes (selection := live rows) and then behaves as on a set-up transaction.
-/

namespace ColumnVerif.Store
open ColumnVerif.Bits ColumnVerif.Codec ColumnVerif.Props.C04

/-- the row test of `WithInt/WithUint/WithFloat/WithString` on column `col`: nothing passes when the
    column is missing or of the wrong kind; rows in chunks the column does not have pass untouched;
    otherwise the row must hold a value satisfying the predicate -/
def predBit (s : Store) (col : String) (kindOk : Kind → Bool) (pred : Bytes → Bool) (i : Nat) : Bool :=
  match s.findCol col with
  | none => false
  | some c =>
    kindOk c.kind &&
      (if i / 16384 < c.nchunks then Bits.get c.bits i && pred ((c.read i).getD []) else true)

/-- the row test of `WithValue` -/
def valueBit (s : Store) (col : String) (pred : Bytes → Bool) (i : Nat) : Bool :=
  match s.findCol col with
  | none => false
  | some c =>
    match c.read i with
    | some v => pred v
    | none => false

/-- set-algebra meaning of one operator on a set-up transaction: `X` is the selection before, as a
    predicate on offsets, `N` the length of the selection (the universe `Union` can add from) -/
def FilterOp.denote (s : Store) (op : FilterOp) (N : Nat) (X : Nat → Bool) (i : Nat) : Bool :=
  match op with
  | .with_ ns => X i && ns.all (fun n => bitOf s n i)
  | .without ns => X i && !(ns.any (fun n => bitOf s n i))
  | .union ns => decide (i < N) && (X i || ns.any (fun n => bitOf s n i))
  | .withUnion ns => X i && ns.any (fun n => bitOf s n i)
  | .withNum col pred => X i && predBit s col Kind.isNumeric pred i
  | .withString col pred => X i && predBit s col Kind.isTextual pred i
  | .withValue col pred => X i && valueBit s col pred i

/-- meaning of a selection: its length and its membership predicate -/
structure Den where
  size : Nat
  mem : Nat → Bool

/-- the selection after `Clear()` -/
def Den.empty : Den := ⟨0, fun _ => false⟩

/-- meaning of one operator on a set-up transaction -/
def FilterOp.step (s : Store) (d : Den) (op : FilterOp) : Den :=
  ⟨if op.clears s then 0 else d.size, op.denote s d.size d.mem⟩

/-- meaning of a chain on a set-up transaction -/
def chainDen (s : Store) (d : Den) (ops : List FilterOp) : Den := ops.foldl (FilterOp.step s) d

/-- first-call `Union(names…)`: the first name intersects (a missing first name keeps everything),
    the others unite; no name at all keeps everything -/
def unionFirst (s : Store) (ns : List String) (N : Nat) (X : Nat → Bool) (i : Nat) : Bool :=
  match ns with
  | [] => X i
  | n :: rest =>
    decide (i < N) &&
      ((X i && (match s.findCol n with
                | some c => c.indexBit i
                | none => true))
        || rest.any (fun n => bitOf s n i))

/-- meaning of the first operator of a chain on a fresh transaction; `d` is the meaning of the
    initialized selection (the live rows) -/
def FilterOp.stepFirst (s : Store) (d : Den) : FilterOp → Den
  | .union ns => ⟨d.size, unionFirst s ns d.size d.mem⟩
  | .withUnion ns => ⟨d.size, unionFirst s ns d.size d.mem⟩
  | op => op.step s d

/-- the initialized selection: the live rows, at least `Capacity/64 + 1` words long -/
def liveDen (s : Store) : Den :=
  ⟨max s.fill.size (64 * max (s.cap / 64 + 1) (Bits.words s.fill)), fun i => Bits.get s.fill i⟩

end ColumnVerif.Store

namespace ColumnVerif.Props.C04chain
open ColumnVerif.Bits ColumnVerif.Codec ColumnVerif.Store ColumnVerif.Props.C04

/-- the meaning of the selection a transaction holds -/
def denOf (t : Txn) : Den := ⟨t.sel.size, sel t⟩

theorem Den.ext' {a b : Den} (h1 : a.size = b.size) (h2 : ∀ i, a.mem i = b.mem i) : a = b := by
  cases a; cases b
  simp only [Den.mk.injEq]
  exact ⟨h1, funext h2⟩

/-! ### one operator -/

theorem withPred_den (s : Store) (t : Txn) (h : t.setup = true) (col : String) (kindOk : Kind → Bool)
    (pred : Bytes → Bool) (i : Nat) :
    sel (t.withPred s col kindOk pred) i = (sel t i && predBit s col kindOk pred i) := by
  cases hc : s.findCol col with
  | none => rw [withPred_missing s t col kindOk pred hc]; simp [predBit, hc]
  | some c =>
    cases hk : kindOk c.kind with
    | false => rw [withPred_wrong_kind s t col kindOk pred c hc hk]; simp [predBit, hc, hk]
    | true => rw [withPred_sem s t col kindOk pred c hc hk, initialize_idem s t h]; simp [predBit, hc, hk]

theorem withValue_den (s : Store) (t : Txn) (h : t.setup = true) (col : String) (pred : Bytes → Bool) (i : Nat) :
    sel (t.withValue s col pred) i = (sel t i && valueBit s col pred i) := by
  cases hc : s.findCol col with
  | none =>
    have : sel (t.withValue s col pred) i = false := by
      unfold Txn.withValue; simp [hc, sel, Bits.get]
    rw [this]; simp [valueBit, hc]
  | some c =>
    rw [withValue_sem s t col pred c hc, initialize_idem s t h]
    simp only [valueBit, hc]
    cases c.read i <;> rfl

/-- every operator, applied to a set-up transaction, acts on the selection as its denotation -/
theorem applyOp_sem (s : Store) (t : Txn) (h : t.setup = true) (op : FilterOp) (i : Nat) :
    sel (t.applyOp s op) i = op.denote s t.sel.size (sel t) i := by
  have hi := initialize_idem s t h
  cases op with
  | with_ ns => simp only [Txn.applyOp, FilterOp.denote]; rw [with_sem, hi]
  | without ns => simp only [Txn.applyOp, FilterOp.denote]; rw [without_sem, hi, List.not_any_eq_all_not]
  | union ns => simp only [Txn.applyOp, FilterOp.denote]; exact union_sem s t h ns i
  | withUnion ns =>
    simp only [Txn.applyOp, FilterOp.denote]
    by_cases h1 : ns.length = 1
    · match ns, h1 with
      | [n], _ => rw [withUnion_single_sem s t h]; simp
    · exact withUnion_sem s t h ns h1 i
  | withNum col pred => simp only [Txn.applyOp, FilterOp.denote]; exact withPred_den s t h col _ pred i
  | withString col pred => simp only [Txn.applyOp, FilterOp.denote]; exact withPred_den s t h col _ pred i
  | withValue col pred => simp only [Txn.applyOp, FilterOp.denote]; exact withValue_den s t h col pred i

/-- … and leaves the transaction set up (`applyOp_setup`), with a selection of the same length, or
    of length `0` when it cleared (`applyOp_size`) -/
theorem applyOp_den (s : Store) (t : Txn) (h : t.setup = true) (op : FilterOp) :
    denOf (t.applyOp s op) = op.step s (denOf t) :=
  Den.ext' (applyOp_size s t h op) (applyOp_sem s t h op)

/-! ### chains on a set-up transaction -/

/-- compositional form: the meaning of the selection after a chain is the fold of the operators'
    meanings -/
theorem chain_den (s : Store) (t : Txn) (h : t.setup = true) (ops : List FilterOp) :
    denOf (t.chain s ops) = chainDen s (denOf t) ops := by
  unfold Txn.chain chainDen
  induction ops generalizing t with
  | nil => rfl
  | cons op rest ih =>
    simp only [List.foldl_cons]
    rw [ih _ (applyOp_setup s t op), applyOp_den s t h op]

theorem chain_mem (s : Store) (t : Txn) (h : t.setup = true) (ops : List FilterOp) (i : Nat) :
    sel (t.chain s ops) i = (chainDen s (denOf t) ops).mem i :=
  congrArg (fun d => d.mem i) (chain_den s t h ops)

theorem chain_size (s : Store) (t : Txn) (h : t.setup = true) (ops : List FilterOp) :
    (t.chain s ops).sel.size = (chainDen s (denOf t) ops).size :=
  congrArg Den.size (chain_den s t h ops)

/-! closed form of `chainDen` -/

theorem denote_of_clears (s : Store) (op : FilterOp) (hc : op.clears s = true) (N : Nat) (X : Nat → Bool)
    (i : Nat) : op.denote s N X i = false := by
  cases op with
  | with_ ns =>
    simp only [FilterOp.clears, List.any_eq_true] at hc
    obtain ⟨n, hn, hm⟩ := hc
    have hb : bitOf s n i = false := by
      cases hf : s.findCol n with
      | none => simp [bitOf, hf]
      | some c => simp [hf] at hm
    have : ns.all (fun n => bitOf s n i) = false := by
      rw [List.all_eq_false]; exact ⟨n, hn, by simp [hb]⟩
    simp [FilterOp.denote, this]
  | without ns => simp [FilterOp.clears] at hc
  | union ns => simp [FilterOp.clears] at hc
  | withUnion ns =>
    match ns, hc with
    | [n], hc =>
      simp only [FilterOp.clears] at hc
      cases hf : s.findCol n with
      | none => simp [FilterOp.denote, bitOf, hf]
      | some c => simp [hf] at hc
    | [], hc => simp [FilterOp.clears] at hc
    | _ :: _ :: _, hc => simp [FilterOp.clears] at hc
  | withNum col pred =>
    simp only [FilterOp.clears] at hc
    cases hf : s.findCol col with
    | none => simp [FilterOp.denote, predBit, hf]
    | some c =>
      rw [hf] at hc
      have : c.kind.isNumeric = false := by simpa using hc
      simp [FilterOp.denote, predBit, hf, this]
  | withString col pred =>
    simp only [FilterOp.clears] at hc
    cases hf : s.findCol col with
    | none => simp [FilterOp.denote, predBit, hf]
    | some c =>
      rw [hf] at hc
      have : c.kind.isTextual = false := by simpa using hc
      simp [FilterOp.denote, predBit, hf, this]
  | withValue col pred =>
    simp only [FilterOp.clears] at hc
    cases hf : s.findCol col with
    | none => simp [FilterOp.denote, valueBit, hf]
    | some c => simp [hf] at hc

theorem denote_empty (s : Store) (op : FilterOp) (i : Nat) : op.denote s 0 (fun _ => false) i = false := by
  cases op <;> simp [FilterOp.denote]

/-- a clearing operator empties the selection … -/
theorem step_of_clears (s : Store) (d : Den) (op : FilterOp) (hc : op.clears s = true) :
    op.step s d = Den.empty := by
  apply Den.ext'
  · simp [FilterOp.step, hc, Den.empty]
  · intro i; exact denote_of_clears s op hc d.size d.mem i

/-- … and the empty selection stays empty under every operator, `Union` included -/
theorem step_empty (s : Store) (op : FilterOp) : op.step s Den.empty = Den.empty := by
  apply Den.ext'
  · simp only [FilterOp.step, Den.empty]; split <;> rfl
  · intro i; exact denote_empty s op i

theorem step_of_not_clears (s : Store) (d : Den) (op : FilterOp) (hc : op.clears s = false) :
    op.step s d = ⟨d.size, op.denote s d.size d.mem⟩ := by
  simp [FilterOp.step, hc]

theorem chainDen_empty (s : Store) (ops : List FilterOp) : chainDen s Den.empty ops = Den.empty := by
  unfold chainDen
  induction ops with
  | nil => rfl
  | cons op rest ih => simp only [List.foldl_cons]; rw [step_empty, ih]

theorem chainDen_cleared (s : Store) (d : Den) (ops : List FilterOp) (hc : ops.any (fun op => op.clears s) = true) :
    chainDen s d ops = Den.empty := by
  induction ops generalizing d with
  | nil => simp at hc
  | cons op rest ih =>
    show chainDen s (op.step s d) rest = Den.empty
    cases h1 : op.clears s with
    | true => rw [step_of_clears s d op h1, chainDen_empty]
    | false =>
      apply ih
      simpa [h1] using hc

theorem chainDen_not_cleared (s : Store) (d : Den) (ops : List FilterOp)
    (hc : ops.any (fun op => op.clears s) = false) :
    chainDen s d ops = ⟨d.size, ops.foldl (fun X op => op.denote s d.size X) d.mem⟩ := by
  induction ops generalizing d with
  | nil => rfl
  | cons op rest ih =>
    show chainDen s (op.step s d) rest = _
    have h1 : op.clears s = false := by
      cases h : op.clears s with
      | false => rfl
      | true => simp [h] at hc
    have h2 : rest.any (fun op => op.clears s) = false := by simpa [h1] using hc
    rw [step_of_not_clears s d op h1, ih _ h2]
    rfl

theorem chainDen_mem (s : Store) (d : Den) (ops : List FilterOp) (i : Nat) :
    (chainDen s d ops).mem i =
      (!ops.any (fun op => op.clears s) && ops.foldl (fun X op => op.denote s d.size X) d.mem i) := by
  cases hc : ops.any (fun op => op.clears s) with
  | true => rw [chainDen_cleared s d ops hc]; rfl
  | false => rw [chainDen_not_cleared s d ops hc]; rfl

theorem chainDen_size (s : Store) (d : Den) (ops : List FilterOp) :
    (chainDen s d ops).size = if ops.any (fun op => op.clears s) then 0 else d.size := by
  cases hc : ops.any (fun op => op.clears s) with
  | true => rw [chainDen_cleared s d ops hc]; rfl
  | false => rw [chainDen_not_cleared s d ops hc]; rfl

/-- **C04 for chains of any length** (transaction already set up). Offset `i` is selected after
    `ops` iff no operator of the chain ran into `Clear()` and `i` satisfies the set-algebra
    expression the chain spells — the left fold of the operators' denotations, starting from the
    selection before the chain, with `Union` restricted to the universe `i < t.sel.size`. -/
theorem chain_sem (s : Store) (t : Txn) (h : t.setup = true) (ops : List FilterOp) (i : Nat) :
    sel (t.chain s ops) i =
      (!ops.any (fun op => op.clears s) &&
        ops.foldl (fun X op => op.denote s t.sel.size X) (sel t) i) := by
  rw [chain_mem s t h ops i, chainDen_mem]; rfl

/-- no operator clears (all named columns of `With`, typed filters, `WithValue` exist with the right
    kind): the plain fold -/
theorem chain_sem_of_not_clears (s : Store) (t : Txn) (h : t.setup = true) (ops : List FilterOp)
    (hc : ∀ op ∈ ops, op.clears s = false) (i : Nat) :
    sel (t.chain s ops) i = ops.foldl (fun X op => op.denote s t.sel.size X) (sel t) i := by
  have : ops.any (fun op => op.clears s) = false := by
    rw [List.any_eq_false]; intro op hop; simp [hc op hop]
  rw [chain_sem s t h, this]; rfl

/-- some operator clears: nothing is selected, whatever follows (D22) -/
theorem chain_sem_of_clears (s : Store) (t : Txn) (h : t.setup = true) (ops : List FilterOp)
    (op : FilterOp) (hop : op ∈ ops) (hc : op.clears s = true) (i : Nat) :
    sel (t.chain s ops) i = false := by
  have : ops.any (fun op => op.clears s) = true := List.any_eq_true.mpr ⟨op, hop, hc⟩
  rw [chain_sem s t h, this]; rfl

theorem chain_sel_size (s : Store) (t : Txn) (h : t.setup = true) (ops : List FilterOp) :
    (t.chain s ops).sel.size = if ops.any (fun op => op.clears s) then 0 else t.sel.size := by
  rw [chain_size s t h, chainDen_size]; rfl

/-! ### chains on a fresh transaction -/

theorem initialize_size (s : Store) (t : Txn) (h : t.setup = false) :
    (t.initialize s).sel.size = max s.fill.size (64 * max (s.cap / 64 + 1) (Bits.words s.fill)) := by
  unfold Txn.initialize; simp [h, size_growTo]

theorem denOf_initialize (s : Store) (t : Txn) (h : t.setup = false) : denOf (t.initialize s) = liveDen s :=
  Den.ext' (initialize_size s t h) (initialize_sem s t h)

theorem union_fresh_sem (s : Store) (t : Txn) (h : t.setup = false) (ns : List String) (i : Nat) :
    sel (t.union s ns) i = unionFirst s ns (t.initialize s).sel.size (sel (t.initialize s)) i := by
  cases ns with
  | nil => unfold Txn.union; rfl
  | cons n rest =>
    rw [union_first_sem s t h n rest i]
    simp only [unionFirst, initialize_sem s t h]
    cases s.findCol n <;> simp

/-- the first operator on a fresh transaction -/
theorem applyOp_den_fresh (s : Store) (t : Txn) (h : t.setup = false) (op : FilterOp) :
    denOf (t.applyOp s op) = op.stepFirst s (denOf (t.initialize s)) := by
  have hs := initialize_setup s t
  cases op with
  | union ns =>
    exact Den.ext' (union_size s t ns) (union_fresh_sem s t h ns)
  | withUnion ns =>
    simp only [Txn.applyOp]; rw [withUnion_fresh s t h]
    exact Den.ext' (union_size s t ns) (union_fresh_sem s t h ns)
  | with_ ns => rw [applyOp_initialize s t _ rfl]; exact applyOp_den s _ hs _
  | without ns => rw [applyOp_initialize s t _ rfl]; exact applyOp_den s _ hs _
  | withNum col pred => rw [applyOp_initialize s t _ rfl]; exact applyOp_den s _ hs _
  | withString col pred => rw [applyOp_initialize s t _ rfl]; exact applyOp_den s _ hs _
  | withValue col pred => rw [applyOp_initialize s t _ rfl]; exact applyOp_den s _ hs _

/-- chain on a fresh transaction, any first operator: the first operator acts by `stepFirst` on the
    live rows, the others by `step` -/
theorem chain_den_fresh (s : Store) (t : Txn) (h : t.setup = false) (op : FilterOp) (rest : List FilterOp) :
    denOf (t.chain s (op :: rest)) = chainDen s (op.stepFirst s (liveDen s)) rest := by
  show denOf ((t.applyOp s op).chain s rest) = _
  rw [chain_den s _ (applyOp_setup s t op), applyOp_den_fresh s t h, denOf_initialize s t h]

/-- a chain whose first operator is not `Union`/`WithUnion` runs as on the initialized transaction -/
theorem chain_fresh_eq (s : Store) (t : Txn) (op : FilterOp) (rest : List FilterOp) (hop : op.isUnion = false) :
    t.chain s (op :: rest) = (t.initialize s).chain s (op :: rest) := by
  show (t.applyOp s op).chain s rest = ((t.initialize s).applyOp s op).chain s rest
  rw [applyOp_initialize s t op hop]

/-- **C04 for chains from a fresh transaction** whose first operator is not `Union`/`WithUnion`:
    the fold of the denotations over the live rows (`Bits.get s.fill`), universe = length of the
    initialized selection. -/
theorem chain_sem_fresh (s : Store) (t : Txn) (h : t.setup = false) (op : FilterOp) (rest : List FilterOp)
    (hop : op.isUnion = false) (i : Nat) :
    sel (t.chain s (op :: rest)) i =
      (!(op :: rest).any (fun op => op.clears s) &&
        (op :: rest).foldl (fun X op => op.denote s (liveDen s).size X) (fun i => Bits.get s.fill i) i) := by
  rw [chain_fresh_eq s t op rest hop, chain_mem s _ (initialize_setup s t), denOf_initialize s t h, chainDen_mem]
  rfl

/-- first-call `Union(names…)` followed by any chain (D22(a) is inside `unionFirst`) -/
theorem chain_sem_fresh_union (s : Store) (t : Txn) (h : t.setup = false) (ns : List String)
    (rest : List FilterOp) (i : Nat) :
    sel (t.chain s (.union ns :: rest)) i =
      (!rest.any (fun op => op.clears s) &&
        rest.foldl (fun X op => op.denote s (liveDen s).size X)
          (unionFirst s ns (liveDen s).size (fun i => Bits.get s.fill i)) i) := by
  have := congrArg (fun d => d.mem i) (chain_den_fresh s t h (.union ns) rest)
  simp only [denOf] at this
  rw [this, chainDen_mem]; rfl

/-! ### `Count` and `Range` after a chain -/

theorem rangeList_den (s : Store) (t : Txn) (h : t.setup = true) :
    (t.rangeList s).2 = (List.range (denOf t).size).filter (denOf t).mem := by
  unfold Txn.rangeList
  simp only [initialize_idem s t h]
  rfl

theorem count_den (s : Store) (t : Txn) (h : t.setup = true) :
    (t.count s).2 = (List.range (denOf t).size).countP (denOf t).mem := by
  rw [txn_count_sem, rangeList_den s t h, List.countP_eq_length_filter]

/-- `Range` after a chain visits exactly the offsets below the selection's length that satisfy the
    denoted predicate, ascending, each once (the list is the filtered `List.range`) -/
theorem chain_range (s : Store) (t : Txn) (h : t.setup = true) (ops : List FilterOp) :
    ((t.chain s ops).rangeList s).2 =
      (List.range (chainDen s (denOf t) ops).size).filter (chainDen s (denOf t) ops).mem := by
  rw [rangeList_den s _ (chain_setup s t ops h), chain_den s t h]

/-- membership form: the side condition `i < size` is implied -/
theorem chain_range_mem (s : Store) (t : Txn) (h : t.setup = true) (ops : List FilterOp) (i : Nat) :
    i ∈ ((t.chain s ops).rangeList s).2 ↔
      (!ops.any (fun op => op.clears s) &&
        ops.foldl (fun X op => op.denote s t.sel.size X) (sel t) i) = true := by
  rw [rangeList_sem, initialize_idem s _ (chain_setup s t ops h), chain_sem s t h]

theorem chain_range_sorted (s : Store) (t : Txn) (ops : List FilterOp) :
    ((t.chain s ops).rangeList s).2.Pairwise (· < ·) := by
  unfold Txn.rangeList; exact range_sorted _

theorem chain_range_nodup (s : Store) (t : Txn) (ops : List FilterOp) :
    ((t.chain s ops).rangeList s).2.Nodup :=
  (chain_range_sorted s t ops).imp (fun h => Nat.ne_of_lt h)

/-- `Count` after a chain = number of offsets below the selection's length satisfying the denoted
    predicate -/
theorem chain_count (s : Store) (t : Txn) (h : t.setup = true) (ops : List FilterOp) :
    ((t.chain s ops).count s).2 =
      (List.range (chainDen s (denOf t) ops).size).countP (chainDen s (denOf t) ops).mem := by
  rw [count_den s _ (chain_setup s t ops h), chain_den s t h]

/-- closed forms when no operator clears -/
theorem chain_range_of_not_clears (s : Store) (t : Txn) (h : t.setup = true) (ops : List FilterOp)
    (hc : ops.any (fun op => op.clears s) = false) :
    ((t.chain s ops).rangeList s).2 =
      (List.range t.sel.size).filter (ops.foldl (fun X op => op.denote s t.sel.size X) (sel t)) := by
  rw [chain_range s t h, chainDen_not_cleared s _ ops hc]; rfl

theorem chain_count_of_not_clears (s : Store) (t : Txn) (h : t.setup = true) (ops : List FilterOp)
    (hc : ops.any (fun op => op.clears s) = false) :
    ((t.chain s ops).count s).2 =
      (List.range t.sel.size).countP (ops.foldl (fun X op => op.denote s t.sel.size X) (sel t)) := by
  rw [chain_count s t h, chainDen_not_cleared s _ ops hc]; rfl

/-- … and when one does: `Range` visits nothing, `Count` is `0` -/
theorem chain_range_of_clears (s : Store) (t : Txn) (h : t.setup = true) (ops : List FilterOp)
    (hc : ops.any (fun op => op.clears s) = true) :
    ((t.chain s ops).rangeList s).2 = [] ∧ ((t.chain s ops).count s).2 = 0 := by
  rw [chain_range s t h, chain_count s t h, chainDen_cleared s _ ops hc]
  exact ⟨rfl, rfl⟩

/-- fresh transaction, chain not starting with `Union`/`WithUnion` (the empty chain included):
    `Range`/`Count` initialize if nothing did, so the result is that of the chain run over the live rows -/
theorem chain_range_fresh (s : Store) (t : Txn) (h : t.setup = false) (ops : List FilterOp)
    (hop : ∀ op ∈ ops.head?, op.isUnion = false) :
    ((t.chain s ops).rangeList s).2 =
      (List.range (chainDen s (liveDen s) ops).size).filter (chainDen s (liveDen s) ops).mem := by
  rw [← denOf_initialize s t h, ← chain_range s _ (initialize_setup s t)]
  cases ops with
  | nil =>
    show (t.rangeList s).2 = ((t.initialize s).rangeList s).2
    unfold Txn.rangeList; rw [initialize_initialize]
  | cons op rest => rw [chain_fresh_eq s t op rest (hop op (by simp))]

theorem chain_count_fresh (s : Store) (t : Txn) (h : t.setup = false) (ops : List FilterOp)
    (hop : ∀ op ∈ ops.head?, op.isUnion = false) :
    ((t.chain s ops).count s).2 =
      (List.range (chainDen s (liveDen s) ops).size).countP (chainDen s (liveDen s) ops).mem := by
  rw [txn_count_sem, chain_range_fresh s t h ops hop, List.countP_eq_length_filter]

/-! ### non-vacuity: a two-column store, chains of three operators, both sides evaluated -/

def bitsOf (l : List Nat) : Bitmap := l.foldl Bits.set #[]

/-- live rows 1,2,3,5,6; bool column `a` = {1,2,3}; numeric column `v` with values at 2,3,5,6 -/
def sampleStore : Store :=
  { cap := 0, fill := bitsOf [1, 2, 3, 5, 6],
    cols := #[
      { name := "a", kind := .bool, bits := bitsOf [1, 2, 3] },
      { name := "v", kind := .num .i16, nchunks := 1, bits := bitsOf [2, 3, 5, 6],
        data := #[[], [], [0, 7], [0, 9], [], [0, 7], [0, 7]] }] }

/-- `With("a").WithInt("v", = 7).Union("v")` -/
def sampleOps : List FilterOp := [.with_ ["a"], .withNum "v" (fun b => b == [0, 7]), .union ["v"]]
/-- the typed filter has the wrong kind: `Clear()`, the later `Union` adds nothing -/
def sampleOpsCleared : List FilterOp := [.with_ ["a"], .withString "v" (fun _ => true), .union ["a"]]

-- the code side
example : ((({} : Txn).chain sampleStore sampleOps).rangeList sampleStore).2 = [2, 3, 5, 6] := by decide +kernel
example : ((({} : Txn).chain sampleStore sampleOps).count sampleStore).2 = 4 := by decide +kernel
-- the set-algebra side: ((live ∩ a) ∩ {v = 7}) ∪ v, universe 64
example : (liveDen sampleStore).size = 64 := by decide +kernel
example : (List.range 64).filter
    (sampleOps.foldl (fun X op => op.denote sampleStore 64 X) (fun i => Bits.get sampleStore.fill i))
    = [2, 3, 5, 6] := by decide +kernel
-- the hypotheses of the theorems hold here
example : ({} : Txn).setup = false := rfl
example : (({} : Txn).initialize sampleStore).setup = true := initialize_setup _ _
example : sampleOps.any (fun op => op.clears sampleStore) = false := by decide +kernel
example : ∀ op ∈ sampleOps.head?, op.isUnion = false := by decide
-- `chain_range_fresh` instantiated: code side = denotation side
example : ((({} : Txn).chain sampleStore sampleOps).rangeList sampleStore).2 =
    (List.range (chainDen sampleStore (liveDen sampleStore) sampleOps).size).filter
      (chainDen sampleStore (liveDen sampleStore) sampleOps).mem :=
  chain_range_fresh sampleStore {} rfl sampleOps (by decide)
-- a clearing chain: both sides empty
example : sampleOpsCleared.any (fun op => op.clears sampleStore) = true := by decide +kernel
example : ((({} : Txn).chain sampleStore sampleOpsCleared).rangeList sampleStore).2 = [] := by decide +kernel
-- first-call `Union` with a missing first name keeps every live row (D22(a)), then `Without("v")`
example : ((({} : Txn).chain sampleStore [.union ["nope", "a"], .without ["v"]]).rangeList sampleStore).2 = [1] := by
  decide +kernel
example : (List.range 64).filter
    (chainDen sampleStore (FilterOp.stepFirst sampleStore (liveDen sampleStore) (.union ["nope", "a"]))
      [.without ["v"]]).mem = [1] := by decide +kernel

end ColumnVerif.Props.C04chain

#print axioms ColumnVerif.Props.C04chain.chain_den
#print axioms ColumnVerif.Props.C04chain.chain_sem
#print axioms ColumnVerif.Props.C04chain.chain_sem_fresh
#print axioms ColumnVerif.Props.C04chain.chain_den_fresh
#print axioms ColumnVerif.Props.C04chain.chain_count
#print axioms ColumnVerif.Props.C04chain.chain_range
#print axioms ColumnVerif.Props.C04chain.chain_range_mem
#print axioms ColumnVerif.Props.C04chain.chain_range_fresh
#print axioms ColumnVerif.Props.C04chain.chain_count_fresh
