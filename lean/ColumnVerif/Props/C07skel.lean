import ColumnVerif.Conc.Skel
/-! C07 — skeleton obligations: Restore replays the logged commits newer than the chunk's stored id. -/
namespace ColumnVerif.Props.C07skel
open ColumnVerif.Skel
theorem dict_version_matches : ColumnVerif.Generated.dictVersion = expectedDictVersion := by decide +kernel
theorem flag_restoreFiltersById : restoreFiltersById = true := by decide +kernel
end ColumnVerif.Props.C07skel
