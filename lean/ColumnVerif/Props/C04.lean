import ColumnVerif.Lemmas.Filter
/-!
# C04 — filters, iteration and aggregates follow set semantics over live rows

`sel t i` is membership of offset `i` in the transaction's selection; `bitOf s n i` is membership of
`i` in the index / presence bitmap of the column named `n` (`false` when there is no such column).
All statements are for every store, every selection length, every number of chunks of the column
(missing chunks select nothing), every offset.
-/
namespace ColumnVerif.Props.C04
open ColumnVerif.Bits ColumnVerif.Store

def sel (t : Txn) (i : Nat) : Bool := Bits.get t.sel i

def bitOf (s : Store) (n : String) (i : Nat) : Bool :=
  match s.findCol n with
  | some c => c.indexBit i
  | none => false

/-- the first filter call starts from the live rows (the fill list) -/
theorem initialize_sem (s : Store) (t : Txn) (h : t.setup = false) (i : Nat) :
    sel (t.initialize s) i = Bits.get s.fill i := by
  unfold sel Txn.initialize; simp [h, get_growTo]

theorem initialize_idem (s : Store) (t : Txn) (h : t.setup = true) : t.initialize s = t := by
  unfold Txn.initialize; simp [h]

theorem sel_of_ge (t : Txn) (i : Nat) (h : t.sel.size ≤ i) : sel t i = false := get_of_ge _ _ h

/-- `With(names…)` = intersection with every named bitmap; a missing name selects nothing -/
theorem with_sem (s : Store) (t : Txn) (names : List String) (i : Nat) :
    sel (t.with_ s names) i = (sel (t.initialize s) i && names.all (fun n => bitOf s n i)) := by
  unfold Txn.with_
  generalize t.initialize s = t0
  induction names generalizing t0 with
  | nil => simp
  | cons n rest ih =>
    simp only [List.foldl_cons, List.all_cons]
    rw [ih]
    cases hc : s.findCol n with
    | none => simp [sel, bitOf, hc, Bits.get]
    | some c =>
      simp only [sel, bitOf, hc, get_mapChunks]
      by_cases hi : i < t0.sel.size
      · simp [hi, Bool.and_assoc]
      · simp [hi, get_of_ge t0.sel i (by omega)]

/-- `Without(names…)` = difference; a missing name changes nothing -/
theorem without_sem (s : Store) (t : Txn) (names : List String) (i : Nat) :
    sel (t.without s names) i = (sel (t.initialize s) i && names.all (fun n => !bitOf s n i)) := by
  unfold Txn.without
  generalize t.initialize s = t0
  induction names generalizing t0 with
  | nil => simp
  | cons n rest ih =>
    simp only [List.foldl_cons, List.all_cons]
    rw [ih]
    cases hc : s.findCol n with
    | none => simp [bitOf, hc]
    | some c =>
      simp only [sel, bitOf, hc, get_mapChunks]
      by_cases hi : i < t0.sel.size
      · simp [hi, Bool.and_assoc]
      · simp [hi, get_of_ge t0.sel i (by omega)]

/-- the union loop once the "first call intersects" flag is off -/
theorem union_loop_sem (s : Store) (t0 : Txn) (names : List String) (i : Nat) :
    sel (names.foldl (unionStep s) (t0, false)).1 i
    = (decide (i < t0.sel.size) && (sel t0 i || names.any (fun n => bitOf s n i))) := by
  induction names generalizing t0 with
  | nil =>
    simp only [List.foldl_nil, List.any_nil, Bool.or_false]
    by_cases hi : i < t0.sel.size
    · simp [hi]
    · simp [hi, sel_of_ge t0 i (by omega)]
  | cons n rest ih =>
    simp only [List.foldl_cons, List.any_cons]
    cases hc : s.findCol n with
    | none =>
      simp only [unionStep, hc]
      rw [ih]; simp [bitOf, hc]
    | some c =>
      simp only [unionStep, hc, Bool.false_eq_true, if_false]
      rw [ih]
      simp only [sel, bitOf, hc, get_mapChunks, size_mapChunks]
      by_cases hi : i < t0.sel.size
      · simp [hi, Bool.or_assoc]
      · simp [hi]

/-- `Union(names…)` on a transaction that was already filtered: union with every named bitmap
    (restricted to the selection's length); missing names contribute nothing -/
theorem union_sem (s : Store) (t : Txn) (h : t.setup = true) (names : List String) (i : Nat) :
    sel (t.union s names) i = (decide (i < t.sel.size) && (sel t i || names.any (fun n => bitOf s n i))) := by
  unfold Txn.union
  rw [initialize_idem s t h]
  simp only [h, Bool.not_true]
  exact union_loop_sem s t names i

/-- first-call `Union(n, rest…)`: the first name intersects with the live rows, the others are
    united. If the first name is missing the selection stays "all live rows" — the behaviour of the
    code, recorded as finding D22(a) -/
theorem union_first_sem (s : Store) (t : Txn) (h : t.setup = false) (n : String) (rest : List String) (i : Nat) :
    sel (t.union s (n :: rest)) i =
      (decide (i < (t.initialize s).sel.size) &&
        ((match s.findCol n with
          | some c => Bits.get s.fill i && c.indexBit i
          | none => Bits.get s.fill i) || rest.any (fun n => bitOf s n i))) := by
  unfold Txn.union
  simp only [h, Bool.not_false, List.foldl_cons]
  have hinit := initialize_sem s t h
  cases hc : s.findCol n with
  | none =>
    simp only [unionStep, hc]
    rw [union_loop_sem, hinit]
  | some c =>
    simp only [unionStep, hc, if_true]
    rw [union_loop_sem]
    simp only [sel, get_mapChunks, size_mapChunks]
    have := hinit i
    simp only [sel] at this
    by_cases hi : i < (t.initialize s).sel.size
    · simp [hi, this]
    · simp [hi]

/-- D22(a): with a missing first name the first-call union is *not* the union of the named
    bitmaps — every live row stays selected -/
theorem union_missing_first_counterexample :
    let s : Store := { fill := (Array.replicate 64 false).setIfInBounds 3 true, cap := 64 }
    sel (({} : Txn).union s ["missing"]) 3 = true ∧ bitOf s "missing" 3 = false := by decide +kernel

theorem any_filterMap_findCol (s : Store) (names : List String) (i : Nat) :
    (names.filterMap s.findCol).any (fun c => c.indexBit i) = names.any (fun n => bitOf s n i) := by
  induction names with
  | nil => rfl
  | cons n rest ih =>
    simp only [List.filterMap_cons, List.any_cons]
    cases hc : s.findCol n with
    | none => simp only [bitOf, hc, Bool.false_or]; exact ih
    | some c => simp only [List.any_cons, bitOf, hc]; rw [ih]; rfl

/-- `WithUnion(names…)` on a filtered transaction, two or more names (or none): intersection with
    the union of the named bitmaps -/
theorem withUnion_sem (s : Store) (t : Txn) (h : t.setup = true) (names : List String)
    (hn : names.length ≠ 1) (i : Nat) :
    sel (t.withUnion s names) i = (sel t i && names.any (fun n => bitOf s n i)) := by
  unfold Txn.withUnion
  simp only [h, Bool.not_true, Bool.false_eq_true, if_false, hn]
  simp only [sel, get_mapChunks, any_filterMap_findCol]
  by_cases hi : i < t.sel.size
  · simp [hi]
  · simp [hi, get_of_ge t.sel i (by omega)]

/-- `WithUnion(n)` with a single name on a filtered transaction: intersection (after the repair) -/
theorem withUnion_single_sem (s : Store) (t : Txn) (h : t.setup = true) (n : String) (i : Nat) :
    sel (t.withUnion s [n]) i = (sel t i && bitOf s n i) := by
  unfold Txn.withUnion
  simp only [h, Bool.not_true, Bool.false_eq_true, if_false, List.length_singleton, if_true]
  rw [with_sem, initialize_idem s t h]; simp

/-- typed value filters (`WithInt/Uint/Float/String`): rows of the column's chunks must hold a value
    satisfying the predicate; a missing column or a column of the wrong kind selects nothing -/
theorem withPred_sem (s : Store) (t : Txn) (col : String) (kindOk : Kind → Bool) (pred : Codec.Bytes → Bool)
    (c : Col) (hc : s.findCol col = some c) (hk : kindOk c.kind = true) (i : Nat) :
    sel (t.withPred s col kindOk pred) i =
      (sel (t.initialize s) i &&
        (if i / 16384 < c.nchunks then Bits.get c.bits i && pred ((c.read i).getD []) else true)) := by
  unfold Txn.withPred
  simp only [hc, hk, Bool.not_true, Bool.false_eq_true, if_false, sel, get_mapChunks]
  by_cases hi : i < (t.initialize s).sel.size
  · by_cases h2 : i / 16384 < c.nchunks
    · simp [hi, h2, Bool.and_assoc]
    · simp [hi, h2]
  · simp [hi, get_of_ge _ i (Nat.le_of_not_lt hi)]

theorem withPred_missing (s : Store) (t : Txn) (col : String) (kindOk : Kind → Bool) (pred : Codec.Bytes → Bool)
    (hc : s.findCol col = none) (i : Nat) : sel (t.withPred s col kindOk pred) i = false := by
  unfold Txn.withPred; simp [hc, sel, Bits.get]

theorem withPred_wrong_kind (s : Store) (t : Txn) (col : String) (kindOk : Kind → Bool) (pred : Codec.Bytes → Bool)
    (c : Col) (hc : s.findCol col = some c) (hk : kindOk c.kind = false) (i : Nat) :
    sel (t.withPred s col kindOk pred) i = false := by
  unfold Txn.withPred; simp [hc, hk, sel, Bits.get]

/-- `WithValue`: rows holding a value that satisfies the predicate -/
theorem withValue_sem (s : Store) (t : Txn) (col : String) (pred : Codec.Bytes → Bool)
    (c : Col) (hc : s.findCol col = some c) (i : Nat) :
    sel (t.withValue s col pred) i =
      (sel (t.initialize s) i && (match c.read i with | some v => pred v | none => false)) := by
  unfold Txn.withValue
  simp only [hc, sel, get_mapChunks]
  by_cases hi : i < (t.initialize s).sel.size
  · cases c.read i <;> simp [hi]
  · simp [hi, get_of_ge _ i (Nat.le_of_not_lt hi)]

/-! ### Count, Range -/

theorem toList_eq_map_get (b : Bitmap) : b.toList = (List.range b.size).map (fun i => Bits.get b i) := by
  apply List.ext_getElem
  · simp
  · intro i h1 h2
    have hi : i < b.size := by simpa using h1
    simp [get_eq_getElem b i hi]

/-- `Count` = number of selected rows = length of what `Range` visits -/
theorem count_sem (b : Bitmap) : Bits.count b = (Bits.toIdxList b).length := by
  unfold Bits.count Bits.toIdxList
  rw [toList_eq_map_get, List.countP_map, List.countP_eq_length_filter]
  rfl

/-- `Range` visits exactly the selected offsets … -/
theorem range_mem (b : Bitmap) (i : Nat) : i ∈ Bits.toIdxList b ↔ Bits.get b i = true := by
  unfold Bits.toIdxList
  simp only [List.mem_filter, List.mem_range]
  constructor
  · exact fun h => h.2
  · intro h
    refine ⟨?_, h⟩
    by_cases hi : i < b.size
    · exact hi
    · rw [get_of_ge b i (by omega)] at h; simp at h

/-- … each once, in ascending order (the cursor takes these values in this order) -/
theorem range_sorted (b : Bitmap) : (Bits.toIdxList b).Pairwise (· < ·) := by
  unfold Bits.toIdxList
  exact List.Pairwise.filter _ List.pairwise_lt_range

theorem rangeList_sem (s : Store) (t : Txn) (i : Nat) :
    i ∈ (t.rangeList s).2 ↔ sel (t.initialize s) i = true := by
  unfold Txn.rangeList sel; exact range_mem _ i

theorem txn_count_sem (s : Store) (t : Txn) : (t.count s).2 = (t.rangeList s).2.length := by
  unfold Txn.count Txn.rangeList; exact count_sem _

/-! ### aggregates -/

/-- the values folded by `Sum/Avg/Min/Max`: those of the selected rows that hold a value in the
    column (after the repair of D15), in ascending offset order -/
theorem aggValues_sem (s : Store) (t : Txn) (col : String) (c : Col) (hc : s.findCol col = some c) :
    (t.aggValues s col).2 =
      (((t.rangeList s).2.filter (fun i => i / 16384 < c.nchunks ∧ Bits.get c.bits i)).map
        (fun i => (c.read i).getD [])) := by
  unfold Txn.aggValues Txn.rangeList; simp [hc]

/-! non-vacuity -/
def sampleStore : Store :=
  { cap := 64, fill := Bits.set (Bits.set (Bits.growTo #[] 2) 3) 70,
    cols := #[{ name := "x", kind := .num .i16, nchunks := 1, bits := Bits.set #[] 70 }] }

example : (({} : Txn).with_ sampleStore ["x"] |>.rangeList sampleStore).2 = [70] := by decide +kernel
example : (({} : Txn).without sampleStore ["x"] |>.rangeList sampleStore).2 = [3] := by decide +kernel

end ColumnVerif.Props.C04
