import ColumnVerif.Lemmas.StoreRead
/-!
# C07 — restoring a snapshot reproduces rows, offsets and values

"Restoring a snapshot into a fresh collection with the same schema yields identical rows at identical offsets with
identical values …"

`writeState` (`Store.chunkState` / `Store.snapshot`) emits, per committed chunk, a `row` buffer with one `Insert` per
occupied offset and one buffer per column holding `Column.Snapshot(chunk)` (`Col.snapshotOps`: one `Put` per present
offset of the chunk). `readState` commits each chunk's buffers as one transaction.

* column level (`snapshot_apply_*`): applying `(c.snapshotOps ch).1` to a column `c0` of the same kind whose chunk `ch` is
  empty makes every reader of chunk `ch` see what it sees in `c` — numeric (every width), string, record, key and bool
  columns; no panic; the slots of the other chunks are untouched.
* `snapshot_markers_roundtrip`: the `row` buffer holds exactly one `Insert` per set fill bit of the chunk, and applying it
  to a fill list reproduces the chunk's bits.
* store level (`restore_chunk_*`, `readState_*`): the same through the real `Store.commit` (markers, main pass, computed
  pass, `commitCapacity`), for one chunk and for the whole snapshot: every committed offset of a numeric column reads the
  same in the restored store, the fill list is the same on every committed chunk, no panic is raised.

The one place where "identical" needs a side condition: a numeric snapshot writes `padTo width` of the raw slot — a
present slot holding the empty byte string (which no typed `Put` produces: values have 2/4/8 bytes) would come back as
zeros. The general statements carry `.map (padTo width)`; under `CanonAt` (present slots are non-empty) it disappears.
-/
namespace ColumnVerif.Props.C07
open ColumnVerif.Codec ColumnVerif.Store ColumnVerif.Bits

/-! ## column level -/

/-- numeric column, general form: restoring chunk `ch` of `c` into `c0` (same kind, chunk allocated, well-formed arrays,
    chunk empty): readers of the chunk see the snapshotted values; no panic on either side -/
theorem snapshot_apply_roundtrip_num (hash : Bytes → Nat) (c c0 : Col) (k : NumKind) (hk : c.kind = .num k)
    (hk0 : c0.kind = .num k) (ch : Nat) (hch : ch < c.nchunks) (hch0 : ch < c0.nchunks) (hw0 : ColWF c0)
    (hfresh : ∀ i, i / 16384 = ch → Bits.get c0.bits i = false) :
    (∀ i, i / 16384 = ch →
      (applyData hash c0 ch (c.snapshotOps ch).1).col.read i = (c.read i).map (padTo k.width)) ∧
    (applyData hash c0 ch (c.snapshotOps ch).1).panic = false ∧ (c.snapshotOps ch).2 = false := by
  have hkd : c.kind.storesRaw = true := by rw [hk]; rfl
  obtain ⟨_, _, _, m4, m5⟩ := snapshot_apply_meta hash c c0 hkd (hk0.trans hk.symm) ch hch hch0
  refine ⟨fun i hi => ?_, m4, m5⟩
  rw [snapshot_apply_read_raw hash c c0 hkd (hk0.trans hk.symm) ch hch hch0 hw0 hfresh i hi, read_data c hkd i,
    snapVal_num c k hk]
  by_cases hb : Bits.get c.bits i = true
  · rw [if_pos hb, if_pos ⟨by omega, hb⟩]; rfl
  · rw [if_neg hb, if_neg (fun h => hb h.2)]; rfl

/-- present slots of chunk `ch` hold a value (what every typed `Put` / non-empty merge result guarantees) -/
def CanonAt (c : Col) (ch : Nat) : Prop :=
  ∀ i, i / 16384 = ch → Bits.get c.bits i = true → c.data.getD i [] ≠ []

/-- **`snapshot_apply_roundtrip`** (numeric): present rows read the same value, absent rows read absent -/
theorem snapshot_apply_roundtrip (hash : Bytes → Nat) (c c0 : Col) (k : NumKind) (hk : c.kind = .num k)
    (hk0 : c0.kind = .num k) (ch : Nat) (hch : ch < c.nchunks) (hch0 : ch < c0.nchunks) (hw0 : ColWF c0)
    (hfresh : ∀ i, i / 16384 = ch → Bits.get c0.bits i = false) (hcanon : CanonAt c ch) :
    (∀ i, i / 16384 = ch → (applyData hash c0 ch (c.snapshotOps ch).1).col.read i = c.read i) ∧
    (applyData hash c0 ch (c.snapshotOps ch).1).panic = false ∧ (c.snapshotOps ch).2 = false := by
  obtain ⟨h1, h2, h3⟩ := snapshot_apply_roundtrip_num hash c c0 k hk hk0 ch hch hch0 hw0 hfresh
  refine ⟨fun i hi => ?_, h2, h3⟩
  rw [h1 i hi, read_data c (by rw [hk]; rfl) i]
  by_cases hb : Bits.get c.bits i = true
  · rw [if_pos ⟨by omega, hb⟩]
    simp only [Option.map_some]
    rw [padTo_of_ne_nil _ _ (hcanon i hi hb)]
  · rw [if_neg (fun h => hb h.2)]; rfl

/-- string, record and key columns: exact, no side condition -/
theorem snapshot_apply_roundtrip_str (hash : Bytes → Nat) (c c0 : Col)
    (hk : c.kind = .str ∨ c.kind = .record ∨ c.kind = .key) (hk0 : c0.kind = c.kind) (ch : Nat)
    (hch : ch < c.nchunks) (hch0 : ch < c0.nchunks) (hw0 : ColWF c0)
    (hfresh : ∀ i, i / 16384 = ch → Bits.get c0.bits i = false) :
    (∀ i, i / 16384 = ch → (applyData hash c0 ch (c.snapshotOps ch).1).col.read i = c.read i) ∧
    (applyData hash c0 ch (c.snapshotOps ch).1).panic = false ∧ (c.snapshotOps ch).2 = false := by
  have hkd : c.kind.storesRaw = true := by rcases hk with h | h | h <;> rw [h] <;> rfl
  obtain ⟨_, _, _, m4, m5⟩ := snapshot_apply_meta hash c c0 hkd hk0 ch hch hch0
  refine ⟨fun i hi => ?_, m4, m5⟩
  rw [snapshot_apply_read_raw hash c c0 hkd hk0 ch hch hch0 hw0 hfresh i hi, read_data c hkd i, snapVal_str c hk]
  by_cases hb : Bits.get c.bits i = true
  · rw [if_pos hb, if_pos ⟨by omega, hb⟩]
  · rw [if_neg hb, if_neg (fun h => hb h.2)]

/-- the restore of a chunk touches no slot of another chunk (any raw-storing data kind) -/
theorem snapshot_apply_frame (hash : Bytes → Nat) (c c0 : Col) (hkd : c.kind.storesRaw = true) (hk0 : c0.kind = c.kind)
    (ch : Nat) (hch : ch < c.nchunks) (hch0 : ch < c0.nchunks) (hw0 : ColWF c0) (i : Nat) (hi : i / 16384 ≠ ch) :
    slot (applyData hash c0 ch (c.snapshotOps ch).1).col i = slot c0 i := by
  rw [snapshot_apply_slot hash c c0 hkd hk0 ch hch hch0 hw0 i, if_neg (fun h => hi h.1)]

/-- bool columns (`applyOther`): every bit of the chunk is reproduced, the other bits are untouched, no panic -/
theorem snapshot_apply_roundtrip_bool (c c0 : Col) (hk : c.kind = .bool) (hk0 : c0.kind = .bool) (ch : Nat)
    (hsz : 16384 * (ch + 1) ≤ c0.bits.size) (hfresh : ∀ i, i / 16384 = ch → Bits.get c0.bits i = false) :
    (∀ i, i / 16384 = ch → (applyOther c0 (c.snapshotOps ch).1).1.read i = c.read i) ∧
    (∀ i, i / 16384 ≠ ch → (applyOther c0 (c.snapshotOps ch).1).1.read i = c0.read i) ∧
    (applyOther c0 (c.snapshotOps ch).1).2 = false ∧ (c.snapshotOps ch).2 = false := by
  have hb := fun j => snapshot_apply_bool c c0 hk hk0 ch hsz j
  refine ⟨fun i hi => ?_, fun i hi => ?_, (hb 0).2.1, (hb 0).2.2.1⟩
  · have hbit : Bits.get (applyOther c0 (c.snapshotOps ch).1).1.bits i = Bits.get c.bits i := by
      rw [(hb i).1]
      by_cases h : Bits.get c.bits i = true
      · rw [if_pos ⟨hi, h⟩, h]
      · rw [if_neg (fun x => h x.2), hfresh i hi]
        have : Bits.get c.bits i = false := by simpa using h
        rw [this]
    rw [read_bool _ (hb i).2.2.2, read_bool c hk, hbit]
  · have hbit : Bits.get (applyOther c0 (c.snapshotOps ch).1).1.bits i = Bits.get c0.bits i := by
      rw [(hb i).1, if_neg (fun x => hi x.1)]
    rw [read_bool _ (hb i).2.2.2, read_bool c0 hk0, hbit]

/-! ## the `row` buffer and the fill list -/

/-- **`snapshot_markers_roundtrip`**: the first buffer `chunkState` writes is the `row` buffer; reading chunk `ch` of it
    yields exactly one `Insert` per set fill bit of the chunk, ascending (and nothing for any other chunk); the marker part
    of `commitMarkers` applied to a fill list `f0` sets exactly those bits — with no bit of the chunk set in `f0`, the chunk's
    bits are those of the source; the bits of other chunks are untouched -/
theorem snapshot_markers_roundtrip (s : Store) (ch : Nat) :
    (s.chunkState ch).1.buffers.head? = some (rowBufOf s ch) ∧
    (rowBufOf s ch).column = rowColumn ∧
    (rowBufOf s ch).rangeOps ch =
      ((List.range 16384).filter (fun x => Bits.get s.fill (16384 * ch + x))).map
        (fun x => (⟨opInsert, 16384 * ch + x, .fixed 0 []⟩ : Op)) ∧
    (∀ c2, c2 ≠ ch → (rowBufOf s ch).rangeOps c2 = []) ∧
    (∀ (s0 : Store) j, Bits.get (s0.commitMarkers ch (rowBufOf s ch)).fill j =
      if j / 16384 = ch ∧ Bits.get s.fill j = true then true else Bits.get s0.fill j) ∧
    (∀ (s0 : Store), (∀ j, j / 16384 = ch → Bits.get s0.fill j = false) →
      ∀ j, j / 16384 = ch → Bits.get (s0.commitMarkers ch (rowBufOf s ch)).fill j = Bits.get s.fill j) := by
  obtain ⟨h1, _, h3, h4⟩ := rowBuf_ops s ch
  have hfill : ∀ (s0 : Store) j, Bits.get (s0.commitMarkers ch (rowBufOf s ch)).fill j =
      if j / 16384 = ch ∧ Bits.get s.fill j = true then true else Bits.get s0.fill j := by
    intro s0 j
    rw [commitMarkers_fill, h1, rowMarkers_fill]
  refine ⟨by rw [chunkState_buffers]; rfl, h3, h1, h4, hfill, ?_⟩
  intro s0 hfresh j hj
  rw [hfill s0 j]
  by_cases hb : Bits.get s.fill j = true
  · rw [if_pos ⟨hj, hb⟩, hb]
  · rw [if_neg (fun h => hb h.2), hfresh j hj]
    have : Bits.get s.fill j = false := by simpa using hb
    rw [this]

/-- the column buffers of a chunk's snapshot: one per registry column that is not a bitmap index, in registry order, each
    holding that column's `snapshotOps` in a single section of the chunk -/
theorem snapshot_buffers (s : Store) (ch : Nat) :
    (s.chunkState ch).1.buffers = rowBufOf s ch :: colBufsOf s ch ∧
    (∀ b ∈ (s.chunkState ch).1.buffers, ChunkOK b ∧ ∀ c' ∈ b.chunks, c' = ch) ∧
    (∀ c ∈ s.cols, c.kind.isIndex = false →
      ((Buf.empty c.name).putAll (c.snapshotOps ch).1) ∈ colBufsOf s ch ∧
      ((Buf.empty c.name).putAll (c.snapshotOps ch).1).rangeOps ch = (c.snapshotOps ch).1) := by
  refine ⟨chunkState_buffers s ch, fun b hb => ⟨chunkState_chunkOK s ch b hb, chunkState_chunks s ch b hb⟩, ?_⟩
  intro c hc hni
  refine ⟨?_, (putAll_empty_rangeOps c.name _ ch (snapshotOps_chunk c ch)).1⟩
  unfold colBufsOf
  exact List.mem_map.2 ⟨c, List.mem_filter.2 ⟨by simpa using hc, by simp [hni]⟩, rfl⟩

/-! ## store level: through `Store.commit` -/

/-- one chunk of a snapshot of `s` committed into `s0` (the transaction `readState` builds): the numeric column `x` of the
    result holds, in chunk `ch`, the snapshotted value at every offset present in `s`; every other slot is as in `s0` -/
theorem restore_chunk_slot (s s0 : Store) (ch : Nat) (x : String) (k : NumKind) (c c0 : Col)
    (hn : NamesDistinct s) (hr : s.findCol rowColumn = none)
    (hf : s.findCol x = some c) (hk : c.kind = .num k) (hch : ch < c.nchunks)
    (hf0 : s0.findCol x = some c0) (hk0 : c0.kind = .num k) (hw0 : ColWF c0) (hcov0 : s0.commits.size ≤ c0.nchunks)
    (hcomp0 : ∀ n c', s0.findCol n = some c' → x ∉ c'.computed) :
    ∃ col', (s0.commit (chunkTxn s ch)).findCol x = some col' ∧ col'.kind = .num k ∧ ColWF col' ∧ ch < col'.nchunks ∧
      ∀ i, slot col' i =
        if i / 16384 = ch ∧ Bits.get c.bits i = true then (true, padTo k.width (c.data.getD i [])) else slot c0 i := by
  obtain ⟨col', f, k', _, w', _, d', sl⟩ := Store.restore_chunk_slot s s0 ch x k c c0 hn hr hf hk hch hf0 hk0 hw0 hcov0 hcomp0
  exact ⟨col', f, k', w', d', sl⟩

/-- `readState` of a snapshot is one such commit per chunk, in ascending order -/
theorem readState_is_chunk_commits (s0 s : Store) :
    s0.readState (s.snapshot).1 = (List.range s.nChunks).foldl (fun s0 ch => s0.commit (chunkTxn s ch)) s0 :=
  readState_snapshot s0 s

/-- **C07, numeric column, whole snapshot, store level.** `s` any store with distinct column names, no column called
    `row`, a numeric column `x` covering the committed chunks; `s0` a store with a numeric column `x` of the same kind whose
    presence bitmap is empty (a fresh collection with the same schema). After `s0.readState (s.snapshot).1` every committed
    offset `i` reads in `x` what it reads in `s` (modulo `padTo`, see the header), and the slots beyond are untouched. -/
theorem readState_readback (s s0 : Store) (x : String) (k : NumKind) (c c0 : Col)
    (hn : NamesDistinct s) (hr : s.findCol rowColumn = none)
    (hf : s.findCol x = some c) (hk : c.kind = .num k) (hcovc : s.commits.size ≤ c.nchunks)
    (hf0 : s0.findCol x = some c0) (hk0 : c0.kind = .num k) (hw0 : ColWF c0) (hcov0 : s0.commits.size ≤ c0.nchunks)
    (hcomp0 : ∀ n c', s0.findCol n = some c' → x ∉ c'.computed)
    (hfresh : ∀ i, Bits.get c0.bits i = false) :
    ∃ col', (s0.readState (s.snapshot).1).findCol x = some col' ∧ col'.kind = .num k ∧
      ∀ i, i / 16384 < s.nChunks → col'.read i = (c.read i).map (padTo k.width) := by
  rw [readState_snapshot]
  obtain ⟨col', f, k', _, _, _, n', _, _, sl⟩ := readState_upTo s s0 x k c c0 hn hr hf hk hcovc hf0 hk0 hw0 hcov0 hcomp0
    s.nChunks (Nat.le_refl _)
  refine ⟨col', f, k', fun i hi => ?_⟩
  have hic : i / 16384 < c.nchunks := by unfold Store.nChunks at hi; omega
  by_cases hb : Bits.get c.bits i = true
  · have hs : slot col' i = (true, padTo k.width (c.data.getD i [])) := by
      rw [sl i, if_pos ⟨hi, hb⟩]
    have hA : i / 16384 < col'.nchunks ∧ (true, padTo k.width (c.data.getD i [])).1 = true := ⟨by omega, rfl⟩
    rw [read_raw col' (by rw [k']; rfl) i, hs, read_data c (by rw [hk]; rfl) i, if_pos hA, if_pos ⟨hic, hb⟩]
    rfl
  · have hs : (slot col' i).1 = false := by
      rw [sl i, if_neg (fun h => hb h.2)]
      exact hfresh i
    have hA : ¬ (i / 16384 < col'.nchunks ∧ (slot col' i).1 = true) := by
      intro h
      rw [hs] at h
      exact absurd h.2 (by decide)
    have hB : ¬ (i / 16384 < c.nchunks ∧ Bits.get c.bits i = true) := fun h => hb h.2
    rw [read_raw col' (by rw [k']; rfl) i, read_data c (by rw [hk]; rfl) i, if_neg hA, if_neg hB]
    rfl

/-- … with identical values when present numeric slots are non-empty -/
theorem readState_readback_exact (s s0 : Store) (x : String) (k : NumKind) (c c0 : Col)
    (hn : NamesDistinct s) (hr : s.findCol rowColumn = none)
    (hf : s.findCol x = some c) (hk : c.kind = .num k) (hcovc : s.commits.size ≤ c.nchunks)
    (hf0 : s0.findCol x = some c0) (hk0 : c0.kind = .num k) (hw0 : ColWF c0) (hcov0 : s0.commits.size ≤ c0.nchunks)
    (hcomp0 : ∀ n c', s0.findCol n = some c' → x ∉ c'.computed)
    (hfresh : ∀ i, Bits.get c0.bits i = false) (hcanon : ∀ ch, CanonAt c ch) :
    ∃ col', (s0.readState (s.snapshot).1).findCol x = some col' ∧
      ∀ i, i / 16384 < s.nChunks → col'.read i = c.read i := by
  obtain ⟨col', f, _, h⟩ := readState_readback s s0 x k c c0 hn hr hf hk hcovc hf0 hk0 hw0 hcov0 hcomp0 hfresh
  refine ⟨col', f, fun i hi => ?_⟩
  rw [h i hi, read_data c (by rw [hk]; rfl) i]
  by_cases hb : Bits.get c.bits i = true
  · have hic : i / 16384 < c.nchunks := by unfold Store.nChunks at hi; omega
    rw [if_pos ⟨hic, hb⟩]
    simp only [Option.map_some]
    rw [padTo_of_ne_nil _ _ (hcanon _ i rfl hb)]
  · rw [if_neg (fun h => hb h.2)]; rfl

/-- rows at identical offsets: after `readState`, the fill list has, on every committed chunk of `s`, exactly the bits of
    `s` (into a store whose fill list is empty); beyond, it is what it was -/
theorem readState_fill (s s0 : Store) (hn : NamesDistinct s) (hr : s.findCol rowColumn = none) (j : Nat) :
    Bits.get (s0.readState (s.snapshot).1).fill j =
      if j / 16384 < s.nChunks ∧ Bits.get s.fill j = true then true else Bits.get s0.fill j := by
  rw [readState_snapshot]
  exact readState_fill_upTo s s0 hn hr s.nChunks j

theorem readState_fill_fresh (s s0 : Store) (hn : NamesDistinct s) (hr : s.findCol rowColumn = none)
    (hfresh : ∀ j, Bits.get s0.fill j = false) (j : Nat) (hj : j / 16384 < s.nChunks) :
    Bits.get (s0.readState (s.snapshot).1).fill j = Bits.get s.fill j := by
  rw [readState_fill s s0 hn hr j]
  by_cases hb : Bits.get s.fill j = true
  · rw [if_pos ⟨hj, hb⟩, hb]
  · rw [if_neg (fun h => hb h.2), hfresh j]
    have : Bits.get s.fill j = false := by simpa using hb
    rw [this]

/-- restoring into a covered store raises no panic — whatever kinds of columns the snapshot carries -/
theorem readState_no_panic (s s0 : Store) (hcov : CoveredAll s0) (hck : ComputedKinds s0) :
    (s0.readState (s.snapshot).1).panicked = s0.panicked := by
  rw [readState_snapshot]
  exact (readState_no_panic_upTo s s0 hcov hck s.nChunks).1

/-! ## R7 — non-vacuity -/

def src : Col :=
  { name := "n", kind := .num .u32, nchunks := 1,
    bits := (Array.replicate 16384 false).setIfInBounds 5 true |>.setIfInBounds 7 true,
    data := (Array.replicate 16384 []).setIfInBounds 5 [0, 0, 1, 2] |>.setIfInBounds 7 [9, 9, 9, 9] |>.setIfInBounds 8 [1, 1, 1, 1] }

def fresh : Col :=
  { name := "n", kind := .num .u32, nchunks := 1, bits := Array.replicate 16384 false, data := Array.replicate 16384 [] }

theorem fresh_wf : ColWF fresh := ⟨by simp [fresh], by simp [fresh]⟩

theorem fresh_empty : ∀ i, Bits.get fresh.bits i = false := by
  intro i
  simp only [fresh]
  exact get_replicate_false 16384 i

theorem src_canon : ∀ ch, CanonAt src ch := by
  intro ch i _ hb
  have hi : i = 5 ∨ i = 7 := by
    simp only [src, Bits.get, Array.getElem?_setIfInBounds, Array.size_setIfInBounds, Array.size_replicate] at hb
    by_cases h7 : 7 = i
    · exact Or.inr h7.symm
    · by_cases h5 : 5 = i
      · exact Or.inl h5.symm
      · simp [h7, h5, Array.getElem?_replicate] at hb
        split at hb <;> simp at hb
  rcases hi with rfl | rfl <;> simp [src, Array.getD_eq_getD_getElem?]

/-- the column-level round trip applies to the example … -/
example : ∀ i, i / 16384 = 0 → (applyData (fun _ => 0) fresh 0 (src.snapshotOps 0).1).col.read i = src.read i :=
  (snapshot_apply_roundtrip (fun _ => 0) src fresh .u32 rfl rfl 0 (by decide) (by decide) fresh_wf (fun i _ => fresh_empty i)
    (src_canon 0)).1

/-- … and so does the store-level theorem: source and target stores with that schema -/
def srcStore : Store := { cols := #[src], commits := #[3], fill := (Array.replicate 16384 false).setIfInBounds 5 true }
def freshStore : Store := { cols := #[fresh], commits := #[0] }

theorem srcStore_find : srcStore.findCol "n" = some src := by simp [srcStore, Store.findCol, src]
theorem freshStore_find : freshStore.findCol "n" = some fresh := by simp [freshStore, Store.findCol, fresh]
theorem srcStore_names : NamesDistinct srcStore := by simp [NamesDistinct, srcStore]
theorem srcStore_norow : srcStore.findCol rowColumn = none := by
  simp [srcStore, Store.findCol, src, rowColumn]

theorem freshStore_computed : ∀ n c', freshStore.findCol n = some c' → "n" ∉ c'.computed := by
  intro n c' h
  have := findCol_mem h
  simp only [freshStore, List.mem_toArray, List.mem_singleton] at this
  rw [this]; simp [fresh]

example : ∃ col', (freshStore.readState (srcStore.snapshot).1).findCol "n" = some col' ∧
    ∀ i, i / 16384 < srcStore.nChunks → col'.read i = src.read i :=
  readState_readback_exact srcStore freshStore "n" .u32 src fresh srcStore_names srcStore_norow srcStore_find rfl
    (by decide) freshStore_find rfl fresh_wf (by decide) freshStore_computed fresh_empty src_canon

end ColumnVerif.Props.C07
