import ColumnVerif.Lemmas.Progress
/-!
# C18 — deadlock freedom and bounded termination of the two protocol machines

Over **every** schedule of `Conc/Machine.lean` (commit protocol: writers take one chunk latch at a time,
readers take a read latch) and of `Conc/SnapMachine.lean` (writers + one snapshot thread), from an
initial world (`Init w0`, `Reach … w0 w`):

* `no_deadlock` / `no_deadlock_working`: while some thread still has work, some step is enabled — and
  it is a step of a thread that has work (not just of an unrelated reader that may always enter);
* `blocker_runs`: a thread that waits (its `acquire` is disabled) waits for a thread that is inside a
  latch section of that chunk and *can run*; a waiting thread holds nothing
  (`holds_while_waiting_never`), so the waits-for relation has no chains, let alone cycles
  (`no_wait_chain`);
* `step_measure` / `bounded_runs`: a measure (9 per chunk not yet begun + the own steps left in the
  current section; 7 for the snapshot machine) drops with every step except a reader entering
  (`racquire`, +3) resp. `sOpen chunks` (sets the snapshot thread's share to `chunks.length + 2`, fires
  at most once). Hence in every run the threads of a finite set `ts` take at most
  `9 * Σ_{t ∈ ts} |todo₀ t| + 4 * r` steps, `r` = number of read sections they enter — exactly that many
  when they are all done and ids are drawn inside the latch; for the snapshot machine exactly
  `7 * Σ |todo₀ t| + (chunks.length + 3)` steps are taken when all is done.

"Thread `t` has an enabled step" is `Moves … w t`: some `Step` changes the pc of `t` (each `Step`
constructor changes the pc of exactly its acting thread — `step_actor`).

What this does *not* say: the model's `racquire` only needs `holder c = none`, so an unbounded stream
of readers can keep a writer waiting (the bound is in terms of `r`); Go's `RWMutex` blocks new readers
once a writer waits — that writer preference is not part of the model.
-/
namespace ColumnVerif.Props.C18

section commit
open ColumnVerif.Conc
variable {cfg : ProtoCfg} {merge : Nat → Nat → Nat} {w0 w : W}

/-! ## A. the commit machine -/

/-- thread `t` has something left to do -/
def Working (w : W) (t : Nat) : Prop := w.pc t ≠ .idle ∨ w.todo t ≠ []

/-- the pc is inside a write- or read-latch section of chunk `c`
    (`held/loaded/wroteAcc/wroteA/wroteB/emitted c …` or `rheld/readA/readAB c …`) -/
def InSection (p : PC) (c : Nat) : Prop := wchunk p = some c ∨ rchunk p = some c

theorem inSection_iff (p : PC) (c : Nat) :
    InSection p c ↔ (∃ id, p = .held c id) ∨ (∃ id s, p = .loaded c id s) ∨ (∃ id, p = .wroteAcc c id) ∨
      (∃ id, p = .wroteA c id) ∨ (∃ id, p = .wroteB c id) ∨ (∃ id, p = .emitted c id) ∨
      p = .rheld c ∨ (∃ a, p = .readA c a) ∨ ∃ a b, p = .readAB c a b := by
  cases p <;> simp [InSection, wchunk, rchunk]

/-- the new invariant: every registered reader of `c` is at `rheld c` / `readA c _` / `readAB c _ _`,
    and is registered once -/
theorem readers_in_section (hi : Init w0) (hr : Reach cfg merge w0 w) {t c : Nat}
    (h : t ∈ w.readers c) : rchunk (w.pc t) = some c :=
  (reach_invRM hi hr).rpc t c h

theorem readers_nodup (hi : Init w0) (hr : Reach cfg merge w0 w) (c : Nat) : (w.readers c).Nodup :=
  (reach_invRM hi hr).nodup c

/-- a thread inside a latch section always has an enabled step (in any world, no invariant needed):
    sections are straight-line code -/
theorem section_enabled {t c : Nat} (h : InSection (w.pc t) c) : Moves cfg merge w t := by
  rcases h with h | h
  · exact wsection_moves h
  · exact rsection_moves h

/-- `Moves` for a waiting thread is exactly the guard of `acquire` -/
theorem waiting_moves_iff {t c : Nat} {id : Option Nat} (hp : w.pc t = .pre c id) :
    Moves cfg merge w t ↔ (w.holder c = none ∧ w.readers c = []) :=
  moves_pre_iff hp

/-- a waiting thread holds no latch of any kind -/
theorem holds_while_waiting_never (hi : Init w0) (hr : Reach cfg merge w0 w) {t c : Nat}
    {id : Option Nat} (hp : w.pc t = .pre c id) : ∀ d, w.holder d ≠ some t ∧ t ∉ w.readers d := by
  intro d
  constructor
  · intro hh
    have := (reach_inv hi hr).m.hpc t d hh
    rw [hp] at this; simp [wchunk] at this
  · intro hm
    have := readers_in_section hi hr hm
    rw [hp] at this; simp [rchunk] at this

/-- A.2 — a thread whose `acquire` is not enabled waits for a thread `u` (the holder or a registered
    reader of the chunk) that is inside a section of that chunk and has an enabled step -/
theorem blocker_runs (hi : Init w0) (hr : Reach cfg merge w0 w) {t c : Nat} {id : Option Nat}
    (hp : w.pc t = .pre c id) (hb : ¬ Moves cfg merge w t) :
    ∃ u, u ≠ t ∧ (w.holder c = some u ∨ u ∈ w.readers c) ∧ InSection (w.pc u) c ∧
      Moves cfg merge w u := by
  rw [moves_pre_iff hp] at hb
  have hne : ∀ u, InSection (w.pc u) c → u ≠ t := by
    rintro u hu rfl
    rw [hp] at hu; simp [InSection, wchunk, rchunk] at hu
  cases hh : w.holder c with
  | some u =>
    have hs : InSection (w.pc u) c := Or.inl ((reach_inv hi hr).m.hpc u c hh)
    exact ⟨u, hne u hs, Or.inl rfl, hs, section_enabled hs⟩
  | none =>
    cases hl : w.readers c with
    | nil => exact absurd ⟨hh, hl⟩ hb
    | cons u rest =>
      have hm : u ∈ w.readers c := by rw [hl]; simp
      have hs : InSection (w.pc u) c := Or.inr (readers_in_section hi hr hm)
      exact ⟨u, hne u hs, Or.inr (hl ▸ hm), hs, section_enabled hs⟩

/-- `t` waits for `u`: `t` is about to take the latch of a chunk that `u` holds or reads -/
def WaitsFor (w : W) (t u : Nat) : Prop :=
  ∃ c id, w.pc t = .pre c id ∧ (w.holder c = some u ∨ u ∈ w.readers c)

/-- a blocked thread is exactly a thread that waits for somebody -/
theorem blocked_iff_waits {t c : Nat} {id : Option Nat} (hp : w.pc t = .pre c id) :
    ¬ Moves cfg merge w t ↔ ∃ u, WaitsFor w t u := by
  rw [moves_pre_iff hp]
  constructor
  · intro hb
    cases hh : w.holder c with
    | some u => exact ⟨u, c, id, hp, Or.inl hh⟩
    | none =>
      cases hl : w.readers c with
      | nil => exact absurd ⟨hh, hl⟩ hb
      | cons u rest => exact ⟨u, c, id, hp, Or.inr (by rw [hl]; simp)⟩
  · rintro ⟨u, c', id', hp', h⟩ ⟨hh, hl⟩
    rw [hp] at hp'; injection hp' with hc _; subst hc
    rcases h with h | h
    · rw [hh] at h; simp at h
    · rw [hl] at h; simp at h

/-- the waits-for relation has no chains: whoever is waited for can run and waits for nobody.
    (So there is no wait cycle, of any length.) -/
theorem no_wait_chain (hi : Init w0) (hr : Reach cfg merge w0 w) {t u : Nat} (h : WaitsFor w t u) :
    Moves cfg merge w u ∧ ∀ v, ¬ WaitsFor w u v := by
  obtain ⟨c, id, hp, hu⟩ := h
  have hs : InSection (w.pc u) c := by
    rcases hu with hu | hu
    · exact Or.inl ((reach_inv hi hr).m.hpc u c hu)
    · exact Or.inr (readers_in_section hi hr hu)
  refine ⟨section_enabled hs, ?_⟩
  rintro v ⟨d, id', hp', _⟩
  rw [hp'] at hs; simp [InSection, wchunk, rchunk] at hs

/-- every thread that has work either can run itself or waits for a thread that can -/
theorem working_runs_or_waits (hi : Init w0) (hr : Reach cfg merge w0 w) {t : Nat}
    (h : Working w t) :
    Moves cfg merge w t ∨ ∃ u c, u ≠ t ∧ InSection (w.pc u) c ∧ WaitsFor w t u ∧ Moves cfg merge w u := by
  by_cases hm : Moves cfg merge w t
  · exact Or.inl hm
  · right
    cases hp : w.pc t with
    | idle =>
      rcases h with h | h
      · exact absurd hp h
      · exact absurd (idle_moves hp h) hm
    | pre c id =>
      obtain ⟨u, hne, hu, hs, hmu⟩ := blocker_runs hi hr hp hm
      exact ⟨u, c, hne, hs, ⟨c, id, hp, hu⟩, hmu⟩
    | held c id => exact absurd (wsection_moves (c := c) (by rw [hp]; rfl)) hm
    | loaded c id s => exact absurd (wsection_moves (c := c) (by rw [hp]; rfl)) hm
    | wroteAcc c id => exact absurd (wsection_moves (c := c) (by rw [hp]; rfl)) hm
    | wroteA c id => exact absurd (wsection_moves (c := c) (by rw [hp]; rfl)) hm
    | wroteB c id => exact absurd (wsection_moves (c := c) (by rw [hp]; rfl)) hm
    | emitted c id => exact absurd (wsection_moves (c := c) (by rw [hp]; rfl)) hm
    | rheld c => exact absurd (rsection_moves (c := c) (by rw [hp]; rfl)) hm
    | readA c a => exact absurd (rsection_moves (c := c) (by rw [hp]; rfl)) hm
    | readAB c a b => exact absurd (rsection_moves (c := c) (by rw [hp]; rfl)) hm

/-- A.1 (strong form) — while some thread has work, a thread that has work has an enabled step -/
theorem no_deadlock_working (hi : Init w0) (hr : Reach cfg merge w0 w) (h : ∃ t, Working w t) :
    ∃ u, Working w u ∧ Moves cfg merge w u := by
  obtain ⟨t, ht⟩ := h
  rcases working_runs_or_waits hi hr ht with hm | ⟨u, c, _, hs, _, hmu⟩
  · exact ⟨t, ht, hm⟩
  · refine ⟨u, Or.inl ?_, hmu⟩
    intro hidle
    rw [hidle] at hs; simp [InSection, wchunk, rchunk] at hs

/-- A.1 — in every reachable world where some thread still has work, some step is enabled -/
theorem no_deadlock (hi : Init w0) (hr : Reach cfg merge w0 w) (h : ∃ t, Working w t) :
    ∃ w', Step cfg merge w w' := by
  obtain ⟨u, _, w', hs, _⟩ := no_deadlock_working hi hr h
  exact ⟨w', hs⟩

/-- a world without any enabled step has no work left (contrapositive of `no_deadlock`) -/
theorem stuck_is_done (hi : Init w0) (hr : Reach cfg merge w0 w) (h : ¬ ∃ w', Step cfg merge w w') :
    ∀ t, w.pc t = .idle ∧ w.todo t = [] := by
  intro t
  refine ⟨Classical.byContradiction fun hp => h (no_deadlock hi hr ⟨t, Or.inl hp⟩),
    Classical.byContradiction fun ht => h (no_deadlock hi hr ⟨t, Or.inr ht⟩)⟩

/-! ### A.3 — the termination measure

`rem`, `busy`, `tmu`, `mu`, `RunC` are defined in `Lemmas/Progress.lean`:
`tmu w t = 9 * (|todo t| - busy (pc t)) + rem (pc t)`, `mu ts w = Σ_{t ∈ ts} tmu w t`. -/

/-- `rem` is what the task says: the number of own steps until the thread is idle again -/
example : rem .idle = 0 ∧ rem (.pre 0 none) = 8 ∧ rem (.held 0 none) = 7 ∧ rem (.held 0 (some 1)) = 6 ∧
    rem (.loaded 0 1 0) = 5 ∧ rem (.wroteAcc 0 1) = 4 ∧ rem (.wroteA 0 1) = 3 ∧ rem (.wroteB 0 1) = 2 ∧
    rem (.emitted 0 1) = 1 ∧ rem (.rheld 0) = 3 ∧ rem (.readA 0 0) = 2 ∧ rem (.readAB 0 0 0) = 1 := by
  decide

/-- a step that moves thread `t` to `rheld c` is `racquire t c` (justifies the label `read` of `RunC`) -/
theorem read_step_is_racquire {w' : W} {t c : Nat} (hs : Step cfg merge w w') (hne : w'.pc t ≠ w.pc t)
    (hc : w'.pc t = .rheld c) : w.pc t = .idle ∧ w.todo t = [] ∧ w.holder c = none ∧
      w'.readers c = t :: w.readers c := by
  cases hs <;> simp only [setPc] at hne hc <;> split at hc <;> simp_all

/-- every step moves exactly one thread `t`; it leaves the measure of every other thread alone, and
    either is a reader entering (`t` arrives at `rheld`; `tmu` of `t` goes from 0 to 3) or strictly
    decreases the measure of `t` — by exactly 1 if ids are drawn inside the latch -/
theorem step_measure_thread (hi : Init w0) (hr : Reach cfg merge w0 w) {w' : W}
    (hs : Step cfg merge w w') :
    ∃ t, w'.pc t ≠ w.pc t ∧ (∀ u, u ≠ t → w'.pc u = w.pc u ∧ tmu w' u = tmu w u) ∧
      (((∃ c, w'.pc t = .rheld c) ∧ tmu w' t = tmu w t + 3) ∨
       ((∀ c, w'.pc t ≠ .rheld c) ∧ tmu w' t + 1 ≤ tmu w t ∧
          (cfg.idInsideLatch = true → tmu w' t + 1 = tmu w t))) :=
  step_tmu (reach_inv hi hr).todo hs

/-- `step_measure`: for a finite set `ts` of threads, a step of a thread outside `ts` leaves `mu ts`
    alone; a step of a thread in `ts` is a reader entering (`mu` + 3) or strictly decreases `mu` -/
theorem step_measure (hi : Init w0) (hr : Reach cfg merge w0 w) {ts : List Nat} (hts : ts.Nodup)
    {w' : W} (hs : Step cfg merge w w') :
    ∃ t, w'.pc t ≠ w.pc t ∧ (t ∉ ts → mu ts w' = mu ts w) ∧
      (t ∈ ts → ((∃ c, w'.pc t = .rheld c) ∧ mu ts w' = mu ts w + 3) ∨
                ((∀ c, w'.pc t ≠ .rheld c) ∧ mu ts w' < mu ts w)) := by
  obtain ⟨t, hch, hoth, hcase⟩ := step_measure_thread hi hr hs
  refine ⟨t, hch, fun hm => ?_, fun hm => ?_⟩
  · exact ColumnVerif.Progress.sum_map_congr (fun u hu => (hoth u (by rintro rfl; exact hm hu)).2)
  · have hsum := ColumnVerif.Progress.sum_map_update (f := tmu w) (g := tmu w')
      (fun u hu => (hoth u hu).2) ts hts hm
    rcases hcase with ⟨hc, he⟩ | ⟨hc, hle, _⟩
    · exact Or.inl ⟨hc, by unfold mu; omega⟩
    · exact Or.inr ⟨hc, by unfold mu; omega⟩

/-- every run can be counted, for every finite set of threads -/
theorem run_counted (ts : List Nat) (hr : Reach cfg merge w0 w) :
    ∃ n r k, RunC cfg merge ts w0 n r k w :=
  reach_runC ts hr

/-- `bounded_runs`: in a run from an initial world, the threads of `ts` together take at most
    `9 * Σ_{t ∈ ts} |todo₀ t| + 4 * r` steps, where `r` is the number of read sections they enter —
    whatever the other threads do in between (`k` steps). No livelock: a schedule of finitely many
    transactions and `r` reads stops. -/
theorem bounded_runs (hi : Init w0) {ts : List Nat} (hts : ts.Nodup) {n r k : Nat}
    (h : RunC cfg merge ts w0 n r k w) :
    n + mu ts w ≤ 9 * (ts.map (fun t => (w0.todo t).length)).sum + 4 * r := by
  have := (runC_measure hi hts h).1
  rw [mu_init hi] at this
  exact this

theorem bounded_runs' (hi : Init w0) {ts : List Nat} (hts : ts.Nodup) {n r k : Nat}
    (h : RunC cfg merge ts w0 n r k w) :
    n ≤ 9 * (ts.map (fun t => (w0.todo t).length)).sum + 4 * r := by
  have := bounded_runs hi hts h
  omega

/-- with ids drawn inside the latch the count is exact: steps taken + steps left = 9 per chunk + 4
    per read section -/
theorem bounded_runs_exact (hc : cfg.idInsideLatch = true) (hi : Init w0) {ts : List Nat}
    (hts : ts.Nodup) {n r k : Nat} (h : RunC cfg merge ts w0 n r k w) :
    n + mu ts w = 9 * (ts.map (fun t => (w0.todo t).length)).sum + 4 * r := by
  have := (runC_measure hi hts h).2 hc
  rw [mu_init hi] at this
  exact this

/-- per-thread bound, under arbitrary interference: thread `t` takes at most
    `9 * |todo₀ t| + 4 * r` steps, `r` = the read sections it enters -/
theorem thread_steps_bounded (hi : Init w0) {t n r k : Nat} (h : RunC cfg merge [t] w0 n r k w) :
    n ≤ 9 * (w0.todo t).length + 4 * r := by
  have := bounded_runs' hi (by simp) h
  simpa using this

/-- when the threads of `ts` are all done, the measure is 0 (so `bounded_runs_exact` counts the steps
    exactly) -/
theorem mu_done {ts : List Nat} (h : ∀ t ∈ ts, w.pc t = .idle ∧ w.todo t = []) : mu ts w = 0 := by
  unfold mu
  induction ts with
  | nil => rfl
  | cons a l ih =>
    simp only [List.map_cons, List.sum_cons]
    rw [ih (fun t ht => h t (by simp [ht]))]
    have := h a (by simp)
    simp [tmu, this.1, this.2, busy, rem]

end commit

/-! ## B. the snapshot machine -/

namespace Snap
open ColumnVerif.Conc.Snap

variable {w0 w : W}

/-- writer `t` has something left to do -/
def Working (w : W) (t : Nat) : Prop := w.pc t ≠ .idle ∨ w.todo t ≠ []

/-- a writer inside the latch section always has an enabled step (no invariant needed) -/
theorem section_enabled {t c : Nat} (h : InLatch (w.pc t) c) : Moves w t := latch_moves h

/-- `Moves` for a waiting writer is exactly the guard of `acquire`; in particular no writer ever waits
    for the snapshot thread (`sRead` is one atomic step: the read latch is not held across steps) -/
theorem waiting_moves_iff {t c : Nat} (hp : w.pc t = .pre c) : Moves w t ↔ w.holder c = none :=
  moves_pre_iff hp

/-- `SMoves` for the snapshot thread about to read `c` is exactly the guard of `sRead` -/
theorem reading_moves_iff {c : Nat} {rest : List Nat} (hp : w.spc = .opened (c :: rest)) :
    SMoves w ↔ w.holder c = none :=
  smoves_opened_iff hp

/-- a waiting writer holds no latch -/
theorem holds_while_waiting_never (hi : Init w0) (hr : Reach w0 w) {t c : Nat} (hp : w.pc t = .pre c) :
    ∀ d, w.holder d ≠ some t := by
  intro d hh
  have := (reach_inv hi hr).m.hpc t d hh
  rw [hp] at this; simp [InLatch, latchChunk] at this

/-- B.2 (writers) — a writer whose `acquire` is not enabled waits for the holder of the chunk, which
    is inside the latch section and has an enabled step -/
theorem blocker_runs (hi : Init w0) (hr : Reach w0 w) {t c : Nat} (hp : w.pc t = .pre c)
    (hb : ¬ Moves w t) :
    ∃ u, u ≠ t ∧ w.holder c = some u ∧ InLatch (w.pc u) c ∧ Moves w u := by
  rw [moves_pre_iff hp] at hb
  cases hh : w.holder c with
  | none => exact absurd hh hb
  | some u =>
    have hs := (reach_inv hi hr).m.hpc u c hh
    refine ⟨u, ?_, rfl, hs, latch_moves hs⟩
    rintro rfl
    rw [hp] at hs; simp [InLatch, latchChunk] at hs

/-- B.2 (snapshot thread) — blocked in `sRead c`, it waits for the holder of `c`, which is inside the
    latch section and has an enabled step -/
theorem blocker_runs_snapshot (hi : Init w0) (hr : Reach w0 w) {c : Nat} {rest : List Nat}
    (hp : w.spc = .opened (c :: rest)) (hb : ¬ SMoves w) :
    ∃ u, w.holder c = some u ∧ InLatch (w.pc u) c ∧ Moves w u := by
  rw [smoves_opened_iff hp] at hb
  cases hh : w.holder c with
  | none => exact absurd hh hb
  | some u =>
    have hs := (reach_inv hi hr).m.hpc u c hh
    exact ⟨u, rfl, hs, latch_moves hs⟩

/-- whoever is waited for (a latch holder) waits for nobody: it is not at `pre` -/
theorem no_wait_chain (hi : Init w0) (hr : Reach w0 w) {u c : Nat} (hh : w.holder c = some u) :
    Moves w u ∧ ∀ d, w.pc u ≠ .pre d := by
  have hs := (reach_inv hi hr).m.hpc u c hh
  refine ⟨latch_moves hs, fun d hp => ?_⟩
  rw [hp] at hs; simp [InLatch, latchChunk] at hs

/-- every writer that has work either can run itself or waits for a latch holder that can -/
theorem working_runs_or_waits (hi : Init w0) (hr : Reach w0 w) {t : Nat} (h : Working w t) :
    Moves w t ∨ ∃ u c, u ≠ t ∧ w.pc t = .pre c ∧ w.holder c = some u ∧ InLatch (w.pc u) c ∧ Moves w u := by
  by_cases hm : Moves w t
  · exact Or.inl hm
  · right
    cases hp : w.pc t with
    | idle =>
      rcases h with h | h
      · exact absurd hp h
      · exact absurd (idle_moves hp h) hm
    | pre c =>
      obtain ⟨u, hne, hu, hs, hmu⟩ := blocker_runs hi hr hp hm
      exact ⟨u, c, hne, rfl, hu, hs, hmu⟩
    | held c => exact absurd (latch_moves (c := c) (by rw [hp]; rfl)) hm
    | drawn c id => exact absurd (latch_moves (c := c) (by rw [hp]; rfl)) hm
    | applied c id => exact absurd (latch_moves (c := c) (by rw [hp]; rfl)) hm
    | sawRecorder c id on => exact absurd (latch_moves (c := c) (by rw [hp]; rfl)) hm
    | recorded c id => exact absurd (latch_moves (c := c) (by rw [hp]; rfl)) hm

/-- B.1 (writers) — while some writer has work, a writer that has work has an enabled step,
    whatever the snapshot thread does -/
theorem writers_progress (hi : Init w0) (hr : Reach w0 w) (h : ∃ t, Working w t) :
    ∃ u, Working w u ∧ Moves w u := by
  obtain ⟨t, ht⟩ := h
  rcases working_runs_or_waits hi hr ht with hm | ⟨u, c, _, _, _, hs, hmu⟩
  · exact ⟨t, ht, hm⟩
  · refine ⟨u, Or.inl ?_, hmu⟩
    intro hidle
    rw [hidle] at hs; simp [InLatch, latchChunk] at hs

/-- B.1 (snapshot thread) — until it has copied the log, the snapshot thread can run or waits for a
    latch holder that can -/
theorem snapshot_progress (hi : Init w0) (hr : Reach w0 w) (h : w.spc ≠ .copied) :
    SMoves w ∨ ∃ c rest u, w.spc = .opened (c :: rest) ∧ w.holder c = some u ∧ InLatch (w.pc u) c ∧
      Moves w u := by
  by_cases hm : SMoves w
  · exact Or.inl hm
  · right
    have : ¬ ∀ c rest, w.spc ≠ .opened (c :: rest) := fun hr' => hm (smoves_of_not_reading h hr')
    have : ∃ c rest, w.spc = .opened (c :: rest) :=
      Classical.byContradiction fun hn => this (fun c rest hp => hn ⟨c, rest, hp⟩)
    obtain ⟨c, rest, hp⟩ := this
    obtain ⟨u, hu, hs, hmu⟩ := blocker_runs_snapshot hi hr hp hm
    exact ⟨c, rest, u, hp, hu, hs, hmu⟩

/-- B.1 — while a writer has work or the snapshot is not finished, some step is enabled -/
theorem no_deadlock (hi : Init w0) (hr : Reach w0 w) (h : (∃ t, Working w t) ∨ w.spc ≠ .copied) :
    ∃ w', Step w w' := by
  rcases h with h | h
  · obtain ⟨u, _, w', hs, _⟩ := writers_progress hi hr h
    exact ⟨w', hs⟩
  · rcases snapshot_progress hi hr h with ⟨w', hs, _⟩ | ⟨_, _, u, _, _, _, w', hs, _⟩
    · exact ⟨w', hs⟩
    · exact ⟨w', hs⟩

/-- a world without any enabled step: every writer is done and the snapshot is complete -/
theorem stuck_is_done (hi : Init w0) (hr : Reach w0 w) (h : ¬ ∃ w', Step w w') :
    (∀ t, w.pc t = .idle ∧ w.todo t = []) ∧ w.spc = .copied := by
  refine ⟨fun t => ⟨?_, ?_⟩, ?_⟩
  · exact Classical.byContradiction fun hp => h (no_deadlock hi hr (Or.inl ⟨t, Or.inl hp⟩))
  · exact Classical.byContradiction fun ht => h (no_deadlock hi hr (Or.inl ⟨t, Or.inr ht⟩))
  · exact Classical.byContradiction fun hs => h (no_deadlock hi hr (Or.inr hs))

/-! ### B.3 — the termination measure

`tmu w t = 7 * (|todo t| - busy (pc t)) + rem (pc t)`, `srem` for the snapshot thread,
`mu ts w = Σ_{t ∈ ts} tmu w t + srem w.spc` (all in `Lemmas/Progress.lean`). -/

example : rem .idle = 0 ∧ rem (.pre 0) = 6 ∧ rem (.held 0) = 5 ∧ rem (.drawn 0 1) = 4 ∧
    rem (.applied 0 1) = 3 ∧ rem (.sawRecorder 0 1 true) = 2 ∧ rem (.recorded 0 1) = 1 ∧
    srem .notStarted = 0 ∧ srem (.opened [3, 4]) = 4 ∧ srem (.opened []) = 2 ∧ srem .closed = 1 ∧
    srem .copied = 0 := by
  decide

/-- every step is the step of exactly one writer, whose measure drops by exactly 1 (nothing else
    changes), or a step of the snapshot thread (no writer's measure changes): `sOpen chunks` from
    `notStarted`, or a step that drops `srem` by exactly 1 -/
theorem step_measure (hi : Init w0) (hr : Reach w0 w) {w' : W} (hs : Step w w') :
    (∃ t, w'.pc t ≠ w.pc t ∧ w'.spc = w.spc ∧
        (∀ u, u ≠ t → w'.pc u = w.pc u ∧ tmu w' u = tmu w u) ∧ tmu w' t + 1 = tmu w t) ∨
    ((∀ u, w'.pc u = w.pc u ∧ tmu w' u = tmu w u) ∧ w'.spc ≠ w.spc ∧
        ((w.spc = .notStarted ∧ ∃ chunks, w'.spc = .opened chunks) ∨
         (w.spc ≠ .notStarted ∧ srem w'.spc + 1 = srem w.spc))) :=
  step_tmu (reach_invTodo hi hr) hs

/-- every run can be counted, for every finite set of writers -/
theorem run_counted (ts : List Nat) (hr : Reach w0 w) : ∃ n b k, RunC ts w0 n b k w :=
  reach_runC ts hr

/-- `sOpen` fires at most once (`spc` never returns to `notStarted`): the budget `b` is 0 before it
    and `chunks.length + 3` for the one chunk list chosen, ever after -/
theorem snapshot_budget_once (hi : Init w0) {ts : List Nat} {n b k : Nat} (h : RunC ts w0 n b k w) :
    (w.spc = .notStarted ∧ b = 0) ∨
      (w.spc ≠ .notStarted ∧ ∃ chunks : List Nat, b = chunks.length + 3) :=
  runC_budget hi h

/-- `bounded_runs`: in a run from an initial world, the writers of `ts` and the snapshot thread
    together take *exactly* `7 * Σ_{t ∈ ts} |todo₀ t| + b - mu ts w` steps — whatever other writers do
    in between — where `b = chunks.length + 3` once `sOpen chunks` has fired (0 before) -/
theorem bounded_runs (hi : Init w0) {ts : List Nat} (hts : ts.Nodup) {n b k : Nat}
    (h : RunC ts w0 n b k w) :
    n + mu ts w = 7 * (ts.map (fun t => (w0.todo t).length)).sum + b := by
  have := runC_measure hi hts h
  rw [mu_init hi] at this
  exact this

theorem bounded_runs' (hi : Init w0) {ts : List Nat} (hts : ts.Nodup) {n b k : Nat}
    (h : RunC ts w0 n b k w) :
    n ≤ 7 * (ts.map (fun t => (w0.todo t).length)).sum + b := by
  have := bounded_runs hi hts h
  omega

/-- when the writers of `ts` are done and the snapshot is complete, the measure is 0 -/
theorem mu_done {ts : List Nat} (h : ∀ t ∈ ts, w.pc t = .idle ∧ w.todo t = []) (hs : w.spc = .copied) :
    mu ts w = 0 := by
  unfold mu
  rw [hs]
  simp only [srem, Nat.add_zero]
  induction ts with
  | nil => rfl
  | cons a l ih =>
    simp only [List.map_cons, List.sum_cons]
    rw [ih (fun t ht => h t (by simp [ht]))]
    have := h a (by simp)
    simp [tmu, this.1, this.2, busy, rem]

end Snap

/-! ## C. non-vacuity -/

namespace Demo

section commit
open ColumnVerif.Conc

/-- commit machine: thread 0 holds chunk 0 (`begin`, `acquire`), thread 1 waits for it (`begin`) -/
theorem blocked_by_writer : ∃ w, Reach ProtoCfg.good (· + ·) Demo.w0 w ∧ w.pc 1 = .pre 0 none ∧
    w.holder 0 = some 0 ∧ ¬ Moves ProtoCfg.good (· + ·) w 1 := by
  have r1 := Reach.step (Reach.refl (cfg := ProtoCfg.good) (merge := (· + ·)) (w0 := Demo.w0))
    (Step.begin Demo.w0 0 0 [] rfl rfl rfl)
  have r2 := Reach.step r1 (Step.acquire _ 0 0 none rfl rfl rfl)
  have r3 := Reach.step r2 (Step.begin _ 1 0 [] rfl rfl rfl)
  refine ⟨_, r3, rfl, rfl, ?_⟩
  rw [moves_pre_iff (c := 0) (id := none) rfl]
  intro h; exact absurd h.1 (by decide)

/-- the premises of `blocker_runs` are satisfiable, and its conclusion on that world: the blocker is
    thread 0, and it can run -/
example : ∃ w, Reach ProtoCfg.good (· + ·) Demo.w0 w ∧ w.pc 1 = .pre 0 none ∧
    ¬ Moves ProtoCfg.good (· + ·) w 1 ∧
    ∃ u, u ≠ 1 ∧ (w.holder 0 = some u ∨ u ∈ w.readers 0) ∧ InSection (w.pc u) 0 ∧
      Moves ProtoCfg.good (· + ·) w u := by
  obtain ⟨w, hr, hp, _, hb⟩ := blocked_by_writer
  exact ⟨w, hr, hp, hb, blocker_runs Demo.init_w0 hr hp hb⟩

/-- commit machine: thread 2 reads chunk 0 (`racquire`), thread 0 waits for it (`begin`) -/
theorem blocked_by_reader : ∃ w, Reach ProtoCfg.good (· + ·) Demo.w0 w ∧ w.pc 0 = .pre 0 none ∧
    w.readers 0 = [2] ∧ ¬ Moves ProtoCfg.good (· + ·) w 0 := by
  have r1 := Reach.step (Reach.refl (cfg := ProtoCfg.good) (merge := (· + ·)) (w0 := Demo.w0))
    (Step.racquire Demo.w0 2 0 rfl rfl rfl)
  have r2 := Reach.step r1 (Step.begin _ 0 0 [] rfl rfl rfl)
  refine ⟨_, r2, rfl, rfl, ?_⟩
  rw [moves_pre_iff (c := 0) (id := none) rfl]
  intro h; exact absurd h.2 (by decide)

example : ∃ w, Reach ProtoCfg.good (· + ·) Demo.w0 w ∧ WaitsFor w 0 2 ∧
    Moves ProtoCfg.good (· + ·) w 2 := by
  obtain ⟨w, hr, hp, hrd, _⟩ := blocked_by_reader
  have hw : WaitsFor w 0 2 := ⟨0, none, hp, Or.inr (by rw [hrd]; simp)⟩
  exact ⟨w, hr, hw, (no_wait_chain Demo.init_w0 hr hw).1⟩

/-- the bound of `bounded_runs` is attained: thread 0 commits chunk 0 (9 steps), thread 2 reads it
    (4 steps, 1 read section): 13 counted steps = 9 * 1 + 4 * 1, and nothing is left -/
theorem tight_run : ∃ w, RunC ProtoCfg.good (· + ·) [0, 2] Demo.w0 13 1 0 w ∧ mu [0, 2] w = 0 ∧
    9 * ([0, 2].map (fun t => (Demo.w0.todo t).length)).sum + 4 * 1 = 13 := by
  have r0 : RunC ProtoCfg.good (· + ·) [0, 2] Demo.w0 0 0 0 Demo.w0 := RunC.refl
  have r1 := RunC.work r0 (Step.begin Demo.w0 0 0 [] rfl rfl rfl) (t := 0) (by decide) (by decide)
    (fun c h => nomatch h)
  have r2 := RunC.work r1 (Step.acquire _ 0 0 none rfl rfl rfl) (t := 0) (by decide) (by decide)
    (fun c h => nomatch h)
  have r3 := RunC.work r2 (Step.draw _ 0 0 rfl) (t := 0) (by decide) (by decide) (fun c h => nomatch h)
  have r4 := RunC.work r3 (Step.load _ 0 0 1 rfl) (t := 0) (by decide) (by decide)
    (fun c h => nomatch h)
  have r5 := RunC.work r4 (Step.storeAcc _ 0 0 1 0 rfl) (t := 0) (by decide) (by decide)
    (fun c h => nomatch h)
  have r6 := RunC.work r5 (Step.writeA _ 0 0 1 rfl) (t := 0) (by decide) (by decide)
    (fun c h => nomatch h)
  have r7 := RunC.work r6 (Step.writeB _ 0 0 1 rfl) (t := 0) (by decide) (by decide)
    (fun c h => nomatch h)
  have r8 := RunC.work r7 (Step.emit _ 0 0 1 rfl) (t := 0) (by decide) (by decide)
    (fun c h => nomatch h)
  have r9 := RunC.work r8 (Step.release _ 0 0 1 rfl) (t := 0) (by decide) (by decide)
    (fun c h => nomatch h)
  have r10 := RunC.read r9 (Step.racquire _ 2 0 rfl rfl rfl) (t := 2) (c := 0) (by decide) (by decide) rfl
  have r11 := RunC.work r10 (Step.rreadA _ 2 0 rfl) (t := 2) (by decide) (by decide)
    (fun c h => nomatch h)
  have r12 := RunC.work r11 (Step.rreadB _ 2 0 1 rfl) (t := 2) (by decide) (by decide)
    (fun c h => nomatch h)
  have r13 := RunC.work r12 (Step.rrelease _ 2 0 1 1 rfl) (t := 2) (by decide) (by decide)
    (fun c h => nomatch h)
  exact ⟨_, r13, by decide, by decide⟩

/-- … consistent with `bounded_runs_exact` -/
example : ∃ w n r k, RunC ProtoCfg.good (· + ·) [0, 2] Demo.w0 n r k w ∧
    n + mu [0, 2] w = 9 * ([0, 2].map (fun t => (Demo.w0.todo t).length)).sum + 4 * r := by
  obtain ⟨w, h, _⟩ := tight_run
  exact ⟨w, _, _, _, h, bounded_runs_exact rfl Demo.init_w0 (by decide) h⟩

end commit

namespace Snap
open ColumnVerif.Conc.Snap

/-- writers 0 and 1 each commit chunk 0 -/
def w0 : W where
  next := 0
  holder := fun _ => none
  lastId := fun _ => 0
  content := fun _ => []
  recorder := false
  log := []
  pc := fun _ => .idle
  todo := fun t => if t < 2 then [0] else []
  spc := .notStarted
  snapRead := fun _ => none
  snapLog := []
  doneBeforeOpen := fun _ => []
  contentAtCopy := fun _ => []

theorem init_w0 : Init w0 :=
  ⟨fun _ => rfl, fun _ => rfl, rfl, rfl, rfl, rfl, fun _ => rfl,
    fun _ => ⟨by simp [w0], rfl, by simp [w0], by simp [w0]⟩⟩

/-- snapshot machine: writer 0 holds chunk 0, writer 1 waits for it, and the snapshot thread —
    opened with `[0]` — waits for it as well -/
theorem blocked : ∃ w, Reach w0 w ∧ w.pc 1 = .pre 0 ∧ w.spc = .opened [0] ∧ w.holder 0 = some 0 ∧
    ¬ Moves w 1 ∧ ¬ SMoves w := by
  have r1 := Reach.step (Reach.refl (w0 := w0)) (Step.begin w0 0 0 [] rfl rfl)
  have r2 := Reach.step r1 (Step.acquire _ 0 0 rfl rfl)
  have r3 := Reach.step r2 (Step.begin _ 1 0 [] rfl rfl)
  have r4 := Reach.step r3 (Step.sOpen _ [0] rfl)
  refine ⟨_, r4, rfl, rfl, rfl, ?_, ?_⟩
  · rw [moves_pre_iff (c := 0) rfl]; decide
  · rw [smoves_opened_iff (c := 0) (rest := []) rfl]; decide

/-- the premises of both `blocker_runs` theorems are satisfiable, and their conclusions there -/
example : ∃ w, Reach w0 w ∧ w.pc 1 = .pre 0 ∧ ¬ Moves w 1 ∧ w.spc = .opened [0] ∧ ¬ SMoves w ∧
    (∃ u, u ≠ 1 ∧ w.holder 0 = some u ∧ InLatch (w.pc u) 0 ∧ Moves w u) ∧
    (∃ u, w.holder 0 = some u ∧ InLatch (w.pc u) 0 ∧ Moves w u) := by
  obtain ⟨w, hr, hp, hs, _, hb, hsb⟩ := blocked
  exact ⟨w, hr, hp, hb, hs, hsb, C18.Snap.blocker_runs init_w0 hr hp hb,
    C18.Snap.blocker_runs_snapshot init_w0 hr hs hsb⟩

/-- the count of `bounded_runs` on a complete run: writer 0 commits chunk 0 (7 steps), the snapshot
    thread runs `sOpen [0]`, `sRead 0`, `sClose`, `sCopy` (budget 1 + 3): 11 = 7 * 1 + 4 steps -/
theorem tight_run : ∃ w, RunC [0] w0 11 4 0 w ∧ mu [0] w = 0 ∧
    7 * ([0].map (fun t => (w0.todo t).length)).sum + 4 = 11 := by
  have r0 : RunC [0] w0 0 0 0 w0 := RunC.refl
  have r1 := RunC.writer r0 (Step.begin w0 0 0 [] rfl rfl) (t := 0) (by decide) (by decide)
  have r2 := RunC.writer r1 (Step.acquire _ 0 0 rfl rfl) (t := 0) (by decide) (by decide)
  have r3 := RunC.writer r2 (Step.draw _ 0 0 rfl) (t := 0) (by decide) (by decide)
  have r4 := RunC.writer r3 (Step.apply _ 0 0 1 rfl) (t := 0) (by decide) (by decide)
  have r5 := RunC.writer r4 (Step.loadRecorder _ 0 0 1 rfl) (t := 0) (by decide) (by decide)
  have r6 := RunC.writer r5 (Step.skipLog _ 0 0 1 rfl) (t := 0) (by decide) (by decide)
  have r7 := RunC.writer r6 (Step.release _ 0 0 1 rfl) (t := 0) (by decide) (by decide)
  have r8 := RunC.sopen r7 (Step.sOpen _ [0] rfl) (chunks := [0]) rfl rfl
  have r9 := RunC.snap r8 (Step.sRead _ 0 [] rfl rfl) (by decide) (by decide)
  have r10 := RunC.snap r9 (Step.sClose _ rfl) (by decide) (by decide)
  have r11 := RunC.snap r10 (Step.sCopy _ rfl) (by decide) (by decide)
  exact ⟨_, r11, by decide, by decide⟩

example : ∃ w n b k, RunC [0] w0 n b k w ∧
    n + mu [0] w = 7 * ([0].map (fun t => (w0.todo t).length)).sum + b := by
  obtain ⟨w, h, _⟩ := tight_run
  exact ⟨w, _, _, _, h, C18.Snap.bounded_runs init_w0 (by decide) h⟩

end Snap
end Demo

/-! ## axioms -/

#print axioms no_deadlock
#print axioms no_deadlock_working
#print axioms blocker_runs
#print axioms holds_while_waiting_never
#print axioms no_wait_chain
#print axioms step_measure
#print axioms bounded_runs
#print axioms bounded_runs_exact
#print axioms thread_steps_bounded
#print axioms Snap.no_deadlock
#print axioms Snap.writers_progress
#print axioms Snap.snapshot_progress
#print axioms Snap.blocker_runs
#print axioms Snap.blocker_runs_snapshot
#print axioms Snap.holds_while_waiting_never
#print axioms Snap.step_measure
#print axioms Snap.snapshot_budget_once
#print axioms Snap.bounded_runs
#print axioms Demo.tight_run
#print axioms Demo.Snap.tight_run

end ColumnVerif.Props.C18
