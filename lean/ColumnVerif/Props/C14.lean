import ColumnVerif.Model.SnapRes
import ColumnVerif.Conc.Skel
/-!
# C14 — a failed snapshot reports the error and leaves the collection usable

For every fault sequence: `Snapshot` returns an error exactly when something failed, and whatever
happened the recorder slot is free again, no descriptor, no temporary file and no running compressor goroutine
stays behind — so a
later snapshot to a healthy writer succeeds and commits are unaffected (a leaked recorder would
also make every later commit append to an unlinked file: defect D5, repaired).
The clean-up actions are read from the current source (`flag_*` below).
-/
namespace ColumnVerif.Props.C14
open ColumnVerif.SnapRes

/-- the configuration read from the regenerated skeleton -/
def codeCfg : SnapCfg := ⟨ColumnVerif.Skel.snapshotProtocol, ColumnVerif.Skel.openCleansOnCasFailure, ColumnVerif.Skel.compressorsClosed⟩

theorem code_cfg_good : codeCfg = SnapCfg.good := by decide +kernel

/-- error iff something failed; resources exactly as before — for every fault combination -/
theorem snapshot_leaves_clean (r : Res) (f : Faults) (h : r.recorder = false) :
    (snapshot SnapCfg.good r f).1 = r ∧
    ((snapshot SnapCfg.good r f).2 = (f.openTempFails || f.writeStateFails || f.copyFails)) := by
  obtain ⟨rec, fds, temps, workers⟩ := r
  obtain ⟨a, b, c⟩ := f
  simp only at h; subst h
  cases a <;> cases b <;> cases c <;> simp [snapshot, SnapCfg.good]

/-- a snapshot requested while another one is in progress is refused and leaves nothing behind -/
theorem concurrent_snapshot_refused (r : Res) (f : Faults) (h : r.recorder = true) :
    (snapshot SnapCfg.good r f).1 = r ∧ (snapshot SnapCfg.good r f).2 = true := by
  obtain ⟨rec, fds, temps, workers⟩ := r
  obtain ⟨a, b, c⟩ := f
  simp only at h; subst h
  cases a <;> simp [snapshot, SnapCfg.good]

/-- any history of failing and succeeding snapshots leaves the collection as it was, and every call
    reports exactly its own faults (so a later snapshot to a healthy writer succeeds) -/
theorem snapshots_leave_clean (r : Res) (fs : List Faults) (h : r.recorder = false) :
    (snapshots SnapCfg.good r fs).1 = r ∧
    (snapshots SnapCfg.good r fs).2 = fs.map (fun f => f.openTempFails || f.writeStateFails || f.copyFails) := by
  induction fs with
  | nil => simp [snapshots]
  | cons f fs ih =>
    have h1 := snapshot_leaves_clean r f h
    simp only [snapshots]
    rw [show snapshot SnapCfg.good r f = ((snapshot SnapCfg.good r f).1, (snapshot SnapCfg.good r f).2) from rfl]
    simp only [h1.1, h1.2, List.map_cons]
    exact ⟨ih.1, by rw [ih.2]⟩

theorem then_good_snapshot_succeeds (r : Res) (fs : List Faults) (h : r.recorder = false) :
    (snapshot SnapCfg.good (snapshots SnapCfg.good r fs).1 ⟨false, false, false⟩).2 = false := by
  rw [(snapshots_leave_clean r fs h).1]
  exact (snapshot_leaves_clean r ⟨false, false, false⟩ h).2

/-- D5 (the code before the repair: only `defer os.Remove`): a failed snapshot leaves the recorder
    installed, the next snapshot is refused although its writer is healthy, and even successful
    snapshots leak a descriptor -/
theorem missing_defers_counterexample :
    let bad : SnapCfg := ⟨false, false, true⟩
    let r0 : Res := ⟨false, 3, 0, 0⟩
    (snapshot bad r0 ⟨false, true, false⟩).1.recorder = true ∧
    (snapshot bad (snapshot bad r0 ⟨false, true, false⟩).1 ⟨false, false, false⟩).2 = true ∧
    (snapshot bad r0 ⟨false, false, false⟩).1.fds = 4 := by decide

/-- D27 (the code before the repair: no compressor is ever closed): every successful snapshot leaves two goroutines
    behind, a failed one as well — the count grows without bound with the number of snapshots -/
theorem unclosed_compressors_counterexample :
    let bad : SnapCfg := ⟨true, true, false⟩
    let r0 : Res := ⟨false, 3, 0, 0⟩
    (snapshot bad r0 ⟨false, false, false⟩).1.workers = 2 ∧
    (snapshot bad r0 ⟨false, true, false⟩).1.workers = 2 ∧
    (snapshots bad r0 (List.replicate 54 ⟨false, false, false⟩)).1.workers = 108 ∧
    (snapshot bad r0 ⟨false, false, false⟩).1.fds = 3 := by decide +kernel

/-- the theorems above, for the configuration the current source has -/
theorem code_snapshot_leaves_clean (r : Res) (f : Faults) (h : r.recorder = false) :
    (snapshot codeCfg r f).1 = r ∧ ((snapshot codeCfg r f).2 = (f.openTempFails || f.writeStateFails || f.copyFails)) := by
  rw [code_cfg_good]; exact snapshot_leaves_clean r f h

/-! non-vacuity -/
example : (snapshots SnapCfg.good ⟨false, 5, 0, 4⟩ [⟨false, true, false⟩, ⟨false, false, true⟩, ⟨false, false, false⟩]) =
    (⟨false, 5, 0, 4⟩, [true, true, false]) := by decide

end ColumnVerif.Props.C14
