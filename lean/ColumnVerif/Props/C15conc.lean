import ColumnVerif.Conc.Invariants
/-!
# C15 (schedule-quantified part) — commit ids and the logger stream, over every interleaving

`Conc/Machine.lean` is the commit protocol as a small-step machine: any number of threads, any
number of chunks, any schedule. The theorems below hold in **every** world reachable from an
initial world (`Init w0`, `Reach cfg merge w0 w`), for an arbitrary merge function.

* M1  mutual exclusion of the chunk latch (helper for everything else);
* C15-a per chunk, commit ids strictly increase in apply order — *if* the id is drawn inside the
        latch section (`cfg.idInsideLatch = true`, read off the source by the skeleton extractor);
* C15-b ids are non-zero and globally distinct (both configurations);
* C15-c per chunk, the logger receives the commits in apply order, each exactly once;
* C15-d with the id drawn *before* the latch is taken (defect D2, fixed) there is a run that applies
        id 1 after id 2 on the same chunk: the hypothesis of C15-a is necessary.
-/
namespace ColumnVerif.Props.C15conc
open ColumnVerif.Conc

variable {cfg : ProtoCfg} {merge : Nat → Nat → Nat} {w0 w : W}

/-! ### M1 — mutual exclusion -/

/-- a thread whose pc is `held/loaded/wroteAcc/wroteA/wroteB/emitted c …` is the holder of `c` -/
theorem latch_holder (hi : Init w0) (hr : Reach cfg merge w0 w) {t c : Nat}
    (h : wchunk (w.pc t) = some c) : w.holder c = some t :=
  (reach_inv hi hr).m.whold t c h

/-- … and the holder of `c` is at such a pc -/
theorem holder_in_section (hi : Init w0) (hr : Reach cfg merge w0 w) {t c : Nat}
    (h : w.holder c = some t) : wchunk (w.pc t) = some c :=
  (reach_inv hi hr).m.hpc t c h

/-- at most one thread per chunk is inside the write-latch section -/
theorem latch_exclusive (hi : Init w0) (hr : Reach cfg merge w0 w) {t u c : Nat}
    (ht : wchunk (w.pc t) = some c) (hu : wchunk (w.pc u) = some c) : t = u :=
  (reach_inv hi hr).m.unique ht hu

/-- a writer excludes all readers of the chunk -/
theorem writer_excludes_readers (hi : Init w0) (hr : Reach cfg merge w0 w) {t c : Nat}
    (h : w.holder c = some t) : w.readers c = [] :=
  (reach_inv hi hr).m.excl t c h

/-- a thread at `rheld/readA/readAB c …` is a registered reader of `c`, and `c` has no writer -/
theorem reader_excludes_writer (hi : Init w0) (hr : Reach cfg merge w0 w) {t c : Nat}
    (h : rchunk (w.pc t) = some c) : t ∈ w.readers c ∧ w.holder c = none :=
  ⟨(reach_inv hi hr).m.rhold t c h, (reach_inv hi hr).m.rd_free h⟩

/-- no thread is inside the write section of `c` while another is inside a read section of `c` -/
theorem no_writer_while_reading (hi : Init w0) (hr : Reach cfg merge w0 w) {t u c : Nat}
    (ht : wchunk (w.pc t) = some c) (hu : rchunk (w.pc u) = some c) : False := by
  have a := latch_holder hi hr ht
  have b := (reader_excludes_writer hi hr hu).2
  rw [a] at b; simp at b

/-! ### C15-a — ids increase per chunk -/

/-- per chunk, ids strictly increase in apply order (`applied c` is most-recent-first) -/
theorem ids_increase_per_block (h : cfg.idInsideLatch = true) (hi : Init w0)
    (hr : Reach cfg merge w0 w) (c : Nat) : Desc (idsOf w c) :=
  (reach_invDesc h hi hr).desc c

/-- `Desc` says what it should: every later element of the list is smaller -/
theorem desc_iff_pairwise (l : List Nat) : Desc l ↔ l.Pairwise (· > ·) := by
  induction l with
  | nil => simp [Desc]
  | cons a l ih => simp only [Desc, List.pairwise_cons, ih]

/-! ### C15-b — ids are non-zero and globally distinct (any configuration) -/

/-- every applied id was drawn during this run: above the initial counter, at most the counter -/
theorem ids_fresh (hi : Init w0) (hr : Reach cfg merge w0 w) (c : Nat) :
    ∀ r ∈ w.applied c, w0.next < r.id ∧ r.id ≤ w.next :=
  (reach_inv hi hr).ids.rec_bound c

theorem ids_nonzero (hi : Init w0) (hr : Reach cfg merge w0 w) (c : Nat) :
    ∀ x ∈ idsOf w c, w0.next < x ∧ x ≠ 0 := by
  intro x hx
  unfold idsOf at hx
  obtain ⟨r, hr', rfl⟩ := List.mem_map.mp hx
  have := (ids_fresh hi hr c r hr').1
  exact ⟨this, by omega⟩

/-- two records (in any chunks) with the same id are in the same chunk and are the same record -/
theorem ids_distinct (hi : Init w0) (hr : Reach cfg merge w0 w) {c d : Nat} {r s : Rec}
    (hr' : r ∈ w.applied c) (hs : s ∈ w.applied d) (he : r.id = s.id) : c = d ∧ r = s :=
  (reach_inv hi hr).ids.rec_inj c d r hr' s hs he

/-- … and no id occurs twice in one chunk -/
theorem ids_nodup (hi : Init w0) (hr : Reach cfg merge w0 w) (c : Nat) : (idsOf w c).Nodup :=
  (reach_inv hi hr).ids.nodup c

/-- an id that a thread has drawn but not yet applied is in no record and with no other thread -/
theorem pending_id_unique (hi : Init w0) (hr : Reach cfg merge w0 w) {t u id : Nat}
    (ht : pendId (w.pc t) = some id) :
    (pendId (w.pc u) = some id → t = u) ∧ ∀ c, id ∉ idsOf w c := by
  have h := (reach_inv hi hr).ids
  refine ⟨fun hu => h.pend_inj t u id ht hu, ?_⟩
  intro c hmem
  unfold idsOf at hmem
  obtain ⟨r, hr', he⟩ := List.mem_map.mp hmem
  exact h.pend_fresh t id ht c r hr' he

/-! ### C15-c — the logger stream is the apply order -/

theorem pendEmit_cases {p : PC} {c id : Nat} (hw : wchunk p = some c) (hp : pendEmit p = some id) :
    p = .wroteAcc c id ∨ p = .wroteA c id ∨ p = .wroteB c id := by
  cases p <;> simp_all [wchunk, pendEmit]

/-- per chunk, what the logger has received (most recent first) is the list of applied ids —
    except for at most one commit that is applied and not yet handed over: its thread is
    at `wroteAcc/wroteA/wroteB c` -/
theorem stream_is_apply_order (hi : Init w0) (hr : Reach cfg merge w0 w) (c : Nat) :
    let s := (w.stream.filter (·.1 = c)).map (·.2)
    s = idsOf w c ∨
      ∃ t x, (w.pc t = .wroteAcc c x ∨ w.pc t = .wroteA c x ∨ w.pc t = .wroteB c x) ∧
        idsOf w c = x :: s := by
  intro s
  have h := reach_inv hi hr
  cases hh : w.holder c with
  | none => exact Or.inl (h.str.free c hh)
  | some t =>
    cases hp : pendEmit (w.pc t) with
    | none => exact Or.inl (h.str.done t c hh hp)
    | some x =>
      exact Or.inr ⟨t, x, pendEmit_cases (h.m.hpc t c hh) hp, h.str.pend t c x hh hp⟩

/-- the exceptional case only occurs while a thread is in that window -/
theorem stream_eq_of_no_pending (hi : Init w0) (hr : Reach cfg merge w0 w) (c : Nat)
    (hn : ∀ t x, w.pc t ≠ .wroteAcc c x ∧ w.pc t ≠ .wroteA c x ∧ w.pc t ≠ .wroteB c x) :
    (w.stream.filter (·.1 = c)).map (·.2) = idsOf w c := by
  rcases stream_is_apply_order hi hr c with h | ⟨t, x, h, _⟩
  · exact h
  · have := hn t x
    rcases h with h | h | h <;> simp [h] at this

/-- when nobody is in the middle of anything, the logger has received exactly the applied commits
    of every chunk, in apply order -/
theorem stream_quiescent (hi : Init w0) (hr : Reach cfg merge w0 w) (hq : Quiescent w) (c : Nat) :
    (w.stream.filter (·.1 = c)).map (·.2) = idsOf w c := by
  apply stream_eq_of_no_pending hi hr c
  intro t x
  rw [hq t]
  simp

/-- every stream entry is an applied commit of its chunk -/
theorem stream_subset_applied (hi : Init w0) (hr : Reach cfg merge w0 w) (c id : Nat)
    (h : (c, id) ∈ w.stream) : id ∈ idsOf w c := by
  have hm : id ∈ (w.stream.filter (·.1 = c)).map (·.2) := by
    apply List.mem_map.mpr
    exact ⟨(c, id), List.mem_filter.mpr ⟨h, by simp⟩, rfl⟩
  rcases stream_is_apply_order hi hr c with e | ⟨t, x, _, e⟩
  · exact e ▸ hm
  · rw [e]; exact List.mem_cons_of_mem _ hm

/-- hence (C15-a + C15-c): per chunk, the ids the logger receives strictly increase -/
theorem stream_ids_increase (h : cfg.idInsideLatch = true) (hi : Init w0)
    (hr : Reach cfg merge w0 w) (c : Nat) : Desc ((w.stream.filter (·.1 = c)).map (·.2)) := by
  have hd := ids_increase_per_block h hi hr c
  rcases stream_is_apply_order hi hr c with e | ⟨t, x, _, e⟩
  · exact e ▸ hd
  · rw [e] at hd; exact hd.2

/-! ### C15-d — the hypothesis of C15-a is necessary (defect D2) -/

/-- With the id drawn before the latch is taken, two threads and one chunk suffice: thread 0 draws
    id 1, thread 1 draws id 2, thread 1 commits chunk 0, then thread 0 commits chunk 0. -/
theorem ids_out_of_order_counterexample (cfg : ProtoCfg) (h : cfg.idInsideLatch = false)
    (merge : Nat → Nat → Nat) :
    ∃ w0 w, Init w0 ∧ Reach cfg merge w0 w ∧ idsOf w 0 = [1, 2] ∧ ¬ Desc (idsOf w 0) := by
  have r1 := Reach.step (Reach.refl (cfg := cfg) (merge := merge) (w0 := Demo.w0))
    (Step.beginEarlyId Demo.w0 0 0 [] rfl rfl h)
  have r2 := Reach.step r1 (Step.beginEarlyId _ 1 0 [] rfl rfl h)
  have r3 := Reach.step r2 (Step.acquire _ 1 0 (some 2) rfl rfl rfl)
  have r4 := Reach.step r3 (Step.load _ 1 0 2 rfl)
  have r5 := Reach.step r4 (Step.storeAcc _ 1 0 2 0 rfl)
  have r6 := Reach.step r5 (Step.writeA _ 1 0 2 rfl)
  have r7 := Reach.step r6 (Step.writeB _ 1 0 2 rfl)
  have r8 := Reach.step r7 (Step.emit _ 1 0 2 rfl)
  have r9 := Reach.step r8 (Step.release _ 1 0 2 rfl)
  have r10 := Reach.step r9 (Step.acquire _ 0 0 (some 1) rfl rfl rfl)
  have r11 := Reach.step r10 (Step.load _ 0 0 1 rfl)
  have r12 := Reach.step r11 (Step.storeAcc _ 0 0 1 (merge 0 5) rfl)
  refine ⟨Demo.w0, _, Demo.init_w0, r12, rfl, ?_⟩
  intro hd
  have : (2 : Nat) < 1 := hd.1 2 (by simp)
  omega

/-! ### non-vacuity -/

/-- a concrete initial world and a 13-step run under the good configuration: one commit applied
    and handed to the logger, and all of the above applies to it -/
example : ∃ w0 w, Init w0 ∧ Reach ProtoCfg.good (· + ·) w0 w ∧ idsOf w 0 = [1] ∧
    w.stream = [(0, 1)] ∧ Desc (idsOf w 0) := by
  obtain ⟨w, hr, hids, hs, _⟩ := Demo.run_good ProtoCfg.good rfl (· + ·)
  exact ⟨Demo.w0, w, Demo.init_w0, hr, hids, hs, ids_increase_per_block rfl Demo.init_w0 hr 0⟩

end ColumnVerif.Props.C15conc
