import ColumnVerif.Conc.Skel
import ColumnVerif.Props.C15conc
/-!
# C15 — what the current source says about the protocol parts this property rests on

Obligations over the *regenerated* token lists of `Generated/Skeleton.lean` (rewritten from /repo on
every run); `decide +kernel` evaluates the structural predicate of `Conc/Skel.lean` in the kernel.
A change to the code that moves a call out of its lock, drops a `defer`, reorders the commit closure …
makes exactly the corresponding theorem fail.
-/
namespace ColumnVerif.Props.C15skel
open ColumnVerif.Skel

theorem dict_version_matches : ColumnVerif.Generated.dictVersion = expectedDictVersion := by decide +kernel
theorem flag_idInsideLatch : idInsideLatch = true := by decide +kernel
theorem flag_setLastInsideLatch : setLastInsideLatch = true := by decide +kernel
theorem flag_delegateInsideLatch : delegateInsideLatch = true := by decide +kernel
theorem flag_commitClosureOrder : commitClosureOrder = true := by decide +kernel
theorem flag_cloneCarriesId : cloneCarriesId = true := by decide +kernel
theorem flag_channelClones : channelClones = true := by decide +kernel

/-- the machine theorem instantiated with the configuration read from the current source:
    per chunk, commit ids increase in apply order, for every schedule -/
theorem code_ids_increase_per_block {merge : Nat → Nat → Nat} {w0 w : Conc.W} (hi : Conc.Init w0)
    (hr : Conc.Reach ColumnVerif.Skel.cfg merge w0 w) (c : Nat) : Conc.Desc (Conc.idsOf w c) :=
  ColumnVerif.Props.C15conc.ids_increase_per_block (by decide +kernel) hi hr c

end ColumnVerif.Props.C15skel
