import ColumnVerif.Lemmas.RestoreMore
import ColumnVerif.Props.C07
import ColumnVerif.Props.C11
/-!
# C07, second half — Count, later inserts, and a second snapshot of the restored collection

"… and the same Count. The restored collection then behaves like the original under further transactions: new inserts
never overwrite restored rows and later snapshots round-trip again."

`r := s0.readState (s.snapshot).1` is the restored store throughout.

1. **Count.** `Store.count` is written by the recount at the end of `commitMarkers` only (besides `next` / `free`), and
   `commitMarkers` only runs for a chunk whose `row` buffer is not empty. So `r.count = Bits.count r.fill` does *not* follow
   from `0 < s.nChunks` alone (`readState_count_needs_hypothesis`: a snapshot of one chunk without live rows leaves a stale
   counter of the target as it is). It holds when the target is quiescent (`readState_count`; a new collection: `count = 0`,
   empty fill list) or when some committed chunk of the source holds a live row (`readState_count_live`). `FillInv`
   (C11's invariant) of the target is kept (`readState_fillInv`). With a quiescent source whose live rows all lie in
   committed chunks and a target with an empty fill list: `r.count = s.count` (`readState_count_eq`) — no condition on the
   lengths of the two fill lists is needed (`count_congr`).
2. **Later inserts.** `restored_insert_is_fresh`, `restored_insert_not_restored_row`, `restored_inserts_never_collide`.
3. **A second snapshot.** `snapshotOps_congr` (Lemmas/RestoreMore), `snapshot_again_numeric` (the numeric column's snapshot
   of every committed chunk — ops and panic flag — is the same in `r` and in `s`; `CanonAt` is *not* needed: `Snapshot`
   writes `padTo width` of the raw slot and `padTo` is idempotent), `snapshot_again_row`, `readState_nChunks`.
-/
namespace ColumnVerif.Props.C07more
open ColumnVerif.Codec ColumnVerif.Store ColumnVerif.Bits
open ColumnVerif.Props.C07 ColumnVerif.Props.C11

/-! ## 1 — Count -/

/-- every relation between the number of set fill bits and the row counter that holds on the diagonal is kept by
    `readState` of any snapshot into any store -/
theorem readState_countRel (R : Nat → Nat → Prop) (hR : ∀ n, R n n) (s s0 : Store)
    (h0 : R (Bits.count s0.fill) s0.count) :
    R (Bits.count (s0.readState (s.snapshot).1).fill) (s0.readState (s.snapshot).1).count := by
  rw [readState_snapshot]
  generalize s.nChunks = n
  induction n with
  | zero => exact h0
  | succ n ih =>
    rw [List.range_succ, List.foldl_append]
    simp only [List.foldl_cons, List.foldl_nil]
    exact commit_countRel R hR _ _ ih

/-- **`readState_count`**: restored into a quiescent store (a new collection: `count = 0`, no fill bit), the counter is the
    number of occupied offsets -/
theorem readState_count (s s0 : Store) (h0 : s0.count = Bits.count s0.fill) :
    (s0.readState (s.snapshot).1).count = Bits.count (s0.readState (s.snapshot).1).fill :=
  readState_countRel (fun n c => c = n) (fun _ => rfl) s s0 h0

/-- **`FillInv`** (C11) of the target is kept by the restore -/
theorem readState_fillInv (s s0 : Store) (h0 : FillInv s0) : FillInv (s0.readState (s.snapshot).1) :=
  readState_countRel (fun n c => n ≤ c) (fun _ => Nat.le_refl _) s s0 h0

/-- the chunk transaction of a chunk holding a live row carries a non-empty `row` buffer -/
theorem chunkTxn_marker (s : Store) (j : Nat) (hb : Bits.get s.fill j = true) :
    (chunkTxn s (j / 16384)).updates.find? isMarkerBuf = some (rowBufOf s (j / 16384)) := by
  have hne : rowMarkers s (j / 16384) ≠ [] := by
    intro e
    have := rowMarkers_filter s (j / 16384) j
    rw [e, if_pos ⟨rfl, hb⟩] at this
    cases this
  have hm : isMarkerBuf (rowBufOf s (j / 16384)) = true := by
    unfold isMarkerBuf
    rw [(rowBuf_ops s (j / 16384)).2.2.1]
    unfold rowBufOf
    rw [(putAll_empty_rangeOps rowColumn (rowMarkers s (j / 16384)) (j / 16384) (rowMarkers_chunk s _)).2.2.2.1]
    cases h : rowMarkers s (j / 16384) with
    | nil => exact absurd h hne
    | cons o os => simp
  unfold chunkTxn
  simp only
  rw [chunkState_buffers, List.find?_cons, hm]

/-- **`readState_count_live`**: when some committed chunk of the source holds a live row, the restore ends recounted,
    whatever the counter of the target was -/
theorem readState_count_live (s s0 : Store) (j : Nat) (hj : j / 16384 < s.nChunks) (hb : Bits.get s.fill j = true) :
    (s0.readState (s.snapshot).1).count = Bits.count (s0.readState (s.snapshot).1).fill := by
  rw [readState_snapshot]
  generalize s.nChunks = n at hj
  induction n with
  | zero => omega
  | succ n ih =>
    rw [List.range_succ, List.foldl_append]
    simp only [List.foldl_cons, List.foldl_nil]
    by_cases h : j / 16384 < n
    · exact commit_countRel (fun n c => c = n) (fun _ => rfl) _ _ (ih h)
    · have e : n = j / 16384 := by omega
      rw [e]
      apply commit_recount _ _ _ (chunkTxn_marker s j hb)
      intro hd
      have : j / 16384 ∈ (chunkTxn s (j / 16384)).dirtyChunks := by
        rw [mem_dirtyChunks]; left; simp [chunkTxn]
      rw [hd] at this
      cases this

theorem readState_fillInv_live (s s0 : Store) (j : Nat) (hj : j / 16384 < s.nChunks) (hb : Bits.get s.fill j = true) :
    FillInv (s0.readState (s.snapshot).1) := by
  unfold FillInv
  rw [readState_count_live s s0 j hj hb]
  exact Nat.le_refl _

/-- the fill list of the restored store has exactly the set bits of the source: live rows of the source all in committed
    chunks, fill list of the target empty -/
theorem readState_fill_eq (s s0 : Store) (hn : NamesDistinct s) (hr : s.findCol rowColumn = none)
    (hcommitted : ∀ j, Bits.get s.fill j = true → j / 16384 < s.nChunks)
    (hfresh : ∀ j, Bits.get s0.fill j = false) (j : Nat) :
    Bits.get (s0.readState (s.snapshot).1).fill j = Bits.get s.fill j := by
  by_cases hj : j / 16384 < s.nChunks
  · exact readState_fill_fresh s s0 hn hr hfresh j hj
  · rw [readState_fill s s0 hn hr j, if_neg (fun h => hj h.1), hfresh j]
    cases hb : Bits.get s.fill j with
    | false => rfl
    | true => exact absurd (hcommitted j hb) hj

/-- **`readState_count_eq`** — "the same Count": quiescent source, every live row in a committed chunk; quiescent target
    with an empty fill list. No hypothesis on the sizes of the fill lists. -/
theorem readState_count_eq (s s0 : Store) (hn : NamesDistinct s) (hr : s.findCol rowColumn = none)
    (hq : s.count = Bits.count s.fill) (hcommitted : ∀ j, Bits.get s.fill j = true → j / 16384 < s.nChunks)
    (h0 : s0.count = Bits.count s0.fill) (hfresh : ∀ j, Bits.get s0.fill j = false) :
    (s0.readState (s.snapshot).1).count = s.count := by
  rw [readState_count s s0 h0, hq]
  exact count_congr _ _ (readState_fill_eq s s0 hn hr hcommitted hfresh)

/-! ## 2 — new inserts never overwrite restored rows -/

/-- **`restored_insert_is_fresh`**: the offset the next insert into the restored collection receives is unoccupied -/
theorem restored_insert_is_fresh (s s0 : Store) (h0 : FillInv s0) :
    Bits.get (s0.readState (s.snapshot).1).fill (s0.readState (s.snapshot).1).next.2 = false :=
  next_is_free _ (readState_fillInv s s0 h0)

/-- … hence it is not the offset of any restored row (a row live in a committed chunk of the source) -/
theorem restored_insert_not_restored_row (s s0 : Store) (hn : NamesDistinct s) (hr : s.findCol rowColumn = none)
    (h0 : FillInv s0) (j : Nat) (hj : j / 16384 < s.nChunks) (hb : Bits.get s.fill j = true) :
    (s0.readState (s.snapshot).1).next.2 ≠ j := by
  intro e
  have h1 := restored_insert_is_fresh s s0 h0
  rw [e, readState_fill s s0 hn hr j, if_pos ⟨hj, hb⟩] at h1
  cases h1

/-- … the reservation leaves every restored row occupied … -/
theorem restored_insert_keeps_rows (s s0 : Store) (hn : NamesDistinct s) (hr : s.findCol rowColumn = none)
    (h0 : FillInv s0) (j : Nat) (hj : j / 16384 < s.nChunks) (hb : Bits.get s.fill j = true) :
    Bits.get (s0.readState (s.snapshot).1).next.1.fill j = true := by
  rw [next_frame _ j (fun e => restored_insert_not_restored_row s s0 hn hr h0 j hj hb e.symm),
    readState_fill s s0 hn hr j, if_pos ⟨hj, hb⟩]

/-- … and so does every later history of inserts, failed inserts, commits and rollbacks (C11 from the restored store on) -/
theorem restored_inserts_never_collide (s s0 : Store) (h0 : FillInv s0) (ops : List FillOp)
    (hok : histOk (s0.readState (s.snapshot).1) ops) :
    ∀ p ∈ runFill (s0.readState (s.snapshot).1) ops, p.2 = false :=
  inserts_never_collide _ ops (readState_fillInv s s0 h0) hok

/-! ## 3 — later snapshots round-trip again -/

/-- **`snapshot_again_numeric`**: hypotheses of `readState_readback` (no `CanonAt`). For every committed chunk of the
    source, `Column.Snapshot(chunk)` of the numeric column `x` writes the same ops (and raises no panic) in the restored
    store as in the source. -/
theorem snapshot_again_numeric (s s0 : Store) (x : String) (k : NumKind) (c c0 : Col)
    (hn : NamesDistinct s) (hr : s.findCol rowColumn = none)
    (hf : s.findCol x = some c) (hk : c.kind = .num k) (hcovc : s.commits.size ≤ c.nchunks)
    (hf0 : s0.findCol x = some c0) (hk0 : c0.kind = .num k) (hw0 : ColWF c0) (hcov0 : s0.commits.size ≤ c0.nchunks)
    (hcomp0 : ∀ n c', s0.findCol n = some c' → x ∉ c'.computed)
    (hfresh : ∀ i, Bits.get c0.bits i = false) :
    ∃ col', (s0.readState (s.snapshot).1).findCol x = some col' ∧ col'.kind = .num k ∧ col'.name = c.name ∧
      ∀ ch, ch < s.nChunks → col'.snapshotOps ch = c.snapshotOps ch ∧ (c.snapshotOps ch).2 = false := by
  rw [readState_snapshot]
  obtain ⟨col', f, k', _, _, _, n', _, _, sl⟩ := readState_upTo s s0 x k c c0 hn hr hf hk hcovc hf0 hk0 hw0 hcov0 hcomp0
    s.nChunks (Nat.le_refl _)
  refine ⟨col', f, k', (findCol_name f).trans (findCol_name hf).symm, fun ch hch => ?_⟩
  have hcc : ch < c.nchunks := by unfold Store.nChunks at hch; omega
  refine ⟨?_, by rw [snapshotOps_raw c (by rw [hk]; rfl) ch hcc]⟩
  apply snapshotOps_congr_slot col' c k k' hk ch (by omega) hcc
  intro i hi
  rw [sl i]
  by_cases hb : Bits.get c.bits i = true
  · rw [if_pos ⟨by omega, hb⟩]
    refine ⟨by unfold slot; rw [hb], fun _ => ?_⟩
    simp only
    unfold slot
    simp only
    rw [← getD_eq, padTo_idem]
  · rw [if_neg (fun h => hb h.2)]
    have e1 : (slot c0 i).1 = false := hfresh i
    have e2 : (slot c i).1 = false := by unfold slot; simpa using hb
    refine ⟨by rw [e1, e2], fun h => ?_⟩
    rw [e1] at h; cases h

/-- … so the buffer `writeState` emits for column `x` and a committed chunk is the same in both snapshots -/
theorem snapshot_again_numeric_buf (s s0 : Store) (x : String) (k : NumKind) (c c0 : Col)
    (hn : NamesDistinct s) (hr : s.findCol rowColumn = none)
    (hf : s.findCol x = some c) (hk : c.kind = .num k) (hcovc : s.commits.size ≤ c.nchunks)
    (hf0 : s0.findCol x = some c0) (hk0 : c0.kind = .num k) (hw0 : ColWF c0) (hcov0 : s0.commits.size ≤ c0.nchunks)
    (hcomp0 : ∀ n c', s0.findCol n = some c' → x ∉ c'.computed)
    (hfresh : ∀ i, Bits.get c0.bits i = false) :
    ∃ col', (s0.readState (s.snapshot).1).findCol x = some col' ∧
      ∀ ch, ch < s.nChunks →
        (Buf.empty col'.name).putAll (col'.snapshotOps ch).1 = (Buf.empty c.name).putAll (c.snapshotOps ch).1 := by
  obtain ⟨col', f, _, nm, h⟩ := snapshot_again_numeric s s0 x k c c0 hn hr hf hk hcovc hf0 hk0 hw0 hcov0 hcomp0 hfresh
  exact ⟨col', f, fun ch hch => by rw [nm, (h ch hch).1]⟩

/-- with `CanonAt` (the form asked for): the restored column reads like the source *and* snapshots like the source -/
theorem snapshot_again_numeric_exact (s s0 : Store) (x : String) (k : NumKind) (c c0 : Col)
    (hn : NamesDistinct s) (hr : s.findCol rowColumn = none)
    (hf : s.findCol x = some c) (hk : c.kind = .num k) (hcovc : s.commits.size ≤ c.nchunks)
    (hf0 : s0.findCol x = some c0) (hk0 : c0.kind = .num k) (hw0 : ColWF c0) (hcov0 : s0.commits.size ≤ c0.nchunks)
    (hcomp0 : ∀ n c', s0.findCol n = some c' → x ∉ c'.computed)
    (hfresh : ∀ i, Bits.get c0.bits i = false) (hcanon : ∀ ch, CanonAt c ch) :
    ∃ col', (s0.readState (s.snapshot).1).findCol x = some col' ∧
      (∀ i, i / 16384 < s.nChunks → col'.read i = c.read i) ∧
      ∀ ch, ch < s.nChunks → (col'.snapshotOps ch).1 = (c.snapshotOps ch).1 := by
  obtain ⟨col', f, _, _, h⟩ := snapshot_again_numeric s s0 x k c c0 hn hr hf hk hcovc hf0 hk0 hw0 hcov0 hcomp0 hfresh
  obtain ⟨col2, f2, h2⟩ := readState_readback_exact s s0 x k c c0 hn hr hf hk hcovc hf0 hk0 hw0 hcov0 hcomp0 hfresh hcanon
  rw [f] at f2
  injection f2 with f2
  subst f2
  exact ⟨col', f, h2, fun ch hch => by rw [(h ch hch).1]⟩

/-- **`snapshot_again_row`**: the `row` buffer of every committed chunk is the same in a snapshot of the restored store -/
theorem snapshot_again_row (s s0 : Store) (hn : NamesDistinct s) (hr : s.findCol rowColumn = none)
    (hfresh : ∀ j, Bits.get s0.fill j = false) (ch : Nat) (hch : ch < s.nChunks) :
    rowBufOf (s0.readState (s.snapshot).1) ch = rowBufOf s ch ∧
    ((s0.readState (s.snapshot).1).chunkState ch).1.buffers.head? = (s.chunkState ch).1.buffers.head? := by
  have h := rowBufOf_congr (s0.readState (s.snapshot).1) s ch
    (fun j hj => readState_fill_fresh s s0 hn hr hfresh j (by omega))
  refine ⟨h, ?_⟩
  rw [chunkState_buffers, chunkState_buffers, h]
  rfl

/-- the restored store has as many chunks as the source when the target had no more (a new collection has none or one):
    a snapshot of the restored store walks the same chunks -/
theorem readState_nChunks (s s0 : Store) :
    (s0.readState (s.snapshot).1).nChunks = max s0.nChunks s.nChunks := by
  rw [readState_snapshot]
  exact readState_commits_size_upTo s s0 s.nChunks

theorem readState_nChunks_eq (s s0 : Store) (h : s0.nChunks ≤ s.nChunks) :
    (s0.readState (s.snapshot).1).nChunks = s.nChunks := by
  rw [readState_nChunks]; omega

/-! ## why `0 < s.nChunks` alone does not give `count = Bits.count fill`

A chunk whose `row` buffer is empty is committed without `commitMarkers`, hence without a recount: a snapshot of one
chunk that holds no live row, read into a target whose counter is stale, leaves the counter as it is. -/

/-- a snapshot whose committed chunks hold no live row leaves the counter of the target as it is -/
theorem readState_count_noLive (s s0 : Store) (hr : s.findCol rowColumn = none)
    (hdead : ∀ j, j / 16384 < s.nChunks → Bits.get s.fill j = false) :
    (s0.readState (s.snapshot).1).count = s0.count := by
  rw [readState_snapshot]
  generalize s.nChunks = n at hdead
  induction n with
  | zero => rfl
  | succ n ih =>
    rw [List.range_succ, List.foldl_append]
    simp only [List.foldl_cons, List.foldl_nil]
    rw [commit_count_noMarkers _ _ (chunkTxn_noMarker s n hr (fun j hj => hdead j (by omega)))]
    exact ih (fun j hj => hdead j (by omega))

def emptySrc : Store := { commits := #[0] }
def staleTgt : Store := { count := 5 }

/-- one committed chunk, no live row, target with a stale counter: `count = 5`, no fill bit set -/
theorem readState_count_needs_hypothesis :
    0 < emptySrc.nChunks ∧ (staleTgt.readState (emptySrc.snapshot).1).count = 5 ∧
    Bits.count (staleTgt.readState (emptySrc.snapshot).1).fill = 0 := by
  have hr : emptySrc.findCol rowColumn = none := by simp [emptySrc, Store.findCol]
  have e : ∀ j, Bits.get emptySrc.fill j = false := by intro j; simp [emptySrc, Bits.get]
  refine ⟨by decide, ?_, ?_⟩
  · rw [readState_count_noLive emptySrc staleTgt hr (fun j _ => e j)]
    rfl
  · apply count_zero_of_get
    intro j
    rw [readState_fill emptySrc staleTgt (by simp [NamesDistinct, emptySrc]) hr j,
      if_neg (fun h => by rw [e j] at h; cases h.2)]
    simp [staleTgt, Bits.get]

/-! ## 4 — non-vacuity: the example stores of `Props/C07.lean` -/

theorem freshStore_quiescent : freshStore.count = Bits.count freshStore.fill := by decide
theorem freshStore_fillInv : FillInv freshStore := by unfold FillInv; decide
theorem freshStore_fill_empty : ∀ j, Bits.get freshStore.fill j = false := by
  intro j; simp [freshStore, Bits.get]

theorem srcStore_live5 : Bits.get srcStore.fill 5 = true := by simp [srcStore, Bits.get]

/-- a sufficient size condition for "every live row lies in a committed chunk": the fill list is not longer than the
    committed chunks (bits beyond the end of the list read `false`) -/
theorem committed_of_size (s : Store) (h : s.fill.size ≤ 16384 * s.nChunks) :
    ∀ j, Bits.get s.fill j = true → j / 16384 < s.nChunks := by
  intro j hj
  have hlt : j < s.fill.size := by
    apply Classical.byContradiction
    intro hge
    rw [get_of_ge s.fill j (by omega)] at hj
    cases hj
  have : j < 16384 * s.nChunks := by omega
  omega

theorem srcStore_committed : ∀ j, Bits.get srcStore.fill j = true → j / 16384 < srcStore.nChunks :=
  committed_of_size srcStore (by simp [srcStore, Store.nChunks])

theorem count_replicate_set (n i : Nat) (h : i < n) :
    Bits.count ((Array.replicate n false).setIfInBounds i true) = 1 := by
  unfold Bits.count
  rw [Array.toList_setIfInBounds, Array.toList_replicate,
    countP_set_true _ i (by rw [List.length_replicate]; exact h) (List.getElem_replicate ..), List.countP_replicate]
  rfl

theorem srcStore_fill_count : Bits.count srcStore.fill = 1 := by
  simp only [srcStore]
  exact count_replicate_set 16384 5 (by decide)

/-- the source of the example with its row counter in the quiescent state (one live row; `srcStore` itself keeps the
    default `count := 0`, which no hypothesis of `Props/C07.lean` looks at) -/
def srcStoreQ : Store :=
  { cols := #[src], commits := #[3], fill := (Array.replicate 16384 false).setIfInBounds 5 true, count := 1 }

theorem srcStoreQ_names : NamesDistinct srcStoreQ := by simp [NamesDistinct, srcStoreQ]
theorem srcStoreQ_norow : srcStoreQ.findCol rowColumn = none := by
  simp [srcStoreQ, Store.findCol, src, rowColumn]
theorem srcStoreQ_quiescent : srcStoreQ.count = Bits.count srcStoreQ.fill := by
  simp only [srcStoreQ]
  exact (count_replicate_set 16384 5 (by decide)).symm
theorem srcStoreQ_committed : ∀ j, Bits.get srcStoreQ.fill j = true → j / 16384 < srcStoreQ.nChunks :=
  committed_of_size srcStoreQ (by simp [srcStoreQ, Store.nChunks])

/-- 1: counter and `FillInv` of the restored example store … -/
example : (freshStore.readState (srcStore.snapshot).1).count = Bits.count (freshStore.readState (srcStore.snapshot).1).fill :=
  readState_count srcStore freshStore freshStore_quiescent

example : (freshStore.readState (srcStore.snapshot).1).count = Bits.count (freshStore.readState (srcStore.snapshot).1).fill :=
  readState_count_live srcStore freshStore 5 (by decide) srcStore_live5

example : FillInv (freshStore.readState (srcStore.snapshot).1) := readState_fillInv srcStore freshStore freshStore_fillInv

/-- … "the same Count" … -/
example : (freshStore.readState (srcStoreQ.snapshot).1).count = srcStoreQ.count ∧ srcStoreQ.count = 1 :=
  ⟨readState_count_eq srcStoreQ freshStore srcStoreQ_names srcStoreQ_norow srcStoreQ_quiescent srcStoreQ_committed
    freshStore_quiescent freshStore_fill_empty, rfl⟩

/-- … 2: the next insert … -/
example : Bits.get (freshStore.readState (srcStore.snapshot).1).fill (freshStore.readState (srcStore.snapshot).1).next.2 = false :=
  restored_insert_is_fresh srcStore freshStore freshStore_fillInv

example : (freshStore.readState (srcStore.snapshot).1).next.2 ≠ 5 :=
  restored_insert_not_restored_row srcStore freshStore srcStore_names srcStore_norow freshStore_fillInv 5 (by decide)
    srcStore_live5

/-- … 3: a second snapshot -/
example : ∃ col', (freshStore.readState (srcStore.snapshot).1).findCol "n" = some col' ∧ col'.kind = .num .u32 ∧
    col'.name = src.name ∧
    ∀ ch, ch < srcStore.nChunks → col'.snapshotOps ch = src.snapshotOps ch ∧ (src.snapshotOps ch).2 = false :=
  snapshot_again_numeric srcStore freshStore "n" .u32 src fresh srcStore_names srcStore_norow srcStore_find rfl
    (by decide) freshStore_find rfl fresh_wf (by decide) freshStore_computed fresh_empty

example : ∃ col', (freshStore.readState (srcStore.snapshot).1).findCol "n" = some col' ∧
    (∀ i, i / 16384 < srcStore.nChunks → col'.read i = src.read i) ∧
    ∀ ch, ch < srcStore.nChunks → (col'.snapshotOps ch).1 = (src.snapshotOps ch).1 :=
  snapshot_again_numeric_exact srcStore freshStore "n" .u32 src fresh srcStore_names srcStore_norow srcStore_find rfl
    (by decide) freshStore_find rfl fresh_wf (by decide) freshStore_computed fresh_empty src_canon

example : rowBufOf (freshStore.readState (srcStore.snapshot).1) 0 = rowBufOf srcStore 0 :=
  (snapshot_again_row srcStore freshStore srcStore_names srcStore_norow freshStore_fill_empty 0 (by decide)).1

example : (freshStore.readState (srcStore.snapshot).1).nChunks = srcStore.nChunks :=
  readState_nChunks_eq srcStore freshStore (by decide)

end ColumnVerif.Props.C07more

#print axioms ColumnVerif.Props.C07more.readState_countRel
#print axioms ColumnVerif.Props.C07more.readState_count
#print axioms ColumnVerif.Props.C07more.readState_count_live
#print axioms ColumnVerif.Props.C07more.readState_fillInv
#print axioms ColumnVerif.Props.C07more.readState_count_eq
#print axioms ColumnVerif.Props.C07more.readState_count_noLive
#print axioms ColumnVerif.Props.C07more.readState_count_needs_hypothesis
#print axioms ColumnVerif.Props.C07more.restored_insert_is_fresh
#print axioms ColumnVerif.Props.C07more.restored_insert_not_restored_row
#print axioms ColumnVerif.Props.C07more.restored_insert_keeps_rows
#print axioms ColumnVerif.Props.C07more.restored_inserts_never_collide
#print axioms ColumnVerif.Store.snapshotOps_congr
#print axioms ColumnVerif.Store.snapshotOps_congr_pad
#print axioms ColumnVerif.Props.C07more.snapshot_again_numeric
#print axioms ColumnVerif.Props.C07more.snapshot_again_numeric_buf
#print axioms ColumnVerif.Props.C07more.snapshot_again_numeric_exact
#print axioms ColumnVerif.Props.C07more.snapshot_again_row
#print axioms ColumnVerif.Props.C07more.readState_nChunks
