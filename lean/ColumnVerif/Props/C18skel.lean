import ColumnVerif.Conc.Skel
/-!
# C18 — what the current source says about the protocol parts this property rests on

Obligations over the *regenerated* token lists of `Generated/Skeleton.lean` (rewritten from /repo on
every run); `decide +kernel` evaluates the structural predicate of `Conc/Skel.lean` in the kernel.
A change to the code that moves a call out of its lock, drops a `defer`, reorders the commit closure …
makes exactly the corresponding theorem fail.
-/
namespace ColumnVerif.Props.C18skel
open ColumnVerif.Skel

theorem dict_version_matches : ColumnVerif.Generated.dictVersion = expectedDictVersion := by decide +kernel
theorem flag_idInsideLatch : idInsideLatch = true := by decide +kernel
theorem flag_delegateInsideLatch : delegateInsideLatch = true := by decide +kernel
theorem flag_readInsideRLatch : readInsideRLatch = true := by decide +kernel
theorem flag_snapReadLocked : snapReadLocked = true := by decide +kernel
theorem flag_appendCopyShareMutex : appendCopyShareMutex = true := by decide +kernel
theorem flag_fillOpsUnderCollLock : fillOpsUnderCollLock = true := by decide +kernel
theorem flag_keyTableLocked : keyTableLocked = true := by decide +kernel
theorem flag_backfillLatched : backfillLatched = true := by decide +kernel
theorem flag_indexGrownUnderLock : indexGrownUnderLock = true := by decide +kernel
theorem flag_capacityUnderCollLock : capacityUnderCollLock = true := by decide +kernel
theorem flag_registryCopyOnWrite : registryCopyOnWrite = true := by decide +kernel

end ColumnVerif.Props.C18skel
