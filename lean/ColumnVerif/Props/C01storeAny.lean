import ColumnVerif.Lemmas.StoreCol
import ColumnVerif.Props.C01store
import ColumnVerif.Props.C01str
import ColumnVerif.Props.C12store
/-!
# C01 at store level for EVERY data column — what `Store.commit` leaves under a data column's name

`Props/C01store.lean` carries the column-level read-back through the real `Store.commit` for numeric columns, slot by slot.
Here the plumbing (registry `findCol` / `setCol`, marker pass, main pass over the sections of a buffer, computed pass,
emission, the chunk loop, `commitCapacity`) is made precise once, for every data kind (numeric, string, record, enum, key —
`Kind.isData`), as an **equality of `Col` records**:

  after `s.commit t` the name `x` resolves to
  `colChunks s.hash t.updates x t.dirtyChunks (capCol s t col)`
    = the fold over the dirty chunks, ascending, of
      `fun c ch => (applyData s.hash c ch (markerOps t.updates ch ++ opsFor t.updates x ch)).col`
      starting from the column as `commitCapacity` leaves it (`capCol`: `col`, or `col.grow …` when the last dirty chunk is new)

— the column-level function `applyData` alone, applied to the markers of the chunk (`Delete` markers clear presence /
release keys through `commitMarkers`) followed by the ops the buffer(s) of `x` hold for the chunk, in section order.
Every column-level theorem about `applyData` (`C01`, `C01str`, `C12`, …) therefore lifts to the store by a fold.

**The one guard** (`ChunksOK`; per chunk `BufsOK`, per buffer pass `PassOK`). A *resizing string merge* (`stepStr`: result of
another length than the delta) appends `Put result` to the very buffer `mainPass` is iterating over; when the chunk has
several sections in that buffer the put can land in a section the loop has not reached yet and is then applied a second
time, after ops the transaction issued later — finding D12 on the primary itself (`d12_on_primary` below: without a guard
the equation is false). `PassOK hash c ch u` asks, for the pass of chunk `ch` over buffer `u` in column state `c`:

  nothing is appended (`(applyData hash c ch (u.rangeOps ch)).appended = []`)   **or**
  the buffer is well-formed (`BufOK`, part of `Buf.Inv`) and holds at most one section of chunk `ch` (`OneSec`).

It holds automatically for numeric, enum and key columns (`chunksOK_of_kind`), for transactions without `Merge` ops on `x`
(`chunksOK_of_no_merge`), for merge functions that keep the delta's length (`chunksOK_of_len`), for `NoAppend` in general
(`chunksOK_of_noAppend`, decidable), and — resizing merges allowed, no condition on the ops — for buffers written through the
API whose chunks appear once each (`chunksOK_of_nodup`). Not covered: a resizing merge in a chunk that has several
sections in the buffer (there the per-offset D12 guard would be needed, and `d12_on_primary` shows the effect is real).
Not needed (so not assumed): `NamesDistinct s`, `BufsDistinct ups` (several buffers of one name are applied in buffer order,
`opsFor`), `ChunkOK`, "chunk allocated" (a missing chunk leaves the column alone on both sides of the equation).

Contents: P1 `commitChunk_col` (+ frame), P2 `commit_col` (+ frame, invariants kept, sequences of commits), P3 slot-level
read-back for every kind with a slot law (`commit_slot`) and the string / record lift `commit_read_str_last_put` …,
P4 key columns (`commit_key_inv`, `commits_key_inv`, `offsetOf_after_commit`, from `Props/C12store.lean`; here also
`commit_key_put_resolves` — a key written last to a row resolves to it — and `commit_key_delete_releases` — a deleted row
releases its key, which can be inserted again), P5 non-vacuity (a string and a key column, two chunks with growth, a
resizing merge, two chained commits) and the D12-on-the-primary witness.
-/
namespace ColumnVerif.Props.C01storeAny
open ColumnVerif.Codec ColumnVerif.Store ColumnVerif.Bits

/-! ## P1 — one dirty chunk -/

/-- **`commitChunk_col`** (the plumbing lemma, any data kind): markers first (when `changedRows`), then the column's
    buffer(s). An equality of `Col` records in terms of `applyData` alone. -/
theorem commitChunk_col (s : Store) (ch : Nat) (cr : Bool) (ups : List Buf) (x : String) (col : Col)
    (hxr : x ≠ rowColumn) (hf : s.findCol x = some col) (hd : col.kind.isData = true)
    (hcomp : ∀ v ∈ ups, ∀ c, s.findCol v.column = some c → x ∉ c.computed)
    (hok : BufsOK s.hash x ch ups (applyData s.hash col ch (markerOpsCr cr ups ch)).col) :
    (s.commitChunk ch cr ups).1.findCol x =
      some (applyData s.hash (applyData s.hash col ch (markerOpsCr cr ups ch)).col ch (opsFor ups x ch)).col := by
  rw [(commitChunk_ok_full s ch cr ups x col hxr hf hd hcomp hok).1, applyData_col_append]

/-- the same as one pass over `markers ++ ops` -/
theorem commitChunk_col_flat (s : Store) (ch : Nat) (cr : Bool) (ups : List Buf) (x : String) (col : Col)
    (hxr : x ≠ rowColumn) (hf : s.findCol x = some col) (hd : col.kind.isData = true)
    (hcomp : ∀ v ∈ ups, ∀ c, s.findCol v.column = some c → x ∉ c.computed)
    (hok : BufsOK s.hash x ch ups (applyData s.hash col ch (markerOpsCr cr ups ch)).col) :
    (s.commitChunk ch cr ups).1.findCol x =
      some (applyData s.hash col ch (markerOpsCr cr ups ch ++ opsFor ups x ch)).col :=
  (commitChunk_ok_full s ch cr ups x col hxr hf hd hcomp hok).1

/-- the guard of a chunk: nothing appended by the ops of the chunk … -/
theorem bufsOK_of_noAppend (hash : Bytes → Nat) (x : String) (ch : Nat) (ups : List Buf) (col : Col)
    (h : (applyData hash col ch (opsFor ups x ch)).appended = []) : BufsOK hash x ch ups col :=
  BufsOK_of_noAppend hash x ch ups col h

/-- … which is automatic for numeric, enum and key columns … -/
theorem bufsOK_of_kind (hash : Bytes → Nat) (x : String) (ch : Nat) (ups : List Buf) (col : Col)
    (hk : col.kind ≠ .str ∧ col.kind ≠ .record) : BufsOK hash x ch ups col :=
  BufsOK_of_noAppend hash x ch ups col (applyData_appended_nil_of_kind hash col ch _ hk)

/-- … and for sections without a `Merge`; … -/
theorem bufsOK_of_no_merge (hash : Bytes → Nat) (x : String) (ch : Nat) (ups : List Buf) (col : Col)
    (hm : ∀ o ∈ opsFor ups x ch, o.typ ≠ opMerge) : BufsOK hash x ch ups col :=
  BufsOK_of_noAppend hash x ch ups col (applyData_appended_nil_of_no_merge hash col ch _ hm)

/-- … or well-formed buffers with one section for the chunk (resizing merges allowed) -/
theorem bufsOK_of_one (hash : Bytes → Nat) (x : String) (ch : Nat) (ups : List Buf) (col : Col)
    (h : ∀ v ∈ ups, v.column = x → BufOK v ∧ OneSec v ch) : BufsOK hash x ch ups col :=
  BufsOK_of_one hash x ch ups h col

/-- buffers written through the writer API (`Buf.Inv`, kept by `Buf.put`) are well-formed -/
theorem bufOK_of_inv (b : Buf) (h : b.Inv) : BufOK b := BufOK.of_inv h

/-- as `Txn.commit` calls it (`changedRows` = a marker buffer exists), with distinct buffer names: the markers of the chunk,
    then the chunk's ops of the one buffer `u` of the column -/
theorem commitChunk_col_distinct (s : Store) (ch : Nat) (ups : List Buf) (u : Buf) (col : Col)
    (hu : u ∈ ups) (hdist : BufsDistinct ups)
    (hxr : u.column ≠ rowColumn) (hf : s.findCol u.column = some col) (hd : col.kind.isData = true)
    (hcomp : ∀ v ∈ ups, ∀ c, s.findCol v.column = some c → u.column ∉ c.computed)
    (hok : PassOK s.hash (applyData s.hash col ch (markerOps ups ch)).col ch u) :
    (s.commitChunk ch (ups.find? isMarkerBuf).isSome ups).1.findCol u.column =
      some (applyData s.hash (applyData s.hash col ch (markerOps ups ch)).col ch (u.rangeOps ch)).col := by
  have h := commitChunk_col s ch (ups.find? isMarkerBuf).isSome ups u.column col hxr hf hd hcomp
  rw [markerOpsCr_isSome, C01store.opsFor_single ups hdist u hu ch] at h
  exact h (BufsOK_of_distinct s.hash ch ups hdist u hu _ hok)

/-- no buffer for `x` in the transaction: only the markers reach the column -/
theorem commitChunk_col_no_buffer (s : Store) (ch : Nat) (cr : Bool) (ups : List Buf) (x : String) (col : Col)
    (hxr : x ≠ rowColumn) (hf : s.findCol x = some col) (hd : col.kind.isData = true)
    (hcomp : ∀ v ∈ ups, ∀ c, s.findCol v.column = some c → x ∉ c.computed) (hnone : ∀ v ∈ ups, v.column ≠ x) :
    (s.commitChunk ch cr ups).1.findCol x = some (applyData s.hash col ch (markerOpsCr cr ups ch)).col := by
  have h := commitChunk_col s ch cr ups x col hxr hf hd hcomp (BufsOK_of_none s.hash x ch ups hnone _)
  rw [opsFor_none ups x ch hnone, applyData_nil] at h
  exact h

/-- the hypothesis on computed columns follows from the store invariant `ComputedKinds` (kept by every commit) -/
theorem notComputed (s : Store) (hck : ComputedKinds s) (x : String) (col : Col)
    (hf : s.findCol x = some col) (hd : col.kind.isData = true) (ups : List Buf) :
    ∀ v ∈ ups, ∀ c, s.findCol v.column = some c → x ∉ c.computed :=
  notComputed_of_computedKinds s hck x col hf hd ups

/-- frame: the pass of chunk `ch` applies only ops with `chunkOf idx = ch`, so the slots of the other chunks are left
    alone (any data kind; the buffers of `x` and the marker buffer keep ops in sections of their own chunk) -/
theorem commitChunk_col_frame (s : Store) (ch : Nat) (ups : List Buf) (x : String) (col : Col)
    (hxr : x ≠ rowColumn) (hf : s.findCol x = some col) (hd : col.kind.isData = true)
    (hcomp : ∀ v ∈ ups, ∀ c, s.findCol v.column = some c → x ∉ c.computed)
    (hok : BufsOK s.hash x ch ups (applyData s.hash col ch (markerOps ups ch)).col)
    (hco : ChunkOps x ups [ch]) (i : Nat) (hi : chunkOf i ≠ ch) :
    ∃ col', (s.commitChunk ch (ups.find? isMarkerBuf).isSome ups).1.findCol x = some col' ∧ slot col' i = slot col i := by
  have h := commitChunk_col_flat s ch (ups.find? isMarkerBuf).isSome ups x col hxr hf hd hcomp
    (by rw [markerOpsCr_isSome]; exact hok)
  rw [markerOpsCr_isSome] at h
  refine ⟨_, h, applyData_chunk_frame s.hash col ch _ i ?_ hi⟩
  intro o ho
  rcases List.mem_append.1 ho with ho | ho
  · exact markerOps_chunk x ups [ch] hco ch (by simp) o ho
  · exact opsFor_chunk x ups [ch] hco ch (by simp) o ho

/-! ## P2 — `Store.commit` -/

/-- **`commit_col`** (any data kind, any number of dirty chunks, any other buffers): see the header -/
theorem commit_col (s : Store) (t : Txn) (x : String) (col : Col)
    (hxr : x ≠ rowColumn) (hf : s.findCol x = some col) (hd : col.kind.isData = true)
    (hcomp : ∀ v ∈ t.updates, ∀ c, s.findCol v.column = some c → x ∉ c.computed)
    (hok : ChunksOK s.hash t.updates x t.dirtyChunks (capCol s t col)) :
    (s.commit t).findCol x = some (colChunks s.hash t.updates x t.dirtyChunks (capCol s t col)) :=
  commit_col_ok s t x col hxr hf hd hcomp hok

/-- `colChunks` spelled out: the fold over the dirty chunks of `applyData` over markers ++ ops of the chunk -/
theorem colChunks_eq (hash : Bytes → Nat) (ups : List Buf) (x : String) (cs : List Nat) (col : Col) :
    colChunks hash ups x cs col =
      cs.foldl (fun c ch => (applyData hash c ch (markerOps ups ch ++ opsFor ups x ch)).col) col := rfl

/-- `capCol` spelled out -/
theorem capCol_eq (s : Store) (t : Txn) (c : Col) :
    capCol s t c =
      match t.dirtyChunks.getLast? with
      | some last => if s.commits.size ≥ last + 1 then c else c.grow (16384 * last + 16383)
      | none => c := rfl

/-- the guard spelled out -/
theorem chunksOK_eq (hash : Bytes → Nat) (ups : List Buf) (x : String) (ch : Nat) (cs : List Nat) (c : Col) :
    ChunksOK hash ups x (ch :: cs) c =
      (BufsOK hash x ch ups (applyData hash c ch (markerOps ups ch)).col ∧
       ChunksOK hash ups x cs (applyData hash c ch (markerOps ups ch ++ opsFor ups x ch)).col) := rfl

theorem passOK_eq (hash : Bytes → Nat) (c : Col) (ch : Nat) (u : Buf) :
    PassOK hash c ch u = ((applyData hash c ch (u.rangeOps ch)).appended = [] ∨ (BufOK u ∧ OneSec u ch)) := rfl

/-- the guard: `NoAppend` (no buffer pass appends anything, each in the state in which it runs; decidable) … -/
theorem chunksOK_of_noAppend (s : Store) (t : Txn) (x : String) (col : Col)
    (h : NoAppend s.hash t.updates x t.dirtyChunks (capCol s t col)) :
    ChunksOK s.hash t.updates x t.dirtyChunks (capCol s t col) :=
  ChunksOK_of_noAppend _ _ _ _ _ h

/-- … automatic for numeric, enum, key columns: no side condition on the ops at all; … -/
theorem chunksOK_of_kind (s : Store) (t : Txn) (x : String) (col : Col) (hk : col.kind ≠ .str ∧ col.kind ≠ .record) :
    ChunksOK s.hash t.updates x t.dirtyChunks (capCol s t col) :=
  ChunksOK_of_noAppend _ _ _ _ _ (NoAppend_of_kind _ _ _ _ _ (by rw [(capCol_meta s t col).2.1]; exact hk))

/-- … for transactions that only `Put` / `Delete` on `x` (no `Merge`); … -/
theorem chunksOK_of_no_merge (s : Store) (t : Txn) (x : String) (col : Col)
    (hm : ∀ o ∈ allFor t.updates x, o.typ ≠ opMerge) :
    ChunksOK s.hash t.updates x t.dirtyChunks (capCol s t col) :=
  ChunksOK_of_noAppend _ _ _ _ _
    (NoAppend_of_no_merge _ _ _ _ _ (fun c _ o ho => hm o (opsFor_sub_allFor t.updates x c o ho)))

/-- … for merge functions whose result has the delta's length; … -/
theorem chunksOK_of_len (s : Store) (t : Txn) (x : String) (col : Col)
    (hm : ∀ v d, (col.merge v d).length = d.length) :
    ChunksOK s.hash t.updates x t.dirtyChunks (capCol s t col) :=
  ChunksOK_of_noAppend _ _ _ _ _ (NoAppend_of_len _ _ _ _ _ (by rw [(capCol_meta s t col).2.2.2]; exact hm))

/-- … and, resizing merges allowed, for well-formed buffers whose chunks appear once each -/
theorem chunksOK_of_nodup (s : Store) (t : Txn) (x : String) (col : Col)
    (h : ∀ v ∈ t.updates, v.column = x → BufOK v ∧ v.chunks.Nodup) :
    ChunksOK s.hash t.updates x t.dirtyChunks (capCol s t col) :=
  ChunksOK_of_nodup _ _ _ _ h _

/-- numeric, enum, key columns: no side condition on the ops at all -/
theorem commit_col_of_kind (s : Store) (t : Txn) (x : String) (col : Col)
    (hxr : x ≠ rowColumn) (hf : s.findCol x = some col) (hd : col.kind.isData = true)
    (hk : col.kind ≠ .str ∧ col.kind ≠ .record)
    (hcomp : ∀ v ∈ t.updates, ∀ c, s.findCol v.column = some c → x ∉ c.computed) :
    (s.commit t).findCol x = some (colChunks s.hash t.updates x t.dirtyChunks (capCol s t col)) :=
  commit_col s t x col hxr hf hd hcomp (chunksOK_of_kind s t x col hk)

/-- with distinct buffer names the ops of `x` in a chunk are those of its one buffer -/
theorem colChunks_distinct (hash : Bytes → Nat) (ups : List Buf) (hdist : BufsDistinct ups) (u : Buf) (hu : u ∈ ups)
    (cs : List Nat) (col : Col) :
    colChunks hash ups u.column cs col =
      cs.foldl (fun c ch => (applyData hash c ch (markerOps ups ch ++ u.rangeOps ch)).col) col := by
  rw [colChunks_eq]
  congr 1
  funext c ch
  rw [C01store.opsFor_single ups hdist u hu ch]

/-- what the column keeps: signature, merge function, well-formed arrays, coverage — so the theorem chains over commits -/
theorem commit_col_keeps (s : Store) (t : Txn) (x : String) (col : Col) (hd : col.kind.isData = true) :
    let col' := colChunks s.hash t.updates x t.dirtyChunks (capCol s t col)
    col'.name = col.name ∧ col'.kind = col.kind ∧ col'.merge = col.merge ∧ col'.computed = col.computed ∧
    col.nchunks ≤ col'.nchunks ∧ (ColWF col → ColWF col') ∧
    (s.commits.size ≤ col.nchunks → ∀ c ∈ t.dirtyChunks, c < col'.nchunks) := by
  intro col'
  have hsh := colChunks_shape s.hash t.updates x t.dirtyChunks (capCol s t col)
  obtain ⟨m1, m2, m3, m4⟩ := capCol_meta s t col
  obtain ⟨_, _, g3, _, g5, g6⟩ := capCol_data s t col hd
  exact ⟨hsh.name.trans m1, hsh.kind.trans m2, hsh.merge.trans m4, hsh.computed.trans m3,
    by show col.nchunks ≤ (colChunks _ _ _ _ _).nchunks; rw [hsh.nchunks]; exact g3,
    fun hw => ColWF.of_shape hsh (g5 hw),
    fun hcov c hc => by show c < (colChunks _ _ _ _ _).nchunks; rw [hsh.nchunks]; exact g6 hcov c hc⟩

/-- frame: a slot no marker and no op of the transaction addresses is left alone (any data kind) -/
theorem commit_col_untouched (s : Store) (t : Txn) (x : String) (col : Col)
    (hxr : x ≠ rowColumn) (hf : s.findCol x = some col) (hd : col.kind.isData = true)
    (hcomp : ∀ v ∈ t.updates, ∀ c, s.findCol v.column = some c → x ∉ c.computed)
    (hok : ChunksOK s.hash t.updates x t.dirtyChunks (capCol s t col))
    (i : Nat) (hnone : ∀ o ∈ markerAll t.updates ++ allFor t.updates x, o.idx ≠ i) :
    ∃ col', (s.commit t).findCol x = some col' ∧ slot col' i = slot col i := by
  refine ⟨_, commit_col s t x col hxr hf hd hcomp hok, ?_⟩
  rw [colChunks_slot_frame s.hash t.updates x t.dirtyChunks _ i
    (fun ch _ o ho => hnone o (chunkOps_sub_issued t.updates x ch o ho)), (capCol_data s t col hd).2.2.2.1 i]

/-- the column after a sequence of commits -/
def colTxns (x : String) : List Txn → Store → Col → Col
  | [], _, c => c
  | t :: ts, s, c => colTxns x ts (s.commit t) (colChunks s.hash t.updates x t.dirtyChunks (capCol s t c))

/-- the guard for a sequence of transactions, each in the state the previous commits leave -/
def ChunksOKTxns (x : String) : List Txn → Store → Col → Prop
  | [], _, _ => True
  | t :: ts, s, c =>
    ChunksOK s.hash t.updates x t.dirtyChunks (capCol s t c) ∧
    ChunksOKTxns x ts (s.commit t) (colChunks s.hash t.updates x t.dirtyChunks (capCol s t c))

/-- **any sequence of committed transactions** (fixed schema), any data kind -/
theorem commits_col (x : String) (hxr : x ≠ rowColumn) (ts : List Txn) :
    ∀ (s : Store) (col : Col), s.findCol x = some col → col.kind.isData = true →
      (∀ t ∈ ts, ∀ v ∈ t.updates, ∀ c, s.findCol v.column = some c → x ∉ c.computed) → ChunksOKTxns x ts s col →
      (ts.foldl Store.commit s).findCol x = some (colTxns x ts s col) := by
  induction ts with
  | nil => intro s col hf _ _ _; exact hf
  | cons t ts ih =>
    intro s col hf hd hcomp hok
    simp only [List.foldl_cons]
    have f1 := commit_col s t x col hxr hf hd (hcomp t (by simp)) hok.1
    exact ih (s.commit t) _ f1 (by rw [(commit_col_keeps s t x col hd).2.1]; exact hd) (by
      intro t' ht' v hv c hc
      obtain ⟨c0, hc0, e, _⟩ := commit_back s t v.column c hc
      rw [e]
      exact hcomp t' (by simp [ht']) v hv c0 hc0) hok.2

/-- numeric / enum / key columns: the guard of a sequence holds by itself -/
theorem chunksOKTxns_of_kind (x : String) (ts : List Txn) :
    ∀ (s : Store) (col : Col), col.kind.isData = true → col.kind ≠ .str ∧ col.kind ≠ .record → ChunksOKTxns x ts s col := by
  induction ts with
  | nil => intro s col _ _; trivial
  | cons t ts ih =>
    intro s col hd hk
    have hk' := (commit_col_keeps s t x col hd).2.1
    exact ⟨chunksOK_of_kind s t x col hk, ih _ _ (by rw [hk']; exact hd) (by rw [hk']; exact hk)⟩

/-! ## P3 — slot-level read-back for every kind with a slot law; strings and records -/

/-- **`commit_slot`** (generalises `C01store.commit_readback` to every data kind with a per-section slot law `E`):
    laws available: `slotLaw_num` (`slotEffect merge width`), `slotLaw_str` (`slotEffect merge 0`), `slotLaw_enum`
    (`enumEffect hash`), `slotLaw_key` (`keyEffect`) -/
theorem commit_slot (s : Store) (t : Txn) (x : String) (col : Col) (E : Bool × Bytes → Op → Bool × Bytes)
    (hxr : x ≠ rowColumn) (hf : s.findCol x = some col) (hd : col.kind.isData = true) (hw : ColWF col)
    (hcov : s.commits.size ≤ col.nchunks)
    (hcomp : ∀ v ∈ t.updates, ∀ c, s.findCol v.column = some c → x ∉ c.computed)
    (hok : ChunksOK s.hash t.updates x t.dirtyChunks (capCol s t col))
    (hlaw : SlotLaw s.hash col.kind col.merge E)
    (hinv : ∀ v ∈ t.updates, (v.column = x ∨ isMarkerBuf v = true) → ChunkOK v) :
    ∃ col', (s.commit t).findCol x = some col' ∧ col'.kind = col.kind ∧ col'.merge = col.merge ∧ ColWF col' ∧
      col.nchunks ≤ col'.nchunks ∧ (∀ c ∈ t.dirtyChunks, c < col'.nchunks) ∧
      col' = colChunks s.hash t.updates x t.dirtyChunks (capCol s t col) ∧
      ∀ i, slot col' i =
        ((markerAll t.updates ++ allFor t.updates x).filter (fun o => o.idx = i)).foldl E (slot col i) :=
  commit_slot_ok s t x col E hxr hf hd hw hcov hcomp hok hlaw hinv

/-- raw-storing kinds (numeric, string, record, key): the last store decides. When the last op (marker or column op) the
    transaction addresses to `i` is a `Put`, a reader of `x` at `i` gets exactly its bytes. -/
theorem commit_read_last_put_raw (s : Store) (t : Txn) (x : String) (col : Col) (E : Bool × Bytes → Op → Bool × Bytes)
    (hxr : x ≠ rowColumn) (hf : s.findCol x = some col) (hraw : col.kind.storesRaw = true) (hw : ColWF col)
    (hcov : s.commits.size ≤ col.nchunks)
    (hcomp : ∀ v ∈ t.updates, ∀ c, s.findCol v.column = some c → x ∉ c.computed)
    (hok : ChunksOK s.hash t.updates x t.dirtyChunks (capCol s t col))
    (hlaw : SlotLaw s.hash col.kind col.merge E)
    (hE : ∀ st p, p.typ = opPut → E st p = (true, valRaw p.val))
    (hinv : ∀ v ∈ t.updates, (v.column = x ∨ isMarkerBuf v = true) → ChunkOK v)
    (i : Nat) (pre : List Op) (p : Op) (hp : p.typ = opPut)
    (hlast : (markerAll t.updates ++ allFor t.updates x).filter (fun o => o.idx = i) = pre ++ [p]) :
    ∃ col', (s.commit t).findCol x = some col' ∧ col'.read i = some (valRaw p.val) := by
  obtain ⟨col', f, k', _, _, _, d', _, sl⟩ :=
    commit_slot s t x col E hxr hf (isData_of_storesRaw hraw) hw hcov hcomp hok hlaw hinv
  refine ⟨col', f, ?_⟩
  have hmem : p ∈ (markerAll t.updates ++ allFor t.updates x).filter (fun o => o.idx = i) := by rw [hlast]; simp
  have hpi : p.idx = i := by simpa using (List.mem_filter.1 hmem).2
  have hdirty := issued_chunk_dirty t x hinv p (List.mem_filter.1 hmem).1
  have hlt := d' _ hdirty
  rw [hpi] at hlt
  unfold chunkOf chunkSize at hlt
  have hslot : slot col' i = (true, valRaw p.val) := by
    rw [sl i, hlast, List.foldl_append]
    exact hE _ p hp
  rw [read_raw col' (by rw [k']; exact hraw) i, hslot, if_pos ⟨hlt, rfl⟩]

/-- … when it is a `Delete` (row deleted through the marker, or a column delete) the reader finds nothing -/
theorem commit_read_last_delete_raw (s : Store) (t : Txn) (x : String) (col : Col) (E : Bool × Bytes → Op → Bool × Bytes)
    (hxr : x ≠ rowColumn) (hf : s.findCol x = some col) (hraw : col.kind.storesRaw = true) (hw : ColWF col)
    (hcov : s.commits.size ≤ col.nchunks)
    (hcomp : ∀ v ∈ t.updates, ∀ c, s.findCol v.column = some c → x ∉ c.computed)
    (hok : ChunksOK s.hash t.updates x t.dirtyChunks (capCol s t col))
    (hlaw : SlotLaw s.hash col.kind col.merge E)
    (hE : ∀ st p, p.typ = opDelete → (E st p).1 = false)
    (hinv : ∀ v ∈ t.updates, (v.column = x ∨ isMarkerBuf v = true) → ChunkOK v)
    (i : Nat) (pre : List Op) (p : Op) (hp : p.typ = opDelete)
    (hlast : (markerAll t.updates ++ allFor t.updates x).filter (fun o => o.idx = i) = pre ++ [p]) :
    ∃ col', (s.commit t).findCol x = some col' ∧ col'.read i = none := by
  obtain ⟨col', f, k', _, _, _, _, _, sl⟩ :=
    commit_slot s t x col E hxr hf (isData_of_storesRaw hraw) hw hcov hcomp hok hlaw hinv
  refine ⟨col', f, ?_⟩
  have hslot : (slot col' i).1 = false := by
    rw [sl i, hlast, List.foldl_append]
    exact hE _ p hp
  rw [read_raw col' (by rw [k']; exact hraw) i, if_neg]
  intro h
  rw [hslot] at h
  exact absurd h.2 (by decide)

/-- rows the transaction does not address read exactly as before (raw-storing kinds; no slot law needed) -/
theorem commit_read_untouched_raw (s : Store) (t : Txn) (x : String) (col : Col)
    (hxr : x ≠ rowColumn) (hf : s.findCol x = some col) (hraw : col.kind.storesRaw = true) (hw : ColWF col)
    (hcomp : ∀ v ∈ t.updates, ∀ c, s.findCol v.column = some c → x ∉ c.computed)
    (hok : ChunksOK s.hash t.updates x t.dirtyChunks (capCol s t col))
    (i : Nat) (hnone : ∀ o ∈ markerAll t.updates ++ allFor t.updates x, o.idx ≠ i) :
    ∃ col', (s.commit t).findCol x = some col' ∧ slot col' i = slot col i ∧ col'.read i = col.read i := by
  have hd := isData_of_storesRaw hraw
  obtain ⟨col', f, hs⟩ := commit_col_untouched s t x col hxr hf hd hcomp hok i hnone
  have hcol' : col' = colChunks s.hash t.updates x t.dirtyChunks (capCol s t col) := by
    rw [commit_col s t x col hxr hf hd hcomp hok] at f
    exact (Option.some.inj f).symm
  obtain ⟨_, k', _, _, n', _, _⟩ := commit_col_keeps s t x col hd
  rw [← hcol'] at k' n'
  refine ⟨col', f, hs, ?_⟩
  rw [read_raw col' (by rw [k']; exact hraw) i, read_raw col hraw i, hs]
  by_cases h1 : i / 16384 < col.nchunks
  · have h2 : i / 16384 < col'.nchunks := by omega
    simp only [h1, h2, true_and]
  · have hb : (slot col i).1 = false := by
      unfold slot
      simp only
      apply get_of_ge
      rw [hw.bsize]
      have : 16384 * col.nchunks ≤ 16384 * (i / 16384) := Nat.mul_le_mul_left _ (by omega)
      omega
    have hA : ¬ (i / 16384 < col'.nchunks ∧ (slot col i).1 = true) := by
      intro h; rw [hb] at h; exact absurd h.2 (by decide)
    have hB : ¬ (i / 16384 < col.nchunks ∧ (slot col i).1 = true) := fun h => h1 h.1
    rw [if_neg hA, if_neg hB]

/-! ### strings and records -/

/-- every slot of a string / record column after the commit (the analogue of `C01store.commit_readback`;
    `slotEffect merge 0`: strings are not padded, a `Merge` reads the raw old slot even when the row is absent) -/
theorem commit_readback_str (s : Store) (t : Txn) (x : String) (col : Col)
    (hxr : x ≠ rowColumn) (hf : s.findCol x = some col) (hk : col.kind = .str ∨ col.kind = .record) (hw : ColWF col)
    (hcov : s.commits.size ≤ col.nchunks)
    (hcomp : ∀ v ∈ t.updates, ∀ c, s.findCol v.column = some c → x ∉ c.computed)
    (hok : ChunksOK s.hash t.updates x t.dirtyChunks (capCol s t col))
    (hinv : ∀ v ∈ t.updates, (v.column = x ∨ isMarkerBuf v = true) → ChunkOK v) :
    ∃ col', (s.commit t).findCol x = some col' ∧ col'.kind = col.kind ∧ col'.merge = col.merge ∧ ColWF col' ∧
      col.nchunks ≤ col'.nchunks ∧ (∀ c ∈ t.dirtyChunks, c < col'.nchunks) ∧
      ∀ i, slot col' i =
        ((markerAll t.updates ++ allFor t.updates x).filter (fun o => o.idx = i)).foldl
          (slotEffect col.merge 0) (slot col i) := by
  have hd : col.kind.isData = true := by rcases hk with hk | hk <;> rw [hk] <;> rfl
  obtain ⟨col', f, k', m', w', n', d', _, sl⟩ := commit_slot s t x col (slotEffect col.merge 0) hxr hf hd hw hcov hcomp hok
    (slotLaw_str s.hash col.kind hk col.merge) hinv
  exact ⟨col', f, k', m', w', n', d', sl⟩

/-- what the typed reader returns after the commit -/
theorem commit_read_str (s : Store) (t : Txn) (x : String) (col : Col)
    (hxr : x ≠ rowColumn) (hf : s.findCol x = some col) (hk : col.kind = .str ∨ col.kind = .record) (hw : ColWF col)
    (hcov : s.commits.size ≤ col.nchunks)
    (hcomp : ∀ v ∈ t.updates, ∀ c, s.findCol v.column = some c → x ∉ c.computed)
    (hok : ChunksOK s.hash t.updates x t.dirtyChunks (capCol s t col))
    (hinv : ∀ v ∈ t.updates, (v.column = x ∨ isMarkerBuf v = true) → ChunkOK v) :
    ∃ col', (s.commit t).findCol x = some col' ∧
      ∀ i, col'.read i =
        if i / 16384 < col'.nchunks ∧
            (((markerAll t.updates ++ allFor t.updates x).filter (fun o => o.idx = i)).foldl
              (slotEffect col.merge 0) (slot col i)).1 = true then
          some (((markerAll t.updates ++ allFor t.updates x).filter (fun o => o.idx = i)).foldl
              (slotEffect col.merge 0) (slot col i)).2
        else none := by
  obtain ⟨col', f, k', _, _, _, _, sl⟩ := commit_readback_str s t x col hxr hf hk hw hcov hcomp hok hinv
  refine ⟨col', f, fun i => ?_⟩
  rw [read_raw col' (by rw [k']; rcases hk with hk | hk <;> rw [hk] <;> rfl) i, sl i]

/-- **`commit_read_str_last_put`** (string / record columns): the last committed `Put` to (row, column) reads back
    byte-for-byte — whatever the slot held before, whatever else the transaction did (markers, merges — resizing ones
    included —, deletes before it, other columns, other chunks). Guard: `ChunksOK` (see the header). -/
theorem commit_read_str_last_put (s : Store) (t : Txn) (x : String) (col : Col)
    (hxr : x ≠ rowColumn) (hf : s.findCol x = some col) (hk : col.kind = .str ∨ col.kind = .record) (hw : ColWF col)
    (hcov : s.commits.size ≤ col.nchunks)
    (hcomp : ∀ v ∈ t.updates, ∀ c, s.findCol v.column = some c → x ∉ c.computed)
    (hok : ChunksOK s.hash t.updates x t.dirtyChunks (capCol s t col))
    (hinv : ∀ v ∈ t.updates, (v.column = x ∨ isMarkerBuf v = true) → ChunkOK v)
    (i : Nat) (pre : List Op) (p : Op) (hp : p.typ = opPut)
    (hlast : (markerAll t.updates ++ allFor t.updates x).filter (fun o => o.idx = i) = pre ++ [p]) :
    ∃ col', (s.commit t).findCol x = some col' ∧ col'.read i = some (valRaw p.val) :=
  commit_read_last_put_raw s t x col (slotEffect col.merge 0) hxr hf
    (by rcases hk with hk | hk <;> rw [hk] <;> rfl) hw hcov hcomp hok (slotLaw_str s.hash col.kind hk col.merge)
    (fun st p hp => by unfold slotEffect; rw [if_pos hp]) hinv i pre p hp hlast

/-- … a `Delete` last (row deleted, or column delete): nothing is read -/
theorem commit_read_str_last_delete (s : Store) (t : Txn) (x : String) (col : Col)
    (hxr : x ≠ rowColumn) (hf : s.findCol x = some col) (hk : col.kind = .str ∨ col.kind = .record) (hw : ColWF col)
    (hcov : s.commits.size ≤ col.nchunks)
    (hcomp : ∀ v ∈ t.updates, ∀ c, s.findCol v.column = some c → x ∉ c.computed)
    (hok : ChunksOK s.hash t.updates x t.dirtyChunks (capCol s t col))
    (hinv : ∀ v ∈ t.updates, (v.column = x ∨ isMarkerBuf v = true) → ChunkOK v)
    (i : Nat) (pre : List Op) (p : Op) (hp : p.typ = opDelete)
    (hlast : (markerAll t.updates ++ allFor t.updates x).filter (fun o => o.idx = i) = pre ++ [p]) :
    ∃ col', (s.commit t).findCol x = some col' ∧ col'.read i = none :=
  commit_read_last_delete_raw s t x col (slotEffect col.merge 0) hxr hf
    (by rcases hk with hk | hk <;> rw [hk] <;> rfl) hw hcov hcomp hok (slotLaw_str s.hash col.kind hk col.merge)
    (fun st p hp => by
      unfold slotEffect
      rw [if_neg (by rw [hp]; decide), if_neg (by rw [hp]; decide), if_pos hp]) hinv i pre p hp hlast

/-- … untouched rows read as before -/
theorem commit_read_str_untouched (s : Store) (t : Txn) (x : String) (col : Col)
    (hxr : x ≠ rowColumn) (hf : s.findCol x = some col) (hk : col.kind = .str ∨ col.kind = .record) (hw : ColWF col)
    (hcomp : ∀ v ∈ t.updates, ∀ c, s.findCol v.column = some c → x ∉ c.computed)
    (hok : ChunksOK s.hash t.updates x t.dirtyChunks (capCol s t col))
    (i : Nat) (hnone : ∀ o ∈ markerAll t.updates ++ allFor t.updates x, o.idx ≠ i) :
    ∃ col', (s.commit t).findCol x = some col' ∧ slot col' i = slot col i ∧ col'.read i = col.read i :=
  commit_read_untouched_raw s t x col hxr hf (by rcases hk with hk | hk <;> rw [hk] <;> rfl) hw hcomp hok i hnone

/-! ## P4 — key columns (proved in `Props/C12store.lean`) -/

/-- **`commit_key_inv`** -/
theorem commit_key_inv (s : Store) (t : Txn) (pk : String) (kc : Col)
    (hxr : pk ≠ rowColumn) (hf : s.findCol pk = some kc) (hk : kc.kind = .key) (hw : ColWF kc)
    (hcomp : ∀ v ∈ t.updates, ∀ c, s.findCol v.column = some c → pk ∉ c.computed)
    (hinv : KeyInv kc)
    (hwf : C12store.WFKeyChunks s.hash t.updates pk t.dirtyChunks (capCol s t kc)) :
    ∃ kc', (s.commit t).findCol pk = some kc' ∧ kc'.kind = .key ∧ ColWF kc' ∧ kc.nchunks ≤ kc'.nchunks ∧
      KeyInv kc' ∧ kc' = colChunks s.hash t.updates pk t.dirtyChunks (capCol s t kc) :=
  C12store.commit_key_inv s t pk kc hxr hf hk hw hcomp hinv hwf

/-- the last committed `Put` of a key reads back from the key column (`keyEffect`: a `Merge` does nothing to a key column) -/
theorem commit_read_key_last_put (s : Store) (t : Txn) (pk : String) (kc : Col)
    (hxr : pk ≠ rowColumn) (hf : s.findCol pk = some kc) (hk : kc.kind = .key) (hw : ColWF kc)
    (hcov : s.commits.size ≤ kc.nchunks)
    (hcomp : ∀ v ∈ t.updates, ∀ c, s.findCol v.column = some c → pk ∉ c.computed)
    (hinv : ∀ v ∈ t.updates, (v.column = pk ∨ isMarkerBuf v = true) → ChunkOK v)
    (i : Nat) (pre : List Op) (p : Op) (hp : p.typ = opPut)
    (hlast : (markerAll t.updates ++ allFor t.updates pk).filter (fun o => o.idx = i) = pre ++ [p]) :
    ∃ kc', (s.commit t).findCol pk = some kc' ∧ kc'.read i = some (valRaw p.val) :=
  commit_read_last_put_raw s t pk kc keyEffect hxr hf (by rw [hk]; rfl) hw hcov hcomp
    (chunksOK_of_kind s t pk kc (by rw [hk]; exact ⟨fun h => (by cases h), fun h => (by cases h)⟩))
    (by rw [hk]; exact slotLaw_key s.hash kc.merge)
    (fun st p hp => by unfold keyEffect; rw [if_pos hp]) hinv i pre p hp hlast

/-- **`commits_key_inv`** -/
theorem commits_key_inv (pk : String) (hxr : pk ≠ rowColumn) (ts : List Txn) (s : Store) (kc : Col)
    (hf : s.findCol pk = some kc) (hk : kc.kind = .key) (hw : ColWF kc) (hinv : KeyInv kc)
    (hcomp : ∀ t ∈ ts, ∀ v ∈ t.updates, ∀ c, s.findCol v.column = some c → pk ∉ c.computed)
    (hwf : C12store.WFKeyTxns pk ts s) :
    ∃ kc', (ts.foldl Store.commit s).findCol pk = some kc' ∧ kc'.kind = .key ∧ ColWF kc' ∧ kc.nchunks ≤ kc'.nchunks ∧
      KeyInv kc' :=
  C12store.commits_key_inv pk hxr ts s kc hf hk hw hinv hcomp hwf

/-- **`offsetOf_after_commit`** -/
theorem offsetOf_after_commit (s : Store) (t : Txn) (pk : String) (kc : Col) (hpk : s.pk = some pk)
    (hxr : pk ≠ rowColumn) (hf : s.findCol pk = some kc) (hk : kc.kind = .key) (hw : ColWF kc)
    (hcomp : ∀ v ∈ t.updates, ∀ c, s.findCol v.column = some c → pk ∉ c.computed)
    (hinv : KeyInv kc)
    (hwf : C12store.WFKeyChunks s.hash t.updates pk t.dirtyChunks (capCol s t kc)) :
    ∃ kc', (s.commit t).findCol pk = some kc' ∧ KeyInv kc' ∧
      (∀ key i, (s.commit t).offsetOf key = some i ↔
        (Bits.get kc'.bits i = true ∧ keyAt kc' i = key ∧ i < kc'.bits.size ∧ i < kc'.data.size)) ∧
      (∀ key i, (s.commit t).offsetOf key = some i ↔ kc'.read i = some key) ∧
      (∀ key i j, kc'.read i = some key → kc'.read j = some key → i = j) :=
  C12store.offsetOf_after_commit s t pk kc hpk hxr hf hk hw hcomp hinv hwf

/-- a key written last to a row resolves to that row after the commit (what `InsertKey` / `UpsertKey` / `rwKey.Set` buffer) -/
theorem commit_key_put_resolves (s : Store) (t : Txn) (pk : String) (kc : Col) (hpk : s.pk = some pk)
    (hxr : pk ≠ rowColumn) (hf : s.findCol pk = some kc) (hk : kc.kind = .key) (hw : ColWF kc)
    (hcov : s.commits.size ≤ kc.nchunks)
    (hcomp : ∀ v ∈ t.updates, ∀ c, s.findCol v.column = some c → pk ∉ c.computed)
    (hinv : KeyInv kc)
    (hwf : C12store.WFKeyChunks s.hash t.updates pk t.dirtyChunks (capCol s t kc))
    (hok : ∀ v ∈ t.updates, (v.column = pk ∨ isMarkerBuf v = true) → ChunkOK v)
    (i : Nat) (pre : List Op) (p : Op) (hp : p.typ = opPut)
    (hlast : (markerAll t.updates ++ allFor t.updates pk).filter (fun o => o.idx = i) = pre ++ [p]) :
    (s.commit t).offsetOf (valRaw p.val) = some i := by
  obtain ⟨kc', f, _, _, hread, _⟩ := offsetOf_after_commit s t pk kc hpk hxr hf hk hw hcomp hinv hwf
  obtain ⟨kc2, f2, r2⟩ := commit_read_key_last_put s t pk kc hxr hf hk hw hcov hcomp hok i pre p hp hlast
  rw [f] at f2
  have e : kc2 = kc' := (Option.some.inj f2).symm
  subst e
  exact (hread _ i).2 r2

/-- a slot of a key column that ends present with key `k`, when no `Put` of `k` was applied: it held `k` before and no
    `Delete` was applied -/
theorem foldl_keyEffect_final (k : Bytes) (ops : List Op) :
    ∀ st : Bool × Bytes, ops.foldl keyEffect st = (true, k) → (∀ o ∈ ops, o.typ = opPut → valRaw o.val ≠ k) →
      st = (true, k) ∧ ∀ o ∈ ops, o.typ ≠ opDelete := by
  induction ops with
  | nil => intro st h _; exact ⟨h, fun o ho => by cases ho⟩
  | cons o os ih =>
    intro st h hnp
    simp only [List.foldl_cons] at h
    obtain ⟨h1, h2⟩ := ih _ h (fun x hx => hnp x (by simp [hx]))
    unfold keyEffect at h1
    by_cases hput : o.typ = opPut
    · rw [if_pos hput] at h1
      exact absurd (congrArg Prod.snd h1) (hnp o (by simp) hput)
    · rw [if_neg hput] at h1
      by_cases hdel : o.typ = opDelete
      · rw [if_pos hdel] at h1
        exact absurd (congrArg Prod.fst h1) (by simp)
      · rw [if_neg hdel] at h1
        refine ⟨h1, ?_⟩
        intro x hx
        rcases List.mem_cons.1 hx with rfl | hx
        · exact hdel
        · exact h2 x hx

/-- **a deleted row releases its key** (what `DeleteKey` / `DeleteAt` buffer: the `Delete` marker of the row): when the
    last op the transaction addresses to the row holding `k` is a `Delete` and the transaction writes `k` nowhere, `k` no
    longer resolves after the commit — and can be inserted again, at any row (`WFKeyOp`) -/
theorem commit_key_delete_releases (s : Store) (t : Txn) (pk : String) (kc : Col) (hpk : s.pk = some pk)
    (hxr : pk ≠ rowColumn) (hf : s.findCol pk = some kc) (hk : kc.kind = .key) (hw : ColWF kc)
    (hcov : s.commits.size ≤ kc.nchunks)
    (hcomp : ∀ v ∈ t.updates, ∀ c, s.findCol v.column = some c → pk ∉ c.computed)
    (hinv : KeyInv kc)
    (hwf : C12store.WFKeyChunks s.hash t.updates pk t.dirtyChunks (capCol s t kc))
    (hok : ∀ v ∈ t.updates, (v.column = pk ∨ isMarkerBuf v = true) → ChunkOK v)
    (k : Bytes) (i : Nat) (hki : s.offsetOf k = some i)
    (pre : List Op) (p : Op) (hp : p.typ = opDelete)
    (hlast : (markerAll t.updates ++ allFor t.updates pk).filter (fun o => o.idx = i) = pre ++ [p])
    (hnoput : ∀ o ∈ markerAll t.updates ++ allFor t.updates pk, o.typ = opPut → valRaw o.val ≠ k) :
    (s.commit t).offsetOf k = none ∧
    ∃ kc', (s.commit t).findCol pk = some kc' ∧ KeyInv kc' ∧
      ∀ j, j < kc'.bits.size → j < kc'.data.size → WFKeyOp kc' ⟨opPut, j, .str k⟩ := by
  obtain ⟨kc', f, hinv', hraw, _, _⟩ := offsetOf_after_commit s t pk kc hpk hxr hf hk hw hcomp hinv hwf
  obtain ⟨kc2, f2, _, _, _, _, _, _, sl⟩ := commit_slot s t pk kc keyEffect hxr hf (by rw [hk]; rfl) hw hcov hcomp
    (chunksOK_of_kind s t pk kc (by rw [hk]; exact ⟨fun h => (by cases h), fun h => (by cases h)⟩))
    (by rw [hk]; exact slotLaw_key s.hash kc.merge) hok
  rw [f] at f2
  have e : kc2 = kc' := (Option.some.inj f2).symm
  subst e
  have hnone : (s.commit t).offsetOf k = none := by
    cases hj : (s.commit t).offsetOf k with
    | none => rfl
    | some j =>
      exfalso
      obtain ⟨b1, b2, _, _⟩ := (hraw k j).1 hj
      have hslot : slot kc2 j = (true, k) := by
        unfold slot
        unfold keyAt at b2
        rw [b1, b2]
      rw [sl j] at hslot
      obtain ⟨h1, h2⟩ := foldl_keyEffect_final k _ _ hslot (fun o ho => hnoput o (List.mem_filter.1 ho).1)
      -- row `j` held `k` before the commit, so `j = i`
      have hb : Bits.get kc.bits j = true := congrArg Prod.fst h1
      have hd : (kc.data[j]?).getD [] = k := congrArg Prod.snd h1
      have hlt : j < kc.bits.size := by
        false_or_by_contra
        rw [get_of_ge _ _ (by omega)] at hb
        cases hb
      have hseek : kc.seek.get? k = some j := (hinv k j).2 ⟨hb, hd, hlt, by rw [hw.dsize, ← hw.bsize]; exact hlt⟩
      rw [C12.offsetOf_eq s k pk kc hpk hf, hseek] at hki
      have hji : j = i := Option.some.inj hki
      subst hji
      -- but the last op addressed to it is a `Delete`
      exact h2 p (by rw [hlast]; simp) hp
  refine ⟨hnone, kc2, f, hinv', ?_⟩
  intro j hjb hjd
  unfold WFKeyOp
  rw [if_pos rfl]
  refine ⟨hjb, hjd, Or.inl ?_⟩
  show kc2.seek.get? k = none
  rw [← C12.offsetOf_eq (s.commit t) k pk kc2 ((commit_pk s t).trans hpk) f]
  exact hnone

/-! ## P5 — non-vacuity: a store with a string column and a key column, a transaction writing both, over two chunks -/

/-- a string column whose merge is concatenation (a resizing merge function) -/
def sCol : Col :=
  { name := "s", kind := .str, nchunks := 1, bits := Array.replicate 16384 false, data := Array.replicate 16384 [],
    merge := fun a d => a ++ d }

def kCol : Col :=
  { name := "id", kind := .key, nchunks := 1, bits := Array.replicate 16384 false, data := Array.replicate 16384 [] }

def exStore : Store := { cols := #[sCol, kCol], commits := #[0], pk := some "id" }

/-- insert row 3 (marker), write "hi" to it, write its key `[7]`, write "yo" to row 20000 — the second chunk, not yet
    committed-to, so `commitCapacity` grows both columns -/
def exTxn : Txn :=
  ([(rowColumn, ⟨opInsert, 3, .fixed 0 []⟩), ("s", ⟨opPut, 3, .str [104, 105]⟩), ("id", ⟨opPut, 3, .str [7]⟩),
    ("s", ⟨opPut, 20000, .str [121, 111]⟩)] : List (String × Op)).foldl (fun t p => t.putOp p.1 p.2) {}

theorem exStore_find_s : exStore.findCol "s" = some sCol := by
  simp [exStore, Store.findCol, sCol]
theorem exStore_find_id : exStore.findCol "id" = some kCol := by
  simp [exStore, Store.findCol, sCol, kCol]
theorem sCol_wf : ColWF sCol := ⟨by simp [sCol], by simp [sCol]⟩
theorem kCol_wf : ColWF kCol := ⟨by simp [kCol], by simp [kCol]⟩
theorem exTxn_dirty : exTxn.dirtyChunks = [0, 1] := by decide
example : BufsDistinct exTxn.updates := by decide
example : NamesDistinct exStore := by decide

theorem exTxn_chunkOK : ∀ v ∈ exTxn.updates, ChunkOK v := by
  have : ∀ v ∈ exTxn.updates, ∀ s ∈ v.rsecs, ∀ o ∈ s.rops, chunkOf o.idx = s.chunk := by decide
  exact this

theorem exStore_computed : ∀ n c, exStore.findCol n = some c → c.computed = [] := by
  intro n c h
  have := findCol_mem h
  simp only [exStore, List.mem_toArray, List.mem_cons, List.not_mem_nil, or_false] at this
  rcases this with rfl | rfl <;> rfl

theorem ex_hcomp (t : Txn) (x : String) : ∀ v ∈ t.updates, ∀ c, exStore.findCol v.column = some c → x ∉ c.computed := by
  intro v _ c hc
  rw [exStore_computed _ c hc]; simp

/-- the guard for the string column: the transaction holds no `Merge` for it -/
theorem ex_ok : ChunksOK exStore.hash exTxn.updates "s" exTxn.dirtyChunks (capCol exStore exTxn sCol) :=
  chunksOK_of_no_merge exStore exTxn "s" sCol (by decide)

/-- P2 applied: the string column after the commit, as a `Col` record -/
example : (exStore.commit exTxn).findCol "s" =
    some (colChunks exStore.hash exTxn.updates "s" exTxn.dirtyChunks (capCol exStore exTxn sCol)) :=
  commit_col exStore exTxn "s" sCol (by decide) exStore_find_s rfl (ex_hcomp exTxn "s") ex_ok

/-- P1 applied: the first dirty chunk -/
example : (exStore.commitChunk 0 true exTxn.updates).1.findCol "s" =
    some (applyData exStore.hash (applyData exStore.hash sCol 0 (markerOpsCr true exTxn.updates 0)).col 0
      (opsFor exTxn.updates "s" 0)).col :=
  commitChunk_col exStore 0 true exTxn.updates "s" sCol (by decide) exStore_find_s rfl (ex_hcomp exTxn "s")
    (bufsOK_of_no_merge _ _ _ _ _ (by decide))

/-- P3 applied: both strings read back byte-for-byte (rows 3 and 20000, two chunks) -/
example : ∃ col', (exStore.commit exTxn).findCol "s" = some col' ∧ col'.read 3 = some [104, 105] :=
  commit_read_str_last_put exStore exTxn "s" sCol (by decide) exStore_find_s (Or.inl rfl) sCol_wf (by decide)
    (ex_hcomp exTxn "s") ex_ok (fun v hv _ => exTxn_chunkOK v hv) 3
    [⟨opInsert, 3, .fixed 0 []⟩] ⟨opPut, 3, .str [104, 105]⟩ rfl (by decide)

example : ∃ col', (exStore.commit exTxn).findCol "s" = some col' ∧ col'.read 20000 = some [121, 111] :=
  commit_read_str_last_put exStore exTxn "s" sCol (by decide) exStore_find_s (Or.inl rfl) sCol_wf (by decide)
    (ex_hcomp exTxn "s") ex_ok (fun v hv _ => exTxn_chunkOK v hv) 20000
    [] ⟨opPut, 20000, .str [121, 111]⟩ rfl (by decide)

example : ∃ col', (exStore.commit exTxn).findCol "s" = some col' ∧ slot col' 4 = slot sCol 4 ∧ col'.read 4 = sCol.read 4 :=
  commit_read_str_untouched exStore exTxn "s" sCol (by decide) exStore_find_s (Or.inl rfl) sCol_wf
    (ex_hcomp exTxn "s") ex_ok 4 (by decide)

/-! ### a transaction WITH a resizing merge: write "hi" to row 3, then merge "!" onto it ("hi" ++ "!" has another length
than "!": the result is appended through the buffer), and write to a second chunk. Every chunk has one section in the
buffer of "s", so the guard holds by `chunksOK_of_nodup` -/

def mTxn : Txn :=
  ([(rowColumn, ⟨opInsert, 3, .fixed 0 []⟩), ("s", ⟨opPut, 3, .str [104, 105]⟩), ("s", ⟨opMerge, 3, .str [33]⟩),
    ("s", ⟨opPut, 20000, .str [121, 111]⟩)] : List (String × Op)).foldl (fun t p => t.putOp p.1 p.2) {}

theorem mTxn_chunkOK : ∀ v ∈ mTxn.updates, ChunkOK v := by
  have : ∀ v ∈ mTxn.updates, ∀ s ∈ v.rsecs, ∀ o ∈ s.rops, chunkOf o.idx = s.chunk := by decide
  exact this

theorem mTxn_ok : ChunksOK exStore.hash mTxn.updates "s" mTxn.dirtyChunks (capCol exStore mTxn sCol) := by
  apply chunksOK_of_nodup
  have : ∀ v ∈ mTxn.updates, v.column = "s" → bufOKb v = true ∧ v.chunks.Nodup := by decide
  intro v hv hx
  exact ⟨bufOK_of_check v (this v hv hx).1, (this v hv hx).2⟩

/-- the merge result reads back: "hi!" at row 3 (and the resizing merge does not disturb row 20000) -/
theorem ex_merge : ∃ col', (exStore.commit mTxn).findCol "s" = some col' ∧ col'.read 3 = some [104, 105, 33] ∧
    col'.read 20000 = some [121, 111] := by
  obtain ⟨col', f, hr⟩ := commit_read_str exStore mTxn "s" sCol (by decide) exStore_find_s (Or.inl rfl) sCol_wf
    (by decide) (ex_hcomp mTxn "s") mTxn_ok (fun v hv _ => mTxn_chunkOK v hv)
  obtain ⟨col2, f2, _, _, _, _, d2, _⟩ := commit_readback_str exStore mTxn "s" sCol (by decide) exStore_find_s (Or.inl rfl)
    sCol_wf (by decide) (ex_hcomp mTxn "s") mTxn_ok (fun v hv _ => mTxn_chunkOK v hv)
  rw [f] at f2
  have e : col2 = col' := (Option.some.inj f2).symm
  subst e
  have hdc : mTxn.dirtyChunks = [0, 1] := by decide
  have h0 := d2 0 (by rw [hdc]; simp)
  have h1 := d2 1 (by rw [hdc]; simp)
  have s3 : slot sCol 3 = (false, []) := by simp [slot, sCol, Bits.get]
  have s2 : slot sCol 20000 = (false, []) := by simp [slot, sCol, Bits.get]
  refine ⟨col2, f, ?_, ?_⟩
  · rw [hr 3, s3]
    have : (((markerAll mTxn.updates ++ allFor mTxn.updates "s").filter (fun o => o.idx = 3)).foldl
        (slotEffect sCol.merge 0) (false, [])) = (true, [104, 105, 33]) := by decide
    rw [this, if_pos ⟨by omega, rfl⟩]
  · rw [hr 20000, s2]
    have : (((markerAll mTxn.updates ++ allFor mTxn.updates "s").filter (fun o => o.idx = 20000)).foldl
        (slotEffect sCol.merge 0) (false, [])) = (true, [121, 111]) := by decide
    rw [this, if_pos ⟨by omega, rfl⟩]

/-! ### the key column -/

theorem kCol_inv : KeyInv kCol := keyInv_of_empty kCol rfl (get_replicate_false _)

theorem ex_wfKey :
    C12store.WFKeyChunks exStore.hash exTxn.updates "id" exTxn.dirtyChunks (capCol exStore exTxn kCol) := by
  have hd : kCol.kind.isData = true := rfl
  obtain ⟨g1, _, g3, _, g5, _⟩ := capCol_data exStore exTxn kCol hd
  have hw := g5 kCol_wf
  have hn : 1 ≤ (capCol exStore exTxn kCol).nchunks := g3
  have hmul : 16384 * 1 ≤ 16384 * (capCol exStore exTxn kCol).nchunks := Nat.mul_le_mul_left _ hn
  have h0 : chunkOps exTxn.updates "id" 0 = [⟨opInsert, 3, .fixed 0 []⟩, ⟨opPut, 3, .str [7]⟩] := by decide
  have h1 : chunkOps exTxn.updates "id" 1 = [] := by decide
  rw [exTxn_dirty]
  unfold C12store.WFKeyChunks C12store.WFKeyChunks C12store.WFKeyChunks
  rw [h0, h1]
  refine ⟨?_, trivial, trivial⟩
  generalize capCol exStore exTxn kCol = K at g1 hw hmul
  show WFKeyOps ((K, [], []) : ApplyAcc).1 _
  rw [WFKeyOps_cons, WFKeyOps_cons]
  refine ⟨?_, ?_, trivial⟩
  · unfold WFKeyOp
    rw [if_neg (by decide), if_neg (by decide)]
    trivial
  · rw [stepKey_other _ _ (by decide) (by decide)]
    unfold WFKeyOp
    rw [if_pos rfl]
    refine ⟨?_, ?_, Or.inl ?_⟩
    · show 3 < K.bits.size
      rw [hw.bsize]; omega
    · show 3 < K.data.size
      rw [hw.dsize]; omega
    · show K.seek.get? [7] = none
      rw [g1]; simp [kCol]

/-- P4 applied: the key invariant holds after the commit, `OffsetOf([7])` answers row 3, no other key resolves to it -/
theorem ex_key :
    ∃ kc', (exStore.commit exTxn).findCol "id" = some kc' ∧ KeyInv kc' ∧
      (exStore.commit exTxn).offsetOf [7] = some 3 ∧
      ∀ key, (exStore.commit exTxn).offsetOf key = some 3 → key = [7] := by
  obtain ⟨kc', f, hinv, _, hread, _⟩ := offsetOf_after_commit exStore exTxn "id" kCol rfl (by decide) exStore_find_id rfl
    kCol_wf (ex_hcomp exTxn "id") kCol_inv ex_wfKey
  obtain ⟨kc2, f2, r2⟩ := commit_read_key_last_put exStore exTxn "id" kCol (by decide) exStore_find_id rfl kCol_wf
    (by decide) (ex_hcomp exTxn "id") (fun v hv _ => exTxn_chunkOK v hv) 3
    [⟨opInsert, 3, .fixed 0 []⟩] ⟨opPut, 3, .str [7]⟩ rfl (by decide)
  rw [f] at f2
  have e : kc2 = kc' := (Option.some.inj f2).symm
  subst e
  refine ⟨kc2, f, hinv, (hread [7] 3).2 r2, ?_⟩
  intro key hk
  have := (hread key 3).1 hk
  rw [r2] at this
  exact (Option.some.inj this).symm

/-- `commit_key_put_resolves` applied -/
example : (exStore.commit exTxn).offsetOf [7] = some 3 :=
  commit_key_put_resolves exStore exTxn "id" kCol rfl (by decide) exStore_find_id rfl kCol_wf (by decide)
    (ex_hcomp exTxn "id") kCol_inv ex_wfKey (fun v hv _ => exTxn_chunkOK v hv) 3
    [⟨opInsert, 3, .fixed 0 []⟩] ⟨opPut, 3, .str [7]⟩ rfl (by decide)

/-- a second transaction, on the committed store: delete row 3 through its marker (what `DeleteKey [7]` buffers) -/
def dTxn : Txn := ({} : Txn).putOp rowColumn ⟨opDelete, 3, .fixed 0 []⟩

/-- everything the second commit needs to know about the store the first one leaves -/
theorem ex_after :
    ∃ kc1, (exStore.commit exTxn).findCol "id" = some kc1 ∧ kc1.kind = .key ∧ ColWF kc1 ∧ KeyInv kc1 ∧
      (exStore.commit exTxn).commits.size ≤ kc1.nchunks ∧ 1 ≤ (exStore.commit exTxn).commits.size ∧
      (exStore.commit exTxn).offsetOf [7] = some 3 ∧ Bits.get kc1.bits 3 = true ∧ 3 < kc1.data.size := by
  obtain ⟨kc1, f1, k1, w1, n1, i1, e1⟩ := commit_key_inv exStore exTxn "id" kCol (by decide) exStore_find_id rfl kCol_wf
    (ex_hcomp exTxn "id") kCol_inv ex_wfKey
  obtain ⟨kc2, f2, _, hraw, _, _⟩ := offsetOf_after_commit exStore exTxn "id" kCol rfl (by decide) exStore_find_id rfl
    kCol_wf (ex_hcomp exTxn "id") kCol_inv ex_wfKey
  rw [f1] at f2
  have e : kc2 = kc1 := (Option.some.inj f2).symm
  subst e
  obtain ⟨_, _, _, h7, _⟩ := ex_key
  have hb := (hraw [7] 3).1 h7
  have hcover : ∀ c ∈ exTxn.dirtyChunks, c < kc2.nchunks := by
    rw [e1]
    exact (commit_col_keeps exStore exTxn "id" kCol rfl).2.2.2.2.2.2 (by decide)
  refine ⟨kc2, f1, k1, w1, i1, commit_cov exStore exTxn kCol kc2 (by decide) n1 hcover, ?_, h7, hb.1, hb.2.2.2⟩
  rcases commit_commits_size exStore exTxn with h | ⟨last, _, h1, h⟩
  · rw [h]; decide
  · rw [h]; omega

/-- **chained over two commits**: after the second commit the key `[7]` no longer resolves (`commit_key_delete_releases`) -/
theorem ex_delete_releases : ((exStore.commit exTxn).commit dTxn).offsetOf [7] = none := by
  obtain ⟨kc1, f1, k1, w1, i1, hcov1, hsz, h7, hbit, hdat⟩ := ex_after
  have hpk1 : (exStore.commit exTxn).pk = some "id" := (commit_pk exStore exTxn).trans rfl
  have hcomp1 : ∀ v ∈ dTxn.updates, ∀ c, (exStore.commit exTxn).findCol v.column = some c → "id" ∉ c.computed := by
    intro v _ c hc
    obtain ⟨c0, hc0, e, _⟩ := commit_back exStore exTxn v.column c hc
    rw [e, exStore_computed _ c0 hc0]; simp
  have hdirty : dTxn.dirtyChunks = [0] := by decide
  have hcap : capCol (exStore.commit exTxn) dTxn kc1 = kc1 := by
    unfold capCol
    rw [hdirty]
    simp only [List.getLast?_singleton]
    rw [if_pos (by omega)]
  have hops : chunkOps dTxn.updates "id" 0 = [⟨opDelete, 3, .fixed 0 []⟩] := by decide
  have hwf1 : C12store.WFKeyChunks (exStore.commit exTxn).hash dTxn.updates "id" dTxn.dirtyChunks
      (capCol (exStore.commit exTxn) dTxn kc1) := by
    rw [hcap, hdirty]
    unfold C12store.WFKeyChunks C12store.WFKeyChunks
    rw [hops]
    refine ⟨?_, trivial⟩
    show WFKeyOps ((kc1, [], []) : ApplyAcc).1 _
    rw [WFKeyOps_cons]
    refine ⟨?_, trivial⟩
    unfold WFKeyOp
    rw [if_neg (by decide), if_pos rfl]
    exact ⟨hbit, hdat⟩
  have hok1 : ∀ v ∈ dTxn.updates, (v.column = "id" ∨ isMarkerBuf v = true) → ChunkOK v := by
    have : ∀ v ∈ dTxn.updates, ∀ s ∈ v.rsecs, ∀ o ∈ s.rops, chunkOf o.idx = s.chunk := by decide
    exact fun v hv _ => this v hv
  exact (commit_key_delete_releases (exStore.commit exTxn) dTxn "id" kc1 hpk1 (by decide) f1 k1 w1 hcov1 hcomp1 i1 hwf1
    hok1 [7] 3 h7 [] ⟨opDelete, 3, .fixed 0 []⟩ rfl (by decide) (by decide)).1

/-- the guard of `commits_key_inv` (`WFKeyTxns`) is satisfiable -/
example : ∃ kc', ([exTxn].foldl Store.commit exStore).findCol "id" = some kc' ∧ kc'.kind = .key ∧ ColWF kc' ∧
    kCol.nchunks ≤ kc'.nchunks ∧ KeyInv kc' :=
  commits_key_inv "id" (by decide) [exTxn] exStore kCol exStore_find_id rfl kCol_wf kCol_inv
    (fun t ht => by simp only [List.mem_singleton] at ht; subst ht; exact ex_hcomp exTxn "id")
    ⟨fun kc hkc => by rw [exStore_find_id] at hkc; cases hkc; exact ex_wfKey, trivial⟩

/-- `commits_col` over two transactions for the key column (guard automatic for key columns) -/
example : ([exTxn, mTxn].foldl Store.commit exStore).findCol "id" = some (colTxns "id" [exTxn, mTxn] exStore kCol) :=
  commits_col "id" (by decide) [exTxn, mTxn] exStore kCol exStore_find_id rfl
    (fun t _ v _ c hc => by rw [exStore_computed _ c hc]; simp)
    (chunksOKTxns_of_kind "id" _ exStore kCol rfl ⟨fun h => (by cases h), fun h => (by cases h)⟩)

/-- no panic either (every kind): `C01store.commit_no_panic` applies to the same store and transaction -/
theorem exStore_covered : CoveredAll exStore := by
  intro chunk hlt c hc
  simp only [exStore, List.mem_toArray, List.mem_cons, List.not_mem_nil, or_false] at hc
  have hch : chunk = 0 := by
    have : exStore.commits.size = 1 := rfl
    omega
  subst hch
  rcases hc with rfl | rfl
  · exact ⟨fun _ => by decide, fun h => by cases h⟩
  · exact ⟨fun _ => by decide, fun h => by cases h⟩

theorem exStore_computedKinds : ComputedKinds exStore := by
  intro n c h m hm
  rw [exStore_computed n c h] at hm
  cases hm

example : (exStore.commit exTxn).panicked = false :=
  C01store.commit_no_panic exStore exTxn exStore_covered exStore_computedKinds exTxn_chunkOK

/-- the hypothesis on computed columns from the store invariant -/
example : ∀ v ∈ exTxn.updates, ∀ c, exStore.findCol v.column = some c → "s" ∉ c.computed :=
  notComputed exStore exStore_computedKinds "s" sCol exStore_find_s rfl exTxn.updates

/-- `NoAppend` is decidable (small columns make it checkable by evaluation); a resizing merge violates it -/
def tinyCol : Col :=
  { name := "s", kind := .str, nchunks := 1, bits := #[false, false, false, false], data := #[[], [], [], []],
    merge := fun a d => a ++ d }

example : ¬ NoAppend (fun _ => 0) mTxn.updates "s" [0] tinyCol := by decide
example : NoAppend (fun _ => 0) exTxn.updates "s" [0] tinyCol := by decide

/-! ### why a guard is needed: finding D12 on the primary itself

A buffer that is "in" chunk 0 (`cur = some 0`) and holds two sections of chunk 0: `merge "c" @0` (first section), then an op
of chunk 1, then `put "Z" @0` (last section). The merge resizes ("ab" ++ "c" has another length than "c"), so `Put "abc" @0`
is appended through the parent buffer — into the last section, which `mainPass` has not reached yet. When the loop gets
there it applies `put "Z"` and then the appended `put "abc"`: the primary ends with "abc" although the last op the
transaction issued for the row is `Put "Z"`. `applyData` over the ops issued for the chunk gives "Z". The buffer is
well-formed (`BufOK`); what fails is `OneSec` for chunk 0 (and `NoAppend`). -/

def d12Col : Col :=
  { name := "s", kind := .str, nchunks := 1, bits := #[true, false, false, false], data := #[[97, 98], [], [], []],
    merge := fun a d => a ++ d }

def d12Buf : Buf :=
  (((Buf.empty "s").put ⟨opMerge, 0, .str [99]⟩).put ⟨opPut, 20000, .str [1]⟩).put ⟨opPut, 0, .str [90]⟩

theorem d12_on_primary :
    d12Buf.rangeOps 0 = [⟨opMerge, 0, .str [99]⟩, ⟨opPut, 0, .str [90]⟩] ∧
    (applyData (fun _ => 0) d12Col 0 (d12Buf.rangeOps 0)).col.read 0 = some [90] ∧
    (mainPass (fun _ => 0) d12Col 0 d12Buf).1.read 0 = some [97, 98, 99] ∧
    (applyData (fun _ => 0) d12Col 0 (d12Buf.rangeOps 0)).appended = [⟨opPut, 0, .str [97, 98, 99]⟩] ∧
    bufOKb d12Buf = true ∧ d12Buf.chunks = [0, 1, 0] := by
  decide

#print axioms commitChunk_col
#print axioms commit_col
#print axioms commits_col
#print axioms commit_slot
#print axioms commit_read_str_last_put
#print axioms commit_read_str_last_delete
#print axioms commit_read_str_untouched
#print axioms commit_key_inv
#print axioms commits_key_inv
#print axioms offsetOf_after_commit
#print axioms commit_read_key_last_put
#print axioms commit_key_put_resolves
#print axioms commit_key_delete_releases
#print axioms ex_key
#print axioms ex_delete_releases
#print axioms ex_merge
#print axioms d12_on_primary

end ColumnVerif.Props.C01storeAny
