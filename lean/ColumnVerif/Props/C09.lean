import ColumnVerif.Conc.Invariants
/-!
# C09 — concurrent merges into one chunk: no delta is lost, none is applied twice

A merge is a read-modify-write (`load`, then `storeAcc`) under the chunk latch. Over every schedule
of the machine in `Conc/Machine.lean` (any number of threads and chunks), and for an **arbitrary**
merge function, the merged value of a chunk is the fold of the applied commits in apply order.
The ghost record of a commit is appended in the very step that stores the merged value, so
`merge_fold` holds in every reachable world, not only in quiescent ones.
-/
namespace ColumnVerif.Props.C09
open ColumnVerif.Conc

variable {cfg : ProtoCfg} {merge : Nat → Nat → Nat} {w0 w : W}

/-- the merged value is the fold, in apply order, of the deltas of the applied commits -/
theorem merge_fold (hi : Init w0) (hr : Reach cfg merge w0 w) (c : Nat) :
    w.acc c = foldAcc merge (w0.acc c) (w.applied c) :=
  (reach_inv hi hr).acc.fold c

/-- the value a thread has read in the first half of its merge is still the current value when it
    stores (nobody else can write in between): the read-modify-write is atomic -/
theorem loaded_is_current (hi : Init w0) (hr : Reach cfg merge w0 w) {t c id seen : Nat}
    (h : w.pc t = .loaded c id seen) : seen = w.acc c ∧ w.holder c = some t :=
  ⟨(reach_inv hi hr).acc.seen t c id seen h, (reach_inv hi hr).m.whold t c (by rw [h]; rfl)⟩

/-- every record carries the delta of the thread that applied it (as given in the initial world) -/
theorem record_delta (hi : Init w0) (hr : Reach cfg merge w0 w) (c : Nat) :
    ∀ r ∈ w.applied c, r.delta = w0.delta r.tid :=
  (reach_inv hi hr).todo.rec_delta c

theorem foldAcc_add (init : Nat) (l : List Rec) :
    foldAcc (· + ·) init l = init + (l.map (·.delta)).sum := by
  induction l with
  | nil => simp [foldAcc]
  | cons r l ih => simp only [foldAcc, ih, List.map_cons, List.sum_cons]; omega

/-- for addition: the value is the initial value plus the sum of all applied deltas -/
theorem merge_sum (hi : Init w0) (hr : Reach cfg (· + ·) w0 w) (c : Nat) :
    w.acc c = w0.acc c + ((w.applied c).map (·.delta)).sum := by
  rw [merge_fold hi hr c, foldAcc_add]

/-- Bookkeeping per thread and chunk: (records of `t` in `applied c`) + (occurrences of `c` still in
    `todo t`) = (occurrences of `c` in the initial `todo t`) + (1 if `t` is past `storeAcc` of a
    commit of `c` that it has not yet released — that `c` is still the head of `todo t`). -/
theorem applied_once (hi : Init w0) (hr : Reach cfg merge w0 w) (t c : Nat) :
    recsOf w t c + (w.todo t).count c = (w0.todo t).count c + inflight (w.pc t) c :=
  (reach_inv hi hr).todo.count t c

/-- the chunk a thread is committing is the head of its `todo` -/
theorem working_on_head (hi : Init w0) (hr : Reach cfg merge w0 w) {t c : Nat}
    (h : workChunk (w.pc t) = some c) : ∃ rest, w.todo t = c :: rest :=
  (reach_inv hi hr).todo.head t c h

theorem inflight_le_count {p : PC} {c : Nat} {l : List Nat}
    (h : ∀ d, workChunk p = some d → ∃ rest, l = d :: rest) : inflight p c ≤ l.count c := by
  cases p <;> simp only [inflight] <;> try exact Nat.zero_le _
  all_goals
    split
    · next hd =>
      subst hd
      obtain ⟨rest, rfl⟩ := h _ rfl
      simp
    · exact Nat.zero_le _

/-- a thread never applies a chunk more often than its transaction lists it -/
theorem applied_at_most (hi : Init w0) (hr : Reach cfg merge w0 w) (t c : Nat) :
    recsOf w t c ≤ (w0.todo t).count c := by
  have h1 := applied_once hi hr t c
  have h2 : inflight (w.pc t) c ≤ (w.todo t).count c :=
    inflight_le_count (fun d hd => working_on_head hi hr hd)
  omega

/-- … and when the transaction is finished, exactly as often -/
theorem applied_exactly (hi : Init w0) (hr : Reach cfg merge w0 w) (t c : Nat)
    (hpc : w.pc t = .idle) (hdone : w.todo t = []) : recsOf w t c = (w0.todo t).count c := by
  have h1 := applied_once hi hr t c
  rw [hpc, hdone] at h1
  simpa [inflight] using h1

/-! ### non-vacuity -/

/-- a concrete initial world and a 13-step run: thread 0 merges delta 5 into chunk 0 -/
example : ∃ w0 w, Init w0 ∧ Reach ProtoCfg.good (· + ·) w0 w ∧ w.applied 0 = [⟨0, 1, 5⟩] ∧
    w.acc 0 = 5 ∧ recsOf w 0 0 = 1 := by
  obtain ⟨w, hr, _, _, _, hacc, happ, hpc, htodo⟩ := Demo.run_good ProtoCfg.good rfl (· + ·)
  refine ⟨Demo.w0, w, Demo.init_w0, hr, happ, ?_, ?_⟩
  · rw [merge_sum Demo.init_w0 hr 0, happ]; rfl
  · rw [applied_exactly Demo.init_w0 hr 0 0 hpc htodo]; rfl

end ColumnVerif.Props.C09
