import ColumnVerif.Lemmas.StorePlumb
import ColumnVerif.Props.C11
/-!
# C02 — a failed transaction leaves no trace

"A transaction whose callback returns an error leaves no trace … and nothing is emitted to the change stream."

In the model (as in the code) everything a transaction writes goes to transaction-local buffers (`Txn.putOp`,
`Txn.deleteAt`, `Txn.setKey`, `Txn.deleteKey` return no store at all); the only shared state touched before commit is the
fill list / row counter (`next()` at insert time, `free()` when the insert callback fails). Rollback drops the buffers
and recounts. So: (a) rollback is the identity on a quiescent store and never emits; (b) a failed insert gives its
offset back; (c) before commit nothing but `fill` / `count` differs — and the reservation of a *successful* insert in a
transaction that later rolls back is *not* given back (`rollback_keeps_reservation`, finding D8/D17).
-/
namespace ColumnVerif.Props.C02
open ColumnVerif.Codec ColumnVerif.Bits ColumnVerif.Store ColumnVerif.StorePlumb ColumnVerif.Props.C11

/-! ### (a) rollback -/

/-- on a store whose counter agrees with its fill list (every quiescent store: `count_at_quiescence`) rollback changes
    nothing at all, whatever the transaction buffered -/
theorem rollback_identity (s : Store) (t : Txn) (h : s.count = Bits.count s.fill) : s.rollback t = s := by
  unfold Store.rollback
  rw [← h]

/-- rollback touches the row counter only: no column, no fill bit, no commit id, nothing in the change stream -/
theorem rollback_frame (s : Store) (t : Txn) :
    (s.rollback t).cols = s.cols ∧ (s.rollback t).fill = s.fill ∧ (s.rollback t).commits = s.commits ∧
    (s.rollback t).nextId = s.nextId ∧ (s.rollback t).emitted = s.emitted ∧ (s.rollback t).recorded = s.recorded ∧
    (s.rollback t).pk = s.pk ∧ (s.rollback t).panicked = s.panicked ∧
    (s.rollback t).count = Bits.count s.fill :=
  ⟨rfl, rfl, rfl, rfl, rfl, rfl, rfl, rfl, rfl⟩

theorem rollback_emits_nothing (s : Store) (t : Txn) : (s.rollback t).emitted = s.emitted := rfl

/-- what a reader sees of any column is the same before and after a rollback -/
theorem rollback_reads (s : Store) (t : Txn) (name : String) : (s.rollback t).findCol name = s.findCol name := rfl

/-! ### (b) a failed insert releases its offset -/

/-- everything but the fill list and the row counter is the same -/
structure OnlyFill (s s' : Store) : Prop where
  cols : s'.cols = s.cols
  commits : s'.commits = s.commits
  nextId : s'.nextId = s.nextId
  emitted : s'.emitted = s.emitted
  recorded : s'.recorded = s.recorded
  recording : s'.recording = s.recording
  logger : s'.logger = s.logger
  pk : s'.pk = s.pk
  hash : s'.hash = s.hash
  cap : s'.cap = s.cap
  panicked : s'.panicked = s.panicked

theorem OnlyFill.refl (s : Store) : OnlyFill s s := ⟨rfl, rfl, rfl, rfl, rfl, rfl, rfl, rfl, rfl, rfl, rfl⟩

theorem OnlyFill.trans {a b c : Store} (h1 : OnlyFill a b) (h2 : OnlyFill b c) : OnlyFill a c :=
  ⟨h2.cols.trans h1.cols, h2.commits.trans h1.commits, h2.nextId.trans h1.nextId, h2.emitted.trans h1.emitted,
   h2.recorded.trans h1.recorded, h2.recording.trans h1.recording, h2.logger.trans h1.logger, h2.pk.trans h1.pk,
   h2.hash.trans h1.hash, h2.cap.trans h1.cap, h2.panicked.trans h1.panicked⟩

/-- the one-equation form: the store is the old one with another fill list and counter -/
theorem OnlyFill.eq {s s' : Store} (h : OnlyFill s s') : s' = { s with fill := s'.fill, count := s'.count } := by
  obtain ⟨h1, h2, h3, h4, h5, h6, h7, h8, h9, h10, h11⟩ := h
  cases s; cases s'
  simp only at *
  subst h1 h2 h3 h4 h5 h6 h7 h8 h9 h10 h11
  rfl

theorem OnlyFill.findCol {s s' : Store} (h : OnlyFill s s') (name : String) : s'.findCol name = s.findCol name := by
  unfold Store.findCol; rw [h.cols]

theorem next_onlyFill (s : Store) : OnlyFill s s.next.1 := ⟨rfl, rfl, rfl, rfl, rfl, rfl, rfl, rfl, rfl, rfl, rfl⟩

theorem free_onlyFill (s : Store) (i : Nat) : OnlyFill s (s.free i) := ⟨rfl, rfl, rfl, rfl, rfl, rfl, rfl, rfl, rfl, rfl, rfl⟩

theorem reserve_fst (s : Store) (t : Txn) : (t.reserve s).1 = s.next.1 := rfl
theorem reserve_idx (s : Store) (t : Txn) : (t.reserve s).2.2 = s.next.2 := rfl

theorem insert_store (s : Store) (t : Txn) (body : Store → Txn → Txn) (fail : Bool) :
    (t.insert s body fail).1 = (if fail then s.next.1.free s.next.2 else s.next.1) ∧
    (t.insert s body fail).2.2 = s.next.2 := ⟨rfl, rfl⟩

theorem countP_set_false (l : List Bool) (i : Nat) (h : i < l.length) (ht : l[i] = true) :
    (l.set i false).countP id + 1 = l.countP id := by
  induction l generalizing i with
  | nil => simp at h
  | cons x xs ih =>
    cases i with
    | zero =>
      simp at ht; subst ht
      simp
    | succ k =>
      simp only [List.set_cons_succ, List.countP_cons]
      have := ih k (by simpa using h) (by simpa using ht)
      omega

theorem count_remove_of_true (b : Bitmap) (i : Nat) (h : Bits.get b i = true) :
    Bits.count (Bits.remove b i) + 1 = Bits.count b := by
  have hi : i < b.size := by
    apply Classical.byContradiction
    intro hn
    rw [get_of_ge b i (by omega)] at h
    cases h
  rw [get_eq_getElem b i hi] at h
  unfold Bits.remove Bits.count
  rw [Array.toList_setIfInBounds]
  exact countP_set_false _ i (by simpa using hi) (by simpa using h)

/-- **C02 (b)** the callback of an insert failed: the offset handed out is free again, no other fill bit differs from
    the store before the insert, the counter is recounted, and nothing else in the store changed (whatever the callback
    buffered) -/
theorem failed_insert_releases (s : Store) (t : Txn) (body : Store → Txn → Txn) :
    Bits.get (t.insert s body true).1.fill (t.insert s body true).2.2 = false ∧
    (∀ j, j ≠ (t.insert s body true).2.2 → Bits.get (t.insert s body true).1.fill j = Bits.get s.fill j) ∧
    (t.insert s body true).1.count = Bits.count (t.insert s body true).1.fill ∧
    OnlyFill s (t.insert s body true).1 := by
  obtain ⟨h1, h2⟩ := insert_store s t body true
  rw [h1, h2]
  simp only [if_true]
  refine ⟨free_clears _ _, ?_, rfl, OnlyFill.trans (next_onlyFill s) (free_onlyFill _ _)⟩
  intro j hj
  show Bits.get (Bits.remove s.next.1.fill s.next.2) j = _
  rw [get_remove, next_frame s j hj]
  simp [hj]

/-- … and on a store satisfying the fill invariant (`FillInv`, kept by every history: C11) no trace at all is left in
    the fill list: every bit reads as before; with an exact counter the counter is as before, too -/
theorem failed_insert_no_trace (s : Store) (t : Txn) (body : Store → Txn → Txn) (h : FillInv s) :
    (∀ j, Bits.get (t.insert s body true).1.fill j = Bits.get s.fill j) ∧
    (s.count = Bits.count s.fill → (t.insert s body true).1.count = s.count) := by
  obtain ⟨r1, r2, r3, _⟩ := failed_insert_releases s t body
  have hfree := next_is_free s h
  have hidx : (t.insert s body true).2.2 = s.next.2 := rfl
  constructor
  · intro j
    by_cases hj : j = (t.insert s body true).2.2
    · rw [hj, r1, hidx, hfree]
    · exact r2 j hj
  · intro hc
    rw [r3]
    have hfill : (t.insert s body true).1.fill = Bits.remove (Bits.set s.fill s.next.2) s.next.2 := rfl
    rw [hfill]
    have h1 := count_remove_of_true (Bits.set s.fill s.next.2) s.next.2 (by simp [get_set])
    have h2 := count_set_of_false s.fill s.next.2 hfree
    omega

/-! ### (c) buffered writes are invisible; the reservation is not -/

/-- `Txn.insert`, failed or not: the store differs in `fill` / `count` only — the values the callback wrote are in the
    transaction's buffers, invisible to every reader of the store -/
theorem insert_onlyFill (s : Store) (t : Txn) (body : Store → Txn → Txn) (fail : Bool) :
    OnlyFill s (t.insert s body fail).1 := by
  rw [(insert_store s t body fail).1]
  split
  · exact OnlyFill.trans (next_onlyFill s) (free_onlyFill _ _)
  · exact next_onlyFill s

/-- a key operation on a key that resolves (update path of `UpsertKey` / `QueryKey`, refused `InsertKey`): the store
    is returned as it is -/
theorem keyOp_existing (s : Store) (t : Txn) (cmd : String) (key : Bytes) (body : Store → Txn → Txn) (fail : Bool)
    (pk : String) (hpk : s.pk = some pk) (i : Nat) (hi : s.offsetOf key = some i) :
    (t.keyOp s cmd key body fail).1 = s ∧ (t.keyOp s cmd key body fail).2.2 = .existsAt i := by
  unfold Txn.keyOp
  rw [hpk]
  simp only
  rw [hi]
  simp only
  split <;> exact ⟨rfl, rfl⟩

/-- any key operation (also one that creates a row, also a failed one): `fill` / `count` only -/
theorem keyOp_onlyFill (s : Store) (t : Txn) (cmd : String) (key : Bytes) (body : Store → Txn → Txn) (fail : Bool) :
    OnlyFill s (t.keyOp s cmd key body fail).1 := by
  unfold Txn.keyOp
  split
  · exact OnlyFill.refl s
  · split
    · split <;> exact OnlyFill.refl s
    · split
      · exact OnlyFill.refl s
      · show OnlyFill s (if fail then s.next.1.free s.next.2 else s.next.1)
        split
        · exact OnlyFill.trans (next_onlyFill s) (free_onlyFill _ _)
        · exact next_onlyFill s

/-- **C02 (c)** before commit, a whole sequence of inserts and key operations leaves every column, the commit table,
    the id counter and the change stream as they were: in-flight values, deletions and key writes are invisible -/
theorem buffered_writes_invisible (s : Store) (t : Txn) (body : Store → Txn → Txn) (fail : Bool) (cmd : String)
    (key : Bytes) (name : String) :
    (t.insert s body fail).1.findCol name = s.findCol name ∧
    (t.keyOp s cmd key body fail).1.findCol name = s.findCol name ∧
    (t.insert s body fail).1.emitted = s.emitted ∧ (t.keyOp s cmd key body fail).1.emitted = s.emitted ∧
    (t.insert s body fail).1.commits = s.commits ∧ (t.keyOp s cmd key body fail).1.commits = s.commits ∧
    (t.insert s body fail).1.nextId = s.nextId ∧ (t.keyOp s cmd key body fail).1.nextId = s.nextId :=
  ⟨(insert_onlyFill s t body fail).findCol name, (keyOp_onlyFill s t cmd key body fail).findCol name,
   (insert_onlyFill s t body fail).emitted, (keyOp_onlyFill s t cmd key body fail).emitted,
   (insert_onlyFill s t body fail).commits, (keyOp_onlyFill s t cmd key body fail).commits,
   (insert_onlyFill s t body fail).nextId, (keyOp_onlyFill s t cmd key body fail).nextId⟩

/-- a failed transaction, end to end: a failed insert followed by rollback, on a quiescent store, gives back a store
    that reads the same everywhere: same columns, same fill bits, same count, nothing emitted -/
theorem failed_insert_then_rollback (s : Store) (t : Txn) (body : Store → Txn → Txn)
    (h : s.count = Bits.count s.fill) :
    let s' := (t.insert s body true).1.rollback (t.insert s body true).2.1
    OnlyFill s s' ∧ (∀ j, Bits.get s'.fill j = Bits.get s.fill j) ∧ s'.count = s.count := by
  have hinv : FillInv s := by unfold FillInv; omega
  obtain ⟨h1, h2⟩ := failed_insert_no_trace s t body hinv
  obtain ⟨_, _, h3, h4⟩ := failed_insert_releases s t body
  simp only
  rw [rollback_identity _ _ h3]
  exact ⟨h4, h1, h2 h⟩

/-- **finding D8/D17** the reservation of a *successful* insert is visible at once and survives a rollback of the
    transaction: the fill bit stays set and the row counter is one higher — on every store satisfying the fill
    invariant -/
theorem rollback_keeps_reservation (s : Store) (t : Txn) (body : Store → Txn → Txn) (h : FillInv s) :
    let r := t.insert s body false
    Bits.get s.fill r.2.2 = false ∧
    Bits.get (r.1.rollback r.2.1).fill r.2.2 = true ∧
    (r.1.rollback r.2.1).count = Bits.count s.fill + 1 := by
  simp only
  have hfree := next_is_free s h
  refine ⟨hfree, next_occupies s, ?_⟩
  show Bits.count (Bits.set s.fill s.next.2) = _
  exact count_set_of_false s.fill s.next.2 hfree

/-- the same on a concrete store: empty collection, one insert, rollback — one row is counted, offset 0 is taken -/
def emptyStore : Store := {}

theorem rollback_after_insert_counterexample :
    let r := (default : Txn).insert emptyStore (fun _ t => t) false
    (r.1.rollback r.2.1).count = emptyStore.count + 1 ∧ r.2.2 = 0 ∧
    Bits.get (r.1.rollback r.2.1).fill r.2.2 = true ∧ Bits.get emptyStore.fill r.2.2 = false := by
  decide

/-! ### non-vacuity of the hypotheses -/

example : emptyStore.count = Bits.count emptyStore.fill := by decide
example : FillInv emptyStore := by unfold FillInv; decide
example : FillInv sampleStore ∧ sampleStore.count = Bits.count sampleStore.fill := by
  unfold FillInv sampleStore; decide

end ColumnVerif.Props.C02
