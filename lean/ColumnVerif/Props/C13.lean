import ColumnVerif.Lemmas.Wire
import ColumnVerif.Props.C05
/-!
# C13 — a truncated stream never yields a partial commit

Statements use the definitions of `Model/Wire` plus the spec-level names of `Lemmas/Wire`
(`Commit.toRaw`, `Commit.WF`, `BufFits`, `RawBuf.WF`, `wholeCount`; see the header of the wire
section of `Props/C05`).

* **B1/B2** every *strict* prefix `p` of an encoding makes the decoder return `.error _` — never
  `.ok`, whatever the end flag `e` of the source is; when the stream was cut inside a compressed
  frame (`e = true`) the error is `.bad`, i.e. it can never be mistaken for a clean `io.EOF`;
  on the empty clean source (`p = []`, `e = false`) the error is `.eof`.
* **B3** `Log.Range` over a log cut at an arbitrary byte delivers exactly the commits that lie
  entirely before the cut — in order, none of them partial.
* **B4 (totality)** every decoder of `Model/Wire` is a total Lean function: `readUvarintAux` and
  `rangeLogAux` recurse structurally on explicit fuel, `readMany` on the count, everything else is
  non-recursive; so "returns `.error`" above really is the only alternative to "returns `.ok`" —
  there is no divergence or panic case in the model. (The fuel of `rangeLog`, `bytes.length + 1`,
  is never the reason for stopping on an encoded log: see `log_roundtrip`, `log_prefix_exact`.)
-/
namespace ColumnVerif.Props.C13
open ColumnVerif.Codec ColumnVerif.Wire

/-! ## B1 — primitive decoders -/

/-- `ReadUvarint` (no range condition on `x` needed). -/
theorem uvarint_prefix_fails (x : Nat) (p : Bytes) (hp : p <+: encUvarint x) (hne : p ≠ encUvarint x)
    (e : Bool) : ∃ err, readUvarint ⟨p, e⟩ = .error err ∧ (e = true → err = .bad) :=
  (uvarint_cuts x).of_prefix p hp hne e

theorem uvarint_empty_eof : readUvarint ⟨[], false⟩ = .error .eof := readUvarint_nil

/-- `Slice(n)` on fewer than `n` bytes. -/
theorem readN_prefix_fails (b p : Bytes) (hp : p <+: b) (hne : p ≠ b) (e : Bool) :
    ∃ err, readN b.length ⟨p, e⟩ = .error err ∧ (e = true → err = .bad) :=
  (readN_cuts b).of_prefix p hp hne e

theorem readN_empty_eof (n : Nat) (hn : n ≠ 0) : readN n ⟨[], false⟩ = .error .eof := readN_nil n hn

theorem u32_prefix_fails (v : Nat) (p : Bytes) (hp : p <+: encU32 v) (hne : p ≠ encU32 v) (e : Bool) :
    ∃ err, readU32 ⟨p, e⟩ = .error err ∧ (e = true → err = .bad) :=
  (u32_cuts v).of_prefix p hp hne e

theorem u32_empty_eof : readU32 ⟨[], false⟩ = .error .eof := readU32_nil

theorem bytes_prefix_fails (b : Bytes) (hb : b.length < 2 ^ 64) (p : Bytes) (hp : p <+: encBytes b)
    (hne : p ≠ encBytes b) (e : Bool) :
    ∃ err, readBytes ⟨p, e⟩ = .error err ∧ (e = true → err = .bad) :=
  (bytes_cuts b hb).of_prefix p hp hne e

theorem bytes_empty_eof : readBytes ⟨[], false⟩ = .error .eof := readBytes_nil

theorem header_prefix_fails (h : Nat × Nat × Nat) (p : Bytes) (hp : p <+: encHeader h)
    (hne : p ≠ encHeader h) (e : Bool) :
    ∃ err, readHeader ⟨p, e⟩ = .error err ∧ (e = true → err = .bad) :=
  (header_cuts h).of_prefix p hp hne e

theorem header_empty_eof : readHeader ⟨[], false⟩ = .error .eof := readHeader_nil

/-- `n` items in a row: given, for every item, its round trip and its own prefix failure. -/
theorem readMany_prefix_fails {α} (d : Dec α) (enc : α → Bytes) (as : List α)
    (h : ∀ a ∈ as, ∀ rest e, d ⟨enc a ++ rest, e⟩ = .ok (a, ⟨rest, e⟩))
    (hc : ∀ a ∈ as, ∀ p, p <+: enc a → p ≠ enc a → ∀ e,
      ∃ err, d ⟨p, e⟩ = .error err ∧ (e = true → err = .bad))
    (p : Bytes) (hp : p <+: (as.map enc).flatten) (hne : p ≠ (as.map enc).flatten) (e : Bool) :
    ∃ err, readMany d as.length ⟨p, e⟩ = .error err ∧ (e = true → err = .bad) :=
  (many_cuts d enc as h (fun a ha n e hn =>
    hc a ha _ (List.take_prefix n _) (by
      intro heq; have := congrArg List.length heq; simp at this; omega) e)).of_prefix p hp hne e

/-- `ReadRange`: count, then the items. -/
theorem readRange_prefix_fails {α} (d : Dec α) (enc : α → Bytes) (as : List α) (hl : as.length < 2 ^ 64)
    (h : ∀ a ∈ as, ∀ rest e, d ⟨enc a ++ rest, e⟩ = .ok (a, ⟨rest, e⟩))
    (hc : ∀ a ∈ as, ∀ p, p <+: enc a → p ≠ enc a → ∀ e,
      ∃ err, d ⟨p, e⟩ = .error err ∧ (e = true → err = .bad))
    (p : Bytes) (hp : p <+: encUvarint as.length ++ (as.map enc).flatten)
    (hne : p ≠ encUvarint as.length ++ (as.map enc).flatten) (e : Bool) :
    ∃ err, readRange d ⟨p, e⟩ = .error err ∧ (e = true → err = .bad) :=
  (range_cuts d enc as hl h (fun a ha n e hn =>
    hc a ha _ (List.take_prefix n _) (by
      intro heq; have := congrArg List.length heq; simp at this; omega) e)).of_prefix p hp hne e

theorem readMany_empty_eof {α} (d : Dec α) (n : Nat) (h : d ⟨[], false⟩ = .error .eof) :
    readMany d (n+1) ⟨[], false⟩ = .error .eof := readMany_nil d n h

theorem readRange_empty_eof {α} (d : Dec α) : readRange d ⟨[], false⟩ = .error .eof := readRange_nil d

/-- `Buffer.ReadFrom`. -/
theorem rawbuf_prefix_fails (r : RawBuf) (hWF : r.WF) (p : Bytes) (hp : p <+: encRawBuf r)
    (hne : p ≠ encRawBuf r) (e : Bool) :
    ∃ err, readRawBuf ⟨p, e⟩ = .error err ∧ (e = true → err = .bad) :=
  (rawbuf_cuts r hWF).of_prefix p hp hne e

theorem rawbuf_empty_eof : readRawBuf ⟨[], false⟩ = .error .eof := readRawBuf_nil

/-! ## B2 — commits -/

/-- one `(Value, Offset)` pair of the shard table -/
theorem shard_prefix_fails (q : Nat × Nat) (h1 : q.1 < 2 ^ 32) (h2 : q.2 < 2 ^ 32) (p : Bytes)
    (hp : p <+: encU32 q.1 ++ encU32 q.2) (hne : p ≠ encU32 q.1 ++ encU32 q.2) (e : Bool) :
    ∃ err, readShard ⟨p, e⟩ = .error err ∧ (e = true → err = .bad) :=
  (shard_cuts q ⟨h1, h2⟩).of_prefix p hp hne e

theorem shard_empty_eof : readShard ⟨[], false⟩ = .error .eof := readShard_nil

/-- One update buffer inside `Commit.ReadFrom`. The Go code drops the error of the shard-table
    `ReadRange` and carries on with `ReadBytes`; the proof covers that path: when the cut lies in
    the shard table the following `readBytes` runs on the exhausted source and fails as well. -/
theorem commitBuf_prefix_fails (chunk : Nat) (b : Buf) (h : BufFits chunk b) (p : Bytes)
    (hp : p <+: encCommitBuf chunk b) (hne : p ≠ encCommitBuf chunk b) (e : Bool) :
    ∃ err, readCommitBuf chunk ⟨p, e⟩ = .error err ∧ (e = true → err = .bad) :=
  (commitBuf_cuts chunk b h).of_prefix p hp hne e

theorem commitBuf_empty_eof (chunk : Nat) : readCommitBuf chunk ⟨[], false⟩ = .error .eof :=
  readCommitBuf_nil chunk

/-- Every strict prefix of a commit's encoding is rejected. -/
theorem commit_prefix_fails (c : Commit) (h : c.WF) (p : Bytes) (hp : p <+: encCommit c)
    (hne : p ≠ encCommit c) (e : Bool) : ∃ err, readCommit ⟨p, e⟩ = .error err :=
  let ⟨err, h1, _⟩ := (commit_cuts c h).of_prefix p hp hne e
  ⟨err, h1⟩

/-- … as a non-`.ok` statement … -/
theorem commit_prefix_never_ok (c : Commit) (h : c.WF) (p : Bytes) (hp : p <+: encCommit c)
    (hne : p ≠ encCommit c) (e : Bool) (r : RawCommit × Src) : readCommit ⟨p, e⟩ ≠ .ok r := by
  obtain ⟨err, h1⟩ := commit_prefix_fails c h p hp hne e
  rw [h1]; intro h2; cases h2

/-- … and a cut inside a compressed frame is never taken for a clean end of the log. -/
theorem commit_prefix_corrupt_bad (c : Commit) (h : c.WF) (p : Bytes) (hp : p <+: encCommit c)
    (hne : p ≠ encCommit c) : readCommit ⟨p, true⟩ = .error .bad := by
  obtain ⟨err, h1, h2⟩ := (commit_cuts c h).of_prefix p hp hne true
  rw [h1, h2 rfl]

theorem commit_empty_eof : readCommit ⟨[], false⟩ = .error .eof := readCommit_nil

/-! ## B3 — the log -/

/-- Cut the log after `n` bytes: `Log.Range` delivers exactly the first `k` commits, where
    `k = wholeCount …` is the number of commits whose encoding ends at or before byte `n`. -/
theorem log_prefix_exact (cs : List Commit) (h : ∀ c ∈ cs, c.WF) (n : Nat) (e : Bool) :
    (rangeLog ⟨((cs.map encCommit).flatten).take n, e⟩).1 =
      (cs.map Commit.toRaw).take (wholeCount (cs.map encCommit) n) := by
  obtain ⟨flag, h1, _⟩ := rangeLog_take cs h n e
  simp only [encLog] at h1
  rw [h1]

/-- Only whole commits, in order, a prefix of the log. -/
theorem log_prefix_safe (cs : List Commit) (h : ∀ c ∈ cs, c.WF) (n : Nat) (e : Bool) :
    ∃ k, k ≤ cs.length ∧
      (rangeLog ⟨((cs.map encCommit).flatten).take n, e⟩).1 = (cs.map Commit.toRaw).take k :=
  ⟨wholeCount (cs.map encCommit) n, by simpa using wholeCount_le (cs.map encCommit) n,
    log_prefix_exact cs h n e⟩

/-- `wholeCount` is what its name says: the bytes before the cut are the first `k` encodings plus a
    strict prefix of the next one (nothing, if there is no next one). -/
theorem wholeCount_spec (cs : List Commit) (n : Nat) :
    ∃ p, ((cs.map encCommit).flatten).take n =
        ((cs.take (wholeCount (cs.map encCommit) n)).map encCommit).flatten ++ p ∧
      (∀ (hk : wholeCount (cs.map encCommit) n < cs.length),
        p <+: encCommit cs[wholeCount (cs.map encCommit) n] ∧
        p ≠ encCommit cs[wholeCount (cs.map encCommit) n]) ∧
      (cs.length ≤ wholeCount (cs.map encCommit) n → p = []) := by
  obtain ⟨p, h1, h2, h3⟩ := take_flatten (cs.map encCommit) n
  refine ⟨p, by rw [List.map_take]; exact h1, ?_, by simpa using h3⟩
  intro hk
  have hc : (cs.map encCommit)[wholeCount (cs.map encCommit) n]? =
      some (encCommit cs[wholeCount (cs.map encCommit) n]) := by
    simp [List.getElem?_eq_getElem hk]
  exact (strict_prefix_iff _ _).mpr (h2 _ hc)

/-- A stream cut inside a compressed frame always makes `Log.Range` return an error. -/
theorem log_prefix_corrupt_reported (cs : List Commit) (h : ∀ c ∈ cs, c.WF) (n : Nat) :
    (rangeLog ⟨((cs.map encCommit).flatten).take n, true⟩).2 = true := by
  obtain ⟨flag, h1, h2⟩ := rangeLog_take cs h n true
  simp only [encLog] at h1
  rw [h1]; exact h2 rfl

/-- The uncut log with a clean end: everything is delivered and no error is reported. -/
theorem log_prefix_whole (cs : List Commit) (h : ∀ c ∈ cs, c.WF) (n : Nat)
    (hn : ((cs.map encCommit).flatten).length ≤ n) :
    rangeLog ⟨((cs.map encCommit).flatten).take n, false⟩ = (cs.map Commit.toRaw, false) := by
  rw [List.take_of_length_le hn]
  exact rangeLog_all cs h

/-- A clean cut exactly between two commits: the commits before it, no error. -/
theorem log_prefix_boundary (cs : List Commit) (h : ∀ c ∈ cs, c.WF) (k : Nat) :
    rangeLog ⟨((cs.map encCommit).flatten).take (((cs.take k).map encCommit).flatten).length, false⟩ =
      ((cs.map Commit.toRaw).take k, false) :=
  rangeLog_boundary cs h k

/-! ## non-vacuity and a behaviour worth knowing

`sampleCommit` (from `Props/C05`) meets `Commit.WF`. Cutting its encoding *between two
primitives* with a clean end makes `readCommit` fail with `.eof`, which `Log.Range` treats as
the normal end of the log: the partial commit is dropped (that is what B3 promises) but no error
is reported. With `e = true` the same cut is reported (`log_prefix_corrupt_reported`). -/
open ColumnVerif.Props.C05 in
example : (rangeLog ⟨(encCommit sampleCommit ++ encCommit sampleCommit).take
    ((encCommit sampleCommit).length + 1), false⟩) = ([sampleCommit.toRaw], false) := by
  decide +kernel

end ColumnVerif.Props.C13
