import ColumnVerif.Lemmas.StoreComputed
import ColumnVerif.Props.C19
import ColumnVerif.Props.C03store
/-!
# C19 at store level — the calls a trigger receives during the real `Store.commit`

`Props/C19.lean` describes the calls for one pass (`trigger_apply_sem`, `trigger_sees_final_values_mainPass`,
`trigger_final_count`). Here a trigger `tr` attached to a data column `x` is followed through `Store.commit`
(plumbing: `C03store.commit_computed`):

* `commit_trigger_seen` (any data kind of the target): the call log grows by `seenEvents` — chunk by chunk in ascending
  order, the `Put` / `Delete` ops among the chunk's markers followed by what the buffer passes of `x` leave.
* `commit_trigger_events` (numeric target): per chunk, the `Delete` markers first, then `finalEvents` of the ops issued for
  the chunk — one `Put` call with the value finally stored for every `Put` / `Merge`, one `Delete` call for every
  `Delete`, in issue order (`numEvents`).
* `commit_trigger_row`: row by row — the calls for row `i` are, in issue order, those of the markers and ops the
  transaction issued for `i`, each `Put` / `Merge` reported with the value the slot holds right after it.
* `commit_trigger_count`, `commit_trigger_row_count`: exactly once.
-/
namespace ColumnVerif.Props.C19store
open ColumnVerif.Codec ColumnVerif.Store ColumnVerif.Bits

/-- **any data kind of the target**: the calls made during `s.commit t`, in call order -/
theorem commit_trigger_seen (s : Store) (t : Txn) (x tr tg : String) (col trg : Col)
    (hxr : x ≠ rowColumn) (hf : s.findCol x = some col) (hd : col.kind.isData = true)
    (hft : s.findCol tr = some trg) (htk : trg.kind = .trigger tg) (hcount : col.computed.count tr = 1)
    (hcomp : ∀ v ∈ t.updates, ∀ c, s.findCol v.column = some c → x ∉ c.computed)
    (hatt : ∀ v ∈ t.updates, v.column ≠ x → v.column ≠ tr ∧ ∀ c, s.findCol v.column = some c → tr ∉ c.computed)
    (hok : ChunksOK s.hash t.updates x t.dirtyChunks (capCol s t col)) :
    ∃ trg', (s.commit t).findCol tr = some trg' ∧ trg'.kind = .trigger tg ∧
      trg'.trig.reverse = trg.trig.reverse ++ seenEvents s.hash t.updates x t.dirtyChunks (capCol s t col) := by
  have hci : trg.kind.isComputed = true := by rw [htk]; rfl
  have g1 := Store.commit_computed s t x tr col trg hxr hf hd hft hci hcount hcomp hatt hok
  rw [capCol_trigger s t trg tg htk] at g1
  exact ⟨_, g1, (compChunks_sig _ _ _ _ _ _).kind.trans htk, compChunks_trigger _ _ _ tg _ _ _ htk⟩

theorem seenEvents_eq (hash : Bytes → Nat) (ups : List Buf) (x : String) (ch : Nat) (cs : List Nat) (col : Col) :
    seenEvents hash ups x [] col = [] ∧
    seenEvents hash ups x (ch :: cs) col =
      ((markerOps ups ch ++ seenFor hash x ch ups (applyData hash col ch (markerOps ups ch)).col).filter
        (fun o => decide (o.typ = opPut ∨ o.typ = opDelete))).map (fun o => ⟨o.idx, o.typ, valRaw o.val⟩) ++
      seenEvents hash ups x cs (applyData hash col ch (markerOps ups ch ++ opsFor ups x ch)).col := ⟨rfl, rfl⟩

/-- **C19 at store level** (numeric target): during `s.commit t` the trigger is called, chunk by chunk in ascending order,
    first for the `Delete` markers of the chunk, then for the ops issued for `x` in the chunk in issue order — a `Put`
    call carrying the value finally stored (after the merge) for every `Put` / `Merge`, a `Delete` call for every
    `Delete`, nothing else. The hypotheses hold again for the store after the commit. -/
theorem commit_trigger_events (s : Store) (t : Txn) (x tr : String) (k : NumKind) (tg : String) (col trg : Col)
    (hxr : x ≠ rowColumn) (hc : NumCol s x k col) (hft : s.findCol tr = some trg) (htk : trg.kind = .trigger tg)
    (hatt : Attached s x tr) (hinv : ∀ v ∈ t.updates, (v.column = x ∨ isMarkerBuf v = true) → ChunkOK v)
    (hnb : ∀ v ∈ t.updates, v.column ≠ tr) :
    ∃ col' trg', NumCol (s.commit t) x k col' ∧ (s.commit t).findCol tr = some trg' ∧ trg'.kind = .trigger tg ∧
      Attached (s.commit t) x tr ∧
      trg'.trig.reverse = trg.trig.reverse ++ numEvents s.hash t.updates x k t.dirtyChunks (capCol s t col) := by
  have hd : col.kind.isData = true := by rw [hc.kind]; rfl
  obtain ⟨hcomp, hatt'⟩ := hatt.hyps t.updates hnb
  obtain ⟨_, m2, _, _⟩ := capCol_meta s t col
  have hok := chunksOK_num s.hash t.updates x t.dirtyChunks (capCol s t col) k (m2.trans hc.kind)
  obtain ⟨trg', g1, g2, g3⟩ := commit_trigger_seen s t x tr tg col trg hxr hc.find hd hft htk (hatt.once col hc.find)
    hcomp hatt' hok
  obtain ⟨col', f1, f2, f3, f4, f5, f6, _, _⟩ := commit_slot_ok s t x col (slotEffect col.merge k.width) hxr hc.find hd
    hc.wf hc.cov hcomp hok (by rw [hc.kind]; exact slotLaw_num s.hash k col.merge) hinv
  obtain ⟨_, _, _, _, c5, c6⟩ := capCol_data s t col hd
  refine ⟨col', trg', ⟨f1, f2.trans hc.kind, f4, commit_cov s t col col' hc.cov f5 f6, by rw [f3]; exact hc.merge⟩,
    g1, g2, hatt.commit t, ?_⟩
  rw [g3, seenEvents_num s.hash t.updates x k t.dirtyChunks _ (m2.trans hc.kind) (c5 hc.wf) (c6 hc.cov)
    (chunkOps_chunk t x hinv)]

theorem numEvents_eq (hash : Bytes → Nat) (ups : List Buf) (x : String) (k : NumKind) (ch : Nat) (cs : List Nat)
    (col : Col) :
    numEvents hash ups x k [] col = [] ∧
    numEvents hash ups x k (ch :: cs) col =
      (((markerOps ups ch).filter (fun o => decide (o.typ = opPut ∨ o.typ = opDelete))).map
          (fun o => (⟨o.idx, o.typ, valRaw o.val⟩ : TrigEvent)) ++
        ((opsFor ups x ch).mapIdx (fun j o =>
          let after := (((opsFor ups x ch).take (j + 1)).foldl (stepNum k)
            ((applyData hash col ch (markerOps ups ch)).col, [], [])).1
          if o.typ = opPut ∨ o.typ = opMerge then
            some (⟨o.idx, opPut, (after.data[o.idx]?).getD []⟩ : TrigEvent)
          else if o.typ = opDelete then some ⟨o.idx, opDelete, valRaw o.val⟩
          else none)).filterMap id) ++
      numEvents hash ups x k cs (applyData hash col ch (markerOps ups ch ++ opsFor ups x ch)).col := ⟨rfl, rfl⟩

/-- any list of transactions -/
theorem commits_trigger_events (x tr : String) (k : NumKind) (tg : String) (hxr : x ≠ rowColumn) (ts : List Txn) :
    ∀ (s : Store) (col trg : Col), NumCol s x k col → s.findCol tr = some trg → trg.kind = .trigger tg →
      Attached s x tr →
      (∀ t ∈ ts, (∀ v ∈ t.updates, (v.column = x ∨ isMarkerBuf v = true) → ChunkOK v) ∧ ∀ v ∈ t.updates, v.column ≠ tr) →
      ∃ col' trg' evs, NumCol (ts.foldl Store.commit s) x k col' ∧ (ts.foldl Store.commit s).findCol tr = some trg' ∧
        trg'.kind = .trigger tg ∧ trg'.trig.reverse = trg.trig.reverse ++ evs := by
  induction ts with
  | nil => intro s col trg hc hft htk _ _; exact ⟨col, trg, [], hc, hft, htk, by simp⟩
  | cons t ts ih =>
    intro s col trg hc hft htk hatt hts
    obtain ⟨col1, trg1, a1, a2, a3, a4, a5⟩ := commit_trigger_events s t x tr k tg col trg hxr hc hft htk hatt
      (hts t (by simp)).1 (hts t (by simp)).2
    obtain ⟨col2, trg2, evs, b1, b2, b3, b4⟩ := ih _ col1 trg1 a1 a2 a3 a4 (fun t' ht' => hts t' (by simp [ht']))
    simp only [List.foldl_cons]
    exact ⟨col2, trg2, _, b1, b2, b3, by rw [b4, a5, List.append_assoc]⟩

/-- **row by row**: the calls for row `i` made during `s.commit t` are, in issue order, those of the markers and the ops
    the transaction issued for `i` (`rowEvents`): every `Put` / `Merge` is reported as a `Put` of the value the slot holds
    right after it (`slotEffect` folded over the ops so far, starting from the slot before the commit), every `Delete`
    (marker or op) as a `Delete` -/
theorem commit_trigger_row (s : Store) (t : Txn) (x tr : String) (k : NumKind) (tg : String) (col trg : Col)
    (hxr : x ≠ rowColumn) (hc : NumCol s x k col) (hft : s.findCol tr = some trg) (htk : trg.kind = .trigger tg)
    (hatt : Attached s x tr) (hinv : ∀ v ∈ t.updates, (v.column = x ∨ isMarkerBuf v = true) → ChunkOK v)
    (hmk : ∀ o ∈ markerAll t.updates, isMarkerOp o) (hnb : ∀ v ∈ t.updates, v.column ≠ tr) (i : Nat) :
    ∃ trg', (s.commit t).findCol tr = some trg' ∧
      trg'.trig.reverse.filter (fun e => e.idx = i) =
        trg.trig.reverse.filter (fun e => e.idx = i) ++
          rowEvents col.merge k (slot col i)
            ((markerAll t.updates ++ allFor t.updates x).filter (fun o => o.idx = i)) := by
  have hd : col.kind.isData = true := by rw [hc.kind]; rfl
  obtain ⟨hcomp, hatt'⟩ := hatt.hyps t.updates hnb
  obtain ⟨_, m2, _, m4⟩ := capCol_meta s t col
  have hok := chunksOK_num s.hash t.updates x t.dirtyChunks (capCol s t col) k (m2.trans hc.kind)
  obtain ⟨trg', g1, _, g3⟩ := commit_trigger_seen s t x tr tg col trg hxr hc.find hd hft htk (hatt.once col hc.find)
    hcomp hatt' hok
  obtain ⟨_, _, _, c4, c5, c6⟩ := capCol_data s t col hd
  refine ⟨trg', g1, ?_⟩
  rw [g3, List.filter_append, seenEvents_row s.hash t.updates x k t.dirtyChunks _ (m2.trans hc.kind)
    (sorted_nodup _ (dirtyChunks_sorted t)) (c5 hc.wf) (c6 hc.cov) (chunkOps_chunk t x hinv)
    (fun c _ o ho => isMarkerOp_ne_merge (hmk o (markerOps_sub_markerAll t.updates c o ho))) i, m4, c4 i]
  congr 1
  by_cases hdc : chunkOf i ∈ t.dirtyChunks
  · rw [if_pos hdc, chunkOps_filter_idx t.updates x i hinv]
  · rw [if_neg hdc]
    have : (markerAll t.updates ++ allFor t.updates x).filter (fun o => o.idx = i) = [] := by
      rw [List.filter_eq_nil_iff]
      intro o ho e
      have e' : o.idx = i := by simpa using e
      exact hdc (e' ▸ issued_chunk_dirty t x hinv o ho)
    rw [this]
    rfl

/-- exactly once per row: as many calls for row `i` as `Put`, `Merge` and `Delete` ops (markers included) issued for it -/
theorem commit_trigger_row_count (s : Store) (t : Txn) (x tr : String) (k : NumKind) (tg : String) (col trg : Col)
    (hxr : x ≠ rowColumn) (hc : NumCol s x k col) (hft : s.findCol tr = some trg) (htk : trg.kind = .trigger tg)
    (hatt : Attached s x tr) (hinv : ∀ v ∈ t.updates, (v.column = x ∨ isMarkerBuf v = true) → ChunkOK v)
    (hmk : ∀ o ∈ markerAll t.updates, isMarkerOp o) (hnb : ∀ v ∈ t.updates, v.column ≠ tr) (i : Nat) :
    ∃ trg', (s.commit t).findCol tr = some trg' ∧
      (trg'.trig.filter (fun e => e.idx = i)).length =
        (trg.trig.filter (fun e => e.idx = i)).length +
          ((markerAll t.updates ++ allFor t.updates x).filter
            (fun o => o.idx = i ∧ (o.typ = opPut ∨ o.typ = opMerge ∨ o.typ = opDelete))).length := by
  obtain ⟨trg', g1, g2⟩ := commit_trigger_row s t x tr k tg col trg hxr hc hft htk hatt hinv hmk hnb i
  refine ⟨trg', g1, ?_⟩
  have h := congrArg List.length g2
  rw [List.length_append, rowEvents_length, List.filter_filter, List.filter_reverse, List.filter_reverse,
    List.length_reverse, List.length_reverse] at h
  rw [h]
  congr 2
  apply List.filter_congr
  intro o _
  simp [Bool.and_comm]

/-- exactly once: the number of calls made during the commit is, summed over the dirty chunks, the number of `Put`,
    `Merge` and `Delete` ops (markers included) applied in the pass of the chunk -/
theorem commit_trigger_count (s : Store) (t : Txn) (x tr : String) (k : NumKind) (tg : String) (col trg : Col)
    (hxr : x ≠ rowColumn) (hc : NumCol s x k col) (hft : s.findCol tr = some trg) (htk : trg.kind = .trigger tg)
    (hatt : Attached s x tr) (hmk : ∀ o ∈ markerAll t.updates, isMarkerOp o) (hnb : ∀ v ∈ t.updates, v.column ≠ tr) :
    ∃ trg', (s.commit t).findCol tr = some trg' ∧
      trg'.trig.length = trg.trig.length +
        (t.dirtyChunks.map (fun ch => ((chunkOps t.updates x ch).filter
          (fun o => o.typ = opPut ∨ o.typ = opMerge ∨ o.typ = opDelete)).length)).sum := by
  have hd : col.kind.isData = true := by rw [hc.kind]; rfl
  obtain ⟨hcomp, hatt'⟩ := hatt.hyps t.updates hnb
  obtain ⟨_, m2, _, _⟩ := capCol_meta s t col
  have hok := chunksOK_num s.hash t.updates x t.dirtyChunks (capCol s t col) k (m2.trans hc.kind)
  obtain ⟨trg', g1, _, g3⟩ := commit_trigger_seen s t x tr tg col trg hxr hc.find hd hft htk (hatt.once col hc.find)
    hcomp hatt' hok
  obtain ⟨_, _, _, _, _, c6⟩ := capCol_data s t col hd
  refine ⟨trg', g1, ?_⟩
  have h := congrArg List.length g3
  rw [List.length_append, List.length_reverse, List.length_reverse,
    seenEvents_length s.hash t.updates x k t.dirtyChunks _ (m2.trans hc.kind) (c6 hc.cov)
      (fun c _ o ho => isMarkerOp_ne_merge (hmk o (markerOps_sub_markerAll t.updates c o ho)))] at h
  exact h

/-! ## non-vacuity: the store and the transaction of `Props/C03store.lean` (index and trigger on the same column) -/

open C03store in
/-- the calls made in the pass of chunk 0 of `exStore.commit exTxn`, in call order: nothing for the `Insert` markers, row 3
    stored twice (the merge reported with the stored sum `[0, 7]`, not the delta `[0, 4]`), then row 4 (second section
    of chunk 0 in the buffer) -/
example : eventsOf (seenChunk exStore.hash exTxn.updates "n" 0 nCol) =
    [⟨3, opPut, [0, 3]⟩, ⟨3, opPut, [0, 7]⟩, ⟨4, opPut, [0, 2]⟩] := by
  unfold seenChunk
  rw [ex_seen0]
  decide

open C03store in
/-- rows 3, 4 and 20000 (second chunk) from the issued ops alone, and the total number of calls -/
theorem ex_trigger : ∃ trg', (exStore.commit exTxn).findCol "t" = some trg' ∧
    trg'.trig.reverse.filter (fun e => e.idx = 3) = [⟨3, opPut, [0, 3]⟩, ⟨3, opPut, [0, 7]⟩] ∧
    trg'.trig.reverse.filter (fun e => e.idx = 4) = [⟨4, opPut, [0, 2]⟩] ∧
    trg'.trig.reverse.filter (fun e => e.idx = 20000) = [⟨20000, opPut, [0, 9]⟩] ∧
    trg'.trig.length = 4 := by
  have row := fun i => commit_trigger_row exStore exTxn "n" "t" .u16 "n" nCol trgCol (by decide)
    ex_numCol exStore_find_t rfl ex_attached_t ex_numTxn.chunkOK ex_numTxn.markers (by decide) i
  obtain ⟨trg', h1, h2⟩ := row 3
  obtain ⟨t4, h3, h4⟩ := row 4
  obtain ⟨t5, h5, h6⟩ := row 20000
  obtain ⟨t6, h7, h8⟩ := commit_trigger_count exStore exTxn "n" "t" .u16 "n" nCol trgCol (by decide)
    ex_numCol exStore_find_t rfl ex_attached_t ex_numTxn.markers (by decide)
  rw [h1] at h3 h5 h7
  cases h3; cases h5; cases h7
  refine ⟨trg', h1, ?_, ?_, ?_, ?_⟩
  · rw [h2, nCol_slot]; decide
  · rw [h4, nCol_slot]; decide
  · rw [h6, nCol_slot]; decide
  · rw [h8, exTxn_dirty]; decide

open C03store in
/-- a later row deletion through a marker is reported once, as a `Delete` -/
example : ∃ col' trg' evs, NumCol ([exTxn, delTxn].foldl Store.commit exStore) "n" .u16 col' ∧
    ([exTxn, delTxn].foldl Store.commit exStore).findCol "t" = some trg' ∧ trg'.kind = .trigger "n" ∧
    trg'.trig.reverse = trgCol.trig.reverse ++ evs :=
  commits_trigger_events "n" "t" .u16 "n" (by decide) [exTxn, delTxn] exStore nCol trgCol ex_numCol exStore_find_t rfl
    ex_attached_t
    (by
      intro t ht
      simp only [List.mem_cons, List.not_mem_nil, or_false] at ht
      rcases ht with rfl | rfl
      · exact ⟨ex_numTxn.chunkOK, by decide⟩
      · exact ⟨ex_numTxn_del.chunkOK, by decide⟩)

section Axioms
#print axioms commit_trigger_seen
#print axioms commit_trigger_events
#print axioms commit_trigger_row
#print axioms commit_trigger_count
#print axioms ex_trigger
end Axioms

end ColumnVerif.Props.C19store
