import ColumnVerif.Lemmas.Index
import ColumnVerif.Model.Txn
/-!
# C03 — a bitmap index selects exactly the live rows whose current value satisfies the predicate

"…however the value got there — insert, overwrite, merge, delete, reuse, replay, restore — and whether the
index was created before or after the data."

Commit mechanics: for a column buffer and a chunk the *main pass* (`applyData`, `stepNum` for numeric
columns) applies the ops to the data column and rewrites them (`Merge` → `Put` of the stored result); the
*computed pass* applies the rewritten ops to the index (`applyOther`). Replay runs the same two passes;
`CreateIndex` and restore feed the index with the `Put`s of a snapshot (`Col.snapshotOps`).

* `index_apply_sem` (I1): what `applyOther` does to every bit of an index, for any op list and rule.
* `numeric_rewrite*` (I3): what the numeric main pass leaves in the buffer — a `Merge` becomes a `Put` of the
  value the column holds right after that op; nothing else changes, nothing is appended.
* `indexInv_pass` (I4): `IndexInv` (index bit = present ∧ rule(current value)) is kept by main pass + computed
  pass of one section — overwrite, merge (the index sees the merged value), delete; offset reuse and later
  sections / transactions / replays are the same theorem applied again (`pass_shape` keeps its hypotheses).
* `indexInv_sections`, `indexInv_mainPass`: the same for a whole buffer in the order `commitUpdates` works (main
  pass over all sections of the chunk, then the computed pass); `indexInv_markers`: row deletion through markers.
* `backfill_chunk`, `backfill_indexInv` (I5): an index created after the data satisfies `IndexInv`.
* `indexInv_read`: `IndexInv` phrased with the typed reader `Col.read`.
-/
namespace ColumnVerif.Props.C03
open ColumnVerif.Codec ColumnVerif.Bits ColumnVerif.Store

/-! ### I1 — the computed pass on an index -/

/-- after `applyOther`, the bit of every offset `o` is the fold, in op order, of the ops addressed to `o`
    (a `Put` sets it to the rule's verdict on that op, a `Delete` clears it, anything else — `Merge`, `Skip`,
    `Insert` — leaves it) over the previous bit; an index never panics -/
theorem index_apply_sem (c : Col) (target : String) (rule : RuleFn) (hk : c.kind = .index target rule)
    (ops : List Op) (o : Nat) :
    Bits.get (applyOther c ops).1.bits o =
      (ops.filter (·.idx = o)).foldl
        (fun b op => if op.typ = opPut then rule op else if op.typ = opDelete then false else b)
        (Bits.get c.bits o)
    ∧ (applyOther c ops).2 = false := by
  rw [applyOther_index c target rule hk]
  exact ⟨foldIdx_get rule ops c o, rfl⟩

/-- an offset no op of the section addresses keeps its bit -/
theorem index_apply_frame (c : Col) (target : String) (rule : RuleFn) (hk : c.kind = .index target rule)
    (ops : List Op) (o : Nat) (h : ∀ op ∈ ops, op.idx ≠ o) :
    Bits.get (applyOther c ops).1.bits o = Bits.get c.bits o := by
  rw [applyOther_index c target rule hk]
  exact foldIdx_get_frame rule ops c o h

/-- the index stays the same index (kind, name, … — only the bitmap moves) -/
theorem index_apply_same (c : Col) (target : String) (rule : RuleFn) (hk : c.kind = .index target rule)
    (ops : List Op) : SameButBits c (applyOther c ops).1 := by
  rw [applyOther_index c target rule hk]
  exact foldIdx_same rule ops c

/-! ### I3 — what the numeric main pass leaves in the buffer -/

/-- the numeric main pass over `ops` (all in bounds): the rewritten section is `ops` with every `Merge`
    replaced, in place, by `⟨Put, idx, fixed k.code v⟩` where `v` is the value the column holds at `idx` right
    after processing that very op; every other op is unchanged; nothing is appended -/
theorem numeric_rewrite (k : NumKind) (c : Col) (ops : List Op) (hin : InBounds c ops) :
    (ops.foldl (stepNum k) (c, [], [])).2.1.reverse =
      ops.mapIdx (fun j o =>
        if o.typ = opMerge then
          (⟨opPut, o.idx,
            .fixed k.code ((((ops.take (j + 1)).foldl (stepNum k) (c, [], [])).1.data[o.idx]?).getD [])⟩ : Op)
        else o)
    ∧ (ops.foldl (stepNum k) (c, [], [])).2.2 = [] := by
  rw [foldNum_eq]
  simp only [List.append_nil, List.reverse_reverse, and_true]
  exact rwList_eq_mapIdx k ops c hin

/-- the same, op by op -/
theorem numeric_rewrite_getElem (k : NumKind) (c : Col) (ops : List Op) (hin : InBounds c ops)
    (j : Nat) (hj : j < ops.length) :
    (ops.foldl (stepNum k) (c, [], [])).2.1.reverse[j]? =
      some (if ops[j].typ = opMerge then
          (⟨opPut, ops[j].idx,
            .fixed k.code ((((ops.take (j + 1)).foldl (stepNum k) (c, [], [])).1.data[ops[j].idx]?).getD [])⟩ : Op)
        else ops[j]) := by
  rw [(numeric_rewrite k c ops hin).1, List.getElem?_mapIdx, List.getElem?_eq_getElem hj]
  rfl

/-- same length -/
theorem numeric_rewrite_length (k : NumKind) (c : Col) (ops : List Op) :
    (ops.foldl (stepNum k) (c, [], [])).2.1.reverse.length = ops.length := by
  rw [foldNum_eq]; simp [length_rwList]

/-- same offsets, in the same order -/
theorem numeric_rewrite_offsets (k : NumKind) (c : Col) (ops : List Op) :
    (ops.foldl (stepNum k) (c, [], [])).2.1.reverse.map (·.idx) = ops.map (·.idx) := by
  rw [foldNum_eq]
  simp only [List.append_nil, List.reverse_reverse]
  exact map_idx_rwList k ops c

/-- no `Merge` is left for the computed columns -/
theorem numeric_rewrite_no_merge (k : NumKind) (c : Col) (ops : List Op) :
    ∀ o ∈ (ops.foldl (stepNum k) (c, [], [])).2.1.reverse, o.typ ≠ opMerge := by
  rw [foldNum_eq]
  simp only [List.append_nil, List.reverse_reverse]
  exact rwList_no_merge k ops c

/-- the main pass as `applyData` packages it: no panic, nothing appended, `ops` = the rewritten section -/
theorem applyData_numeric (hash : Bytes → Nat) (c : Col) (k : NumKind) (hk : c.kind = .num k) (chunk : Nat)
    (hch : chunk < c.nchunks) (ops : List Op) :
    (applyData hash c chunk ops).ops = (ops.foldl (stepNum k) (c, [], [])).2.1.reverse ∧
    (applyData hash c chunk ops).col = (ops.foldl (stepNum k) (c, [], [])).1 ∧
    (applyData hash c chunk ops).appended = [] ∧ (applyData hash c chunk ops).panic = false := by
  rw [applyData_num hash c k hk chunk hch, foldNum_eq]
  simp

/-! ### I4 — index = predicate over current values, kept by every pass -/

/-- one section: main pass on the numeric column, computed pass of the rewritten ops on the index.
    Hypotheses: offsets inside the column's arrays, `Put`s carry a value of the column's width (what the typed
    writers produce), the merge function never returns the empty string (it returns a value of the column's
    width). -/
theorem indexInv_pass (hash : Bytes → Nat) (col idx : Col) (k : NumKind) (target : String) (rule : RuleFn)
    (chunk : Nat) (ops : List Op)
    (hk : col.kind = .num k) (hik : idx.kind = .index target rule) (hch : chunk < col.nchunks)
    (hin : InBounds col ops) (hcan : CanonPuts k ops) (hm : ∀ a d, col.merge a d ≠ [])
    (hinv : IndexInv col idx k rule) :
    IndexInv (applyData hash col chunk ops).col (applyOther idx (applyData hash col chunk ops).ops).1 k rule := by
  rw [applyData_num hash col k hk chunk hch, applyOther_index idx target rule hik]
  exact indexInv_fold k rule ops col idx hin hcan (fun _ _ _ => hm) hinv

/-- the same through `Col.applyAny`, the entry point the computed pass of a commit uses -/
theorem indexInv_pass_applyAny (hash : Bytes → Nat) (col idx : Col) (k : NumKind) (target : String) (rule : RuleFn)
    (chunk : Nat) (ops : List Op)
    (hk : col.kind = .num k) (hik : idx.kind = .index target rule) (hch : chunk < col.nchunks)
    (hin : InBounds col ops) (hcan : CanonPuts k ops) (hm : ∀ a d, col.merge a d ≠ [])
    (hinv : IndexInv col idx k rule) :
    IndexInv (applyData hash col chunk ops).col
      (idx.applyAny hash chunk (applyData hash col chunk ops).ops).1 k rule ∧
    (idx.applyAny hash chunk (applyData hash col chunk ops).ops).2 = false := by
  rw [applyAny_index hash idx target rule hik]
  refine ⟨?_, rfl⟩
  have := indexInv_pass hash col idx k target rule chunk ops hk hik hch hin hcan hm hinv
  rw [applyOther_index idx target rule hik] at this
  exact this

/-- the hypotheses of `indexInv_pass` that concern the two columns survive the pass, so the theorem applies to
    the next section, the next transaction, a replay, a reused offset … -/
theorem pass_shape (hash : Bytes → Nat) (col idx : Col) (k : NumKind) (target : String) (rule : RuleFn)
    (chunk : Nat) (ops : List Op)
    (hk : col.kind = .num k) (hik : idx.kind = .index target rule) (hch : chunk < col.nchunks) :
    SameShape col (applyData hash col chunk ops).col ∧
    SameButBits idx (applyOther idx (applyData hash col chunk ops).ops).1 := by
  rw [applyData_num hash col k hk chunk hch, applyOther_index idx target rule hik]
  exact ⟨foldCol_shape k ops col, foldIdx_same rule _ idx⟩

/-- row markers (`commitMarkers`): the *same* section of `Insert` / `Delete` markers is applied to the column and
    to the index (no rewriting); a deleted row leaves the index, whatever its value -/
theorem indexInv_markers (hash : Bytes → Nat) (col idx : Col) (k : NumKind) (target : String) (rule : RuleFn)
    (chunk : Nat) (ops : List Op)
    (hk : col.kind = .num k) (hik : idx.kind = .index target rule) (hch : chunk < col.nchunks)
    (hin : InBounds col ops) (hmk : ∀ o ∈ ops, o.typ = opInsert ∨ o.typ = opDelete)
    (hinv : IndexInv col idx k rule) :
    IndexInv (col.applyAny hash chunk ops).1 (idx.applyAny hash chunk ops).1 k rule ∧
    (col.applyAny hash chunk ops).2 = false ∧ (idx.applyAny hash chunk ops).2 = false := by
  have hnm : ∀ o ∈ ops, o.typ ≠ opMerge := by
    intro o ho h
    rcases hmk o ho with h' | h' <;> rw [h] at h' <;> exact absurd h' (by decide)
  have hnp : CanonPuts k ops := by
    intro o ho h
    rcases hmk o ho with h' | h' <;> rw [h] at h' <;> exact absurd h' (by decide)
  have hd : col.kind.isData = true := by rw [hk]; rfl
  rw [applyAny_index hash idx target rule hik]
  unfold Col.applyAny
  rw [if_pos hd, applyData_num hash col k hk chunk hch]
  refine ⟨?_, rfl, rfl⟩
  have := indexInv_fold k rule ops col idx hin hnp (fun o ho h => absurd h (hnm o ho)) hinv
  rw [rwList_of_no_merge k ops col hnm] at this
  exact this

/-- a whole buffer, in the order `commitUpdates` works: first the main pass over *all* sections of the chunk
    (`mainSecs`), then the computed pass over all rewritten sections (`otherSecs`) -/
theorem indexInv_sections (hash : Bytes → Nat) (col idx : Col) (k : NumKind) (target : String) (rule : RuleFn)
    (chunk : Nat) (secs : List (List Op))
    (hk : col.kind = .num k) (hik : idx.kind = .index target rule) (hch : chunk < col.nchunks)
    (hin : InBounds col secs.flatten) (hcan : CanonPuts k secs.flatten) (hm : ∀ a d, col.merge a d ≠ [])
    (hinv : IndexInv col idx k rule) :
    IndexInv (mainSecs hash chunk col secs).1 (otherSecs idx (mainSecs hash chunk col secs).2.1).1 k rule ∧
    (mainSecs hash chunk col secs).2.2 = false ∧ (otherSecs idx (mainSecs hash chunk col secs).2.1).2 = false := by
  rw [mainSecs_num hash chunk k secs col hk hch, otherSecs_index idx target rule hik]
  refine ⟨?_, rfl, rfl⟩
  simp only
  rw [rwSecs_flatten]
  exact indexInv_fold k rule secs.flatten col idx hin hcan (fun _ _ _ => hm) hinv

/-- the same with the model's own `mainPass` over the transaction buffer `u` of the column: afterwards the column
    and the index fed with the sections of `chunk` now in the buffer (what `computedPass` reads) satisfy `IndexInv` -/
theorem indexInv_mainPass (hash : Bytes → Nat) (col idx : Col) (k : NumKind) (target : String) (rule : RuleFn)
    (chunk : Nat) (u : Buf)
    (hk : col.kind = .num k) (hik : idx.kind = .index target rule) (hch : chunk < col.nchunks)
    (hin : InBounds col (u.rangeOps chunk)) (hcan : CanonPuts k (u.rangeOps chunk))
    (hm : ∀ a d, col.merge a d ≠ []) (hinv : IndexInv col idx k rule) :
    IndexInv (mainPass hash col chunk u).1 (otherSecs idx ((mainPass hash col chunk u).2.1.range chunk)).1 k rule ∧
    (mainPass hash col chunk u).2.2 = false ∧
    (otherSecs idx ((mainPass hash col chunk u).2.1.range chunk)).2 = false := by
  obtain ⟨h1, h2, h3⟩ := mainPass_num hash col k hk chunk hch u
  rw [h1, h2, h3]
  have := indexInv_sections hash col idx k target rule chunk (u.range chunk) hk hik hch hin hcan hm hinv
  exact ⟨this.1, rfl, this.2.2⟩

/-- a merge function returning values of the column's width satisfies the hypothesis of `indexInv_pass` -/
theorem merge_width_ne_nil (k : NumKind) (merge : Bytes → Bytes → Bytes)
    (h : ∀ a d, (merge a d).length = k.width) : ∀ a d, merge a d ≠ [] := by
  intro a d h0
  have := h a d
  rw [h0] at this
  have := k.width_pos
  simp at *
  omega

/-- `IndexInv` read through the typed reader: the index contains `o` iff the column has a value at `o` and the
    rule accepts it -/
theorem indexInv_read (col idx : Col) (k : NumKind) (rule : RuleFn) (hk : col.kind = .num k)
    (hsz : col.bits.size ≤ 16384 * col.nchunks) (hinv : IndexInv col idx k rule) (o : Nat) :
    Bits.get idx.bits o = true ↔
      ∃ v, col.read o = some v ∧ rule ⟨opPut, o, .fixed k.code (padTo k.width v)⟩ = true := by
  rw [hinv o]
  unfold Col.read
  rw [hk]
  simp only [Bool.and_eq_true, getD_eq]
  constructor
  · intro ⟨hb, hr⟩
    have hlt : o < col.bits.size := by
      apply Classical.byContradiction
      intro hge
      rw [get_of_ge col.bits o (by omega)] at hb
      exact Bool.false_ne_true hb
    refine ⟨_, ?_, hr⟩
    rw [if_pos ⟨by omega, hb⟩]
  · intro ⟨v, hv, hr⟩
    split at hv
    · rename_i hc
      injection hv with hv
      subst hv
      exact ⟨hc.2, hr⟩
    · exact absurd hv (by simp)

/-! ### I5 — index created after the data (`CreateIndex` back-fill, restore) -/

/-- one chunk: the snapshot of chunk `ch` of a numeric column applied to an index with no bit set in that
    chunk establishes the `IndexInv` clause for every offset of the chunk -/
theorem backfill_chunk (col idx : Col) (k : NumKind) (target : String) (rule : RuleFn)
    (hk : col.kind = .num k) (hik : idx.kind = .index target rule) (ch : Nat) (hch : ch < col.nchunks)
    (hfresh : ∀ o, o / 16384 = ch → Bits.get idx.bits o = false) (o : Nat) (ho : o / 16384 = ch) :
    Bits.get (applyOther idx (col.snapshotOps ch).1).1.bits o =
      (Bits.get col.bits o && rule ⟨opPut, o, .fixed k.code (padTo k.width ((col.data[o]?).getD []))⟩) := by
  rw [backfill_chunk_get col idx k target rule hk hik ch hch o]
  by_cases hb : Bits.get col.bits o = true
  · simp [ho, hb]
  · simp [hb, hfresh o ho]

/-- … the bits of other chunks are not touched, and the snapshot does not panic -/
theorem backfill_chunk_frame (col idx : Col) (k : NumKind) (target : String) (rule : RuleFn)
    (hk : col.kind = .num k) (hik : idx.kind = .index target rule) (ch : Nat) (hch : ch < col.nchunks)
    (o : Nat) (ho : o / 16384 ≠ ch) :
    Bits.get (applyOther idx (col.snapshotOps ch).1).1.bits o = Bits.get idx.bits o ∧
    (col.snapshotOps ch).2 = false := by
  rw [backfill_chunk_get col idx k target rule hk hik ch hch o, snapshotOps_num col k hk ch hch]
  simp [ho]

/-- the whole back-fill loop of `CreateIndex`: every committed chunk is covered by the column
    (`commits.size ≤ nchunks`, kept by `commitCapacity` / `createColumn`), no row is present beyond the committed
    chunks, the index starts empty ⇒ afterwards `IndexInv` holds for *every* offset and nothing panicked -/
theorem backfill_indexInv (s : Store) (col idx : Col) (k : NumKind) (target : String) (rule : RuleFn)
    (hk : col.kind = .num k) (hik : idx.kind = .index target rule) (hn : s.commits.size ≤ col.nchunks)
    (hlive : ∀ o, s.commits.size ≤ o / 16384 → Bits.get col.bits o = false)
    (hfresh : ∀ o, Bits.get idx.bits o = false) :
    IndexInv col (s.backfill col idx).1 k rule ∧ (s.backfill col idx).2 = false ∧
    SameButBits idx (s.backfill col idx).1 := by
  have hni : col.kind.isIndex = false := by rw [hk]; rfl
  rw [backfill_eq s col idx hni]
  obtain ⟨h1, h2, h3⟩ := backfill_upTo col idx k target rule hk hik s.commits.size hn
  refine ⟨?_, h1, h2⟩
  intro o
  rw [h3 o, hfresh o]
  by_cases hb : Bits.get col.bits o = true
  · have : o / 16384 < s.commits.size := by
      apply Classical.byContradiction
      intro hge
      rw [hlive o (by omega)] at hb
      exact Bool.false_ne_true hb
    simp [hb, this]
  · simp [hb]

/-- the index column `CreateIndex` starts from (`Col.grow` of an empty column) has no bit set -/
theorem createIndex_starts_empty (name target : String) (rule : RuleFn) (cap o : Nat) :
    Bits.get (Col.grow { name := name, kind := .index target rule } cap).bits o = false :=
  get_fresh_index name _ target rule rfl cap o

/-! ### I7 — non-vacuity: a concrete 4-slot `uint16` column, byte-wise adding merge, rule "low byte ≥ 7" -/

def addMerge : Bytes → Bytes → Bytes := fun a d => [a.getD 0 0 + d.getD 0 0, a.getD 1 0 + d.getD 1 0]

def col0 : Col :=
  { name := "n", kind := .num .u16, merge := addMerge, nchunks := 1,
    bits := #[true, false, false, false], data := #[[0, 9], [], [], []] }

def rule0 : RuleFn := fun o => decide (7 ≤ ((valRaw o.val).getD 1 0).toNat)

def idx0 : Col := { name := "big", kind := .index "n" rule0, bits := #[true, false, false, false] }

/-- put, merge onto it, delete another row, merge into a never-written slot -/
def ops0 : List Op :=
  [⟨opPut, 1, .fixed 1 [0, 3]⟩, ⟨opMerge, 1, .fixed 1 [0, 4]⟩, ⟨opDelete, 0, .fixed 0 []⟩,
   ⟨opMerge, 2, .fixed 1 [0, 9]⟩, ⟨opPut, 3, .fixed 1 [0, 2]⟩]

example : IndexInv col0 idx0 .u16 rule0 := by
  intro o
  match o with
  | 0 | 1 | 2 | 3 => decide
  | n + 4 => simp [col0, idx0, Bits.get]

example : InBounds col0 ops0 := by
  intro o ho
  simp only [ops0, List.mem_cons, List.not_mem_nil, or_false] at ho
  rcases ho with rfl | rfl | rfl | rfl | rfl <;> decide

example : CanonPuts .u16 ops0 := by
  intro o ho hp
  simp only [ops0, List.mem_cons, List.not_mem_nil, or_false] at ho
  rcases ho with rfl | rfl | rfl | rfl | rfl
  · exact ⟨[0, 3], rfl, rfl⟩
  · exact absurd hp (by decide)
  · exact absurd hp (by decide)
  · exact absurd hp (by decide)
  · exact ⟨[0, 2], rfl, rfl⟩

example : ∀ a d, col0.merge a d ≠ [] := by intro a d; simp [col0, addMerge]

example : col0.bits.size ≤ 16384 * col0.nchunks := by decide

/-- hypotheses of `backfill_indexInv`: one committed chunk, no row beyond it, empty index -/
example : ({ commits := #[0] } : Store).commits.size ≤ col0.nchunks := by decide

example : ∀ o, ({ commits := #[0] } : Store).commits.size ≤ o / 16384 → Bits.get col0.bits o = false := by
  intro o h
  apply get_of_ge
  have : ({ commits := #[0] } : Store).commits.size = 1 := rfl
  rw [this] at h
  have : col0.bits.size = 4 := rfl
  omega

example : ∀ o, Bits.get ({ name := "big", kind := .index "n" rule0 } : Col).bits o = false := by
  intro o; rfl

/-- hypothesis of `indexInv_markers` -/
example : ∀ o ∈ [(⟨opInsert, 2, .fixed 0 []⟩ : Op), ⟨opDelete, 0, .fixed 0 []⟩], o.typ = opInsert ∨ o.typ = opDelete := by
  decide

/-- the rewritten section: both merges became puts of the stored sums -/
example : (applyData (fun _ => 0) col0 0 ops0).ops =
    [⟨opPut, 1, .fixed 1 [0, 3]⟩, ⟨opPut, 1, .fixed 1 [0, 7]⟩, ⟨opDelete, 0, .fixed 0 []⟩,
     ⟨opPut, 2, .fixed 1 [0, 9]⟩, ⟨opPut, 3, .fixed 1 [0, 2]⟩] := by decide

/-- the index after the pass: row 0 deleted, row 1 holds 7 (merged), row 2 holds 9, row 3 holds 2 -/
example : (List.range 6).map (Bits.get (applyOther idx0 (applyData (fun _ => 0) col0 0 ops0).ops).1.bits) =
    [false, true, true, false, false, false] := by
  decide

/-- created afterwards, the index is the same -/
example : (List.range 6).map (Bits.get (applyOther { name := "big", kind := .index "n" rule0 }
    ((applyData (fun _ => 0) col0 0 ops0).col.snapshotOps 0).1).1.bits) =
    [false, true, true, false, false, false] := by
  decide +kernel

end ColumnVerif.Props.C03
