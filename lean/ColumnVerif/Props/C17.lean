import ColumnVerif.Model.Expire
import ColumnVerif.Props.C04
/-!
# C17 — rows expire only after their deadline, and then do expire (decision logic)

PARTIAL: "within a few cleanup intervals" depends on the Go scheduler and timers, which no model
here exhibits; what is proved is the decision a vacuum pass takes for every row, every stored
value and every clock reading, and the TTL arithmetic. That the deadline survives snapshot/restore
and replication is C07/C06: it is an ordinary int64 column.
-/
namespace ColumnVerif.Props.C17
open ColumnVerif.Codec ColumnVerif.Bits ColumnVerif.Store

theorem vacuumDeletes_none (now : Int) : vacuumDeletes now none = false := rfl

theorem vacuumDeletes_some (now : Int) (bs : Bytes) :
    vacuumDeletes now (some bs) = (decide (int64OfBytes bs ≠ 0) && decide (int64OfBytes bs < now)) := by
  unfold vacuumDeletes expiresAt
  simp only
  by_cases hz : int64OfBytes bs ≠ 0
  · rw [if_pos hz]; simp [hz]
  · rw [if_neg hz]; simp [hz]

/-- a pass deletes a row iff it is live, holds a deadline value, the deadline is non-zero and lies
    strictly before `now` — for every store, every clock reading, every offset -/
theorem vacuum_deletes_iff (s : Store) (now : Int) (c : Col) (hc : s.findCol expireColumn = some c) (o : Nat) :
    o ∈ s.vacuumPass now ↔
      (Bits.get s.fill o = true ∧ c.indexBit o = true ∧
        ∃ bs, c.read o = some bs ∧ int64OfBytes bs ≠ 0 ∧ int64OfBytes bs < now) := by
  unfold Store.vacuumPass
  simp only [hc, List.mem_filter]
  rw [C04.rangeList_sem]
  have hsel : C04.sel ((({} : Txn).with_ s [expireColumn]).initialize s) o =
      (Bits.get s.fill o && c.indexBit o) := by
    have hset : (({} : Txn).with_ s [expireColumn]).setup = true := by
      simp [Txn.with_, hc, Txn.initialize]
    rw [C04.initialize_idem _ _ hset, C04.with_sem, C04.initialize_sem s {} rfl]
    simp only [List.all_cons, List.all_nil, Bool.and_true, C04.bitOf, hc]
  rw [hsel]
  constructor
  · rintro ⟨h1, h2⟩
    simp only [Bool.and_eq_true] at h1
    refine ⟨h1.1, h1.2, ?_⟩
    cases hr : c.read o with
    | none => rw [hr, vacuumDeletes_none] at h2; simp at h2
    | some bs =>
      rw [hr, vacuumDeletes_some] at h2
      simp only [Bool.and_eq_true, decide_eq_true_eq] at h2
      exact ⟨bs, rfl, h2.1, h2.2⟩
  · rintro ⟨h1, h2, bs, hr, hz, hlt⟩
    refine ⟨by simp [h1, h2], ?_⟩
    rw [hr, vacuumDeletes_some]; simp [hz, hlt]

/-- a row without a time-to-live (no value, or deadline 0) is never removed -/
theorem no_ttl_never_removed (now : Int) (v : Option Bytes)
    (h : v = none ∨ ∃ bs, v = some bs ∧ int64OfBytes bs = 0) : vacuumDeletes now v = false := by
  rcases h with rfl | ⟨bs, rfl, hz⟩
  · rfl
  · rw [vacuumDeletes_some]; simp [hz]

/-- a deadline in the future (or exactly now) is never removed -/
theorem future_never_removed (now : Int) (bs : Bytes) (h : now ≤ int64OfBytes bs) :
    vacuumDeletes now (some bs) = false := by
  rw [vacuumDeletes_some]
  have : ¬ int64OfBytes bs < now := by omega
  simp [this]

/-- a deadline that has passed is removed by the next pass -/
theorem past_removed_by_next_pass (now : Int) (bs : Bytes) (hz : int64OfBytes bs ≠ 0) (h : int64OfBytes bs < now) :
    vacuumDeletes now (some bs) = true := by
  rw [vacuumDeletes_some]; simp [hz, h]

/-- setting a positive TTL puts the deadline that far in the future; a non-positive one means never -/
theorem set_ttl_deadline (now ttl : Int) :
    (0 < ttl → writeTTL now ttl = now + ttl ∧ now < writeTTL now ttl) ∧ (ttl ≤ 0 → writeTTL now ttl = 0) := by
  unfold writeTTL
  constructor
  · intro h; simp [h]; omega
  · intro h; have : ¬ ttl > 0 := by omega
    simp [this]

/-- extending moves the deadline by exactly the amount -/
theorem extend_moves_deadline (d delta : Int) : extendTTL d delta = d + delta := rfl

/-- observation O1 (outside the property: it does not define "extend" without a deadline):
    extending a row that never had a TTL sets the deadline to 1970 + δ, which any later pass deletes -/
theorem extend_without_deadline_counterexample :
    extendTTL 0 5000000000 = 5000000000 ∧
    vacuumDeletes 1790000000000000000 (some (natToBE 8 5000000000)) = true := by decide

/-! non-vacuity: a store with three rows (no TTL, past, future) -/
def sampleStore : Store :=
  { cap := 64, fill := Bits.set (Bits.set (Bits.set (Bits.growTo #[] 1) 0) 1) 2,
    cols := #[{ name := "expire", kind := .num .i64, nchunks := 1,
                bits := Bits.set (Bits.set (Bits.growTo #[] 1) 1) 2,
                data := #[[], natToBE 8 100, natToBE 8 900] }] }

example : sampleStore.vacuumPass 500 = [1] := by decide +kernel

end ColumnVerif.Props.C17
