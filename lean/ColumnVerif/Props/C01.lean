import ColumnVerif.Lemmas.Apply
import ColumnVerif.Lemmas.ApplyStr
import ColumnVerif.Model.Txn
/-!
# C01 — committed values read back exactly

The commit of one chunk applies, per column buffer, the operations addressed to that chunk in issue
order (`Buf.rangeOps`, proved equal to the issue-order filter in C05) to the column (`applyData`).
The theorems here say what every *slot* (presence bit + raw value) of the column holds afterwards:
the fold, in issue order, of the operations addressed to that offset over its previous content —
for every numeric width, any merge function, any number of operations, any offsets in any order.
Strings, records and enums are in `Props/C01str.lean`. What a typed reader returns is `Col.read`
(`read_of_slot`).
-/
namespace ColumnVerif.Props.C01
open ColumnVerif.Codec ColumnVerif.Store ColumnVerif.Bits

/-- bit-for-bit: the big-endian bytes a typed setter writes read back as the same number
    (`binary.BigEndian.Uint16/32/64` of `byte(v>>…)`), for every width -/
theorem numeric_bits_exact (n v : Nat) : beNat (natToBE n v) = v % 256 ^ n := beNat_natToBE n v

theorem applyData_num (hash : Bytes → Nat) (c : Col) (k : NumKind) (hk : c.kind = .num k) (chunk : Nat)
    (hc : chunk < c.nchunks) (ops : List Op) :
    applyData hash c chunk ops =
      { col := (ops.foldl (stepNum k) (c, [], [])).1, ops := (ops.foldl (stepNum k) (c, [], [])).2.1.reverse,
        appended := (ops.foldl (stepNum k) (c, [], [])).2.2 } := by
  unfold applyData
  have : ¬ chunk ≥ c.nchunks := by omega
  simp only [this, if_false, hk, stepOf]

/-- numeric columns: after the chunk's pass every slot is the fold of the operations addressed to
    it (Put stores, Merge combines with the slot's content through the column's merge function,
    Delete clears the presence bit, anything else is ignored), in issue order; no panic -/
theorem num_slot_fold (hash : Bytes → Nat) (c : Col) (k : NumKind) (hk : c.kind = .num k) (chunk : Nat)
    (hc : chunk < c.nchunks) (ops : List Op) (hin : InBounds c ops) (i : Nat) :
    slot (applyData hash c chunk ops).col i =
      (ops.filter (fun o => o.idx = i)).foldl (slotEffect c.merge k.width) (slot c i) ∧
    (applyData hash c chunk ops).panic = false := by
  rw [applyData_num hash c k hk chunk hc ops]
  exact ⟨foldNum_slot k ops (c, [], []) i hin, rfl⟩

/-- offsets no operation addresses keep their content (rows untouched by the transaction read as before) -/
theorem num_slot_untouched (hash : Bytes → Nat) (c : Col) (k : NumKind) (hk : c.kind = .num k) (chunk : Nat)
    (hc : chunk < c.nchunks) (ops : List Op) (hin : InBounds c ops) (i : Nat) (hi : ∀ o ∈ ops, o.idx ≠ i) :
    slot (applyData hash c chunk ops).col i = slot c i := by
  rw [(num_slot_fold hash c k hk chunk hc ops hin i).1]
  have : ops.filter (fun o => o.idx = i) = [] := by
    rw [List.filter_eq_nil_iff]; intro o ho; simpa using hi o ho
  rw [this]; rfl

/-- the last store decides: if the last operation addressed to `i` is a Put, the slot holds exactly
    its value and the row reads present — whatever came before (stale data of a previous occupant,
    earlier writes of the same transaction) -/
theorem num_last_put (hash : Bytes → Nat) (c : Col) (k : NumKind) (hk : c.kind = .num k) (chunk : Nat)
    (hc : chunk < c.nchunks) (pre post : List Op) (p : Op) (hin : InBounds c (pre ++ p :: post))
    (hp : p.typ = opPut) (hpost : ∀ o ∈ post, o.idx ≠ p.idx) :
    slot (applyData hash c chunk (pre ++ p :: post)).col p.idx = (true, valRaw p.val) := by
  rw [(num_slot_fold hash c k hk chunk hc _ hin p.idx).1]
  have hf : (pre ++ p :: post).filter (fun o => o.idx = p.idx) = pre.filter (fun o => o.idx = p.idx) ++ [p] := by
    rw [List.filter_append, List.filter_cons]
    have : post.filter (fun o => o.idx = p.idx) = [] := by
      rw [List.filter_eq_nil_iff]; intro o ho; simpa using hpost o ho
    simp [this]
  rw [hf, List.foldl_append]
  simp [slotEffect, hp]

/-- what the typed reader returns (`load`): the raw slot when the presence bit is set -/
theorem read_of_slot (c : Col) (k : NumKind) (hk : c.kind = .num k) (i : Nat) :
    c.read i = if i / 16384 < c.nchunks ∧ (slot c i).1 = true then some (slot c i).2 else none := by
  unfold Col.read slot
  simp only [hk, getD_eq]

/-- the shape of the column (kind, merge function, allocation) is untouched by the pass -/
theorem num_shape (hash : Bytes → Nat) (c : Col) (k : NumKind) (hk : c.kind = .num k) (chunk : Nat)
    (hc : chunk < c.nchunks) (ops : List Op) : SameShape c (applyData hash c chunk ops).col := by
  rw [applyData_num hash c k hk chunk hc ops]
  exact foldNum_shape k ops (c, [], [])

/-- a missing chunk is a Go panic (index out of range) — the reason `CreateColumn` must cover every
    allocated chunk (defect D6, repaired) -/
theorem missing_chunk_panics (hash : Bytes → Nat) (c : Col) (chunk : Nat) (h : c.nchunks ≤ chunk) (ops : List Op) :
    (applyData hash c chunk ops).panic = true := by
  unfold applyData; simp [h]

/-- D11: a merge reads the raw slot without consulting the presence bit — the "previous occupant"
    leaks into the merged value -/
theorem merge_on_absent_counterexample :
    let c : Col := { name := "x", kind := .num .u16, nchunks := 1, bits := #[false, false], data := #[[0, 100], []],
                     merge := fun v d => natToBE 2 (beNat v + beNat d) }
    (slot (applyData (fun _ => 0) c 0 [⟨opMerge, 0, .fixed 1 [0, 5]⟩]).col 0) = (true, [0, 105]) := by decide

/-! non-vacuity -/
def sampleCol : Col :=
  { name := "x", kind := .num .i16, nchunks := 1, bits := #[true, false, false, false], data := #[[0, 7], [], [], []],
    merge := fun v d => natToBE 2 (beNat v + beNat d) }
def sampleOps : List Op :=
  [⟨opMerge, 0, .fixed 1 [0, 1]⟩, ⟨opPut, 2, .fixed 1 [255, 255]⟩, ⟨opPut, 0, .fixed 1 [0, 9]⟩, ⟨opDelete, 2, .fixed 0 []⟩,
   ⟨opMerge, 0, .fixed 1 [0, 1]⟩]

example : InBounds sampleCol sampleOps := by decide
example : (applyData (fun _ => 0) sampleCol 0 sampleOps).col.read 0 = some [0, 10] := by decide
example : (applyData (fun _ => 0) sampleCol 0 sampleOps).col.read 2 = none := by decide

end ColumnVerif.Props.C01
