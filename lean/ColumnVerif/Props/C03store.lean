import ColumnVerif.Lemmas.StoreComputed
import ColumnVerif.Props.C03
/-!
# C03 at store level — computed columns through the real `Store.commit`

`Props/C03.lean` proves the index invariant for one pass (`indexInv_pass`, `indexInv_mainPass`, `backfill_indexInv`).
Here the computed columns (bitmap index, sorted index, trigger) attached to a data column `x` are followed through
`Store.commitChunk` / `Store.commit`, the way `Props/C01storeAny.lean` follows the data column itself.

* P1 `commitChunk_computed`, `commit_computed` (any computed kind, any data kind of the target): the computed column the
  registry holds afterwards, as an equality of `Col` records — `applyOther` over the chunk's markers followed by what the
  buffer passes of `x` leave in the buffer for the chunk (`seenFor`: per buffer the ops as REWRITTEN by the main pass,
  then the puts it appended), chunk by chunk.
* P2 `commit_indexInv`, `commits_indexInv`, `createIndex_indexInv`, `history_indexInv`: numeric target, bitmap index:
  `IndexInv` (index bit = present ∧ rule(current value)) is kept by every commit and established by `CreateIndex`.
* P3 non-vacuity.
-/
namespace ColumnVerif.Props.C03store
open ColumnVerif.Codec ColumnVerif.Store ColumnVerif.Bits

/-! ## P1 — the plumbing, any computed kind -/

/-- **one dirty chunk** (`Store.commitChunk`). `ix` is a computed column (index / sorted index / trigger) listed once in
    `col.computed` of the data column `x`; no buffer of another column reaches `ix` (`hatt`), `x` is not itself attached
    to anything (`hcomp`); the buffer passes of `x` are clean (`BufsOK`: nothing appended, or one section per chunk in a
    well-formed buffer — always so for numeric / enum / key targets). Then the column `ix` resolves to afterwards is
    `applyOther` applied to: the marker ops of the chunk (`commitMarkers` hands them unchanged to every registry column,
    computed ones included), then, per buffer of `x` in order, `seenOps (applyData … (u.rangeOps ch))` = the rewritten
    ops followed by the appended puts, with `x` threaded through (`seenFor`). -/
theorem commitChunk_computed (s : Store) (ch : Nat) (cr : Bool) (ups : List Buf) (x ix : String) (col ic : Col)
    (hxr : x ≠ rowColumn) (hf : s.findCol x = some col) (hd : col.kind.isData = true)
    (hfi : s.findCol ix = some ic) (hci : ic.kind.isComputed = true) (hcount : col.computed.count ix = 1)
    (hcomp : ∀ v ∈ ups, ∀ c, s.findCol v.column = some c → x ∉ c.computed)
    (hatt : ∀ v ∈ ups, v.column ≠ x → v.column ≠ ix ∧ ∀ c, s.findCol v.column = some c → ix ∉ c.computed)
    (hok : BufsOK s.hash x ch ups (applyData s.hash col ch (markerOpsCr cr ups ch)).col) :
    (s.commitChunk ch cr ups).1.findCol ix =
      some (applyOther ic (markerOpsCr cr ups ch ++
        seenFor s.hash x ch ups (applyData s.hash col ch (markerOpsCr cr ups ch)).col)).1 :=
  Store.commitChunk_computed s ch cr ups x ix col ic hxr hf hd hfi hci hcount hcomp hatt hok

/-- the definitions used in the statement, unfolded -/
theorem seenFor_eq (hash : Bytes → Nat) (x : String) (ch : Nat) (u : Buf) (us : List Buf) (c : Col) :
    seenFor hash x ch [] c = [] ∧
    seenFor hash x ch (u :: us) c =
      if u.column = x then
        ((applyData hash c ch (u.rangeOps ch)).ops ++ (applyData hash c ch (u.rangeOps ch)).appended) ++
          seenFor hash x ch us (applyData hash c ch (u.rangeOps ch)).col
      else seenFor hash x ch us c := ⟨rfl, rfl⟩

/-- what the computed pass reads after a clean main pass is exactly that -/
theorem computedPass_reads (hash : Bytes → Nat) (c : Col) (ch : Nat) (u : Buf) (h : PassOK hash c ch u) :
    (mainPass hash c ch u).2.1.rangeOps ch =
      (applyData hash c ch (u.rangeOps ch)).ops ++ (applyData hash c ch (u.rangeOps ch)).appended :=
  pass_seen hash c ch u h

/-- the fields, for the three computed kinds (`applyOther` only moves `bits` / `entries`+`back` / `trig`) -/
theorem commitChunk_computed_fields (s : Store) (ch : Nat) (cr : Bool) (ups : List Buf) (x ix : String) (col ic : Col)
    (hxr : x ≠ rowColumn) (hf : s.findCol x = some col) (hd : col.kind.isData = true)
    (hfi : s.findCol ix = some ic) (hci : ic.kind.isComputed = true) (hcount : col.computed.count ix = 1)
    (hcomp : ∀ v ∈ ups, ∀ c, s.findCol v.column = some c → x ∉ c.computed)
    (hatt : ∀ v ∈ ups, v.column ≠ x → v.column ≠ ix ∧ ∀ c, s.findCol v.column = some c → ix ∉ c.computed)
    (hok : BufsOK s.hash x ch ups (applyData s.hash col ch (markerOpsCr cr ups ch)).col) :
    ∃ ic', (s.commitChunk ch cr ups).1.findCol ix = some ic' ∧ ic'.kind = ic.kind ∧ ic'.name = ic.name ∧
      ic'.computed = ic.computed ∧
      ic'.bits = (applyOther ic (markerOpsCr cr ups ch ++
        seenFor s.hash x ch ups (applyData s.hash col ch (markerOpsCr cr ups ch)).col)).1.bits ∧
      ic'.entries = (applyOther ic (markerOpsCr cr ups ch ++
        seenFor s.hash x ch ups (applyData s.hash col ch (markerOpsCr cr ups ch)).col)).1.entries ∧
      ic'.trig = (applyOther ic (markerOpsCr cr ups ch ++
        seenFor s.hash x ch ups (applyData s.hash col ch (markerOpsCr cr ups ch)).col)).1.trig := by
  have sg := applyOther_sig ic (markerOpsCr cr ups ch ++
    seenFor s.hash x ch ups (applyData s.hash col ch (markerOpsCr cr ups ch)).col)
  exact ⟨_, commitChunk_computed s ch cr ups x ix col ic hxr hf hd hfi hci hcount hcomp hatt hok, sg.kind, sg.name,
    sg.computed, rfl, rfl, rfl⟩

/-- **`Store.commit`** (any number of dirty chunks, any other buffers): the computed column, chunk by chunk in ascending
    order (`compChunks`, with the target threaded through as in `commit_col`), starting from the columns as
    `commitCapacity` leaves them (`capCol`) -/
theorem commit_computed (s : Store) (t : Txn) (x ix : String) (col ic : Col)
    (hxr : x ≠ rowColumn) (hf : s.findCol x = some col) (hd : col.kind.isData = true)
    (hfi : s.findCol ix = some ic) (hci : ic.kind.isComputed = true) (hcount : col.computed.count ix = 1)
    (hcomp : ∀ v ∈ t.updates, ∀ c, s.findCol v.column = some c → x ∉ c.computed)
    (hatt : ∀ v ∈ t.updates, v.column ≠ x → v.column ≠ ix ∧ ∀ c, s.findCol v.column = some c → ix ∉ c.computed)
    (hok : ChunksOK s.hash t.updates x t.dirtyChunks (capCol s t col)) :
    (s.commit t).findCol ix =
      some (compChunks s.hash t.updates x t.dirtyChunks (capCol s t col) (capCol s t ic)) :=
  Store.commit_computed s t x ix col ic hxr hf hd hfi hci hcount hcomp hatt hok

theorem compChunks_eq (hash : Bytes → Nat) (ups : List Buf) (x : String) (ch : Nat) (cs : List Nat) (col ic : Col) :
    compChunks hash ups x [] col ic = ic ∧
    compChunks hash ups x (ch :: cs) col ic =
      compChunks hash ups x cs (applyData hash col ch (markerOps ups ch ++ opsFor ups x ch)).col
        (applyOther ic (markerOps ups ch ++ seenFor hash x ch ups (applyData hash col ch (markerOps ups ch)).col)).1 :=
  ⟨rfl, rfl⟩

/-- numeric target: what the computed columns see of a chunk is the ops issued with every `Merge` turned into a `Put` of
    the value stored by that very op (`rwList`, `Props/C03.numeric_rewrite`) -/
theorem seenChunk_numeric (hash : Bytes → Nat) (ups : List Buf) (x : String) (ch : Nat) (k : NumKind) (col : Col)
    (hk : col.kind = .num k) (hch : ch < col.nchunks) (hmk : ∀ o ∈ markerOps ups ch, o.typ ≠ opMerge) :
    markerOps ups ch ++ seenFor hash x ch ups (applyData hash col ch (markerOps ups ch)).col =
      rwList k col (markerOps ups ch ++ opsFor ups x ch) :=
  seenChunk_num hash ups x ch k col hk hch hmk

/-! ## P2 — the index invariant through `commit` -/

/-- **C03 at store level, one transaction.** `x` numeric (`NumCol`: registered, arrays well-formed, committed chunks
    allocated, merge never returns the empty string), `ix` a bitmap index attached to `x` (`Attached`), the transaction
    well-formed (`NumTxn`) and without a buffer written to `ix` directly. If the index holds exactly the present rows whose
    current value satisfies the rule before `s.commit t`, it does so afterwards — any number of dirty chunks, markers
    (row deletes), puts, merges, other columns' buffers. Every hypothesis is re-established for the store after the commit. -/
theorem commit_indexInv (s : Store) (t : Txn) (x ix : String) (k : NumKind) (tg : String) (rule : RuleFn) (col ic : Col)
    (hxr : x ≠ rowColumn) (hc : NumCol s x k col) (hfi : s.findCol ix = some ic) (hik : ic.kind = .index tg rule)
    (hatt : Attached s x ix) (ht : NumTxn k x t) (hnb : ∀ v ∈ t.updates, v.column ≠ ix)
    (hinv : IndexInv col ic k rule) :
    ∃ col' ic', NumCol (s.commit t) x k col' ∧ (s.commit t).findCol ix = some ic' ∧ ic'.kind = .index tg rule ∧
      Attached (s.commit t) x ix ∧ IndexInv col' ic' k rule ∧
      col' = colChunks s.hash t.updates x t.dirtyChunks (capCol s t col) ∧
      ic' = compChunks s.hash t.updates x t.dirtyChunks (capCol s t col) (capCol s t ic) := by
  have hd : col.kind.isData = true := by rw [hc.kind]; rfl
  have hci : ic.kind.isComputed = true := by rw [hik]; rfl
  obtain ⟨hcomp, hatt'⟩ := hatt.hyps t.updates hnb
  obtain ⟨_, m2, _, m4⟩ := capCol_meta s t col
  have hok := chunksOK_num s.hash t.updates x t.dirtyChunks (capCol s t col) k (m2.trans hc.kind)
  obtain ⟨col', f1, f2, f3, f4, f5, f6, f7, _⟩ := commit_slot_ok s t x col (slotEffect col.merge k.width) hxr hc.find hd
    hc.wf hc.cov hcomp hok (by rw [hc.kind]; exact slotLaw_num s.hash k col.merge) ht.chunkOK
  have g1 := Store.commit_computed s t x ix col ic hxr hc.find hd hfi hci (hatt.once col hc.find) hcomp hatt' hok
  obtain ⟨_, _, _, _, c5, c6⟩ := capCol_data s t col hd
  have hik' : (capCol s t ic).kind = .index tg rule := (capCol_meta s t ic).2.1.trans hik
  refine ⟨col', _, ⟨f1, f2.trans hc.kind, f4, commit_cov s t col col' hc.cov f5 f6, by rw [f3]; exact hc.merge⟩, g1,
    (compChunks_sig _ _ _ _ _ _).kind.trans hik', hatt.commit t, ?_, f7, rfl⟩
  rw [f7]
  exact indexInv_chunks s.hash t.updates x k tg rule t.dirtyChunks _ _ (m2.trans hc.kind) hik' (c5 hc.wf) (c6 hc.cov)
    (chunkOps_chunk t x ht.chunkOK) (fun c _ => ht.canonChunk c) (fun c _ => ht.markerChunk c)
    (by rw [m4]; exact hc.merge) (indexInv_capCol s t col ic k tg rule hc.kind hik hinv)

/-- **C03 at store level, any list of transactions** -/
theorem commits_indexInv (x ix : String) (k : NumKind) (tg : String) (rule : RuleFn) (hxr : x ≠ rowColumn)
    (ts : List Txn) :
    ∀ (s : Store) (col ic : Col), NumCol s x k col → s.findCol ix = some ic → ic.kind = .index tg rule →
      Attached s x ix → (∀ t ∈ ts, NumTxn k x t ∧ ∀ v ∈ t.updates, v.column ≠ ix) → IndexInv col ic k rule →
      ∃ col' ic', NumCol (ts.foldl Store.commit s) x k col' ∧ (ts.foldl Store.commit s).findCol ix = some ic' ∧
        ic'.kind = .index tg rule ∧ Attached (ts.foldl Store.commit s) x ix ∧ IndexInv col' ic' k rule := by
  induction ts with
  | nil => intro s col ic hc hfi hik hatt _ hinv; exact ⟨col, ic, hc, hfi, hik, hatt, hinv⟩
  | cons t ts ih =>
    intro s col ic hc hfi hik hatt hts hinv
    obtain ⟨col1, ic1, a1, a2, a3, a4, a5, _, _⟩ := commit_indexInv s t x ix k tg rule col ic hxr hc hfi hik hatt
      (hts t (by simp)).1 (hts t (by simp)).2 hinv
    simp only [List.foldl_cons]
    exact ih _ col1 ic1 a1 a2 a3 a4 (fun t' ht' => hts t' (by simp [ht'])) a5

/-- the invariant read through the typed reader (`C03.indexInv_read`): after any list of commits the index contains `o`
    iff the column has a value at `o` and the rule accepts it -/
theorem commits_index_selects (x ix : String) (k : NumKind) (tg : String) (rule : RuleFn) (hxr : x ≠ rowColumn)
    (ts : List Txn) (s : Store) (col ic : Col) (hc : NumCol s x k col) (hfi : s.findCol ix = some ic)
    (hik : ic.kind = .index tg rule) (hatt : Attached s x ix)
    (hts : ∀ t ∈ ts, NumTxn k x t ∧ ∀ v ∈ t.updates, v.column ≠ ix) (hinv : IndexInv col ic k rule) :
    ∃ col' ic', (ts.foldl Store.commit s).findCol x = some col' ∧ (ts.foldl Store.commit s).findCol ix = some ic' ∧
      ∀ o, Bits.get ic'.bits o = true ↔
        ∃ v, col'.read o = some v ∧ rule ⟨opPut, o, .fixed k.code (padTo k.width v)⟩ = true := by
  obtain ⟨col', ic', a1, a2, _, _, a5⟩ := commits_indexInv x ix k tg rule hxr ts s col ic hc hfi hik hatt hts hinv
  exact ⟨col', ic', a1.find, a2, C03.indexInv_read col' ic' k rule a1.kind (by rw [a1.wf.bsize]; exact Nat.le_refl _) a5⟩

/-! ### the index created after the data -/

/-- the state before the index exists: the numeric column `x` in the state the theorems need, no row beyond the committed
    chunks (`Live`), the name `ix` not in use, `x` not attached to anything -/
structure PreIndex (s : Store) (x ix : String) (k : NumKind) (col : Col) : Prop where
  num : NumCol s x k col
  live : Live s col
  fresh : s.findCol ix = none
  target : ∀ n c, s.findCol n = some c → x ∉ c.computed
  unlisted : ∀ n c, s.findCol n = some c → ix ∉ c.computed

/-- a commit before the index exists keeps `PreIndex` -/
theorem commit_preIndex (s : Store) (t : Txn) (x ix : String) (k : NumKind) (col : Col) (hxr : x ≠ rowColumn)
    (h : PreIndex s x ix k col) (hinv : ∀ v ∈ t.updates, (v.column = x ∨ isMarkerBuf v = true) → ChunkOK v) :
    ∃ col', PreIndex (s.commit t) x ix k col' := by
  obtain ⟨col', a1, a2, _⟩ := commit_numCol s t x k col hxr h.num (fun v _ c hc => h.target v.column c hc) hinv h.live
  refine ⟨col', a1, a2, ?_, ?_, ?_⟩
  · cases hf : (s.commit t).findCol ix with
    | none => rfl
    | some c =>
      obtain ⟨c0, h0, _⟩ := commit_back s t ix c hf
      rw [h.fresh] at h0; cases h0
  · intro n c hc
    obtain ⟨c0, h0, e, _⟩ := commit_back s t n c hc
    rw [e]; exact h.target n c0 h0
  · intro n c hc
    obtain ⟨c0, h0, e, _⟩ := commit_back s t n c hc
    rw [e]; exact h.unlisted n c0 h0

theorem commits_preIndex (x ix : String) (k : NumKind) (hxr : x ≠ rowColumn) (ts : List Txn) :
    ∀ (s : Store) (col : Col), PreIndex s x ix k col →
      (∀ t ∈ ts, ∀ v ∈ t.updates, (v.column = x ∨ isMarkerBuf v = true) → ChunkOK v) →
      ∃ col', PreIndex (ts.foldl Store.commit s) x ix k col' := by
  induction ts with
  | nil => intro s col h _; exact ⟨col, h⟩
  | cons t ts ih =>
    intro s col h hts
    obtain ⟨col1, h1⟩ := commit_preIndex s t x ix k col hxr h (hts t (by simp))
    simp only [List.foldl_cons]
    exact ih _ col1 h1 (fun t' ht' => hts t' (by simp [ht']))

/-- **`CreateIndex` after the data** (`Store.createComputed` with kind `.index`, fresh name): the back-filled index and its
    target satisfy `IndexInv`, and the pair is `Attached` — everything `commit_indexInv` asks for -/
theorem createIndex_indexInv (s : Store) (x ix : String) (k : NumKind) (rule : RuleFn) (col : Col)
    (h : PreIndex s x ix k col) :
    ∃ col' ic', NumCol (s.createComputed ix x (.index x rule)).1 x k col' ∧
      (s.createComputed ix x (.index x rule)).1.findCol ix = some ic' ∧ ic'.kind = .index x rule ∧
      Attached (s.createComputed ix x (.index x rule)).1 x ix ∧ IndexInv col' ic' k rule := by
  obtain ⟨p, he⟩ := createIndex_eq s x ix rule col h.num.find h.fresh
  rw [he]
  have hxi : x ≠ ix := by
    intro e; rw [e] at h; have := h.num.find; rw [h.fresh] at this; cases this
  have hik0 : (Col.grow { name := ix, kind := .index x rule } s.cap).kind = .index x rule := grow_kind _ _
  obtain ⟨b1, _, b3⟩ := C03.backfill_indexInv s col (Col.grow { name := ix, kind := .index x rule } s.cap) k x rule
    h.num.kind hik0 h.num.cov h.live (C03.createIndex_starts_empty ix x rule s.cap)
  generalize (s.backfill col (Col.grow { name := ix, kind := .index x rule } s.cap)).1 = ic at b1 b3
  have hname : ic.name = ix := b3.name.trans (grow_name _ _)
  have hkind : ic.kind = .index x rule := b3.kind.trans hik0
  have hcomp : ic.computed = [] := b3.computed.trans (grow_computed _ _)
  -- the registry after the push
  have hs1 : ∀ n, ({ s with cols := s.cols.push ic } : Store).findCol n =
      (s.findCol n).or (if n = ix then some ic else none) := by
    intro n
    rw [findCol_push, hname]
    by_cases e : n = ix
    · subst e; simp
    · have : (ix == n) = false := by simpa using fun e' => e e'.symm
      simp [e, this]
  have hs1x : ({ s with cols := s.cols.push ic } : Store).findCol x = some col := by
    rw [hs1, h.num.find]; rfl
  have hfind : ∀ n, ({ (({ s with cols := s.cols.push ic } : Store).setCol
      { col with computed := col.computed ++ [ix] }) with panicked := p } : Store).findCol n =
      if n = x then some { col with computed := col.computed ++ [ix] }
      else (s.findCol n).or (if n = ix then some ic else none) := by
    intro n
    rw [findCol_with_panicked, setCol_found _ col { col with computed := col.computed ++ [ix] } x hs1x rfl n, hs1]
  have hcases : ∀ n c, ({ (({ s with cols := s.cols.push ic } : Store).setCol
      { col with computed := col.computed ++ [ix] }) with panicked := p } : Store).findCol n = some c →
      (n = x ∧ c = { col with computed := col.computed ++ [ix] }) ∨ (n ≠ x ∧ s.findCol n = some c) ∨
      (n ≠ x ∧ n = ix ∧ c = ic) := by
    intro n c hc
    rw [hfind] at hc
    by_cases e : n = x
    · rw [if_pos e] at hc
      exact Or.inl ⟨e, (Option.some.inj hc).symm⟩
    · rw [if_neg e] at hc
      cases hf : s.findCol n with
      | some c0 =>
        rw [hf] at hc
        exact Or.inr (Or.inl ⟨e, by simpa using hc⟩)
      | none =>
        rw [hf] at hc
        by_cases e2 : n = ix
        · rw [if_pos e2] at hc
          exact Or.inr (Or.inr ⟨e, e2, by simpa using hc.symm⟩)
        · rw [if_neg e2] at hc; simp at hc
  refine ⟨{ col with computed := col.computed ++ [ix] }, ic, ⟨?_, h.num.kind, ⟨h.num.wf.bsize, h.num.wf.dsize⟩, ?_,
    h.num.merge⟩, ?_, hkind, ⟨?_, ?_, ?_⟩, b1⟩
  · rw [hfind, if_pos rfl]
  · have : ({ (({ s with cols := s.cols.push ic } : Store).setCol
        { col with computed := col.computed ++ [ix] }) with panicked := p } : Store).commits = s.commits :=
      (setCol_rest _ _).2.2.1
    rw [this]; exact h.num.cov
  · rw [hfind, if_neg (fun e => hxi e.symm), h.fresh, if_pos rfl]; rfl
  · intro n c hc
    rcases hcases n c hc with ⟨_, rfl⟩ | ⟨_, h0⟩ | ⟨_, _, rfl⟩
    · simp only [List.mem_append, List.mem_singleton, not_or]
      exact ⟨h.target x col h.num.find, hxi⟩
    · exact h.target n c h0
    · rw [hcomp]; simp
  · intro n c hc hn
    rcases hcases n c hc with ⟨e, _⟩ | ⟨_, h0⟩ | ⟨_, _, rfl⟩
    · exact absurd e hn
    · exact h.unlisted n c h0
    · rw [hcomp]; simp
  · intro c hc
    rcases hcases x c hc with ⟨_, rfl⟩ | ⟨e, _⟩ | ⟨e, _⟩
    · simp only [List.count_append, List.count_singleton_self]
      rw [List.count_eq_zero_of_not_mem (h.unlisted x col h.num.find)]
    · exact absurd rfl e
    · exact absurd rfl e

/-- **C03, whole history**: a numeric column, any commits, `CreateIndex`, any commits — at the end the index selects
    exactly the present rows whose current value satisfies the rule -/
theorem history_indexInv (x ix : String) (k : NumKind) (rule : RuleFn) (hxr : x ≠ rowColumn) (s0 : Store) (col0 : Col)
    (h0 : PreIndex s0 x ix k col0) (ts1 ts2 : List Txn)
    (h1 : ∀ t ∈ ts1, ∀ v ∈ t.updates, (v.column = x ∨ isMarkerBuf v = true) → ChunkOK v)
    (h2 : ∀ t ∈ ts2, NumTxn k x t ∧ ∀ v ∈ t.updates, v.column ≠ ix) :
    ∃ col ic,
      (ts2.foldl Store.commit ((ts1.foldl Store.commit s0).createComputed ix x (.index x rule)).1).findCol x = some col ∧
      (ts2.foldl Store.commit ((ts1.foldl Store.commit s0).createComputed ix x (.index x rule)).1).findCol ix = some ic ∧
      IndexInv col ic k rule ∧
      ∀ o, Bits.get ic.bits o = true ↔
        ∃ v, col.read o = some v ∧ rule ⟨opPut, o, .fixed k.code (padTo k.width v)⟩ = true := by
  obtain ⟨col1, p1⟩ := commits_preIndex x ix k hxr ts1 s0 col0 h0 h1
  obtain ⟨col2, ic2, c1, c2, c3, c4, c5⟩ := createIndex_indexInv _ x ix k rule col1 p1
  obtain ⟨col3, ic3, d1, d2, _, _, d5⟩ := commits_indexInv x ix k x rule hxr ts2 _ col2 ic2 c1 c2 c3 c4 h2 c5
  exact ⟨col3, ic3, d1.find, d2, d5,
    C03.indexInv_read col3 ic3 k rule d1.kind (by rw [d1.wf.bsize]; exact Nat.le_refl _) d5⟩

/-- **`CreateColumn`** of a numeric column under a fresh name establishes `PreIndex`: the history may start there -/
theorem createColumn_preIndex (s : Store) (x ix : String) (k : NumKind) (merge : Bytes → Bytes → Bytes)
    (hm : ∀ a d, merge a d ≠ []) (hx : s.findCol x = none) (hix : s.findCol ix = none) (hxi : x ≠ ix)
    (hreg : ∀ n c, s.findCol n = some c → x ∉ c.computed ∧ ix ∉ c.computed) :
    ∃ col, PreIndex (s.createColumn x (.num k) merge).1 x ix k col := by
  have he : ∃ capacity, (s.commits.size > 0 → 16384 * (s.commits.size - 1) + 16383 ≤ capacity) ∧
      (s.createColumn x (.num k) merge).1 =
        { s with cols := s.cols.push (Col.grow { name := x, kind := .num k, merge := merge } capacity) } := by
    unfold Store.createColumn
    rw [hx]
    simp only [Option.isSome_none, Bool.false_eq_true, if_false]
    refine ⟨_, ?_, rfl⟩
    intro hpos
    generalize (if s.cap > s.count then s.cap else s.count) = c0
    split
    · exact Nat.le_refl _
    · omega
  obtain ⟨capacity, hcap, he⟩ := he
  rw [he]
  have hd : ({ name := x, kind := .num k, merge := merge } : Col).kind.isData = true := rfl
  obtain ⟨_, _, _, g4, g5, g6, _, _⟩ := grow_data { name := x, kind := .num k, merge := merge } hd capacity
  obtain ⟨n1, n2, n3, n4⟩ := grow_meta ({ name := x, kind := .num k, merge := merge } : Col) capacity
  generalize Col.grow { name := x, kind := .num k, merge := merge } capacity = col at g4 g5 g6 n1 n2 n3 n4
  have hfind : ∀ n, ({ s with cols := s.cols.push col } : Store).findCol n =
      (s.findCol n).or (if n = x then some col else none) := by
    intro n
    rw [findCol_push, n1]
    by_cases e : n = x
    · subst e; simp
    · have : (x == n) = false := by simpa using fun e' => e e'.symm
      simp [e, this]
  have hcases : ∀ n c, ({ s with cols := s.cols.push col } : Store).findCol n = some c →
      s.findCol n = some c ∨ c = col := by
    intro n c hc
    rw [hfind] at hc
    cases hf : s.findCol n with
    | some c0 => rw [hf] at hc; left; simpa using hc
    | none =>
      rw [hf] at hc
      by_cases e : n = x
      · rw [if_pos e] at hc; right; simpa using hc.symm
      · rw [if_neg e] at hc; simp at hc
  refine ⟨col, ⟨?_, n2, g6 ⟨rfl, rfl⟩, ?_, by rw [n4]; exact hm⟩, ?_, ?_, ?_, ?_⟩
  · rw [hfind, hx, if_pos rfl]; rfl
  · show s.commits.size ≤ col.nchunks
    by_cases hpos : s.commits.size > 0
    · have := hcap hpos
      omega
    · omega
  · intro o _
    have := g5 o
    unfold slot at this
    simp only [Prod.mk.injEq] at this
    rw [this.1]
    rfl
  · rw [hfind, hix, if_neg (fun e => hxi e.symm)]; rfl
  · intro n c hc
    rcases hcases n c hc with h0 | rfl
    · exact (hreg n c h0).1
    · rw [n3]; simp
  · intro n c hc
    rcases hcases n c hc with h0 | rfl
    · exact (hreg n c h0).2
    · rw [n3]; simp

/-! ## P3 — non-vacuity: a `uint16` column with a bitmap index and a trigger, a transaction over two chunks with a merge -/

/-- one allocated chunk, byte-wise adding merge, an index and a trigger attached -/
def nCol : Col :=
  { name := "n", kind := .num .u16, nchunks := 1, bits := Array.replicate 16384 false,
    data := Array.replicate 16384 [], merge := C03.addMerge, computed := ["big", "t"] }

/-- "low byte ≥ 7" -/
def bigIdx : Col := { name := "big", kind := .index "n" C03.rule0 }
def trgCol : Col := { name := "t", kind := .trigger "n" }

def exStore : Store := { cols := #[nCol, bigIdx, trgCol], commits := #[0] }

/-- insert rows 3 and 4 (markers), put 3 to row 3, merge 4 onto it (= 7), put 9 to row 20000 (second chunk, not yet
    committed-to: `commitCapacity` grows the columns), then put 2 to row 4 — a second section of chunk 0 in the buffer -/
def exTxn : Txn :=
  ([(rowColumn, ⟨opInsert, 3, .fixed 0 []⟩), (rowColumn, ⟨opInsert, 4, .fixed 0 []⟩),
    ("n", ⟨opPut, 3, .fixed 1 [0, 3]⟩), ("n", ⟨opMerge, 3, .fixed 1 [0, 4]⟩),
    ("n", ⟨opPut, 20000, .fixed 1 [0, 9]⟩), ("n", ⟨opPut, 4, .fixed 1 [0, 2]⟩)] : List (String × Op)).foldl
      (fun t p => t.putOp p.1 p.2) {}

/-- a later transaction: delete row 3 through a marker -/
def delTxn : Txn := ({} : Txn).putOp rowColumn ⟨opDelete, 3, .fixed 0 []⟩

theorem exStore_find_n : exStore.findCol "n" = some nCol := by simp [exStore, Store.findCol, nCol]
theorem exStore_find_big : exStore.findCol "big" = some bigIdx := by simp [exStore, Store.findCol, nCol, bigIdx]
theorem exStore_find_t : exStore.findCol "t" = some trgCol := by
  simp [exStore, Store.findCol, nCol, bigIdx, trgCol]

theorem exTxn_dirty : exTxn.dirtyChunks = [0, 1] := by decide

theorem exStore_cases : ∀ n c, exStore.findCol n = some c →
    (n = "n" ∧ c = nCol) ∨ (n = "big" ∧ c = bigIdx) ∨ (n = "t" ∧ c = trgCol) := by
  intro n c h
  have hn := findCol_name h
  have := findCol_mem h
  simp only [exStore, List.mem_toArray, List.mem_cons, List.not_mem_nil, or_false] at this
  rcases this with rfl | rfl | rfl
  · exact Or.inl ⟨hn.symm, rfl⟩
  · exact Or.inr (Or.inl ⟨hn.symm, rfl⟩)
  · exact Or.inr (Or.inr ⟨hn.symm, rfl⟩)

theorem ex_numCol : NumCol exStore "n" .u16 nCol :=
  ⟨exStore_find_n, rfl, ⟨by simp [nCol], by simp [nCol]⟩, by decide, by intro a d; simp [nCol, C03.addMerge]⟩

theorem ex_attached_big : Attached exStore "n" "big" := by
  refine ⟨?_, ?_, ?_⟩
  · intro n c h
    rcases exStore_cases n c h with ⟨_, rfl⟩ | ⟨_, rfl⟩ | ⟨_, rfl⟩ <;> decide
  · intro n c h hn
    rcases exStore_cases n c h with ⟨e, _⟩ | ⟨_, rfl⟩ | ⟨_, rfl⟩
    · exact absurd e hn
    · decide
    · decide
  · intro c h
    rw [exStore_find_n] at h
    cases h
    decide

theorem ex_attached_t : Attached exStore "n" "t" := by
  refine ⟨ex_attached_big.target, ?_, ?_⟩
  · intro n c h hn
    rcases exStore_cases n c h with ⟨e, _⟩ | ⟨_, rfl⟩ | ⟨_, rfl⟩
    · exact absurd e hn
    · decide
    · decide
  · intro c h
    rw [exStore_find_n] at h
    cases h
    decide

theorem ex_numTxn : NumTxn .u16 "n" exTxn := by
  refine ⟨?_, ?_, by decide⟩
  · have : ∀ v ∈ exTxn.updates, ∀ s ∈ v.rsecs, ∀ o ∈ s.rops, chunkOf o.idx = s.chunk := by decide
    intro v hv _
    exact this v hv
  · have : allFor exTxn.updates "n" = [⟨opPut, 3, .fixed 1 [0, 3]⟩, ⟨opMerge, 3, .fixed 1 [0, 4]⟩,
        ⟨opPut, 20000, .fixed 1 [0, 9]⟩, ⟨opPut, 4, .fixed 1 [0, 2]⟩] := by decide
    rw [this]
    intro o ho hp
    simp only [List.mem_cons, List.not_mem_nil, or_false] at ho
    rcases ho with rfl | rfl | rfl | rfl
    · exact ⟨[0, 3], rfl, rfl⟩
    · exact absurd hp (by decide)
    · exact ⟨[0, 9], rfl, rfl⟩
    · exact ⟨[0, 2], rfl, rfl⟩

theorem ex_numTxn_del : NumTxn .u16 "n" delTxn := by
  refine ⟨?_, ?_, by decide⟩
  · have : ∀ v ∈ delTxn.updates, ∀ s ∈ v.rsecs, ∀ o ∈ s.rops, chunkOf o.idx = s.chunk := by decide
    intro v hv _
    exact this v hv
  · have : allFor delTxn.updates "n" = [] := by decide
    rw [this]
    intro o ho
    cases ho

theorem nCol_slot (o : Nat) : slot nCol o = (false, []) := by
  have hd : (nCol.data[o]?).getD [] = [] := by
    show ((Array.replicate 16384 ([] : Bytes))[o]?).getD [] = []
    rw [Array.getElem?_replicate]
    split <;> rfl
  unfold slot
  rw [show Bits.get nCol.bits o = false from get_replicate_false _ _, hd]

theorem ex_indexInv : IndexInv nCol bigIdx .u16 C03.rule0 := by
  intro o
  have h1 : Bits.get bigIdx.bits o = false := rfl
  have h2 : Bits.get nCol.bits o = false := get_replicate_false _ _
  rw [h1, h2]
  rfl

/-- the buffer of "n" has two sections for chunk 0 (and the pass rewrites a merge in the first) -/
example : (exTxn.updates.filter (fun b => b.column == "n")).map Buf.chunks = [[0, 1, 0]] := by decide

/-- P1 applied to the index and to the trigger, first dirty chunk -/
example : (exStore.commitChunk 0 true exTxn.updates).1.findCol "big" =
    some (applyOther bigIdx (markerOpsCr true exTxn.updates 0 ++
      seenFor exStore.hash "n" 0 exTxn.updates (applyData exStore.hash nCol 0 (markerOpsCr true exTxn.updates 0)).col)).1 :=
  commitChunk_computed exStore 0 true exTxn.updates "n" "big" nCol bigIdx (by decide) exStore_find_n rfl
    exStore_find_big rfl (by decide) (ex_attached_big.hyps exTxn.updates (by decide)).1
    (ex_attached_big.hyps exTxn.updates (by decide)).2
    (bufsOK_num _ _ _ _ _ .u16 ((applyData_sameShape _ _ _ _).kind.trans rfl))

example : (exStore.commit exTxn).findCol "t" =
    some (compChunks exStore.hash exTxn.updates "n" exTxn.dirtyChunks (capCol exStore exTxn nCol)
      (capCol exStore exTxn trgCol)) :=
  commit_computed exStore exTxn "n" "t" nCol trgCol (by decide) exStore_find_n rfl exStore_find_t rfl (by decide)
    (ex_attached_t.hyps exTxn.updates (by decide)).1 (ex_attached_t.hyps exTxn.updates (by decide)).2
    (chunksOK_num _ _ _ _ _ .u16 rfl)

/-- what the index and the trigger receive in chunk 0: the two markers, then the ops of both sections with the merge
    turned into a put of the stored sum `[0, 7]` -/
theorem ex_seen0 : markerOps exTxn.updates 0 ++
    seenFor exStore.hash "n" 0 exTxn.updates (applyData exStore.hash nCol 0 (markerOps exTxn.updates 0)).col =
    [⟨opInsert, 3, .fixed 0 []⟩, ⟨opInsert, 4, .fixed 0 []⟩, ⟨opPut, 3, .fixed 1 [0, 3]⟩, ⟨opPut, 3, .fixed 1 [0, 7]⟩,
     ⟨opPut, 4, .fixed 1 [0, 2]⟩] := by
  rw [seenChunk_numeric exStore.hash exTxn.updates "n" 0 .u16 nCol rfl (by decide) (by decide)]
  decide +kernel

/-- P2 applied: the invariant after the commit, and after a later delete -/
theorem ex_commit : ∃ col' ic', NumCol (exStore.commit exTxn) "n" .u16 col' ∧
    (exStore.commit exTxn).findCol "big" = some ic' ∧ ic'.kind = .index "n" C03.rule0 ∧
    Attached (exStore.commit exTxn) "n" "big" ∧ IndexInv col' ic' .u16 C03.rule0 := by
  obtain ⟨col', ic', h1, h2, h3, h4, h5, _⟩ := commit_indexInv exStore exTxn "n" "big" .u16 "n" C03.rule0 nCol bigIdx
    (by decide) ex_numCol exStore_find_big rfl ex_attached_big ex_numTxn (by decide) ex_indexInv
  exact ⟨col', ic', h1, h2, h3, h4, h5⟩

example : ∃ col' ic', ([exTxn, delTxn].foldl Store.commit exStore).findCol "n" = some col' ∧
    ([exTxn, delTxn].foldl Store.commit exStore).findCol "big" = some ic' ∧
    ∀ o, Bits.get ic'.bits o = true ↔
      ∃ v, col'.read o = some v ∧ C03.rule0 ⟨opPut, o, .fixed NumKind.u16.code (padTo NumKind.u16.width v)⟩ = true :=
  commits_index_selects "n" "big" .u16 "n" C03.rule0 (by decide) [exTxn, delTxn] exStore nCol bigIdx ex_numCol
    exStore_find_big rfl ex_attached_big
    (by
      intro t ht
      simp only [List.mem_cons, List.not_mem_nil, or_false] at ht
      rcases ht with rfl | rfl
      · exact ⟨ex_numTxn, by decide⟩
      · exact ⟨ex_numTxn_del, by decide⟩)
    ex_indexInv

/-- the concrete bits: row 3 holds 3 + 4 = 7 (selected: the index saw the merged value), row 4 holds 2 (not selected),
    row 20000 in the second chunk holds 9 (selected), row 5 was never written -/
theorem ex_bits : ∃ ic', (exStore.commit exTxn).findCol "big" = some ic' ∧ Bits.get ic'.bits 3 = true ∧
    Bits.get ic'.bits 4 = false ∧ Bits.get ic'.bits 20000 = true ∧ Bits.get ic'.bits 5 = false := by
  obtain ⟨col', ic', h1, h2, _, _, h5, e1, _⟩ := commit_indexInv exStore exTxn "n" "big" .u16 "n" C03.rule0 nCol bigIdx
    (by decide) ex_numCol exStore_find_big rfl ex_attached_big ex_numTxn (by decide) ex_indexInv
  obtain ⟨c2, f1, _, _, _, _, _, _, f8⟩ := commit_slot_ok exStore exTxn "n" nCol (slotEffect nCol.merge NumKind.u16.width)
    (by decide) exStore_find_n rfl ex_numCol.wf ex_numCol.cov (ex_attached_big.hyps exTxn.updates (by decide)).1
    (chunksOK_num _ _ _ _ _ .u16 rfl) (slotLaw_num _ _ _) ex_numTxn.chunkOK
  rw [h1.find] at f1
  cases f1
  have s0 : ∀ o, slot nCol o = (false, []) := nCol_slot
  have hget : ∀ o, Bits.get ic'.bits o =
      ((slot col' o).1 && C03.rule0 ⟨opPut, o, .fixed NumKind.u16.code (padTo NumKind.u16.width (slot col' o).2)⟩) :=
    fun o => h5 o
  refine ⟨ic', h2, ?_, ?_, ?_, ?_⟩
  · rw [hget, f8, s0]; decide
  · rw [hget, f8, s0]; decide
  · rw [hget, f8, s0]; decide
  · rw [hget, f8, s0]; decide

/-- the whole history, from `CreateColumn`: create "n", commit, create the index "big", commit -/
def exBase : Store := { commits := #[0] }

example : ∃ col ic,
    ([delTxn].foldl Store.commit (([exTxn].foldl Store.commit
      (exBase.createColumn "n" (.num .u16) C03.addMerge).1).createComputed "big" "n" (.index "n" C03.rule0)).1).findCol "n"
        = some col ∧
    ([delTxn].foldl Store.commit (([exTxn].foldl Store.commit
      (exBase.createColumn "n" (.num .u16) C03.addMerge).1).createComputed "big" "n" (.index "n" C03.rule0)).1).findCol "big"
        = some ic ∧ IndexInv col ic .u16 C03.rule0 ∧
    ∀ o, Bits.get ic.bits o = true ↔
      ∃ v, col.read o = some v ∧ C03.rule0 ⟨opPut, o, .fixed NumKind.u16.code (padTo NumKind.u16.width v)⟩ = true := by
  obtain ⟨col0, h0⟩ := createColumn_preIndex exBase "n" "big" .u16 C03.addMerge (by intro a d; simp [C03.addMerge])
    (by simp [exBase, Store.findCol]) (by simp [exBase, Store.findCol]) (by decide)
    (by intro n c h; simp [exBase, Store.findCol] at h)
  exact history_indexInv "n" "big" .u16 C03.rule0 (by decide) _ col0 h0 [exTxn] [delTxn]
    (by
      intro t ht
      simp only [List.mem_singleton] at ht
      subst ht
      exact ex_numTxn.chunkOK)
    (by
      intro t ht
      simp only [List.mem_singleton] at ht
      subst ht
      exact ⟨ex_numTxn_del, by decide⟩)

section Axioms
#print axioms commitChunk_computed
#print axioms commit_computed
#print axioms commit_indexInv
#print axioms commits_indexInv
#print axioms createIndex_indexInv
#print axioms createColumn_preIndex
#print axioms history_indexInv
#print axioms ex_bits
end Axioms

end ColumnVerif.Props.C03store
