import ColumnVerif.Conc.Invariants
/-!
# C10 — a reader never sees a half-applied commit

A commit writes column A and then column B of the chunk under the chunk's write latch; a reader
reads A and then B under one read-latch hold (`obs` records what it saw at `RUnlock`). Over every
schedule of the machine in `Conc/Machine.lean`: both values carry the same commit id.
-/
namespace ColumnVerif.Props.C10
open ColumnVerif.Conc

variable {cfg : ProtoCfg} {merge : Nat → Nat → Nat} {w0 w : W}

/-- every observation made under one read-latch hold shows one version of the chunk -/
theorem reader_sees_one_version (hi : Init w0) (hr : Reach cfg merge w0 w) :
    ∀ p ∈ w.obs, p.2.1 = p.2.2 :=
  (reach_inv hi hr).rd.obs

/-- whenever no writer holds the chunk, its two columns agree -/
theorem columns_agree_when_free (hi : Init w0) (hr : Reach cfg merge w0 w) {c : Nat}
    (h : w.holder c = none) : w.colA c = w.colB c :=
  (reach_inv hi hr).wr.same_free c h

/-- while a reader holds the read latch of `c`, the two columns agree (and cannot change) -/
theorem columns_agree_while_reading (hi : Init w0) (hr : Reach cfg merge w0 w) {t c : Nat}
    (h : rchunk (w.pc t) = some c) : w.colA c = w.colB c :=
  columns_agree_when_free hi hr ((reach_inv hi hr).m.rd_free h)

/-- what a reader has read so far is what the columns hold now -/
theorem reader_values_current (hi : Init w0) (hr : Reach cfg merge w0 w) {t c a b : Nat} :
    (w.pc t = .readA c a → a = w.colA c) ∧
    (w.pc t = .readAB c a b → a = w.colA c ∧ b = w.colB c ∧ a = b) := by
  have h := reach_inv hi hr
  refine ⟨h.rd.readA t c a, fun hp => ?_⟩
  obtain ⟨ha, hb⟩ := h.rd.readAB t c a b hp
  have := columns_agree_while_reading hi hr (t := t) (c := c) (by rw [hp]; rfl)
  exact ⟨ha, hb, by rw [ha, hb]; exact this⟩

/-- the only moment the columns of a chunk differ is between `writeA` and `writeB` of its holder -/
theorem columns_differ_only_mid_commit (hi : Init w0) (hr : Reach cfg merge w0 w) {c : Nat}
    (h : w.colA c ≠ w.colB c) : ∃ t id, w.holder c = some t ∧ w.pc t = .wroteA c id := by
  have hv := reach_inv hi hr
  cases hh : w.holder c with
  | none => exact absurd (hv.wr.same_free c hh) h
  | some t =>
    have hw := hv.m.hpc t c hh
    cases hm : midAB (w.pc t) with
    | false => exact absurd (hv.wr.same_held t c hw hm) h
    | true =>
      refine ⟨t, ?_⟩
      cases hp : w.pc t <;> rw [hp] at hm hw <;> simp [midAB, wchunk] at hm hw
      subst hw
      exact ⟨_, rfl, rfl⟩

/-! ### non-vacuity -/

/-- a concrete initial world and a 13-step run: thread 0 commits chunk 0 with id 1, then thread 2
    reads both columns and observes `(1, 1)` -/
example : ∃ w0 w, Init w0 ∧ Reach ProtoCfg.good (· + ·) w0 w ∧ w.obs = [(0, 1, 1)] := by
  obtain ⟨w, hr, _, _, hobs, _⟩ := Demo.run_good ProtoCfg.good rfl (· + ·)
  exact ⟨Demo.w0, w, Demo.init_w0, hr, hobs⟩

end ColumnVerif.Props.C10
