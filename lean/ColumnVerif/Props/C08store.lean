import ColumnVerif.Lemmas.RestoreTail
import ColumnVerif.Props.C06store
import ColumnVerif.Props.C07more
/-!
# C08 / C07 at store level — `Restore` = state section + the logged commits newer than each chunk's stored id

The sequential core of "a snapshot restores to a consistent cut". The state section of the snapshot was taken of a primary
`p0`; transactions `ts` are then committed on the primary while the recorder is open (logger kind `.log`); the snapshot file
is the state of `p0` followed by the logged entries. Restoring it into a fresh store with the same schema gives the primary
AFTER `ts`. (`Props/C08.lean` is the other half: what the recorded log contains under concurrency.)

Vocabulary (`Lemmas/RestoreTail.lean`): `Snap.lastOf snap ch` — the commit id the state section stores with chunk `ch`
(`0` when it holds no such chunk); `Snap.newer snap e` — the id test `e.id > lastOf snap e.chunk`; `IdsOK s` — no chunk
stores a commit id above `s.nextId`.

1. `restore_eq_readState_replay` — `Store.restore` is `readState` followed by `replayAll` over the FILTERED tail.
2. `IdsOK` (`idsOK_new`, `idsOK_createColumn`, `idsOK_commit`, `idsOK_commits`), `tail_all_newer`, `tail_filter_all`.
3. `restore_tail_converges` (main), `restore_tail_converges_newCommits`, `restore_tail_converges_stream`.
4. `restore_skips_older`, `older_entries_skipped`, `restore_overlap_converges` (the state already contains some of the
   logged commits: the id filter makes the replay idempotent).
5. `SourceOK` is kept by commits (`sourceOK_commit`, `sourceOK_commits`), `restore_overlap_converges_from`.
6. non-vacuity: `ex_restore_converges`, `ex_older_skipped`, `ex_overlap_converges`.
-/
namespace ColumnVerif.Props.C08store
open ColumnVerif.Codec ColumnVerif.Store ColumnVerif.Bits
open ColumnVerif.Props.C06store ColumnVerif.Props.C07

/-! ## 1 — `restore` unfolded -/

/-- **`restore_eq_readState_replay`.** `Restore` reads the state section, then replays — in order, as the logger kind `k`
    delivers them — exactly the logged commits whose id is above the id stored with their chunk. -/
theorem restore_eq_readState_replay (s : Store) (snap : Snap) (k : LoggerKind) :
    s.restore snap k =
      replayAll k (s.readState snap) (snap.tail.filter (fun e => decide (e.id > snap.lastOf e.chunk))) :=
  restore_eq_replayAll s snap k

/-- what the id test compares with, for a snapshot of `s`: the collection's last commit id of the chunk -/
theorem lastOf_snapshot_eq (s : Store) (ch : Nat) : (s.snapshot).1.lastOf ch = s.commits.getD ch 0 :=
  lastOf_snapshot s ch

/-! ## 2 — commit ids are consistent; nothing of the tail is filtered out -/

theorem idsOK_new (cap : Nat) (lg : LoggerKind) (hash : Bytes → Nat) : IdsOK (Store.new cap lg hash) :=
  new_idsOK cap lg hash

theorem idsOK_createColumn (s : Store) (name : String) (kind : Kind) (merge : Bytes → Bytes → Bytes) (h : IdsOK s) :
    IdsOK (s.createColumn name kind merge).1 := createColumn_idsOK s name kind merge h

/-- **`IdsOK` is kept by `Store.commit`** (hence by `Store.replay`, `readState`) -/
theorem idsOK_commit (s : Store) (t : Txn) (h : IdsOK s) : IdsOK (s.commit t) := commit_idsOK s t h

theorem idsOK_commits (s : Store) (ts : List Txn) (h : IdsOK s) : IdsOK (ts.foldl Store.commit s) :=
  commits_idsOK ts s h

/-- **`tail_all_newer`.** The state was taken of `p0` (ids consistent); every entry the commits `ts` hand to the logger
    afterwards has an id above `p0.nextId`, which is at least the id the state stores with the entry's chunk. -/
theorem tail_all_newer (p0 : Store) (ts : List Txn) (h : IdsOK p0) :
    ∀ e ∈ emittedByAll p0 ts, p0.nextId < e.id ∧ (p0.snapshot).1.lastOf e.chunk ≤ p0.nextId ∧
      (p0.snapshot).1.newer e = true := by
  intro e he
  have h1 := (emittedByAll_ids ts p0 e he).1
  have h2 : (p0.snapshot).1.lastOf e.chunk ≤ p0.nextId := by rw [lastOf_snapshot]; exact h e.chunk
  refine ⟨h1, h2, ?_⟩
  unfold Snap.newer
  simp only [decide_eq_true_eq]
  omega

/-- the same for the entries in C15's form (`newCommits`: what the history added to the change stream, most recent first) -/
theorem tail_all_newer_newCommits (p0 : Store) (ts : List Txn) (h : IdsOK p0) (hl : p0.logger ≠ .none) :
    ∀ e ∈ C15.newCommits p0 (ts.foldl Store.commit p0), p0.nextId < e.id ∧ (p0.snapshot).1.newer e = true := by
  intro e he
  rw [C15.newCommits_of_append (emitted_of_commits ts p0 hl)] at he
  have := tail_all_newer p0 ts h e (List.mem_reverse.1 he)
  exact ⟨this.1, this.2.2⟩

/-- … so the filter of `Restore` keeps the whole tail -/
theorem tail_filter_all (p0 : Store) (ts : List Txn) (h : IdsOK p0) :
    (emittedByAll p0 ts).filter (p0.snapshot).1.newer = emittedByAll p0 ts :=
  filter_newer_all _ _ (emittedByAll_newer p0 ts h)

/-! ## 3 — the main theorem -/

/-- what the theorems ask of the primary `p0` at the moment the state section is written, for the numeric column `x`
    (registered as `c`): distinct column names, no column called `row`, `x` well-formed and covering the committed chunks
    (all kept by the API), present slots hold a value (`CanonAt`: every typed `Put` / merge result does), no present slot
    and no live row beyond the committed chunks (a row becomes present only through a commit of its chunk). Nothing is
    asked of the bytes ABSENT slots hold (`Delete` leaves them in place). -/
structure SourceOK (p0 : Store) (x : String) (k : NumKind) (c : Col) : Prop where
  names : NamesDistinct p0
  norow : p0.findCol rowColumn = none
  find : p0.findCol x = some c
  kind : c.kind = .num k
  wf : ColWF c
  cov : p0.commits.size ≤ c.nchunks
  canon : ∀ ch, CanonAt c ch
  live : ∀ i, Bits.get c.bits i = true → i / 16384 < p0.nChunks
  committed : ∀ j, Bits.get p0.fill j = true → j / 16384 < p0.nChunks

/-- what they ask of the fresh target `s0` (same schema): the column `x` registered with the same numeric kind (its merge
    function is free), well-formed and covering the committed chunks, computed columns of computed kinds, no slot present,
    no row -/
structure TargetOK (s0 : Store) (x : String) (k : NumKind) (c0 : Col) : Prop where
  find : s0.findCol x = some c0
  kind : c0.kind = .num k
  wf : ColWF c0
  cov : s0.commits.size ≤ c0.nchunks
  computed : ComputedKinds s0
  fresh : ∀ i, Bits.get c0.bits i = false
  fill : ∀ j, Bits.get s0.fill j = false

theorem SourceOK.ne_row {p0 : Store} {x : String} {k : NumKind} {c : Col} (h : SourceOK p0 x k c) : x ≠ rowColumn := by
  intro e
  have := h.find
  rw [e, h.norow] at this
  cases this

/-- **a fresh collection with the same column is such a target**: `NewCollection` (any capacity, logger, hash) followed by
    `CreateColumn x` with the numeric kind `k` and ANY merge function -/
theorem targetOK_fresh (cap : Nat) (lg : LoggerKind) (hash : Bytes → Nat) (x : String) (k : NumKind)
    (m : Bytes → Bytes → Bytes) (hx : "expire" ≠ x) :
    ∃ c0, TargetOK ((Store.new cap lg hash).createColumn x (.num k) m).1 x k c0 ∧ ∀ i, c0.data.getD i [] = [] := by
  obtain ⟨c0, f, hk, w, cv, sl, hfill⟩ := createColumn_fresh (Store.new cap lg hash) x k m (new_findCol_none cap lg hash x hx)
  refine ⟨c0, ⟨f, hk, w, cv, ?_, fun i => congrArg Prod.fst (sl i), fun j => ?_⟩, fun i => ?_⟩
  · exact computedKinds_of_noComputed _
      (noComputed_createColumn _ x (.num k) m (sameStart_new cap cap lg lg hash hash).ncp)
  · rw [hfill]
    simp [Store.new, Bits.get]
  · rw [getD_eq]
    exact congrArg Prod.snd (sl i)

/-- the state section alone: the restored state reads like `p0`, the fill lists agree -/
theorem readState_sync (p0 s0 : Store) (x : String) (k : NumKind) (c c0 : Col)
    (hp : SourceOK p0 x k c) (h0 : TargetOK s0 x k c0) :
    RdSync x p0 (s0.readState (p0.snapshot).1) ∧ FillSync p0 (s0.readState (p0.snapshot).1) ∧
    ComputedKinds (s0.readState (p0.snapshot).1) :=
  ⟨rdSync_readState p0 s0 x k c c0 hp.names hp.norow hp.find hp.kind hp.wf hp.cov h0.find h0.kind h0.wf h0.cov
      h0.computed (fun i hb => hp.canon _ i rfl hb) hp.live h0.fresh,
    fillSync_readState p0 s0 hp.names hp.norow hp.committed h0.fill,
    readState_computedKinds p0 s0 h0.computed⟩

/-- … slot by slot (raw bytes of absent slots included) when the absent slots of `p0` hold no stale bytes and the target's
    column holds no bytes at all -/
theorem readState_sync_slots (p0 s0 : Store) (x : String) (k : NumKind) (c c0 : Col)
    (hp : SourceOK p0 x k c) (h0 : TargetOK s0 x k c0)
    (hclean : ∀ i, Bits.get c.bits i = false → c.data.getD i [] = []) (hfreshd : ∀ i, c0.data.getD i [] = []) :
    NumSync x p0 (s0.readState (p0.snapshot).1) :=
  numSync_readState p0 s0 x k c c0 hp.names hp.norow hp.find hp.kind hp.wf hp.cov h0.find h0.kind h0.wf h0.cov
    h0.computed (fun i hb => hp.canon _ i rfl hb) hp.live hclean h0.fresh hfreshd

/-- the restore of `state of p0 ++ entries emitted by ts` is the state read, then ALL those entries replayed -/
theorem restore_tail_eq (p0 s0 : Store) (ts : List Txn) (k : LoggerKind) (hids : IdsOK p0) :
    s0.restore { (p0.snapshot).1 with tail := emittedByAll p0 ts } k =
      replayAll k (s0.readState (p0.snapshot).1) (emittedByAll p0 ts) := by
  rw [restore_eq_replayAll]
  show replayAll k (s0.readState (p0.snapshot).1) ((emittedByAll p0 ts).filter (p0.snapshot).1.newer) = _
  rw [tail_filter_all p0 ts hids]

/-- **`restore_tail_converges`.** The state section is taken of the primary `p0` (ids consistent, computed columns of
    computed kinds, `SourceOK`); the well-formed transactions `ts` are then committed on the primary, giving `p'`;
    the snapshot is the state of `p0` followed by the entries those commits handed to the logger (`emittedByAll p0 ts`).
    Restored into a fresh target `s0` with the same column (`TargetOK`), the result `r` is the primary AFTER `ts`: the
    numeric column `x` reads in sync (`RdSync`: registered and well-formed on both sides, same presence bit and — when
    present — same bytes in every slot), hence **reads the same at EVERY offset** (`none` = row absent), and the fill lists
    agree bit by bit. The merge function of the target is never consulted (the log holds the `Put` of every merge result).
    `emittedByAll p0 ts` is what the commits hand to a logger, in emission order; with the `.log` logger attached it is the
    recorded change stream (`restore_tail_converges_newCommits`, `restore_tail_converges_stream`). -/
theorem restore_tail_converges (p0 s0 : Store) (ts : List Txn) (x : String) (k : NumKind) (c c0 : Col)
    (hids : IdsOK p0) (hckp : ComputedKinds p0)
    (hp : SourceOK p0 x k c) (h0 : TargetOK s0 x k c0) (hts : ∀ t ∈ ts, TxnWF t) :
    let p' := ts.foldl Store.commit p0
    let snap : Snap := { (p0.snapshot).1 with tail := emittedByAll p0 ts }
    let r := s0.restore snap .log
    RdSync x p' r ∧
    (∃ cp cq, p'.findCol x = some cp ∧ r.findCol x = some cq ∧ ∀ i, cq.read i = cp.read i) ∧
    FillSync p' r := by
  intro p' snap r
  obtain ⟨hs, hfill, hckr⟩ := readState_sync p0 s0 x k c c0 hp h0
  have hr : r = replayAll .log (s0.readState (p0.snapshot).1) (emittedByAll p0 ts) := restore_tail_eq p0 s0 ts .log hids
  have hdl := emittedByAll_delivers_log ts p0 (fun t ht => (hts t ht).distinct)
  have h1 : RdSync x p' r := by
    rw [hr]
    exact commits_replay_rd x hp.ne_row .log ts p0 _ hckp hckr (fun t ht => (hts t ht).ok x) hdl hs
  have h2 : FillSync p' r := by
    rw [hr]
    exact commits_replay_fill .log ts p0 _ hdl hfill
  exact ⟨h1, h1.read, h2⟩

/-- the same with slots in sync (`NumSync`: raw bytes of absent slots included), for a primary without stale bytes -/
theorem restore_tail_converges_slots (p0 s0 : Store) (ts : List Txn) (x : String) (k : NumKind) (c c0 : Col)
    (hids : IdsOK p0) (hckp : ComputedKinds p0)
    (hp : SourceOK p0 x k c) (h0 : TargetOK s0 x k c0) (hts : ∀ t ∈ ts, TxnWF t)
    (hclean : ∀ i, Bits.get c.bits i = false → c.data.getD i [] = []) (hfreshd : ∀ i, c0.data.getD i [] = []) :
    NumSync x (ts.foldl Store.commit p0) (s0.restore { (p0.snapshot).1 with tail := emittedByAll p0 ts } .log) := by
  rw [restore_tail_eq p0 s0 ts .log hids]
  exact commits_replay_num x hp.ne_row .log ts p0 _ hckp (readState_computedKinds p0 s0 h0.computed)
    (fun t ht => (hts t ht).ok x) (emittedByAll_delivers_log ts p0 (fun t ht => (hts t ht).distinct))
    (readState_sync_slots p0 s0 x k c c0 hp h0 hclean hfreshd)

/-- the tail in C15's form: the entries the history added to the change stream (`newCommits`, most recent first), reversed -/
theorem restore_tail_converges_newCommits (p0 s0 : Store) (ts : List Txn) (x : String) (k : NumKind) (c c0 : Col)
    (hids : IdsOK p0) (hl : p0.logger = .log) (hckp : ComputedKinds p0)
    (hp : SourceOK p0 x k c) (h0 : TargetOK s0 x k c0) (hts : ∀ t ∈ ts, TxnWF t) :
    let p' := ts.foldl Store.commit p0
    let snap : Snap := { (p0.snapshot).1 with tail := (C15.newCommits p0 p').reverse }
    let r := s0.restore snap .log
    RdSync x p' r ∧
    (∃ cp cq, p'.findCol x = some cp ∧ r.findCol x = some cq ∧ ∀ i, cq.read i = cp.read i) ∧
    FillSync p' r := by
  intro p' snap r
  have hstream : (C15.newCommits p0 (ts.foldl Store.commit p0)).reverse = emittedByAll p0 ts := by
    rw [C15.newCommits_of_append (emitted_of_commits ts p0 (by rw [hl]; decide)), List.reverse_reverse]
  have e : r = s0.restore { (p0.snapshot).1 with tail := emittedByAll p0 ts } .log := by
    show s0.restore { (p0.snapshot).1 with tail := (C15.newCommits p0 (ts.foldl Store.commit p0)).reverse } .log = _
    rw [hstream]
  rw [e]
  exact restore_tail_converges p0 s0 ts x k c c0 hids hckp hp h0 hts

/-- the recorder opened at `p0` (empty change stream): the tail is the primary's whole change stream, oldest first -/
theorem restore_tail_converges_stream (p0 s0 : Store) (ts : List Txn) (x : String) (k : NumKind) (c c0 : Col)
    (hids : IdsOK p0) (hl : p0.logger = .log) (hem : p0.emitted = []) (hckp : ComputedKinds p0)
    (hp : SourceOK p0 x k c) (h0 : TargetOK s0 x k c0) (hts : ∀ t ∈ ts, TxnWF t) :
    let p' := ts.foldl Store.commit p0
    let snap : Snap := { (p0.snapshot).1 with tail := p'.emitted.reverse }
    let r := s0.restore snap .log
    RdSync x p' r ∧
    (∃ cp cq, p'.findCol x = some cp ∧ r.findCol x = some cq ∧ ∀ i, cq.read i = cp.read i) ∧
    FillSync p' r := by
  intro p' snap r
  have hstream : (ts.foldl Store.commit p0).emitted.reverse = emittedByAll p0 ts := by
    rw [emitted_of_commits ts p0 (by rw [hl]; decide), hem, List.append_nil, List.reverse_reverse]
  have e : r = s0.restore { (p0.snapshot).1 with tail := emittedByAll p0 ts } .log := by
    show s0.restore { (p0.snapshot).1 with tail := (ts.foldl Store.commit p0).emitted.reverse } .log = _
    rw [hstream]
  rw [e]
  exact restore_tail_converges p0 s0 ts x k c c0 hids hckp hp h0 hts

/-! ## 4 — the complementary half: older entries are skipped -/

/-- **`restore_skips_older`.** Entries of the tail whose id is at most the id stored with their chunk are skipped: a tail
    `older ++ newer` with all of `older` failing the id test restores like the tail `newer` (whatever `newer` is). -/
theorem restore_skips_older (s : Store) (snap : Snap) (k : LoggerKind) (older newer : List Emitted)
    (htail : snap.tail = older ++ newer) (hold : ∀ e ∈ older, e.id ≤ snap.lastOf e.chunk) :
    s.restore snap k = s.restore { snap with tail := newer } k := by
  rw [restore_eq_replayAll, restore_eq_replayAll, htail, List.filter_append, filter_newer_none snap older hold]
  rfl

/-- **entries logged before the state was taken are older**: the recorder opened at `pa` (ids consistent), the commits `ts1`
    lead to `p0`, of which the state section is taken — every entry of `ts1` has an id at most the id stored with its chunk -/
theorem older_entries_skipped (pa : Store) (ts1 : List Txn) (h : IdsOK pa) :
    ∀ e ∈ emittedByAll pa ts1, e.id ≤ ((ts1.foldl Store.commit pa).snapshot).1.lastOf e.chunk := by
  intro e he
  rw [lastOf_snapshot]
  exact emittedByAll_le_commits ts1 pa h e he

/-- **3 and 4 together.** The tail holds, before the entries the commits `ts` emitted after the state was written, ANY
    entries `older` whose id is at most the id the collection stores with their chunk (commits the state already contains).
    `Restore` skips them and converges as in `restore_tail_converges`. -/
theorem restore_older_tail_converges (p0 s0 : Store) (ts : List Txn) (older : List Emitted) (x : String) (k : NumKind)
    (c c0 : Col) (hids : IdsOK p0) (hckp : ComputedKinds p0)
    (hp : SourceOK p0 x k c) (h0 : TargetOK s0 x k c0) (hts : ∀ t ∈ ts, TxnWF t)
    (hold : ∀ e ∈ older, e.id ≤ p0.commits.getD e.chunk 0) :
    let p' := ts.foldl Store.commit p0
    let snap : Snap := { (p0.snapshot).1 with tail := older ++ emittedByAll p0 ts }
    let r := s0.restore snap .log
    RdSync x p' r ∧
    (∃ cp cq, p'.findCol x = some cp ∧ r.findCol x = some cq ∧ ∀ i, cq.read i = cp.read i) ∧
    FillSync p' r := by
  intro p' snap r
  have hr : r = s0.restore { (p0.snapshot).1 with tail := emittedByAll p0 ts } .log :=
    restore_skips_older s0 snap .log older (emittedByAll p0 ts) rfl
      (fun e he => by rw [Snap.lastOf_tail, lastOf_snapshot]; exact hold e he)
  rw [hr]
  exact restore_tail_converges p0 s0 ts x k c c0 hids hckp hp h0 hts

/-- **`restore_overlap_converges`** — 3 and 4 together: the recorder is opened at `pa`; the transactions `ts1` are committed
    (and logged) BEFORE the state section is written, of `p0 = ts1.foldl commit pa`; the transactions `ts2` after it. The
    snapshot holds the state of `p0` and the WHOLE log `emittedByAll pa (ts1 ++ ts2)` — the state already contains the
    commits of `ts1`. `Restore` skips them (id filter) and replays those of `ts2`: the result is the primary after
    `ts1 ++ ts2`. Without the filter the entries of `ts1` would be applied twice. -/
theorem restore_overlap_converges (pa s0 : Store) (ts1 ts2 : List Txn) (x : String) (k : NumKind) (c c0 : Col)
    (hids : IdsOK pa) (hckp : ComputedKinds (ts1.foldl Store.commit pa))
    (hp : SourceOK (ts1.foldl Store.commit pa) x k c) (h0 : TargetOK s0 x k c0) (hts : ∀ t ∈ ts2, TxnWF t) :
    let p0 := ts1.foldl Store.commit pa
    let p' := (ts1 ++ ts2).foldl Store.commit pa
    let snap : Snap := { (p0.snapshot).1 with tail := emittedByAll pa (ts1 ++ ts2) }
    let r := s0.restore snap .log
    RdSync x p' r ∧
    (∃ cp cq, p'.findCol x = some cp ∧ r.findCol x = some cq ∧ ∀ i, cq.read i = cp.read i) ∧
    FillSync p' r := by
  intro p0 p' snap r
  have hp' : p' = ts2.foldl Store.commit p0 := List.foldl_append ..
  have hsnap : snap = { (p0.snapshot).1 with tail := emittedByAll pa ts1 ++ emittedByAll p0 ts2 } := by
    show ({ (p0.snapshot).1 with tail := emittedByAll pa (ts1 ++ ts2) } : Snap) = _
    rw [emittedByAll_append]
  have hr : r = s0.restore { (p0.snapshot).1 with tail := emittedByAll pa ts1 ++ emittedByAll p0 ts2 } .log := by
    show s0.restore snap .log = _
    rw [hsnap]
  rw [hr, hp']
  exact restore_older_tail_converges p0 s0 ts2 (emittedByAll pa ts1) x k c c0 (commits_idsOK ts1 pa hids) hckp hp h0 hts
    (emittedByAll_le_commits ts1 pa hids)

/-! ## 5 — `SourceOK` is an invariant: the conditions on the primary hold for every store reached by commits -/

/-- every `Put` the transaction issues for column `x` carries a value (typed writers store 2 / 4 / 8 bytes) -/
def PutsOK (x : String) (t : Txn) : Prop :=
  ∀ o ∈ markerAll t.updates ++ allFor t.updates x, o.typ = opPut → valRaw o.val ≠ []

instance (x : String) (t : Txn) : Decidable (PutsOK x t) := by unfold PutsOK; exact inferInstance

/-- **`sourceOK_commit`.** A commit of a well-formed transaction whose `Put`s carry a value keeps `SourceOK`, when the
    column's merge function never returns the empty byte string (numeric merges return `width` bytes) -/
theorem sourceOK_commit (p : Store) (t : Txn) (x : String) (k : NumKind) (c : Col) (hp : SourceOK p x k c)
    (hck : ComputedKinds p) (hwf : TxnWF t) (hput : PutsOK x t) (hmerge : ∀ v d, c.merge v d ≠ []) :
    ∃ c', SourceOK (p.commit t) x k c' ∧ c'.merge = c.merge := by
  obtain ⟨c', f, k', m', w', cv', cn', lv'⟩ := commit_num_source p t x k c hp.ne_row hp.find hp.kind hp.wf hp.cov hck
    hwf.chunkOK hput hmerge (fun i hb => hp.canon _ i rfl hb) hp.live
  have hpl := commit_plumb p t
  refine ⟨c', ⟨?_, ?_, f, k', w', cv', fun _ i _ hb => cn' i hb, lv',
    commit_fill_committed p t hwf.chunkOK hp.committed⟩, m'⟩
  · show ((p.commit t).names).Nodup
    rw [hpl.names]
    exact hp.names
  · have h := hpl.findCol rowColumn
    rw [hp.norow] at h
    cases hf : (p.commit t).findCol rowColumn with
    | none => rfl
    | some c2 => rw [hf] at h; cases h

theorem sourceOK_commits (ts : List Txn) :
    ∀ (p : Store) (x : String) (k : NumKind) (c : Col), SourceOK p x k c → ComputedKinds p →
      (∀ t ∈ ts, TxnWF t ∧ PutsOK x t) → (∀ v d, c.merge v d ≠ []) →
      ∃ c', SourceOK (ts.foldl Store.commit p) x k c' ∧ c'.merge = c.merge := by
  induction ts with
  | nil => intro p x k c hp _ _ _; exact ⟨c, hp, rfl⟩
  | cons t ts ih =>
    intro p x k c hp hck hts hmerge
    obtain ⟨c1, hp1, m1⟩ := sourceOK_commit p t x k c hp hck (hts t (by simp)).1 (hts t (by simp)).2 hmerge
    obtain ⟨c', hp', m'⟩ := ih (p.commit t) x k c1 hp1 (commit_computedKinds p t hck)
      (fun t' ht' => hts t' (by simp [ht'])) (fun v d => by rw [m1]; exact hmerge v d)
    exact ⟨c', hp', m'.trans m1⟩

theorem computedKinds_commits (ts : List Txn) : ∀ (p : Store), ComputedKinds p → ComputedKinds (ts.foldl Store.commit p) := by
  induction ts with
  | nil => intro p h; exact h
  | cons t ts ih => intro p h; exact ih _ (commit_computedKinds p t h)

/-- **`restore_overlap_converges_from`** — `restore_overlap_converges` with every hypothesis on the store `pa` the recorder
    was opened on: `pa` satisfies the source conditions, the transactions `ts1` (committed and logged before the state is
    written) and `ts2` (after) are well-formed, those of `ts1` carry a value in every `Put`. The snapshot = state after `ts1`
    + the whole log of `ts1 ++ ts2`; restored, it reads like the primary after `ts1 ++ ts2`. -/
theorem restore_overlap_converges_from (pa s0 : Store) (ts1 ts2 : List Txn) (x : String) (k : NumKind) (c c0 : Col)
    (hids : IdsOK pa) (hckp : ComputedKinds pa) (hp : SourceOK pa x k c) (hmerge : ∀ v d, c.merge v d ≠ [])
    (h0 : TargetOK s0 x k c0) (hts1 : ∀ t ∈ ts1, TxnWF t ∧ PutsOK x t) (hts2 : ∀ t ∈ ts2, TxnWF t) :
    let p0 := ts1.foldl Store.commit pa
    let p' := (ts1 ++ ts2).foldl Store.commit pa
    let snap : Snap := { (p0.snapshot).1 with tail := emittedByAll pa (ts1 ++ ts2) }
    let r := s0.restore snap .log
    RdSync x p' r ∧
    (∃ cp cq, p'.findCol x = some cp ∧ r.findCol x = some cq ∧ ∀ i, cq.read i = cp.read i) ∧
    FillSync p' r := by
  obtain ⟨c1, hp1, _⟩ := sourceOK_commits ts1 pa x k c hp hckp hts1 hmerge
  exact restore_overlap_converges pa s0 ts1 ts2 x k c1 c0 hids (computedKinds_commits ts1 pa hckp) hp1 h0 hts2

/-! ## 6 — non-vacuity -/

/-- the primary's column when the state is written: rows 5 (chunk 0) and 16389 (chunk 1) present; offset 9 is a deleted
    row — absent, its bytes still in place -/
def snBits : Bitmap := ((Array.replicate 32768 false).setIfInBounds 5 true).setIfInBounds 16389 true
def snData : Array Bytes :=
  (((Array.replicate 32768 []).setIfInBounds 5 (natToBE 8 10)).setIfInBounds 16389 (natToBE 8 7)).setIfInBounds 9 (natToBE 8 99)
def snCol : Col := { name := "n", kind := .num .i64, merge := addMerge64, nchunks := 2, bits := snBits, data := snData }

/-- the primary: two committed chunks (last commit ids 1 and 2), `.log` logger, recorder just opened -/
def snP0 : Store :=
  { cols := #[snCol], commits := #[1, 2], nextId := 2, logger := .log, count := 2, fill := snBits }

/-- the fresh target: `NewCollection` + `CreateColumn "n"` with another capacity, hash and merge function -/
def snS0 : Store := ((Store.new 512 .none (fun _ => 7)).createColumn "n" (.num .i64) (fun v _ => v)).1

def snT1 : Txn :=
  ([(rowColumn, ⟨opInsert, 9, .fixed 0 []⟩), ("n", ⟨opMerge, 9, v64 1⟩), ("n", ⟨opMerge, 5, v64 5⟩),
    ("n", ⟨opMerge, 16389, v64 1⟩), (rowColumn, ⟨opInsert, 16390, .fixed 0 []⟩), ("n", ⟨opPut, 16390, v64 3⟩)] :
      List (String × Op)).foldl (fun t p => t.putOp p.1 p.2) {}

def snT2 : Txn :=
  ([("n", ⟨opMerge, 16390, v64 4⟩), (rowColumn, ⟨opDelete, 5, .fixed 0 []⟩), ("n", ⟨opMerge, 16389, v64 2⟩)] :
      List (String × Op)).foldl (fun t p => t.putOp p.1 p.2) {}

theorem snT_wf : ∀ t ∈ [snT1, snT2], TxnWF t := by
  have h1 : ∀ t ∈ [snT1, snT2], BufsDistinct t.updates := by decide
  have h2 : ∀ t ∈ [snT1, snT2], ∀ v ∈ t.updates, ∀ s ∈ v.rsecs, ∀ o ∈ s.rops, chunkOf o.idx = s.chunk := by decide
  have h3 : ∀ t ∈ [snT1, snT2], ∀ o ∈ markerAll t.updates, o.typ ≠ opMerge := by decide
  intro t ht
  exact ⟨h1 t ht, h2 t ht, h3 t ht⟩

theorem snP0_ids : IdsOK snP0 := by
  intro ch
  match ch with
  | 0 => decide
  | 1 => decide
  | n + 2 => simp [snP0]

theorem snP0_find : snP0.findCol "n" = some snCol := by simp [snP0, Store.findCol, snCol]

theorem snP0_computed : ComputedKinds snP0 := by
  apply computedKinds_of_noComputed
  intro n c h
  have := findCol_mem h
  simp only [snP0, List.mem_toArray, List.mem_singleton] at this
  rw [this]; rfl

theorem snBits_true (i : Nat) (hb : Bits.get snBits i = true) : i = 5 ∨ i = 16389 := by
  simp only [snBits, Bits.get, Array.getElem?_setIfInBounds, Array.size_setIfInBounds, Array.size_replicate] at hb
  by_cases h1 : 16389 = i
  · exact Or.inr h1.symm
  · by_cases h5 : 5 = i
    · exact Or.inl h5.symm
    · simp [h1, h5, Array.getElem?_replicate] at hb
      split at hb <;> simp at hb

theorem snCol_bits : snCol.bits = snBits := by simp only [snCol]
theorem snCol_data : snCol.data = snData := by simp only [snCol]
theorem snP0_fill : snP0.fill = snBits := by simp only [snP0]

theorem snP0_source : SourceOK snP0 "n" .i64 snCol where
  names := by simp [NamesDistinct, snP0]
  norow := by simp [snP0, Store.findCol, snCol, rowColumn]
  find := snP0_find
  kind := rfl
  wf := ⟨by simp [snCol, snBits], by simp [snCol, snData]⟩
  cov := by decide
  canon := by
    intro ch i _ hb
    rw [snCol_bits] at hb
    rw [snCol_data]
    rcases snBits_true i hb with rfl | rfl <;> simp [snData, Array.getD_eq_getD_getElem?, natToBE]
  live := by
    intro i hb
    rw [snCol_bits] at hb
    rcases snBits_true i hb with rfl | rfl <;> decide
  committed := by
    intro i hb
    rw [snP0_fill] at hb
    rcases snBits_true i hb with rfl | rfl <;> decide

example : snP0.logger = .log ∧ snP0.emitted = [] := ⟨rfl, rfl⟩
example : snT1.dirtyChunks = [0, 1] ∧ snT2.dirtyChunks = [0, 1] := by decide
example : (∃ o ∈ allFor snT1.updates "n", o.typ = opMerge) ∧ (∃ o ∈ allFor snT2.updates "n", o.typ = opMerge) := by decide

/-- offset 9 of the primary is a deleted row whose bytes are still there: `NumSync` with a fresh target fails at this slot,
    `RdSync` does not look at it — and `snT1` merges into it -/
theorem snCol_stale : Bits.get snCol.bits 9 = false ∧ snCol.data.getD 9 [] ≠ [] := by
  rw [snCol_bits, snCol_data]
  constructor
  · simp [snBits, Bits.get]
  · simp [snData, Array.getD_eq_getD_getElem?, natToBE]

/-- the model evaluated: the two transactions emit four entries under the ids 3 … 6 (above `snP0.nextId = 2`, which is at
    least the ids 1, 2 the state stores): none is filtered out -/
example : ([snT1, snT2].foldl Store.commit snP0).emitted.map (fun e => (e.id, e.chunk)) = [(6, 1), (5, 0), (4, 1), (3, 0)] := by
  decide +kernel

/-- **the main theorem applied**: the state of `snP0` and the change stream of `snT1`, `snT2` restored into the fresh `snS0`
    give a collection whose column `n` reads like the primary's at every offset, with the same fill list — although the
    target's merge function differs and the primary merged into stale bytes -/
theorem ex_restore_converges :
    let p' := [snT1, snT2].foldl Store.commit snP0
    let r := snS0.restore { (snP0.snapshot).1 with tail := p'.emitted.reverse } .log
    (∃ cp cq, p'.findCol "n" = some cp ∧ r.findCol "n" = some cq ∧ ∀ i, cq.read i = cp.read i) ∧
    (∀ j, Bits.get r.fill j = Bits.get p'.fill j) := by
  obtain ⟨c0, h0, _⟩ := targetOK_fresh 512 .none (fun _ => 7) "n" .i64 (fun v _ => v) (by decide)
  obtain ⟨_, h2, h3⟩ := restore_tail_converges_stream snP0 snS0 [snT1, snT2] "n" .i64 snCol c0 snP0_ids rfl rfl
    snP0_computed snP0_source h0 snT_wf
  exact ⟨h2, h3⟩

/-- the hypotheses of 2 and 4 on the example -/
example : ∀ e ∈ emittedByAll snP0 [snT1, snT2], snP0.nextId < e.id ∧ (snP0.snapshot).1.newer e = true :=
  fun e he => ⟨(tail_all_newer snP0 _ snP0_ids e he).1, (tail_all_newer snP0 _ snP0_ids e he).2.2⟩

/-- an entry logged before the state was written (id 1, chunk 0 — the state stores id 1 with chunk 0) -/
def snOld : Emitted := ⟨1, 0, [(Buf.empty "n").put ⟨opPut, 5, v64 1000⟩]⟩

example : ∀ e ∈ [snOld], e.id ≤ (snP0.snapshot).1.lastOf e.chunk := by
  intro e he
  rw [List.mem_singleton] at he
  subst he
  rw [lastOf_snapshot]
  decide

/-- 3 and 4 together on the example: the old entry in front of the change stream is skipped (replayed, it would put 1000
    into row 5), the restore converges -/
theorem ex_older_skipped :
    let p' := [snT1, snT2].foldl Store.commit snP0
    let r := snS0.restore { (snP0.snapshot).1 with tail := [snOld] ++ emittedByAll snP0 [snT1, snT2] } .log
    (∃ cp cq, p'.findCol "n" = some cp ∧ r.findCol "n" = some cq ∧ ∀ i, cq.read i = cp.read i) ∧
    (∀ j, Bits.get r.fill j = Bits.get p'.fill j) := by
  obtain ⟨c0, h0, _⟩ := targetOK_fresh 512 .none (fun _ => 7) "n" .i64 (fun v _ => v) (by decide)
  obtain ⟨_, h2, h3⟩ := restore_older_tail_converges snP0 snS0 [snT1, snT2] [snOld] "n" .i64 snCol c0 snP0_ids
    snP0_computed snP0_source h0 snT_wf (by
      intro e he
      rw [List.mem_singleton] at he
      subst he
      decide)
  exact ⟨h2, h3⟩

/-! ### the state already contains logged commits

The recorder is opened on `snP0`; `snT1` is committed and logged BEFORE the state section is written, `snT2` after it. The
snapshot holds the state after `snT1` and the whole log (four entries). -/

theorem addMerge64_ne_nil : ∀ v d, addMerge64 v d ≠ [] := by
  intro v d h
  have := congrArg List.length h
  unfold addMerge64 at this
  rw [Store.natToBE_length] at this
  cases this

example : PutsOK "n" snT1 := by decide

/-- the ids: the state after `snT1` stores 3 and 4 with chunks 0 and 1; the log holds the entries 3, 4 (of `snT1`: skipped)
    and 5, 6 (of `snT2`: replayed) -/
example : (([snT1].foldl Store.commit snP0).snapshot).1.lastOf 0 = 3 ∧
    (([snT1].foldl Store.commit snP0).snapshot).1.lastOf 1 = 4 ∧
    (emittedByAll snP0 [snT1, snT2]).map (fun e => (e.id, e.chunk)) = [(3, 0), (4, 1), (5, 0), (6, 1)] := by
  rw [lastOf_snapshot, lastOf_snapshot]
  decide +kernel

example : (emittedByAll snP0 [snT1, snT2]).filter (([snT1].foldl Store.commit snP0).snapshot).1.newer =
    emittedByAll ([snT1].foldl Store.commit snP0) [snT2] := by
  have h := emittedByAll_append [snT1] [snT2] snP0
  simp only [List.singleton_append] at h
  rw [h, List.filter_append, filter_newer_none _ _ (older_entries_skipped snP0 [snT1] snP0_ids),
    tail_filter_all _ _ (idsOK_commits snP0 [snT1] snP0_ids)]
  rfl

/-- **3, 4 and 5 together on the example** -/
theorem ex_overlap_converges :
    let p0 := [snT1].foldl Store.commit snP0
    let p' := [snT1, snT2].foldl Store.commit snP0
    let r := snS0.restore { (p0.snapshot).1 with tail := emittedByAll snP0 [snT1, snT2] } .log
    (∃ cp cq, p'.findCol "n" = some cp ∧ r.findCol "n" = some cq ∧ ∀ i, cq.read i = cp.read i) ∧
    (∀ j, Bits.get r.fill j = Bits.get p'.fill j) := by
  obtain ⟨c0, h0, _⟩ := targetOK_fresh 512 .none (fun _ => 7) "n" .i64 (fun v _ => v) (by decide)
  have hts1 : ∀ t ∈ [snT1], TxnWF t ∧ PutsOK "n" t := by
    intro t ht
    rw [List.mem_singleton] at ht
    subst ht
    exact ⟨snT_wf snT1 (by simp), by decide⟩
  obtain ⟨_, h2, h3⟩ := restore_overlap_converges_from snP0 snS0 [snT1] [snT2] "n" .i64 snCol c0 snP0_ids snP0_computed
    snP0_source addMerge64_ne_nil h0 hts1 (fun t ht => snT_wf t (by simp at ht; simp [ht]))
  exact ⟨h2, h3⟩

/-! ### slots in sync: a primary without stale bytes -/

/-- the column of the example without the deleted row's bytes -/
def snDataC : Array Bytes := ((Array.replicate 32768 []).setIfInBounds 5 (natToBE 8 10)).setIfInBounds 16389 (natToBE 8 7)
def snColC : Col := { name := "n", kind := .num .i64, merge := addMerge64, nchunks := 2, bits := snBits, data := snDataC }
def snP0C : Store := { cols := #[snColC], commits := #[1, 2], nextId := 2, logger := .log, count := 2, fill := snBits }

theorem snColC_bits : snColC.bits = snBits := by simp only [snColC]
theorem snColC_data : snColC.data = snDataC := by simp only [snColC]
theorem snP0C_fill : snP0C.fill = snBits := by simp only [snP0C]

theorem snBits_false (i : Nat) (hb : Bits.get snBits i = false) : i ≠ 5 ∧ i ≠ 16389 := by
  constructor <;> intro e <;> subst e <;> simp [snBits, Bits.get] at hb

theorem snP0C_source : SourceOK snP0C "n" .i64 snColC where
  names := by simp [NamesDistinct, snP0C]
  norow := by simp [snP0C, Store.findCol, snColC, rowColumn]
  find := by simp [snP0C, Store.findCol, snColC]
  kind := rfl
  wf := ⟨by simp [snColC, snBits], by simp [snColC, snDataC]⟩
  cov := by decide
  canon := by
    intro ch i _ hb
    rw [snColC_bits] at hb
    rw [snColC_data]
    rcases snBits_true i hb with rfl | rfl <;> simp [snDataC, Array.getD_eq_getD_getElem?, natToBE]
  live := by
    intro i hb
    rw [snColC_bits] at hb
    rcases snBits_true i hb with rfl | rfl <;> decide
  committed := by
    intro i hb
    rw [snP0C_fill] at hb
    rcases snBits_true i hb with rfl | rfl <;> decide

/-- the added hypothesis of `restore_tail_converges_slots` is satisfiable -/
theorem snColC_clean : ∀ i, Bits.get snColC.bits i = false → snColC.data.getD i [] = [] := by
  intro i hb
  rw [snColC_bits] at hb
  rw [snColC_data]
  obtain ⟨h5, h16389⟩ := snBits_false i hb
  have h5' : ¬ 5 = i := fun e => h5 e.symm
  have h16389' : ¬ 16389 = i := fun e => h16389 e.symm
  simp only [snDataC, Array.getD_eq_getD_getElem?, Array.getElem?_setIfInBounds, h5', h16389', if_false,
    Array.getElem?_replicate]
  split <;> rfl

example : NumSync "n" ([snT1, snT2].foldl Store.commit snP0C)
    (snS0.restore { (snP0C.snapshot).1 with tail := emittedByAll snP0C [snT1, snT2] } .log) := by
  obtain ⟨c0, h0, hd0⟩ := targetOK_fresh 512 .none (fun _ => 7) "n" .i64 (fun v _ => v) (by decide)
  have hids : IdsOK snP0C := by
    intro ch
    match ch with
    | 0 => decide
    | 1 => decide
    | n + 2 => simp [snP0C]
  have hck : ComputedKinds snP0C := by
    apply computedKinds_of_noComputed
    intro n c h
    have := findCol_mem h
    simp only [snP0C, List.mem_toArray, List.mem_singleton] at this
    rw [this]; rfl
  exact restore_tail_converges_slots snP0C snS0 [snT1, snT2] "n" .i64 snColC c0 hids hck snP0C_source h0 snT_wf
    snColC_clean hd0

end ColumnVerif.Props.C08store

#print axioms ColumnVerif.Props.C08store.restore_eq_readState_replay
#print axioms ColumnVerif.Props.C08store.idsOK_commit
#print axioms ColumnVerif.Props.C08store.tail_all_newer
#print axioms ColumnVerif.Props.C08store.tail_filter_all
#print axioms ColumnVerif.Props.C08store.targetOK_fresh
#print axioms ColumnVerif.Props.C08store.restore_tail_converges
#print axioms ColumnVerif.Props.C08store.restore_tail_converges_slots
#print axioms ColumnVerif.Props.C08store.restore_tail_converges_newCommits
#print axioms ColumnVerif.Props.C08store.restore_tail_converges_stream
#print axioms ColumnVerif.Props.C08store.restore_skips_older
#print axioms ColumnVerif.Props.C08store.older_entries_skipped
#print axioms ColumnVerif.Props.C08store.restore_older_tail_converges
#print axioms ColumnVerif.Props.C08store.restore_overlap_converges
#print axioms ColumnVerif.Props.C08store.sourceOK_commit
#print axioms ColumnVerif.Props.C08store.sourceOK_commits
#print axioms ColumnVerif.Props.C08store.restore_overlap_converges_from
#print axioms ColumnVerif.Props.C08store.ex_overlap_converges
#print axioms ColumnVerif.Props.C08store.ex_restore_converges
#print axioms ColumnVerif.Props.C08store.ex_older_skipped
