import ColumnVerif.Lemmas.Index
import ColumnVerif.Model.Txn
/-!
# C19 — a trigger is called exactly once per committed store and once per committed row deletion

"…receiving the offset and the value finally stored, after any merge — …; stores of one transaction to the same
row are reported in issue order."

The trigger is a computed column: the computed pass hands it the section *after* the main pass has rewritten it
(`Merge` → `Put` of the stored result). Its call log `Col.trig` is kept most recent first, so `trig.reverse` is
call order.

* `trigger_apply_sem` (I2): one call per `Put` / `Delete` op handed over, in op order, none for other types.
* `trigger_sees_final_values` (I6): for a numeric column, the calls for a section are — in op order, exactly one
  per `Put`, `Merge` and `Delete` op and none for the others — `(idx, Put, value stored right after that op)` resp.
  `(idx, Delete, value of the delete op)`.
-/
namespace ColumnVerif.Props.C19
open ColumnVerif.Codec ColumnVerif.Bits ColumnVerif.Store

/-! ### I2 — the computed pass on a trigger -/

theorem trigger_apply_sem (c : Col) (target : String) (hk : c.kind = .trigger target) (ops : List Op) :
    (applyOther c ops).1.trig.reverse =
      c.trig.reverse ++
        (ops.filter (fun o => o.typ = opPut ∨ o.typ = opDelete)).map (fun o => ⟨o.idx, o.typ, valRaw o.val⟩)
    ∧ (applyOther c ops).2 = false := by
  rw [applyOther_trigger c target hk]
  refine ⟨?_, rfl⟩
  simp only
  rw [foldTrig_trig, List.reverse_append, List.reverse_reverse]
  rfl

/-- exactly once: the number of new calls is the number of `Put` / `Delete` ops -/
theorem trigger_call_count (c : Col) (target : String) (hk : c.kind = .trigger target) (ops : List Op) :
    (applyOther c ops).1.trig.length =
      c.trig.length + (ops.filter (fun o => o.typ = opPut ∨ o.typ = opDelete)).length := by
  have h := congrArg List.length (trigger_apply_sem c target hk ops).1
  simpa using h

/-- ops of other types (`Merge`, `Skip`, `Insert`) cause no call -/
theorem trigger_ignores_others (c : Col) (target : String) (hk : c.kind = .trigger target) (ops : List Op)
    (h : ∀ o ∈ ops, o.typ ≠ opPut ∧ o.typ ≠ opDelete) : (applyOther c ops).1.trig = c.trig := by
  have h1 := (trigger_apply_sem c target hk ops).1
  have : ops.filter (fun o => o.typ = opPut ∨ o.typ = opDelete) = [] := by
    rw [List.filter_eq_nil_iff]
    intro o ho
    have := h o ho
    simp [this.1, this.2]
  rw [this] at h1
  simpa using h1

/-- issue order per row: the calls for row `i` are the `Put` / `Delete` ops addressed to `i`, in op order -/
theorem trigger_row_order (c : Col) (target : String) (hk : c.kind = .trigger target) (ops : List Op) (i : Nat) :
    (applyOther c ops).1.trig.reverse.filter (fun e => e.idx = i) =
      c.trig.reverse.filter (fun e => e.idx = i) ++
        (ops.filter (fun o => o.idx = i ∧ (o.typ = opPut ∨ o.typ = opDelete))).map
          (fun o => ⟨o.idx, o.typ, valRaw o.val⟩) := by
  rw [(trigger_apply_sem c target hk ops).1, List.filter_append, List.filter_map, List.filter_filter]
  congr 2
  apply List.filter_congr
  intro o _
  simp

/-- the trigger stays the same trigger and holds nothing but its log -/
theorem trigger_apply_same (c : Col) (target : String) (hk : c.kind = .trigger target) (ops : List Op) :
    (applyOther c ops).1.kind = c.kind ∧ (applyOther c ops).1.name = c.name := by
  rw [applyOther_trigger c target hk]
  have := foldTrig_same ops c
  exact ⟨this.1, this.2.1⟩

/-! ### I6 — the values a trigger on a numeric column receives -/

/-- main pass of one section on a numeric column, then the computed pass of the rewritten section on a trigger:
    the new calls are, in op order, for op number `j`:
    `Put` or `Merge` ↦ `(idx, Put, v)` with `v` = the raw value the column holds at `idx` right after op `j`
    (for a `Merge`: the merged result, not the delta); `Delete` ↦ `(idx, Delete, value of the op)`;
    any other type ↦ no call. -/
theorem trigger_sees_final_values (hash : Bytes → Nat) (col trg : Col) (k : NumKind) (target : String)
    (chunk : Nat) (ops : List Op)
    (hk : col.kind = .num k) (htk : trg.kind = .trigger target) (hch : chunk < col.nchunks)
    (hin : InBounds col ops) :
    (applyOther trg (applyData hash col chunk ops).ops).1.trig.reverse =
      trg.trig.reverse ++
        (ops.mapIdx (fun j o =>
          let after := ((ops.take (j + 1)).foldl (stepNum k) (col, [], [])).1
          if o.typ = opPut ∨ o.typ = opMerge then
            some (⟨o.idx, opPut, (after.data[o.idx]?).getD []⟩ : TrigEvent)
          else if o.typ = opDelete then some ⟨o.idx, opDelete, valRaw o.val⟩
          else none)).filterMap id := by
  rw [applyData_num hash col k hk chunk hch, applyOther_trigger trg target htk]
  simp only
  rw [foldTrig_trig, List.reverse_append, List.reverse_reverse, trig_rwList k ops col hin]
  rfl

/-- a whole buffer, in the order `commitUpdates` works — main pass over all sections of the chunk, then the
    computed pass over all rewritten sections: the calls are those of the concatenated sections, in issue order -/
theorem trigger_sees_final_values_sections (hash : Bytes → Nat) (col trg : Col) (k : NumKind) (target : String)
    (chunk : Nat) (secs : List (List Op))
    (hk : col.kind = .num k) (htk : trg.kind = .trigger target) (hch : chunk < col.nchunks)
    (hin : InBounds col secs.flatten) :
    (otherSecs trg (mainSecs hash chunk col secs).2.1).1.trig.reverse =
      trg.trig.reverse ++
        (secs.flatten.mapIdx (fun j o =>
          let after := ((secs.flatten.take (j + 1)).foldl (stepNum k) (col, [], [])).1
          if o.typ = opPut ∨ o.typ = opMerge then
            some (⟨o.idx, opPut, (after.data[o.idx]?).getD []⟩ : TrigEvent)
          else if o.typ = opDelete then some ⟨o.idx, opDelete, valRaw o.val⟩
          else none)).filterMap id := by
  rw [mainSecs_num hash chunk k secs col hk hch, otherSecs_trigger trg target htk]
  simp only
  rw [rwSecs_flatten, foldTrig_trig, List.reverse_append, List.reverse_reverse, trig_rwList k _ col hin]
  rfl

/-- the same with the model's own `mainPass` over the transaction buffer `u` of the column -/
theorem trigger_sees_final_values_mainPass (hash : Bytes → Nat) (col trg : Col) (k : NumKind) (target : String)
    (chunk : Nat) (u : Buf)
    (hk : col.kind = .num k) (htk : trg.kind = .trigger target) (hch : chunk < col.nchunks)
    (hin : InBounds col (u.rangeOps chunk)) :
    (otherSecs trg ((mainPass hash col chunk u).2.1.range chunk)).1.trig.reverse =
      trg.trig.reverse ++
        ((u.rangeOps chunk).mapIdx (fun j o =>
          let after := (((u.rangeOps chunk).take (j + 1)).foldl (stepNum k) (col, [], [])).1
          if o.typ = opPut ∨ o.typ = opMerge then
            some (⟨o.idx, opPut, (after.data[o.idx]?).getD []⟩ : TrigEvent)
          else if o.typ = opDelete then some ⟨o.idx, opDelete, valRaw o.val⟩
          else none)).filterMap id := by
  rw [(mainPass_num hash col k hk chunk hch u).2.1]
  exact trigger_sees_final_values_sections hash col trg k target chunk (u.range chunk) hk htk hch hin

/-- a `Put` is reported with its own value: that *is* the value stored right after it -/
theorem put_value_is_stored (k : NumKind) (col : Col) (ops : List Op) (hin : InBounds col ops)
    (j : Nat) (hj : j < ops.length) (hp : ops[j].typ = opPut) :
    ((((ops.take (j + 1)).foldl (stepNum k) (col, [], [])).1.data[ops[j].idx]?).getD []) = valRaw ops[j].val := by
  have h1 := numeric_take_succ k col ops j hj
  rw [h1]
  have hin' : InBounds ((ops.take j).foldl (stepCol k) col) [ops[j]] := by
    intro x hx
    have hs := foldCol_shape k (ops.take j) col
    rw [hs.bsize, hs.dsize]
    simp only [List.mem_singleton] at hx
    subst hx
    exact hin _ (List.getElem_mem hj)
  have ho := hin' ops[j] (by simp)
  exact stepCol_data_put k _ ops[j] ho.1 ho.2 hp

/-- exactly once: the number of new calls for a section is its number of `Put`, `Merge` and `Delete` ops -/
theorem trigger_final_count (hash : Bytes → Nat) (col trg : Col) (k : NumKind) (target : String)
    (chunk : Nat) (ops : List Op)
    (hk : col.kind = .num k) (htk : trg.kind = .trigger target) (hch : chunk < col.nchunks) :
    (applyOther trg (applyData hash col chunk ops).ops).1.trig.length =
      trg.trig.length +
        (ops.filter (fun o => o.typ = opPut ∨ o.typ = opMerge ∨ o.typ = opDelete)).length := by
  rw [applyData_num hash col k hk chunk hch, applyOther_trigger trg target htk]
  simp only
  rw [foldTrig_trig]
  simp only [List.length_append, List.length_reverse, List.length_map]
  rw [count_rwList]
  omega

/-! ### I7 — non-vacuity -/

def addMerge : Bytes → Bytes → Bytes := fun a d => [a.getD 0 0 + d.getD 0 0, a.getD 1 0 + d.getD 1 0]

def col0 : Col :=
  { name := "n", kind := .num .u16, merge := addMerge, nchunks := 1,
    bits := #[true, false, false, false], data := #[[0, 9], [], [], []] }

def trg0 : Col := { name := "t", kind := .trigger "n" }

/-- put, merge onto it, a skipped op, delete another row, merge into a never-written slot -/
def ops0 : List Op :=
  [⟨opPut, 1, .fixed 1 [0, 3]⟩, ⟨opMerge, 1, .fixed 1 [0, 4]⟩, ⟨opSkip, 3, .fixed 1 [0, 1]⟩,
   ⟨opDelete, 0, .fixed 0 []⟩, ⟨opMerge, 2, .fixed 1 [0, 9]⟩]

example : InBounds col0 ops0 := by
  intro o ho
  simp only [ops0, List.mem_cons, List.not_mem_nil, or_false] at ho
  rcases ho with rfl | rfl | rfl | rfl | rfl <;> decide

/-- the trigger handed the *unrewritten* section would miss both merges … -/
example : (applyOther trg0 ops0).1.trig.reverse = [⟨1, opPut, [0, 3]⟩, ⟨0, opDelete, []⟩] := by decide

/-- … after the main pass it sees the stored sums, in op order, and nothing for the `Skip` -/
example : (applyOther trg0 (applyData (fun _ => 0) col0 0 ops0).ops).1.trig.reverse =
    [⟨1, opPut, [0, 3]⟩, ⟨1, opPut, [0, 7]⟩, ⟨0, opDelete, []⟩, ⟨2, opPut, [0, 9]⟩] := by decide

end ColumnVerif.Props.C19
