import ColumnVerif.Lemmas.StoreReplica
import ColumnVerif.Props.C06
import ColumnVerif.Props.C15
import ColumnVerif.Props.C01storeAny
/-!
# C06 at store level — a replica that replays what the primary's `Store.commit` emits stays equal to it

`Props/C06.lean` proves convergence at COLUMN level (`replica_stays_in_sync_num`: the section a commit hands to the logger
holds no `Merge`; replaying it on a column in sync keeps it in sync). `Props/C01storeAny.lean` proves `commit_col`: what
`Store.commit` leaves under a data column's name is the fold of `applyData` over the dirty chunks. Here the two are composed
at STORE level, through the real `Store.commit` / `commitChunk` (what is appended to `emitted` and when), `Emitted.received`
(`.log`: every buffer restricted to the commit's chunk, `restrictBuf`; `.channel`: a clone of all buffers, finding D16) and
`Store.replay` (itself a commit, of the received buffers, walking every chunk that has a header in them).

Vocabulary (from `Lemmas/StoreReplica.lean`):
* `emittedBy p t` — the entries `p.commit t` hands to the logger, in emission order; `emittedByAll p ts` for a sequence.
* `replayAll k r es` — the replica replays the entries `es` in order: `es.foldl (fun r e => r.replay e.chunk (e.received k)) r`.
* `NumSync x p r` — the numeric column `x` is registered on both sides (the replica's numeric kind and merge function are
  free), arrays well-formed (`ColWF`) and covering the committed chunks, every slot (presence bit, raw bytes) equal.
  `DataSync x p r` — the same for numeric ↔ numeric, string / record ↔ string / record or key ↔ key columns (`KindsMatch`);
  `KeySync x p r` — key column: slots and key table (`seek`) equal.
* `FillSync p r` — the fill lists agree bit by bit (the arrays may have grown differently).
* `TxnOK x t` / `TxnWF t` — distinct buffer names (`bufferFor`), the buffers (of `x` / all) and the marker buffer keep every op
  in a section of its own chunk (`Buf.Inv`), the marker buffer holds no `Merge`.
* `Delivers ups1 ch bufs` — the delivery `bufs` of the emitted buffers `ups1` holds sections of `ch` only, the same ops per
  column for `ch` and the same markers: `.log` always delivers (`delivers_log`), `.channel` for single-chunk transactions.
* `ComputedKinds s` — computed columns are indexes / triggers / sorted indexes (kept by commits; `StoreRead`).

Contents
1. what a commit emits: `emitted_of_commit`, `loopEmitted_eq`, `received_log_eq`, `received_log_ops`,
   `emitted_chunk_ops_num`, closed form `emitted_stream_num`.
2. one chunk: `replay_log_col`, `replay_log_fill`.
3. a whole commit: `replay_log_commit`, `replay_log_commit_slots`; a whole history: `replica_converges_store`,
   with reservations `replica_converges_store_reserved`; the same schema: `same_schema_same_start`, `replica_converges_fresh`.
4. `.channel`: `replay_channel_commit`, `replica_converges_store_channel` (single-chunk transactions); D16.
5. non-vacuity (`ex_converges`, `exIns_converges`), `channel_multichunk_not_delivered`, `channel_multichunk_counterexample`.
6. string / record columns under the guard `NoAppend` / `StrGuard`: `replay_log_col_data`, `replay_log_commit_data`,
   `replica_converges_store_data`, `exStr_converges`.
7. key columns (slots, key table, `offsetOf`): `replay_log_commit_key`, `replica_converges_store_key`, `exKey_converges`.
Not covered: resizing string merges (guards `ChunksOK` + D12), enum columns (the replica would need the primary's hash).
-/
namespace ColumnVerif.Props.C06store
open ColumnVerif.Codec ColumnVerif.Store ColumnVerif.Bits

/-! ## 1 — what a commit emits -/

/-- **`emitted_of_commit`.** With a logger attached (`.log` or `.channel`), `p.commit t` prepends to the change stream
    (most recent first) the entries `emittedBy p t`: one per dirty chunk, in ascending chunk order, under consecutive ids,
    each with as many buffers under the same names as the transaction — when the transaction has markers or a non-empty
    buffer of an existing column (`C15.emits`), nothing otherwise. -/
theorem emitted_of_commit (p : Store) (t : Txn) (hl : p.logger ≠ .none) :
    (p.commit t).emitted = (emittedBy p t).reverse ++ p.emitted ∧
    (emittedBy p t).map (·.chunk) = (if C15.emits p t = true then t.dirtyChunks else []) ∧
    (emittedBy p t).map (·.id) =
      (if C15.emits p t = true then List.range' (p.nextId + 1) t.dirtyChunks.length else []) ∧
    (∀ e ∈ emittedBy p t, e.updates.map StorePlumb.bufSig = t.updates.map StorePlumb.bufSig) := by
  have h1 := Store.emitted_of_commit p t hl
  obtain ⟨_, c2, c3, c4, _⟩ := C15.commit_emits_once_per_dirty_chunk p t hl
  rw [C15.newCommits_of_append h1] at c2 c3 c4
  refine ⟨h1, ?_, ?_, ?_⟩
  · have := congrArg List.reverse c2
    rw [List.map_reverse, List.reverse_reverse] at this
    rw [this]
    split <;> simp
  · rw [List.reverse_reverse] at c3
    exact c3
  · intro e he
    exact c4 e (List.mem_reverse.2 he)

/-- the entries are those of the chunk loop, started from the store `commitCapacity` leaves … -/
theorem emittedBy_eq (p : Store) (t : Txn) :
    emittedBy p t = loopEmitted t.markers.isSome t.dirtyChunks (capStore p t) t.updates := rfl

/-- … one latch section after the other, each handing on the buffers **as its own pass leaves them** (`(commitChunk …).2`:
    the sections of the chunk rewritten by the main pass, the sections of the later chunks still as issued) -/
theorem loopEmitted_eq (cr : Bool) (c : Nat) (cs : List Nat) (s : Store) (ups : List Buf) :
    loopEmitted cr (c :: cs) s ups =
      (if (cr || StorePlumb.updatedFlag s ups) = true then [⟨s.nextId + 1, c, (s.commitChunk c cr ups).2⟩] else []) ++
        loopEmitted cr cs (s.commitChunk c cr ups).1 (s.commitChunk c cr ups).2 := rfl

/-- what the `.log` logger delivers of an entry: every buffer restricted to the entry's chunk, empty ones dropped -/
theorem received_log_eq (e : Emitted) :
    e.received .log = (e.updates.map (fun b => restrictBuf b e.chunk)).filter (fun b => !b.isEmpty) := rfl

/-- … which holds, for the entry's chunk, the ops of every column and (with distinct buffer names) the markers the entry
    carries; only sections of that chunk -/
theorem received_log_ops (e : Emitted) (hd : BufsDistinct e.updates) :
    (∀ x, opsFor (e.received .log) x e.chunk = opsFor e.updates x e.chunk) ∧
    markerOps (e.received .log) e.chunk = markerOps e.updates e.chunk ∧
    (∀ b ∈ e.received .log, ∀ c ∈ b.chunks, c = e.chunk) := by
  have hdl := delivers_log e.updates e.chunk (oneRow_of_distinct _ hd)
  have hne : nonEmpty (recvLog e.updates e.chunk) = recvLog e.updates e.chunk := nonEmpty_idem _
  rw [received_log]
  refine ⟨fun x => ?_, ?_, hdl.chunks⟩
  · have := hdl.ops x
    rw [hne] at this; exact this
  · have := hdl.markers
    rw [hne] at this; exact this

/-- **the entry of one chunk, numeric column `x`**: the marker buffer is handed on untouched; the buffer(s) of `x` hold, for
    the chunk, the ops the transaction issued **as rewritten by the main pass** in the column state the markers leave — no
    `Merge` is left, same offsets in the same order -/
theorem emitted_chunk_ops_num (s : Store) (ch : Nat) (ups : List Buf) (x : String) (col : Col) (k : NumKind)
    (hxr : x ≠ rowColumn) (hf : s.findCol x = some col) (hk : col.kind = .num k) (hch : ch < col.nchunks)
    (hck : ComputedKinds s) :
    let ups1 := (s.commitChunk ch (ups.find? isMarkerBuf).isSome ups).2
    markerOps ups1 ch = markerOps ups ch ∧
    opsFor ups1 x ch = (applyData s.hash (applyData s.hash col ch (markerOps ups ch)).col ch (opsFor ups x ch)).ops ∧
    (∀ o ∈ opsFor ups1 x ch, o.typ ≠ opMerge) ∧
    (opsFor ups1 x ch).map (·.idx) = (opsFor ups x ch).map (·.idx) := by
  intro ups1
  have hd : col.kind.isData = true := by rw [hk]; rfl
  have hsh := applyData_sameShape s.hash col ch (markerOps ups ch)
  have hna : (applyData s.hash (applyData s.hash col ch (markerOpsCr (ups.find? isMarkerBuf).isSome ups ch)).col ch
      (opsFor ups x ch)).appended = [] :=
    applyData_appended_nil_of_kind _ _ _ _
      (by rw [(applyData_sameShape s.hash col ch _).kind, hk]; exact ⟨by simp, by simp⟩)
  have o1 := commitChunk_ops s ch _ ups x col hxr hf hd (notComputed_of_computedKinds s hck x col hf hd ups) hna
  rw [markerOpsCr_isSome] at o1
  obtain ⟨_, _, e3, e4⟩ := C06.applyData_num_emitted s.hash k (applyData s.hash col ch (markerOps ups ch)).col ch
    (opsFor ups x ch) (hsh.kind.trans hk) (by rw [hsh.nchunks]; exact hch)
  refine ⟨commitChunk_markerOps s ch _ ups ch, o1, ?_, ?_⟩
  · show ∀ o ∈ opsFor (s.commitChunk ch (ups.find? isMarkerBuf).isSome ups).2 x ch, _
    rw [o1]; exact e3
  · show (opsFor (s.commitChunk ch (ups.find? isMarkerBuf).isSome ups).2 x ch).map _ = _
    rw [o1]; exact e4

/-- **the stream of a commit for a numeric column, closed form.** `p.commit t` emits (logger attached, `C15.emits`), no
    `Merge` among the markers, distinct buffer names. Entry by entry, what the `.log` logger delivers for the entry's chunk —
    its markers followed by the ops of `x` — is `emittedOps`: for the dirty chunks in ascending order, the markers of the chunk
    followed by the ops issued for `x` in it, **rewritten** by `applyData` (`.ops`: every `Merge` replaced by the `Put` of its
    result) in the column state the previous chunks leave (`commit_col`'s fold), from the column as `commitCapacity` leaves it -/
theorem emitted_stream_num (p : Store) (t : Txn) (x : String) (cp : Col) (k : NumKind) (hxr : x ≠ rowColumn)
    (hfp : p.findCol x = some cp) (hkp : cp.kind = .num k) (hckp : ComputedKinds p) (hd : BufsDistinct t.updates)
    (hmk : ∀ o ∈ markerAll t.updates, o.typ ≠ opMerge) (hE : C15.emits p t = true) :
    (emittedBy p t).map (fun e => (e.chunk, markerOps (e.received .log) e.chunk ++ opsFor (e.received .log) x e.chunk)) =
      emittedOps p.hash t.updates x t.dirtyChunks (capCol p t cp) := by
  rw [← emittedBy_ops_num p t x cp k hxr hfp hkp hckp hmk hE]
  apply List.map_congr_left
  intro e he
  obtain ⟨h1, h2, _⟩ := received_log_ops e (distinct_of_sigs (loopEmitted_sigs _ _ _ _ e he).1 hd)
  rw [h1 x, h2]
  rfl

/-- `emittedOps` spelled out -/
theorem emittedOps_cons (hash : Bytes → Nat) (ups : List Buf) (x : String) (c : Nat) (cs : List Nat) (col : Col) :
    emittedOps hash ups x (c :: cs) col =
      (c, (applyData hash col c (markerOps ups c ++ opsFor ups x c)).ops) ::
        emittedOps hash ups x cs (applyData hash col c (markerOps ups c ++ opsFor ups x c)).col := rfl

/-! ## 2 — one chunk: the primary's latch section, the replica's replay of the entry -/

/-- **`replay_log_col`.** Primary `p` and replica `r` both register the numeric column `x` (kinds `k`, `k2` and merge
    functions unrelated), well-formed, the chunk allocated on the primary (`commitCapacity` has run) and the replica's column
    covering its committed chunks. The primary runs the latch section of chunk `ch` over the buffers `ups` and emits the
    entry `e` (under any id); the replica replays `e.received .log`. Then

    * every offset whose slot (presence bit + raw bytes) agreed before agrees after — in particular, slots equal on chunk
      `ch` before are equal on chunk `ch` after;
    * offsets of the other chunks are untouched on both sides;
    * shapes are kept (so the statement chains). -/
theorem replay_log_col (p r : Store) (ch : Nat) (ups : List Buf) (id : Nat) (x : String) (cp cq : Col) (k k2 : NumKind)
    (hxr : x ≠ rowColumn) (hfp : p.findCol x = some cp) (hfr : r.findCol x = some cq)
    (hkp : cp.kind = .num k) (hkr : cq.kind = .num k2) (hwp : ColWF cp) (hwr : ColWF cq)
    (hchp : ch < cp.nchunks) (hcovr : r.commits.size ≤ cq.nchunks)
    (hckp : ComputedKinds p) (hckr : ComputedKinds r) (hdist : BufsDistinct ups)
    (hco : ∀ o ∈ markerOps ups ch ++ opsFor ups x ch, chunkOf o.idx = ch)
    (hmk : ∀ o ∈ markerOps ups ch, o.typ ≠ opMerge) :
    let pc := p.commitChunk ch (ups.find? isMarkerBuf).isSome ups
    let e : Emitted := ⟨id, ch, pc.2⟩
    ∃ cp' cq', pc.1.findCol x = some cp' ∧ (r.replay ch (e.received .log)).findCol x = some cq' ∧
      (∀ i, slot cq i = slot cp i → slot cq' i = slot cp' i) ∧
      (∀ i, chunkOf i ≠ ch → slot cq' i = slot cq i ∧ slot cp' i = slot cp i) ∧
      SameShape cp cp' ∧ cq'.kind = cq.kind ∧ ColWF cq' ∧ (r.replay ch (e.received .log)).commits.size ≤ cq'.nchunks := by
  intro pc e
  have hdp : cp.kind.isData = true := by rw [hkp]; rfl
  have hdr : cq.kind.isData = true := by rw [hkr]; rfl
  have hone : OneRow pc.2 := oneRow_of_distinct _ (distinct_of_sigs (StorePlumb.commitChunk_sigs p ch _ ups) hdist)
  have hdel : Delivers pc.2 ch (e.received .log) := delivers_log pc.2 ch hone
  obtain ⟨cp', cq', g1, g2, g3, g4, g5, g6, g7, g8⟩ := chunk_replay_num p r ch _ ups (e.received .log) x cp cq k k2 rfl hxr
    hfp hfr hkp hkr hwp hwr hchp hcovr (notComputed_of_computedKinds p hckp x cp hfp hdp ups)
    (notComputed_of_computedKinds r hckr x cq hfr hdr _) hco hmk hdel
  exact ⟨cp', cq', g1, g2, g7, g8, g3, g4, g5, g6⟩

/-- the same for the fill list: a bit that agreed before agrees after (no condition on the buffers beyond distinct names) -/
theorem replay_log_fill (p r : Store) (ch : Nat) (ups : List Buf) (id : Nat) (hdist : BufsDistinct ups) (j : Nat)
    (hs : Bits.get r.fill j = Bits.get p.fill j) :
    let pc := p.commitChunk ch (ups.find? isMarkerBuf).isSome ups
    let e : Emitted := ⟨id, ch, pc.2⟩
    Bits.get (r.replay ch (e.received .log)).fill j = Bits.get pc.1.fill j := by
  intro pc e
  have hone : OneRow pc.2 := oneRow_of_distinct _ (distinct_of_sigs (StorePlumb.commitChunk_sigs p ch _ ups) hdist)
  exact chunk_replay_fill p r ch _ ups (e.received .log) rfl (delivers_log pc.2 ch hone) j hs

/-! ## 3 — a whole commit, a whole history -/

/-- with the `.log` logger, the entries a commit added to the stream are `emittedBy p t` (C15's `newCommits`, reversed) -/
theorem newCommits_eq (p : Store) (t : Txn) (hl : p.logger ≠ .none) :
    (C15.newCommits p (p.commit t)).reverse = emittedBy p t := by
  rw [C15.newCommits_of_append (Store.emitted_of_commit p t hl), List.reverse_reverse]

/-- **`replay_log_commit`.** The primary commits `t` (any number of dirty chunks, any mix of markers, puts, merges,
    deletes), the replica replays every entry the commit emits, in emission order, as the `.log` logger delivers them.
    A numeric column in sync before is in sync after; fill lists that agreed agree; the replica keeps `ComputedKinds`. -/
theorem replay_log_commit (p r : Store) (t : Txn) (x : String) (hxr : x ≠ rowColumn)
    (hckp : ComputedKinds p) (hckr : ComputedKinds r) (hok : TxnOK x t) :
    (NumSync x p r → NumSync x (p.commit t) (replayAll .log r (emittedBy p t))) ∧
    (FillSync p r → FillSync (p.commit t) (replayAll .log r (emittedBy p t))) ∧
    ComputedKinds (p.commit t) ∧ (NumSync x p r → ComputedKinds (replayAll .log r (emittedBy p t))) := by
  have hdl := emittedBy_delivers_log p t hok.distinct
  exact ⟨fun h => (commit_replay_num x hxr .log p r t hckp hckr hok hdl h).1,
    commit_replay_fill .log p r t hdl, commit_computedKinds p t hckp,
    fun h => (commit_replay_num x hxr .log p r t hckp hckr hok hdl h).2⟩

/-- the per-offset form, with the frame: an offset in sync before is in sync after (the others need not be); offsets of
    chunks the transaction does not touch are left alone on both sides -/
theorem replay_log_commit_slots (p r : Store) (t : Txn) (x : String) (cp cq : Col) (k k2 : NumKind) (hxr : x ≠ rowColumn)
    (hfp : p.findCol x = some cp) (hfr : r.findCol x = some cq) (hkp : cp.kind = .num k) (hkr : cq.kind = .num k2)
    (hwp : ColWF cp) (hwr : ColWF cq) (hcovp : p.commits.size ≤ cp.nchunks) (hcovr : r.commits.size ≤ cq.nchunks)
    (hckp : ComputedKinds p) (hckr : ComputedKinds r) (hok : TxnOK x t) :
    ∃ cp' cq', (p.commit t).findCol x = some cp' ∧ (replayAll .log r (emittedBy p t)).findCol x = some cq' ∧
      (∀ i, slot cq i = slot cp i → slot cq' i = slot cp' i) ∧
      (∀ i, chunkOf i ∉ t.dirtyChunks → slot cq' i = slot cq i ∧ slot cp' i = slot cp i) := by
  obtain ⟨cp', cq', g1, g2, _, _, _, _, _, _, _, g10, g11⟩ := commit_replay_num_raw x hxr .log p r t cp cq k k2 hfp hfr hkp hkr
    hwp hwr hcovp hcovr hckp hckr hok (emittedBy_delivers_log p t hok.distinct)
  exact ⟨cp', cq', g1, g2, g10, g11⟩

/-- what the history theorem asks of every transaction (for all columns at once): distinct buffer names, every buffer keeps
    its ops in sections of their own chunk (both kept by the writer API: `putOp_distinct`, `Buf.Inv`), no `Merge` in the
    marker buffer (the API writes `Insert` / `Delete` there) -/
structure TxnWF (t : Txn) : Prop where
  distinct : BufsDistinct t.updates
  chunkOK : ∀ v ∈ t.updates, ChunkOK v
  markers : ∀ o ∈ markerAll t.updates, o.typ ≠ opMerge

theorem TxnWF.ok {t : Txn} (h : TxnWF t) (x : String) : TxnOK x t :=
  ⟨h.distinct, fun v hv _ => h.chunkOK v hv, h.markers⟩

/-- the history theorem for any logger kind `kd` whose deliveries `Delivers` (the `.log` and `.channel` versions below are
    instances) -/
theorem replica_converges_of_delivery (kd : LoggerKind) (p r : Store) (ts : List Txn) (hl : p.logger ≠ .none)
    (hem : p.emitted = []) (hckp : ComputedKinds p) (hckr : ComputedKinds r) (hts : ∀ t ∈ ts, TxnWF t)
    (hdl : ∀ e ∈ emittedByAll p ts, Delivers e.updates e.chunk (e.received kd)) (hfill : FillSync p r) :
    let p' := ts.foldl Store.commit p
    let r' := replayAll kd r p'.emitted.reverse
    (∀ x, x ≠ rowColumn → NumSync x p r →
      NumSync x p' r' ∧ ∃ cp cq, p'.findCol x = some cp ∧ r'.findCol x = some cq ∧ ∀ i, cq.read i = cp.read i) ∧
    (∀ j, Bits.get r'.fill j = Bits.get p'.fill j) := by
  intro p' r'
  have hstream : (ts.foldl Store.commit p).emitted.reverse = emittedByAll p ts := by
    rw [emitted_of_commits ts p hl, hem, List.append_nil, List.reverse_reverse]
  constructor
  · intro x hxr hs
    have h := commits_replay_num x hxr kd ts p r hckp hckr (fun t ht => (hts t ht).ok x) hdl hs
    have h' : NumSync x p' r' := by
      show NumSync x (ts.foldl Store.commit p) (replayAll kd r (ts.foldl Store.commit p).emitted.reverse)
      rw [hstream]
      exact h
    exact ⟨h', h'.read⟩
  · show FillSync (ts.foldl Store.commit p) (replayAll kd r (ts.foldl Store.commit p).emitted.reverse)
    rw [hstream]
    exact commits_replay_fill kd ts p r hdl hfill

/-- **`replica_converges_store`.** Primary `p` with the `.log` logger and an empty change stream; replica `r` (any logger,
    any merge functions, any hash). Both have computed columns of computed kinds only (`ComputedKinds`, kept by commits), the
    fill lists agree. The primary commits the transactions `ts` one after the other (sequential, hence quiescent at the
    end); the replica replays the whole change stream `p'.emitted` in emission order. Then

    * every numeric column that was in sync (`NumSync`: same name, numeric on both sides, equal slots — e.g. both freshly
      created, `numSync_createColumn`, `same_schema_same_start`) is in sync, and **reads the same at every offset** on
      both sides;
    * the fill lists agree bit by bit (rows inserted / deleted: the markers are part of what is emitted). -/
theorem replica_converges_store (p r : Store) (ts : List Txn) (hl : p.logger = .log) (hem : p.emitted = [])
    (hckp : ComputedKinds p) (hckr : ComputedKinds r) (hts : ∀ t ∈ ts, TxnWF t) (hfill : FillSync p r) :
    let p' := ts.foldl Store.commit p
    let r' := replayAll .log r p'.emitted.reverse
    (∀ x, x ≠ rowColumn → NumSync x p r →
      NumSync x p' r' ∧ ∃ cp cq, p'.findCol x = some cp ∧ r'.findCol x = some cq ∧ ∀ i, cq.read i = cp.read i) ∧
    (∀ j, Bits.get r'.fill j = Bits.get p'.fill j) :=
  replica_converges_of_delivery .log p r ts (by rw [hl]; decide) hem hckp hckr hts
    (emittedByAll_delivers_log ts p (fun t ht => (hts t ht).distinct)) hfill

/-- the same from any state of the change stream: the replica replays the entries the history ADDED (C15's `newCommits`,
    most recent first, reversed) -/
theorem replica_converges_store_from (p r : Store) (ts : List Txn) (hl : p.logger = .log)
    (hckp : ComputedKinds p) (hckr : ComputedKinds r) (hts : ∀ t ∈ ts, TxnWF t) (hfill : FillSync p r) :
    let p' := ts.foldl Store.commit p
    let r' := replayAll .log r (C15.newCommits p p').reverse
    (∀ x, x ≠ rowColumn → NumSync x p r →
      NumSync x p' r' ∧ ∃ cp cq, p'.findCol x = some cp ∧ r'.findCol x = some cq ∧ ∀ i, cq.read i = cp.read i) ∧
    (∀ j, Bits.get r'.fill j = Bits.get p'.fill j) := by
  intro p' r'
  have hl' : p.logger ≠ .none := by rw [hl]; decide
  have hstream : (C15.newCommits p (ts.foldl Store.commit p)).reverse = emittedByAll p ts := by
    rw [C15.newCommits_of_append (emitted_of_commits ts p hl'), List.reverse_reverse]
  have hdl := emittedByAll_delivers_log ts p (fun t ht => (hts t ht).distinct)
  constructor
  · intro x hxr hs
    have h := commits_replay_num x hxr .log ts p r hckp hckr (fun t ht => (hts t ht).ok x) hdl hs
    have h' : NumSync x p' r' := by
      show NumSync x (ts.foldl Store.commit p)
        (replayAll .log r (C15.newCommits p (ts.foldl Store.commit p)).reverse)
      rw [hstream]
      exact h
    exact ⟨h', h'.read⟩
  · show FillSync (ts.foldl Store.commit p) (replayAll .log r (C15.newCommits p (ts.foldl Store.commit p)).reverse)
    rw [hstream]
    exact commits_replay_fill .log ts p r hdl hfill

/-- **`replica_converges_store_reserved`** — the history theorem when inserts reserve their offsets first. `Txn.insert` /
    `Txn.reserve` set the bit of the new row in the SHARED fill list at once (`Store.next`; `Store.free` on a failed insert), before
    the commit; the `Insert` marker reaches the replica with the commit. A step of the history is therefore: the fill list and
    row counter as the transaction's reservations leave them (`Store.reserved`), then `Store.commit`. Hypothesis `ResRun`: at
    every step the reserved fill list differs from the committed one only at offsets some marker of the transaction addresses
    (for `Store.next`: the one bit it returns, `next_fill_get`). Markers are `Insert` / `Delete`. Same conclusions as
    `replica_converges_store` (which is the case without reservations, `ResStep.plain`). -/
theorem replica_converges_store_reserved (p r : Store) (sts : List ResStep) (hl : p.logger = .log) (hem : p.emitted = [])
    (hckp : ComputedKinds p) (hckr : ComputedKinds r)
    (hts : ∀ st ∈ sts, TxnWF st.txn ∧ ∀ o ∈ markerAll st.txn.updates, isMarkerOp o)
    (hres : ResRun p sts) (hfill : FillSync p r) :
    let p' := sts.foldl ResStep.run p
    let r' := replayAll .log r p'.emitted.reverse
    (∀ x, x ≠ rowColumn → NumSync x p r →
      NumSync x p' r' ∧ ∃ cp cq, p'.findCol x = some cp ∧ r'.findCol x = some cq ∧ ∀ i, cq.read i = cp.read i) ∧
    (∀ j, Bits.get r'.fill j = Bits.get p'.fill j) := by
  intro p' r'
  have hstream : (sts.foldl ResStep.run p).emitted.reverse = emittedBySteps p sts := by
    rw [emitted_of_steps sts p (by rw [hl]; decide), hem, List.append_nil, List.reverse_reverse]
  have hdl := emittedBySteps_delivers_log sts p (fun st hst => (hts st hst).1.distinct)
  constructor
  · intro x hxr hs
    have h := steps_replay_num x hxr .log sts p r hckp hckr (fun st hst => (hts st hst).1.ok x) hdl hs
    have h' : NumSync x p' r' := by
      show NumSync x (sts.foldl ResStep.run p) (replayAll .log r (sts.foldl ResStep.run p).emitted.reverse)
      rw [hstream]
      exact h
    exact ⟨h', h'.read⟩
  · show FillSync (sts.foldl ResStep.run p) (replayAll .log r (sts.foldl ResStep.run p).emitted.reverse)
    rw [hstream]
    exact steps_replay_fill .log sts p r hdl
      (fun st hst => ⟨(hts st hst).2, fun m hm _ => (hts st hst).1.chunkOK m hm⟩) hres hfill

/-- what `Txn.reserve` does to the store is such a reservation, and the one bit it changes is the offset it returns -/
theorem reserve_is_reservation (p : Store) (t : Txn) :
    (t.reserve p).1 = p.reserved (Bits.set p.fill (t.reserve p).2.2) (p.count + 1) ∧
    ∀ j, Bits.get (t.reserve p).1.fill j ≠ Bits.get p.fill j → j = (t.reserve p).2.2 :=
  ⟨rfl, fun j h => next_fill_get p j h⟩

/-! ### the same schema on both sides -/

/-- **same schema ⇒ same start.** Two collections built by `NewCollection` + `CreateColumn` with the same numeric column
    names — numeric kinds, merge functions, capacities, loggers and hash functions all free — agree on the registered names,
    every registered column is in sync, the fill lists agree, no computed columns -/
theorem same_schema_same_start (cap cap2 : Nat) (lg lg2 : LoggerKind) (hash hash2 : Bytes → Nat)
    (cols cols2 : List (String × NumKind × (Bytes → Bytes → Bytes))) (hn : cols2.map (·.1) = cols.map (·.1)) :
    SameStart (mkStore cap lg hash cols) (mkStore cap2 lg2 hash2 cols2) :=
  mkStore_sameStart cap cap2 lg lg2 hash hash2 cols cols2 hn

/-- **`replica_converges_fresh`** — the closed form: primary built with the `.log` logger, replica built with the same column
    names (its own kinds / merge functions / capacity / logger / hash); any sequence of well-formed transactions committed on
    the primary, the whole change stream replayed on the replica: every registered column reads the same at every offset on
    both sides (`none` = row absent), and the fill lists agree. -/
theorem replica_converges_fresh (cap cap2 : Nat) (lg2 : LoggerKind) (hash hash2 : Bytes → Nat)
    (cols cols2 : List (String × NumKind × (Bytes → Bytes → Bytes))) (hn : cols2.map (·.1) = cols.map (·.1))
    (ts : List Txn) (hts : ∀ t ∈ ts, TxnWF t) :
    let p' := ts.foldl Store.commit (mkStore cap .log hash cols)
    let r' := replayAll .log (mkStore cap2 lg2 hash2 cols2) p'.emitted.reverse
    (∀ x cp, x ≠ rowColumn → p'.findCol x = some cp → ∃ cq, r'.findCol x = some cq ∧ ∀ i, cq.read i = cp.read i) ∧
    (∀ j, Bits.get r'.fill j = Bits.get p'.fill j) := by
  intro p' r'
  have hst := mkStore_sameStart cap cap2 .log lg2 hash hash2 cols cols2 hn
  obtain ⟨q1, q2⟩ := mkStore_quiet cap .log hash cols
  obtain ⟨h1, h2⟩ := replica_converges_store (mkStore cap .log hash cols) (mkStore cap2 lg2 hash2 cols2) ts q2 q1
    (computedKinds_of_noComputed _ hst.ncp) (computedKinds_of_noComputed _ hst.ncr) hts hst.fill
  refine ⟨?_, h2⟩
  intro x cp hxr hf
  -- the column exists after the commits, hence before (commits keep the registry)
  have hbefore : (mkStore cap .log hash cols).findCol x ≠ none := by
    intro hnone
    have hp := commits_plumb ts (mkStore cap .log hash cols)
    have := hp.findCol x
    rw [hnone] at this
    have hf' : (p'.findCol x).isSome = true := by rw [hf]; rfl
    rw [this] at hf'
    cases hf'
  obtain ⟨_, cp', cq', e1, e2, e3⟩ := h1 x hxr (hst.cols x hbefore)
  rw [hf] at e1
  cases e1
  exact ⟨cq', e2, e3⟩

/-! ## 4 — the `.channel` logger: transactions that touch a single chunk

The `.channel` logger hands the replica a clone of ALL buffers of the transaction (finding D16), and `Store.replay` — a commit
— walks every chunk that has a header in any of them. For a transaction whose dirty chunks are one chunk, what is delivered
is what the `.log` logger delivers (`emittedBy_delivers_channel`), so everything above holds. -/

/-- a whole commit of a single-chunk transaction through the `.channel` logger -/
theorem replay_channel_commit (p r : Store) (t : Txn) (ch : Nat) (x : String) (hxr : x ≠ rowColumn)
    (hckp : ComputedKinds p) (hckr : ComputedKinds r) (hok : TxnWF t) (hsingle : t.dirtyChunks = [ch]) :
    (NumSync x p r → NumSync x (p.commit t) (replayAll .channel r (emittedBy p t))) ∧
    (FillSync p r → FillSync (p.commit t) (replayAll .channel r (emittedBy p t))) ∧
    (NumSync x p r → ComputedKinds (replayAll .channel r (emittedBy p t))) := by
  have hdl := emittedBy_delivers_channel p t ch hsingle hok.chunkOK
  exact ⟨fun h => (commit_replay_num x hxr .channel p r t hckp hckr (hok.ok x) hdl h).1,
    commit_replay_fill .channel p r t hdl,
    fun h => (commit_replay_num x hxr .channel p r t hckp hckr (hok.ok x) hdl h).2⟩

/-- **`replica_converges_store_channel`**: the history theorem for the `.channel` logger, every transaction touching one
    chunk (not necessarily the same one) -/
theorem replica_converges_store_channel (p r : Store) (ts : List Txn) (hl : p.logger = .channel) (hem : p.emitted = [])
    (hckp : ComputedKinds p) (hckr : ComputedKinds r) (hts : ∀ t ∈ ts, TxnWF t ∧ ∃ ch, t.dirtyChunks = [ch])
    (hfill : FillSync p r) :
    let p' := ts.foldl Store.commit p
    let r' := replayAll .channel r p'.emitted.reverse
    (∀ x, x ≠ rowColumn → NumSync x p r →
      NumSync x p' r' ∧ ∃ cp cq, p'.findCol x = some cp ∧ r'.findCol x = some cq ∧ ∀ i, cq.read i = cp.read i) ∧
    (∀ j, Bits.get r'.fill j = Bits.get p'.fill j) :=
  replica_converges_of_delivery .channel p r ts (by rw [hl]; decide) hem hckp hckr (fun t ht => (hts t ht).1)
    (emittedByAll_delivers_channel ts p (fun t ht => ⟨(hts t ht).2, (hts t ht).1.chunkOK⟩)) hfill

/-! ### D16: why multi-chunk transactions are excluded

In the model, as in the code (`Txn.commit` marks dirty every chunk that has a header in any buffer, `RangeChunks`), the replay
of a `.channel` entry walks ALL chunks of the cloned buffers: the entry of the first chunk of a multi-chunk transaction makes
the replica apply the later chunks too — as issued, `Merge` ops not yet rewritten, hence through the REPLICA's merge function —
and every later entry of the transaction re-applies the earlier chunks (`channel_multichunk_not_delivered`, section 5: the
mechanism, evaluated by the kernel on the example transaction `exT1`).

Sequentially (one `Store.commit` after the other, the replica replaying the complete stream) the rewritten puts of the later
entries overwrite these values again: with `Store.commit` alone — atomic over its chunks — finding D16 does not show at
quiescence. It shows as soon as another transaction commits to an earlier chunk between two latch sections of the multi-chunk
transaction, i.e. in a concurrent history. The latch section `commitChunk` is the unit of interleaving, so that history can be
written down by hand: `channel_multichunk_counterexample` (after section 5) — the primary ends with the later transaction's
value, the `.channel`-fed replica with the earlier one, the `.log`-fed replica equal to the primary. -/

/-! ## 5 — non-vacuity -/

/-- a non-additive merge: keep the larger value -/
def maxMerge : Bytes → Bytes → Bytes := fun v d => if beNat v < beNat d then d else v

/-- the primary: `.log` logger; `a` an `int64` column that adds, `b` an `int32` column that keeps the maximum -/
def exColsP : List (String × NumKind × (Bytes → Bytes → Bytes)) := [("a", .i64, addMerge64), ("b", .i32, maxMerge)]
def exColsR : List (String × NumKind × (Bytes → Bytes → Bytes)) := [("a", .i64, fun _ d => d), ("b", .i32, fun v _ => v)]
def exPrimary : Store := mkStore 1024 .log (fun _ => 0) exColsP

/-- the replica: another capacity, no logger, another hash; `a` overwrites on merge, `b` ignores the delta -/
def exReplica : Store := mkStore 512 .none (fun _ => 7) exColsR

def v64 (n : Nat) : Val := .fixed 3 (natToBE 8 n)
def v32 (n : Nat) : Val := .fixed 2 (natToBE 4 n)

/-- insert rows 5 (chunk 0) and 16389 (chunk 1); puts and merges on both columns, two merges on the same offset -/
def exT1 : Txn :=
  ([(rowColumn, ⟨opInsert, 5, .fixed 0 []⟩), ("a", ⟨opPut, 5, v64 10⟩), ("b", ⟨opMerge, 5, v32 3⟩),
    (rowColumn, ⟨opInsert, 16389, .fixed 0 []⟩), ("a", ⟨opMerge, 16389, v64 7⟩), ("b", ⟨opPut, 16389, v32 9⟩),
    ("b", ⟨opMerge, 5, v32 2⟩)] : List (String × Op)).foldl (fun t p => t.putOp p.1 p.2) {}

/-- merges on both columns in both chunks, a row deleted -/
def exT2 : Txn :=
  ([("a", ⟨opMerge, 5, v64 5⟩), ("b", ⟨opMerge, 16389, v32 4⟩), (rowColumn, ⟨opDelete, 16389, .fixed 0 []⟩),
    ("a", ⟨opMerge, 16389, v64 1⟩), ("b", ⟨opMerge, 5, v32 8⟩)] : List (String × Op)).foldl (fun t p => t.putOp p.1 p.2) {}

theorem exT_wf : ∀ t ∈ [exT1, exT2], TxnWF t := by
  have h1 : ∀ t ∈ [exT1, exT2], BufsDistinct t.updates := by decide
  have h2 : ∀ t ∈ [exT1, exT2], ∀ v ∈ t.updates, ∀ s ∈ v.rsecs, ∀ o ∈ s.rops, chunkOf o.idx = s.chunk := by decide
  have h3 : ∀ t ∈ [exT1, exT2], ∀ o ∈ markerAll t.updates, o.typ ≠ opMerge := by decide
  intro t ht
  exact ⟨h1 t ht, h2 t ht, h3 t ht⟩

example : exT1.dirtyChunks = [0, 1] ∧ exT2.dirtyChunks = [0, 1] := by decide
example : (∃ o ∈ allFor exT1.updates "b", o.typ = opMerge) ∧ (∃ o ∈ allFor exT2.updates "a", o.typ = opMerge) := by decide
example : exPrimary.logger = .log ∧ exPrimary.emitted = [] := by decide
-- the model evaluated: two transactions over two chunks each — four entries in the stream, most recent first
example : ([exT1, exT2].foldl Store.commit exPrimary).emitted.map (fun e => (e.id, e.chunk)) = [(4, 1), (3, 0), (2, 1), (1, 0)] := by
  decide +kernel

/-- the history theorem applied: after the two commits and the replay of the four entries, the columns `a`, `b` (and `expire`)
    read the same at every offset on both sides, and the fill lists agree — although the replica's merge functions differ -/
theorem ex_converges :
    let p' := [exT1, exT2].foldl Store.commit exPrimary
    let r' := replayAll .log exReplica p'.emitted.reverse
    (∀ x cp, x ≠ rowColumn → p'.findCol x = some cp → ∃ cq, r'.findCol x = some cq ∧ ∀ i, cq.read i = cp.read i) ∧
    (∀ j, Bits.get r'.fill j = Bits.get p'.fill j) :=
  replica_converges_fresh 1024 512 .none (fun _ => 0) (fun _ => 7) exColsP exColsR rfl [exT1, exT2] exT_wf

/-- the hypotheses of the one-chunk and one-commit theorems hold on the example too -/
example : SameStart exPrimary exReplica := same_schema_same_start _ _ _ _ _ _ exColsP exColsR rfl
example : TxnOK "b" exT1 := (exT_wf exT1 (by simp)).ok "b"
example : ("a" : String) ≠ rowColumn ∧ ("b" : String) ≠ rowColumn := by decide
example : NumSync "b" exPrimary exReplica :=
  (same_schema_same_start 1024 512 .log .none (fun _ => 0) (fun _ => 7) exColsP exColsR rfl).cols "b"
    (by show exPrimary.findCol "b" ≠ none; decide +kernel)

/-- the one-chunk theorem `replay_log_col` instantiated: the primary as `commitCapacity` leaves it for `exT1`, the latch
    section of chunk 0, column `b` (two merges on one offset, non-additive merge) -/
example : ∃ cp cq cp' cq', (capStore exPrimary exT1).findCol "b" = some cp ∧ exReplica.findCol "b" = some cq ∧
    ((capStore exPrimary exT1).commitChunk 0 (exT1.updates.find? isMarkerBuf).isSome exT1.updates).1.findCol "b" = some cp' ∧
    (exReplica.replay 0 ((⟨1, 0, ((capStore exPrimary exT1).commitChunk 0 (exT1.updates.find? isMarkerBuf).isSome
      exT1.updates).2⟩ : Emitted).received .log)).findCol "b" = some cq' ∧
    ∀ i, slot cq' i = slot cp' i := by
  have hst := same_schema_same_start 1024 512 .log .none (fun _ => 0) (fun _ => 7) exColsP exColsR rfl
  obtain ⟨cp, cq, k, k2, hfp, hfr, hkp, hkr, hwp, hwr, hcovp, hcovr, hs⟩ :=
    hst.cols "b" (by show exPrimary.findCol "b" ≠ none; decide +kernel)
  obtain ⟨c0, f0, k0, _, w0, n0, s0⟩ := capStore_num exPrimary exT1 "b" k cp hfp hkp hwp hcovp
  have hok := (exT_wf exT1 (by simp)).ok "b"
  obtain ⟨cp', cq', g1, g2, g3, _⟩ := replay_log_col (capStore exPrimary exT1) exReplica 0 exT1.updates 1 "b" c0 cq k k2
    (by decide) f0 hfr k0 hkr w0 hwr (n0 0 (by decide)) hcovr
    (capStore_computedKinds _ _ (computedKinds_of_noComputed _ hst.ncp)) (computedKinds_of_noComputed _ hst.ncr)
    hok.distinct (hok.chunkOps 0) (hok.noMerge 0)
  exact ⟨c0, cq, cp', cq', f0, hfr, g1, g2, fun i => g3 i ((hs i).trans (s0 i).symm)⟩

/-- a transaction built the way `Txn.Insert` builds it: reserve an offset in the SHARED fill list (`Store.next`), then write
    the row at that offset -/
def exIns : Store × Txn × Nat := ({} : Txn).reserve exPrimary
/-- the step: the store as the reservation leaves it, the transaction with a value for column `a` -/
def exInsStep : ResStep := ⟨exIns.1.fill, exIns.1.count, exIns.2.1.putOp "a" ⟨opPut, exIns.2.2, v64 42⟩⟩

example : exIns.2.2 = 0 ∧ Bits.get exIns.1.fill 0 = true ∧ Bits.get exPrimary.fill 0 = false := by decide +kernel

theorem exIns_resRun : ResRun exPrimary [exInsStep] := by
  refine ⟨?_, trivial⟩
  intro j hj
  have hj' := (reserve_is_reservation exPrimary {}).2 j hj
  have hm : ∃ o ∈ markerAll exInsStep.txn.updates, o.idx = exIns.2.2 := by decide +kernel
  rw [hj']
  exact hm

theorem exIns_wf : ∀ st ∈ [exInsStep], TxnWF st.txn ∧ ∀ o ∈ markerAll st.txn.updates, isMarkerOp o := by
  have h1 : ∀ st ∈ [exInsStep], BufsDistinct st.txn.updates := by decide +kernel
  have h2 : ∀ st ∈ [exInsStep], ∀ v ∈ st.txn.updates, ∀ s ∈ v.rsecs, ∀ o ∈ s.rops, chunkOf o.idx = s.chunk := by
    decide +kernel
  have h3 : ∀ st ∈ [exInsStep], ∀ o ∈ markerAll st.txn.updates, o.typ ≠ opMerge := by decide +kernel
  have h4 : ∀ st ∈ [exInsStep], ∀ o ∈ markerAll st.txn.updates, o.typ = opInsert ∨ o.typ = opDelete := by decide +kernel
  intro st hst
  exact ⟨⟨h1 st hst, h2 st hst, h3 st hst⟩, h4 st hst⟩

/-- the history theorem with reservations applied: the primary's fill list already holds the new row when the commit starts,
    the replica's does not — after the replay they agree, and so do the columns -/
theorem exIns_converges :
    let p' := [exInsStep].foldl ResStep.run exPrimary
    let r' := replayAll .log exReplica p'.emitted.reverse
    (∃ cp cq, p'.findCol "a" = some cp ∧ r'.findCol "a" = some cq ∧ ∀ i, cq.read i = cp.read i) ∧
    (∀ j, Bits.get r'.fill j = Bits.get p'.fill j) := by
  have hst := same_schema_same_start 1024 512 .log .none (fun _ => 0) (fun _ => 7) exColsP exColsR rfl
  obtain ⟨h1, h2⟩ := replica_converges_store_reserved exPrimary exReplica [exInsStep] (by decide) (by decide)
    (computedKinds_of_noComputed _ hst.ncp) (computedKinds_of_noComputed _ hst.ncr) exIns_wf exIns_resRun hst.fill
  exact ⟨(h1 "a" (by decide) (hst.cols "a" (by show exPrimary.findCol "a" ≠ none; decide +kernel))).2, h2⟩

/-- a single-chunk transaction for the `.channel` theorems -/
def exT3 : Txn :=
  ([(rowColumn, ⟨opInsert, 16390, .fixed 0 []⟩), ("a", ⟨opMerge, 16390, v64 2⟩), ("b", ⟨opMerge, 16390, v32 6⟩),
    ("a", ⟨opMerge, 16390, v64 3⟩)] : List (String × Op)).foldl (fun t p => t.putOp p.1 p.2) {}

example : TxnWF exT3 ∧ ∃ ch, exT3.dirtyChunks = [ch] := by
  have h1 : BufsDistinct exT3.updates := by decide
  have h2 : ∀ v ∈ exT3.updates, ∀ s ∈ v.rsecs, ∀ o ∈ s.rops, chunkOf o.idx = s.chunk := by decide
  have h3 : ∀ o ∈ markerAll exT3.updates, o.typ ≠ opMerge := by decide
  exact ⟨⟨h1, h2, h3⟩, 1, by decide⟩

/-- the primary of the example with the `.channel` logger -/
def exPrimaryCh : Store := mkStore 1024 .channel (fun _ => 0) exColsP

/-- the first entry `exT1` emits (chunk 0) -/
def exE0 : Emitted := (emittedBy exPrimaryCh exT1).headD default

/-- **D16, the mechanism** (the model evaluated by the kernel). `exT1` touches chunks 0 and 1. Its first entry is the one of
    chunk 0. Delivered by `.channel`, its replay walks chunks 0 AND 1, and what it applies to column `a` in chunk 1 is the
    transaction's `Merge`, not yet rewritten (the primary has not reached chunk 1 when it clones the buffers) — so the delivery
    is not a `Delivers`. Delivered by `.log`, the replay walks chunk 0 only and holds nothing for chunk 1. -/
theorem channel_multichunk_not_delivered :
    (emittedBy exPrimaryCh exT1).map (·.chunk) = [0, 1] ∧ exE0.chunk = 0 ∧
    (replayTxn exE0.chunk (exE0.received .channel)).dirtyChunks = [0, 1] ∧
    (∃ o ∈ opsFor (exE0.received .channel) "a" 1, o.typ = opMerge) ∧
    ¬ Delivers exE0.updates exE0.chunk (exE0.received .channel) ∧
    (replayTxn exE0.chunk (exE0.received .log)).dirtyChunks = [0] ∧ opsFor (exE0.received .log) "a" 1 = [] := by
  have h1 : (emittedBy exPrimaryCh exT1).map (·.chunk) = [0, 1] := by decide +kernel
  have h2 : exE0.chunk = 0 := by decide +kernel
  have h3 : (replayTxn exE0.chunk (exE0.received .channel)).dirtyChunks = [0, 1] := by decide +kernel
  have h4 : ∃ o ∈ opsFor (exE0.received .channel) "a" 1, o.typ = opMerge := by decide +kernel
  have h5 : (replayTxn exE0.chunk (exE0.received .log)).dirtyChunks = [0] := by decide +kernel
  have h6 : opsFor (exE0.received .log) "a" 1 = [] := by decide +kernel
  refine ⟨h1, h2, h3, h4, ?_, h5, h6⟩
  intro hd
  have := replayTxn_dirtyChunks exE0.chunk _ hd.chunks
  rw [h3, h2] at this
  cases this

/-! ### D16 as a concurrent history, built by hand from latch sections

`Store.commit` is atomic over its chunks, but the latch section `commitChunk` is the unit of interleaving. The history below
runs T1's latch section of chunk 0, then ALL of T3 (which overwrites row 5, chunk 0), then T1's latch section of chunk 1 —
what two concurrent writers can produce. The stream is `[T1/chunk 0, T3/chunk 0, T1/chunk 1]`. -/

def dCols : List (String × NumKind × (Bytes → Bytes → Bytes)) := [("a", .i64, addMerge64)]
/-- primary with the `.channel` logger, replica built the same way -/
def dP : Store := mkStore 1024 .channel (fun _ => 0) dCols
def dR : Store := mkStore 1024 .none (fun _ => 0) dCols
/-- T1 inserts rows 5 (chunk 0) and 16389 (chunk 1) with values 1 and 2 -/
def dT1 : Txn :=
  ([(rowColumn, ⟨opInsert, 5, .fixed 0 []⟩), ("a", ⟨opPut, 5, v64 1⟩),
    (rowColumn, ⟨opInsert, 16389, .fixed 0 []⟩), ("a", ⟨opPut, 16389, v64 2⟩)] : List (String × Op)).foldl
      (fun t p => t.putOp p.1 p.2) {}
/-- T3 overwrites row 5 with 3 -/
def dT3 : Txn := ([("a", ⟨opPut, 5, v64 3⟩)] : List (String × Op)).foldl (fun t p => t.putOp p.1 p.2) {}

/-- `commitCapacity` for T1 (last dirty chunk 1) -/
def d0 : Store := capStore dP dT1
/-- T1's latch section of chunk 0 -/
def d1 : Store × List Buf := d0.commitChunk 0 dT1.markers.isSome dT1.updates
/-- all of T3 -/
def d2 : Store := d1.1.commit dT3
/-- T1's latch section of chunk 1, over the buffers its first latch section left -/
def d3 : Store × List Buf := d2.commitChunk 1 dT1.markers.isSome d1.2
/-- the replica after replaying the whole stream as the logger kind `kd` delivers it -/
def dRf (kd : LoggerKind) : Store := replayAll kd dR d3.1.emitted.reverse
def dTxns (kd : LoggerKind) : List Txn := d3.1.emitted.reverse.map (fun e => replayTxn e.chunk (e.received kd))

theorem dStart : SameStart dP dR := mkStore_sameStart 1024 1024 .channel .none _ _ dCols dCols rfl

/-- the primary at the end of the history: row 5 holds T3's value -/
theorem d_primary : ∃ cp, d3.1.findCol "a" = some cp ∧ cp.read 5 = some (natToBE 8 3) := by
  have hxr : ("a" : String) ≠ rowColumn := by decide
  obtain ⟨cp, _, k, _, hfp, _, hkp, _, hwp, _, hcovp, _, _⟩ := dStart.cols "a" (by decide +kernel)
  have hck0 : ComputedKinds dP := computedKinds_of_noComputed _ dStart.ncp
  -- `commitCapacity`
  obtain ⟨c0, f0, k0, _, w0, n0, _⟩ := capStore_num dP dT1 "a" k cp hfp hkp hwp hcovp
  have hd : dT1.dirtyChunks = [0, 1] := by decide
  have hck1 : ComputedKinds d0 := capStore_computedKinds dP dT1 hck0
  have hsz0 : d0.commits.size = 2 := by decide +kernel
  -- T1, chunk 0
  have hm1 : ∀ o ∈ markerOps dT1.updates 0, chunkOf o.idx = 0 := by decide
  have hr1 : ∀ v ∈ dT1.updates, ∀ o ∈ v.rangeOps 0, chunkOf o.idx = 0 := by decide
  obtain ⟨hreg1, ⟨c1, f1, sh1, _⟩, _⟩ := commitChunk_read d0 0 dT1.updates "a" k c0 hxr f0 k0 (n0 0 (by rw [hd]; simp))
    (notComputed_of_computedKinds d0 hck1 "a" c0 f0 (by rw [k0]; rfl) _)
    (inBounds_of_chunk c0 0 _ w0 (n0 0 (by rw [hd]; simp)) hm1)
    (fun v hv _ => inBounds_of_chunk c0 0 _ w0 (n0 0 (by rw [hd]; simp)) (hr1 v hv))
  have hf1 : d1.1.findCol "a" = some c1 := f1
  have hck2 : ComputedKinds d1.1 := ComputedKinds.of_regSim hreg1 hck1
  have hsz1 : d1.1.commits.size = 2 := by
    show (d0.commitChunk 0 dT1.markers.isSome dT1.updates).1.commits.size = 2
    rw [(commitChunk_gen d0 0 _ _).2.2.1, hsz0]
  have hn1 : 1 < c1.nchunks := by rw [sh1.nchunks]; exact n0 1 (by rw [hd]; simp)
  -- all of T3
  have hi3 : ∀ v ∈ dT3.updates, ∀ s ∈ v.rsecs, ∀ o ∈ s.rops, chunkOf o.idx = s.chunk := by decide
  obtain ⟨c2, f2, k2, _, w2, n2, _, s2⟩ := commit_readback d1.1 dT3 "a" k c1 hxr hf1 (sh1.kind.trans k0)
    (ColWF.of_shape sh1 w0) (by rw [hsz1]; omega)
    (notComputed_of_computedKinds d1.1 hck2 "a" c1 hf1 (by rw [sh1.kind, k0]; rfl) _) (fun v hv _ => hi3 v hv)
  have hf2 : d2.findCol "a" = some c2 := f2
  have hL2 : (markerAll dT3.updates ++ allFor dT3.updates "a").filter (fun o => o.idx = 5) = [⟨opPut, 5, v64 3⟩] := by
    decide
  have hs2 : slot c2 5 = (true, natToBE 8 3) := by rw [s2 5, hL2]; rfl
  -- T1, chunk 1
  have hfm : (d1.2.find? isMarkerBuf).isSome = dT1.markers.isSome := by
    show ((d0.commitChunk 0 dT1.markers.isSome dT1.updates).2.find? isMarkerBuf).isSome = _
    rw [commitChunk_find_marker]; rfl
  have hm3 : ∀ o ∈ markerOps d1.2 1, chunkOf o.idx = 1 := by decide +kernel
  have hr3 : ∀ v ∈ d1.2, ∀ o ∈ v.rangeOps 1, chunkOf o.idx = 1 := by decide +kernel
  have hn2 : 1 < c2.nchunks := by omega
  obtain ⟨_, ⟨c3, f3, sh3, s3⟩, _⟩ := commitChunk_read d2 1 d1.2 "a" k c2 hxr hf2 k2 hn2
    (notComputed_of_computedKinds d2 (commit_computedKinds d1.1 dT3 hck2) "a" c2 hf2 (by rw [k2]; rfl) _)
    (inBounds_of_chunk c2 1 _ w2 hn2 hm3) (fun v hv _ => inBounds_of_chunk c2 1 _ w2 hn2 (hr3 v hv))
  rw [hfm] at f3
  have hL3 : (markerOps d1.2 1 ++ opsFor d1.2 "a" 1).filter (fun o => o.idx = 5) = [] := by decide +kernel
  refine ⟨c3, f3, ?_⟩
  rw [read_num_wf c3 k (sh3.kind.trans k2) (ColWF.of_shape sh3 w2), s3 5, hL3]
  show (if (slot c2 5).1 = true then some (slot c2 5).2 else none) = _
  rw [hs2]
  rfl

/-- the replica after the replay: row 5 holds what the ops addressed to it, in stream order, leave -/
theorem d_replica (kd : LoggerKind) (v : Bytes)
    (hinv : ∀ t ∈ dTxns kd, ∀ b ∈ t.updates, ∀ s ∈ b.rsecs, ∀ o ∈ s.rops, chunkOf o.idx = s.chunk)
    (hL : ∀ (m : Bytes → Bytes → Bytes) (w : Nat) (st : Bool × Bytes),
      (((dTxns kd).flatMap (fun t => issued t "a")).filter (fun o => o.idx = 5)).foldl (slotEffect m w) st = (true, v)) :
    ∃ cq, (dRf kd).findCol "a" = some cq ∧ cq.read 5 = some v := by
  have hxr : ("a" : String) ≠ rowColumn := by decide
  obtain ⟨_, cq, _, k2, _, hfr, _, hkr, _, hwr, _, hcovr, _⟩ := dStart.cols "a" (by decide +kernel)
  have hck : ComputedKinds dR := computedKinds_of_noComputed _ dStart.ncr
  obtain ⟨c', f, k', _, w', _, _, sl⟩ := commits_readback "a" k2 hxr (dTxns kd) dR cq hfr hkr hwr hcovr
    (fun t _ => notComputed_of_computedKinds dR hck "a" cq hfr (by rw [hkr]; rfl) t.updates)
    (fun t ht b hb _ => hinv t ht b hb)
  refine ⟨c', ?_, ?_⟩
  · show (replayAll kd dR d3.1.emitted.reverse).findCol "a" = some c'
    rw [replayAll_eq_commits]
    exact f
  · rw [read_num_wf c' k2 k' w', sl 5, hL]
    rfl

/-- **`channel_multichunk_counterexample`** (finding D16; kernel-checked). T1 touches chunks 0 and 1, T3 overwrites row 5
    (chunk 0) between T1's two latch sections. The primary ends with T3's value `3` in row 5. The replica replays the complete
    stream in emission order. Fed by the `.channel` logger it ends with T1's value `1` in row 5: the entry of T1's chunk 1 is
    a clone of ALL of T1's buffers, and its replay re-applies T1's put to row 5 after T3's. Fed by the `.log` logger (every
    entry restricted to its chunk) it ends equal to the primary. -/
theorem channel_multichunk_counterexample :
    d3.1.emitted.map (fun e => (e.id, e.chunk)) = [(3, 1), (2, 0), (1, 0)] ∧
    (∃ cp cq, d3.1.findCol "a" = some cp ∧ (dRf .channel).findCol "a" = some cq ∧
      cp.read 5 = some (natToBE 8 3) ∧ cq.read 5 = some (natToBE 8 1) ∧ cq.read 5 ≠ cp.read 5) ∧
    (∃ cp cq, d3.1.findCol "a" = some cp ∧ (dRf .log).findCol "a" = some cq ∧ cq.read 5 = cp.read 5) := by
  obtain ⟨cp, hp, hpr⟩ := d_primary
  have hch : ∀ t ∈ dTxns .channel, ∀ b ∈ t.updates, ∀ s ∈ b.rsecs, ∀ o ∈ s.rops, chunkOf o.idx = s.chunk := by
    decide +kernel
  have hLc : ((dTxns .channel).flatMap (fun t => issued t "a")).filter (fun o => o.idx = 5) =
      [⟨opInsert, 5, .fixed 0 []⟩, ⟨opPut, 5, v64 1⟩, ⟨opPut, 5, v64 3⟩, ⟨opInsert, 5, .fixed 0 []⟩, ⟨opPut, 5, v64 1⟩] := by
    decide +kernel
  obtain ⟨cq, hq, hqr⟩ := d_replica .channel (natToBE 8 1) hch (fun m w st => by rw [hLc]; rfl)
  have hlg : ∀ t ∈ dTxns .log, ∀ b ∈ t.updates, ∀ s ∈ b.rsecs, ∀ o ∈ s.rops, chunkOf o.idx = s.chunk := by
    decide +kernel
  have hLl : ((dTxns .log).flatMap (fun t => issued t "a")).filter (fun o => o.idx = 5) =
      [⟨opInsert, 5, .fixed 0 []⟩, ⟨opPut, 5, v64 1⟩, ⟨opPut, 5, v64 3⟩] := by
    decide +kernel
  obtain ⟨cq2, hq2, hqr2⟩ := d_replica .log (natToBE 8 3) hlg (fun m w st => by rw [hLl]; rfl)
  refine ⟨by decide +kernel, ⟨cp, cq, hp, hq, hpr, hqr, ?_⟩, ⟨cp, cq2, hp, hq2, hqr2.trans hpr.symm⟩⟩
  rw [hpr, hqr]
  decide

/-! ## 6 — string / record columns, under the guard "no resizing merge takes effect"

A string merge whose result has another length than its delta is marked `Skip` and its result appended through the parent
buffer (`stepStr`); replaying that needs the per-offset D12 guard and the general buffer guard `ChunksOK` of `Lemmas/StoreCol`.
Here the theorems of sections 2 and 3 are carried over to string / record columns (`.str` / `.record` on either side) under
the simpler guard `NoAppend` — no buffer pass of the primary appends anything, each in the state in which it runs (decidable;
`Lemmas/StoreCol`) — which holds when the column's merge function keeps the delta's length (`LenMerge`) or the transactions
hold no `Merge` for the column (`StrGuard`). Not covered: resizing merges (guards `ChunksOK` + D12). -/

/-- **`replay_log_col_data`**: `replay_log_col` for numeric ↔ numeric or string / record ↔ string / record columns
    (`KindsMatch`), the primary's pass of the chunk appending nothing -/
theorem replay_log_col_data (p r : Store) (ch : Nat) (ups : List Buf) (id : Nat) (x : String) (cp cq : Col)
    (hxr : x ≠ rowColumn) (hfp : p.findCol x = some cp) (hfr : r.findCol x = some cq)
    (hkm : KindsMatch cp.kind cq.kind) (hwp : ColWF cp) (hwr : ColWF cq)
    (hchp : ch < cp.nchunks) (hcovr : r.commits.size ≤ cq.nchunks)
    (hckp : ComputedKinds p) (hckr : ComputedKinds r) (hdist : BufsDistinct ups)
    (hco : ∀ o ∈ markerOps ups ch ++ opsFor ups x ch, chunkOf o.idx = ch)
    (hmk : ∀ o ∈ markerOps ups ch, o.typ ≠ opMerge)
    (hna : (applyData p.hash (applyData p.hash cp ch (markerOps ups ch)).col ch (opsFor ups x ch)).appended = []) :
    let pc := p.commitChunk ch (ups.find? isMarkerBuf).isSome ups
    let e : Emitted := ⟨id, ch, pc.2⟩
    ∃ cp' cq', pc.1.findCol x = some cp' ∧ (r.replay ch (e.received .log)).findCol x = some cq' ∧
      (∀ i, slot cq i = slot cp i → slot cq' i = slot cp' i) ∧
      (∀ i, chunkOf i ≠ ch → slot cq' i = slot cq i ∧ slot cp' i = slot cp i) ∧
      SameShape cp cp' ∧ cq'.kind = cq.kind ∧ ColWF cq' ∧ (r.replay ch (e.received .log)).commits.size ≤ cq'.nchunks := by
  intro pc e
  obtain ⟨hdp, hdr⟩ := hkm.isData
  have hone : OneRow pc.2 := oneRow_of_distinct _ (distinct_of_sigs (StorePlumb.commitChunk_sigs p ch _ ups) hdist)
  have hdel : Delivers pc.2 ch (e.received .log) := delivers_log pc.2 ch hone
  obtain ⟨cp', cq', g1, g2, _, g3, g4, g5, g6, g7, g8, _⟩ := chunk_replay_data p r ch _ ups (e.received .log) x cp cq rfl hxr
    hfp hfr hkm hwp hwr hchp hcovr (notComputed_of_computedKinds p hckp x cp hfp hdp ups)
    (notComputed_of_computedKinds r hckr x cq hfr hdr _) hco hmk hna hdel
  exact ⟨cp', cq', g1, g2, g7, g8, g3, g4, g5, g6⟩

/-- **`replay_log_commit_data`**: a whole commit, guard `NoAppend` on the primary -/
theorem replay_log_commit_data (p r : Store) (t : Txn) (x : String) (hxr : x ≠ rowColumn)
    (hckp : ComputedKinds p) (hckr : ComputedKinds r) (hok : TxnOK x t) (hs : DataSync x p r)
    (hna : ∀ cp, p.findCol x = some cp → NoAppend p.hash t.updates x t.dirtyChunks (capCol p t cp)) :
    DataSync x (p.commit t) (replayAll .log r (emittedBy p t)) ∧ ComputedKinds (replayAll .log r (emittedBy p t)) :=
  let h := commit_replay_data x hxr .log p r t hckp hckr hok (emittedBy_delivers_log p t hok.distinct) hs hna
  ⟨h.1, h.2.1⟩

/-- **`replica_converges_store_data`**: the history theorem for a string / record (or numeric) column under `StrGuard`: the
    column's merge function keeps the delta's length, or no transaction holds a `Merge` for the column -/
theorem replica_converges_store_data (p r : Store) (ts : List Txn) (x : String) (hxr : x ≠ rowColumn)
    (hl : p.logger = .log) (hem : p.emitted = [])
    (hckp : ComputedKinds p) (hckr : ComputedKinds r) (hts : ∀ t ∈ ts, TxnWF t) (hs : DataSync x p r)
    (hg : ∀ cp, p.findCol x = some cp → StrGuard x cp.merge ts) :
    let p' := ts.foldl Store.commit p
    let r' := replayAll .log r p'.emitted.reverse
    DataSync x p' r' ∧ ∃ cp cq, p'.findCol x = some cp ∧ r'.findCol x = some cq ∧ ∀ i, cq.read i = cp.read i := by
  intro p' r'
  have hstream : (ts.foldl Store.commit p).emitted.reverse = emittedByAll p ts := by
    rw [emitted_of_commits ts p (by rw [hl]; decide), hem, List.append_nil, List.reverse_reverse]
  have h := commits_replay_data x hxr .log ts p r hckp hckr (fun t ht => (hts t ht).ok x)
    (emittedByAll_delivers_log ts p (fun t ht => (hts t ht).distinct)) hs hg
  have h' : DataSync x p' r' := by
    show DataSync x (ts.foldl Store.commit p) (replayAll .log r (ts.foldl Store.commit p).emitted.reverse)
    rw [hstream]
    exact h
  exact ⟨h', h'.read⟩

/-! ### non-vacuity for strings -/

/-- a length-preserving, non-trivial merge on strings: the delta with every byte incremented by the length of the old value -/
def bumpMerge : Bytes → Bytes → Bytes := fun v d => d.map (fun b => b + UInt8.ofNat v.length)

theorem bumpMerge_len : LenMerge bumpMerge := by intro v d; simp [bumpMerge]

/-- primary: string column `s` merging with `bumpMerge`; replica: a RECORD column `s` that overwrites on merge -/
def exStrP : Store := ((Store.new 1024 .log (fun _ => 0)).createColumn "s" .str bumpMerge).1
def exStrR : Store := ((Store.new 64 .none (fun _ => 1)).createColumn "s" .record (fun _ d => d)).1

/-- insert rows 3 and 16400, puts and merges on `s` in both chunks, two sections of chunk 0 -/
def exStrT : Txn :=
  ([(rowColumn, ⟨opInsert, 3, .fixed 0 []⟩), ("s", ⟨opPut, 3, .str [104, 105]⟩), ("s", ⟨opMerge, 16400, .str [1, 2, 3]⟩),
    (rowColumn, ⟨opInsert, 16400, .fixed 0 []⟩), ("s", ⟨opMerge, 3, .str [7, 7]⟩), ("s", ⟨opMerge, 3, .str [9]⟩)] :
      List (String × Op)).foldl (fun t p => t.putOp p.1 p.2) {}

theorem exStrT_wf : ∀ t ∈ [exStrT], TxnWF t := by
  have h1 : ∀ t ∈ [exStrT], BufsDistinct t.updates := by decide
  have h2 : ∀ t ∈ [exStrT], ∀ v ∈ t.updates, ∀ s ∈ v.rsecs, ∀ o ∈ s.rops, chunkOf o.idx = s.chunk := by decide
  have h3 : ∀ t ∈ [exStrT], ∀ o ∈ markerAll t.updates, o.typ ≠ opMerge := by decide
  intro t ht
  exact ⟨h1 t ht, h2 t ht, h3 t ht⟩

theorem exStr_start : DataSync "s" exStrP exStrR ∧ FillSync exStrP exStrR ∧ NoComputed exStrP ∧ NoComputed exStrR := by
  have hst := sameStart_new 1024 64 .log .none (fun _ => 0) (fun _ => 1)
  have hp : (Store.new 1024 .log (fun _ => 0)).findCol "s" = none := by decide +kernel
  refine ⟨dataSync_createColumn _ _ "s" .str .record bumpMerge (fun _ d => d)
      (Or.inr (Or.inl ⟨Or.inl rfl, Or.inr rfl⟩)) hp ((hst.names "s").1 hp),
    fillSync_createColumn _ _ "s" "s" _ _ _ _ hst.fill, noComputed_createColumn _ _ _ _ hst.ncp,
    noComputed_createColumn _ _ _ _ hst.ncr⟩

example : exStrT.dirtyChunks = [0, 1] ∧ ∃ o ∈ allFor exStrT.updates "s", o.typ = opMerge := by decide

/-- the history theorem applied to the string column: the replica (a record column that would overwrite on merge) reads the same
    as the primary at every offset after replaying the stream -/
theorem exStr_converges :
    let p' := [exStrT].foldl Store.commit exStrP
    let r' := replayAll .log exStrR p'.emitted.reverse
    ∃ cp cq, p'.findCol "s" = some cp ∧ r'.findCol "s" = some cq ∧ ∀ i, cq.read i = cp.read i := by
  obtain ⟨h1, _, h3, h4⟩ := exStr_start
  have hmerge : ∀ cp, exStrP.findCol "s" = some cp → cp.merge = bumpMerge := by
    intro cp hcp
    rcases createColumn_cases (Store.new 1024 .log (fun _ => 0)) "s" .str bumpMerge with ⟨h, _⟩ | ⟨hn, pk, e⟩
    · have hp : (Store.new 1024 .log (fun _ => 0)).findCol "s" = none := by decide +kernel
      rw [hp] at h; cases h
    · have hf := findCol_push_self { (Store.new 1024 .log (fun _ => 0)) with pk := pk }
        (Col.grow { name := "s", kind := .str, merge := bumpMerge } (createCap (Store.new 1024 .log (fun _ => 0))))
        (by rw [grow_name]; exact hn)
      rw [grow_name] at hf
      have hcp' : exStrP.findCol "s" = some cp := hcp
      unfold exStrP at hcp'
      rw [e, hf] at hcp'
      cases hcp'
      rw [grow_merge]
  exact (replica_converges_store_data exStrP exStrR [exStrT] "s" (by decide) (by decide) (by decide)
    (computedKinds_of_noComputed _ h3) (computedKinds_of_noComputed _ h4) exStrT_wf h1
    (fun cp hcp => Or.inl (by rw [hmerge cp hcp]; exact bumpMerge_len))).2

/-! ## 7 — key columns: slots, key table, `offsetOf`

A key column has no merge: what it hands to the logger is what the transaction issued (`applyData_ops_key`), and the replica
applies the same ops. Its state is the slots plus the key table `seek` (key → offset), and what `stepKey` does to the key table
is determined by the op, the slot of its offset and the key table (`stepKey_seek_congr`) — so equal slots and equal key tables
stay equal (`KeySync`), and every key resolves to the same offset on both sides. No side condition on the ops. -/

/-- **`replay_log_commit_key`**: a whole commit -/
theorem replay_log_commit_key (p r : Store) (t : Txn) (x : String) (hxr : x ≠ rowColumn)
    (hckp : ComputedKinds p) (hckr : ComputedKinds r) (hok : TxnOK x t) (hs : KeySync x p r) :
    KeySync x (p.commit t) (replayAll .log r (emittedBy p t)) ∧ ComputedKinds (replayAll .log r (emittedBy p t)) :=
  commit_replay_key x hxr .log p r t hckp hckr hok (emittedBy_delivers_log p t hok.distinct) hs

/-- **`replica_converges_store_key`**: the history theorem for the key column `x`, the primary key on both sides: after the
    replay the slots and the key tables are equal (`KeySync`), the typed reads agree at every offset, and every key resolves
    to the same offset (`OffsetOf`, what `QueryKey` / `UpsertKey` / `DeleteKey` consult) -/
theorem replica_converges_store_key (p r : Store) (ts : List Txn) (x : String) (hxr : x ≠ rowColumn)
    (hl : p.logger = .log) (hem : p.emitted = [])
    (hckp : ComputedKinds p) (hckr : ComputedKinds r) (hts : ∀ t ∈ ts, TxnWF t) (hs : KeySync x p r)
    (hpk : p.pk = some x) (hrk : r.pk = some x) :
    let p' := ts.foldl Store.commit p
    let r' := replayAll .log r p'.emitted.reverse
    KeySync x p' r' ∧ (∃ cp cq, p'.findCol x = some cp ∧ r'.findCol x = some cq ∧ ∀ i, cq.read i = cp.read i) ∧
    ∀ key, r'.offsetOf key = p'.offsetOf key := by
  intro p' r'
  have hstream : (ts.foldl Store.commit p).emitted.reverse = emittedByAll p ts := by
    rw [emitted_of_commits ts p (by rw [hl]; decide), hem, List.append_nil, List.reverse_reverse]
  have h := commits_replay_key x hxr .log ts p r hckp hckr (fun t ht => (hts t ht).ok x)
    (emittedByAll_delivers_log ts p (fun t ht => (hts t ht).distinct)) hs
  have h' : KeySync x p' r' := by
    show KeySync x (ts.foldl Store.commit p) (replayAll .log r (ts.foldl Store.commit p).emitted.reverse)
    rw [hstream]
    exact h
  refine ⟨h', h'.data.read, fun key => h'.offsetOf ?_ ?_ key⟩
  · show (ts.foldl Store.commit p).pk = some x
    rw [commits_pk]; exact hpk
  · show (replayAll .log r (ts.foldl Store.commit p).emitted.reverse).pk = some x
    rw [replayAll_pk]; exact hrk

/-! ### non-vacuity for keys -/

def exKeyP : Store := ((Store.new 1024 .log (fun _ => 0)).createColumn "id" .key (fun _ d => d)).1
def exKeyR : Store := ((Store.new 2048 .channel (fun _ => 3)).createColumn "id" .key (fun v _ => v)).1

/-- insert rows 3 and 16400 with keys, re-key row 3, delete row 16400 in the same transaction -/
def exKeyT : Txn :=
  ([(rowColumn, ⟨opInsert, 3, .fixed 0 []⟩), ("id", ⟨opPut, 3, .str [7]⟩), (rowColumn, ⟨opInsert, 16400, .fixed 0 []⟩),
    ("id", ⟨opPut, 16400, .str [8, 8]⟩), ("id", ⟨opPut, 3, .str [9]⟩), (rowColumn, ⟨opDelete, 16400, .fixed 0 []⟩)] :
      List (String × Op)).foldl (fun t p => t.putOp p.1 p.2) {}

theorem exKeyT_wf : ∀ t ∈ [exKeyT], TxnWF t := by
  have h1 : ∀ t ∈ [exKeyT], BufsDistinct t.updates := by decide
  have h2 : ∀ t ∈ [exKeyT], ∀ v ∈ t.updates, ∀ s ∈ v.rsecs, ∀ o ∈ s.rops, chunkOf o.idx = s.chunk := by decide
  have h3 : ∀ t ∈ [exKeyT], ∀ o ∈ markerAll t.updates, o.typ ≠ opMerge := by decide
  intro t ht
  exact ⟨h1 t ht, h2 t ht, h3 t ht⟩

/-- after the commit and the replay every key resolves to the same offset on the replica as on the primary -/
theorem exKey_converges :
    let p' := [exKeyT].foldl Store.commit exKeyP
    let r' := replayAll .log exKeyR p'.emitted.reverse
    ∀ key, r'.offsetOf key = p'.offsetOf key := by
  have hst := sameStart_new 1024 2048 .log .channel (fun _ => 0) (fun _ => 3)
  have hp : (Store.new 1024 .log (fun _ => 0)).findCol "id" = none := by decide +kernel
  have hr := (hst.names "id").1 hp
  exact (replica_converges_store_key exKeyP exKeyR [exKeyT] "id" (by decide) (by decide) (by decide)
    (computedKinds_of_noComputed _ (noComputed_createColumn _ _ _ _ hst.ncp))
    (computedKinds_of_noComputed _ (noComputed_createColumn _ _ _ _ hst.ncr)) exKeyT_wf
    (keySync_createColumn _ _ "id" _ _ hp hr)
    (createColumn_key_pk _ "id" _ hp rfl) (createColumn_key_pk _ "id" _ hr rfl)).2.2

/-! ### axioms -/
#print axioms emitted_of_commit
#print axioms emitted_chunk_ops_num
#print axioms replay_log_col
#print axioms replay_log_fill
#print axioms replay_log_commit
#print axioms replay_log_commit_slots
#print axioms replica_converges_store
#print axioms replica_converges_fresh
#print axioms replica_converges_store_reserved
#print axioms replica_converges_store_from
#print axioms replay_channel_commit
#print axioms replica_converges_store_channel
#print axioms ex_converges
#print axioms exIns_converges
#print axioms emitted_stream_num
#print axioms channel_multichunk_not_delivered
#print axioms channel_multichunk_counterexample
#print axioms replay_log_col_data
#print axioms replay_log_commit_data
#print axioms replica_converges_store_data
#print axioms exStr_converges
#print axioms replay_log_commit_key
#print axioms replica_converges_store_key
#print axioms exKey_converges

end ColumnVerif.Props.C06store
