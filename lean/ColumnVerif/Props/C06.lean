import ColumnVerif.Lemmas.Replay
import ColumnVerif.Props.C01str
import ColumnVerif.Props.C15conc
import ColumnVerif.Props.C09
/-!
# C06 — a replica fed the change stream converges

"If every commit emitted by a collection is replayed, in emission order, on a second collection with
the same schema, then whenever the first collection is quiescent the two hold identical rows and
values. This holds for any history — inserts with offset reuse, deletes, merges, transactions
spanning several blocks — and for any interleaving of concurrent writers."

The property is proved in two layers, as the model is built:

* **Q1 — sequential core** (`Model/Store.lean`). What the primary hands to the logger for a section
  is the section *as rewritten by the main pass* (`(applyData …).ops`, followed by `.appended` for
  strings). Replaying that on any other column reproduces the primary's slots. For numeric columns
  there is no side condition at all (`num_rewritten_replay_same`, `replica_stays_in_sync_num`,
  `replica_converges_num` for a whole history of commits); for string / record columns the guard of
  finding D12 is needed (`replica_stays_in_sync_str`, `replica_converges_str`).
  The rewritten section contains no `Merge` (`rewritten_has_no_merge`): the emitted commit is
  *absolute*, the replay never consults the replica's merge function
  (`replay_ignores_replica_merge`).
* **Q2 — schedule part** (`Conc/Machine.lean`). For every interleaving of any number of writers on
  any number of chunks and an arbitrary merge function: the logger stream of a chunk is the apply
  order of that chunk, each entry carries the absolute value its commit left, so a replica that
  replays the stream holds the primary's value whenever the primary is quiescent
  (`stream_converges`), and the value after some prefix of the primary's commits at any other time
  (`replica_is_prefix_state`).

Vocabulary: `slot c i = (presence bit of i, raw bytes of slot i)`; `InBounds c ops` — every offset
of the section lies inside the column's arrays; `VisEq t s` — the two slots look the same to a
reader (same presence bit; same bytes when present).
-/
namespace ColumnVerif.Props.C06
open ColumnVerif.Codec ColumnVerif.Bits ColumnVerif.Store ColumnVerif.Conc

/-! ## Q1 — numeric columns: the rewritten section replayed on another column -/

/-- `numeric_rewrite_no_merge`, re-exported: no `Merge` is left in what the main pass of a numeric
    column leaves in the buffer — the emitted commit is absolute. -/
theorem rewritten_has_no_merge (k : NumKind) (c : Col) (ops : List Op) :
    ∀ o ∈ (ops.foldl (stepNum k) (c, [], [])).2.1.reverse, o.typ ≠ opMerge := by
  rw [foldNum_rewritten]
  exact rwList_no_merge k ops c

/-- same number of ops, at the same offsets, in the same order -/
theorem rewritten_same_offsets (k : NumKind) (c : Col) (ops : List Op) :
    (ops.foldl (stepNum k) (c, [], [])).2.1.reverse.map (·.idx) = ops.map (·.idx) := by
  rw [foldNum_rewritten]
  exact map_idx_rwList k ops c

/-- every op that is not a `Merge` is emitted unchanged; a `Merge` is emitted as a `Put` (of the
    merged value, `numeric_rewrite` in C03) -/
theorem rewritten_of_no_merge (k : NumKind) (c : Col) (ops : List Op) (h : ∀ o ∈ ops, o.typ ≠ opMerge) :
    (ops.foldl (stepNum k) (c, [], [])).2.1.reverse = ops := by
  rw [foldNum_rewritten]
  exact rwList_of_no_merge k ops c h

/-- **Q1, main statement.** Let `r` be the result of the numeric main pass over `ops` on the primary
    `c`. Replaying the REWRITTEN ops `r.2.1.reverse` with `stepNum` on ANY other column `c2` — any
    previous content, ANY merge function, even another numeric kind `k2` (the width is only
    consulted by a `Merge`, and there is none) — leaves, at every offset `i` that some Put / Merge
    of `ops` addresses, exactly the slot the primary has. -/
theorem num_rewritten_replay_same (k k2 : NumKind) (c c2 : Col) (ops : List Op) (i : Nat)
    (hin : InBounds c ops) (hin2 : InBounds c2 ops)
    (hs : ∃ o ∈ ops, o.idx = i ∧ (o.typ = opPut ∨ o.typ = opMerge)) :
    let r := ops.foldl (stepNum k) (c, [], [])
    slot (r.2.1.reverse.foldl (stepNum k2) (c2, [], [])).1 i = slot r.1 i := by
  intro r
  show slot ((ops.foldl (stepNum k) (c, [], [])).2.1.reverse.foldl (stepNum k2) (c2, [], [])).1 i =
    slot (ops.foldl (stepNum k) (c, [], [])).1 i
  rw [foldNum_rewritten, foldNum_col, foldNum_col]
  exact foldCol_replay k k2 ops c c2 i hin hin2 (Or.inl hs)

/-- an offset that was in sync before the section is in sync after it, whatever addresses it -/
theorem num_rewritten_replay_keeps_sync (k k2 : NumKind) (c c2 : Col) (ops : List Op) (i : Nat)
    (hin : InBounds c ops) (hin2 : InBounds c2 ops) (hs : slot c2 i = slot c i) :
    let r := ops.foldl (stepNum k) (c, [], [])
    slot (r.2.1.reverse.foldl (stepNum k2) (c2, [], [])).1 i = slot r.1 i := by
  intro r
  show slot ((ops.foldl (stepNum k) (c, [], [])).2.1.reverse.foldl (stepNum k2) (c2, [], [])).1 i =
    slot (ops.foldl (stepNum k) (c, [], [])).1 i
  rw [foldNum_rewritten, foldNum_col, foldNum_col]
  exact foldCol_replay k k2 ops c c2 i hin hin2 (Or.inr hs)

/-- If only Deletes (and Put / Merge) or other op types address `i` — at least one Put / Merge /
    Delete, or slots that looked the same before — the two slots look the same to a reader: same
    presence bit, same value when present. (The stale bytes of an absent row are not carried by a
    Delete, so the raw bytes may differ.) -/
theorem num_rewritten_replay_visible (k k2 : NumKind) (c c2 : Col) (ops : List Op) (i : Nat)
    (hin : InBounds c ops) (hin2 : InBounds c2 ops)
    (hs : (∃ o ∈ ops, o.idx = i ∧ (o.typ = opPut ∨ o.typ = opMerge ∨ o.typ = opDelete)) ∨
          VisEq (slot c2 i) (slot c i)) :
    let r := ops.foldl (stepNum k) (c, [], [])
    VisEq (slot (r.2.1.reverse.foldl (stepNum k2) (c2, [], [])).1 i) (slot r.1 i) := by
  intro r
  show VisEq (slot ((ops.foldl (stepNum k) (c, [], [])).2.1.reverse.foldl (stepNum k2) (c2, [], [])).1 i)
    (slot (ops.foldl (stepNum k) (c, [], [])).1 i)
  rw [foldNum_rewritten, foldNum_col, foldNum_col]
  exact foldCol_replay_vis k k2 ops c c2 i hin hin2 hs

/-- in particular the same presence bit, as soon as a Put / Merge / Delete addresses `i` -/
theorem num_rewritten_replay_presence (k k2 : NumKind) (c c2 : Col) (ops : List Op) (i : Nat)
    (hin : InBounds c ops) (hin2 : InBounds c2 ops)
    (hs : ∃ o ∈ ops, o.idx = i ∧ (o.typ = opPut ∨ o.typ = opMerge ∨ o.typ = opDelete)) :
    let r := ops.foldl (stepNum k) (c, [], [])
    (slot (r.2.1.reverse.foldl (stepNum k2) (c2, [], [])).1 i).1 = (slot r.1 i).1 :=
  (num_rewritten_replay_visible k k2 c c2 ops i hin hin2 (Or.inl hs)).1

/-- an offset nothing addresses keeps the replica's slot -/
theorem num_rewritten_replay_untouched (k k2 : NumKind) (c c2 : Col) (ops : List Op) (i : Nat)
    (hin2 : InBounds c2 ops) (hno : ∀ o ∈ ops, o.idx ≠ i) :
    let r := ops.foldl (stepNum k) (c, [], [])
    slot (r.2.1.reverse.foldl (stepNum k2) (c2, [], [])).1 i = slot c2 i := by
  intro r
  show slot ((ops.foldl (stepNum k) (c, [], [])).2.1.reverse.foldl (stepNum k2) (c2, [], [])).1 i = slot c2 i
  rw [foldNum_rewritten, foldNum_col]
  exact rwList_frame k k2 ops c c2 i hin2 hno

/-- The replay never consults the replica's merge function: give the replica any other merge
    function `m'` and any other numeric kind, every slot ends the same. -/
theorem replay_ignores_replica_merge (k k2 k3 : NumKind) (c c2 : Col) (m' : Bytes → Bytes → Bytes)
    (ops : List Op) (i : Nat) (hin2 : InBounds c2 ops) :
    let r := ops.foldl (stepNum k) (c, [], [])
    slot (r.2.1.reverse.foldl (stepNum k3) ({ c2 with merge := m' }, [], [])).1 i =
      slot (r.2.1.reverse.foldl (stepNum k2) (c2, [], [])).1 i := by
  intro r
  show slot ((ops.foldl (stepNum k) (c, [], [])).2.1.reverse.foldl (stepNum k3) ({ c2 with merge := m' }, [], [])).1 i =
    slot ((ops.foldl (stepNum k) (c, [], [])).2.1.reverse.foldl (stepNum k2) (c2, [], [])).1 i
  rw [foldNum_rewritten, foldNum_col, foldNum_col]
  exact foldCol_no_merge_indep k2 k3 _ c2 { c2 with merge := m' } i (hin2.rewritten k c)
    (hin2.rewritten k c) (rwList_no_merge k ops c) rfl

/-! ### through `applyData` — one commit -/

/-- per offset, through `applyData`: a Put / Merge on `i`, or `i` in sync before -/
theorem applyData_num_replay_same_slot (hash hash2 : Bytes → Nat) (k k2 : NumKind) (c c2 : Col) (chunk : Nat)
    (ops : List Op) (i : Nat) (hk : c.kind = .num k) (hk2 : c2.kind = .num k2)
    (hc : chunk < c.nchunks) (hc2 : chunk < c2.nchunks)
    (hin : InBounds c ops) (hin2 : InBounds c2 ops)
    (hs : (∃ o ∈ ops, o.idx = i ∧ (o.typ = opPut ∨ o.typ = opMerge)) ∨ slot c2 i = slot c i) :
    slot (applyData hash2 c2 chunk (applyData hash c chunk ops).ops).col i =
      slot (applyData hash c chunk ops).col i := by
  have h := applyData_num_replay hash hash2 k k2 c c2 chunk ops i hk hk2 hc hc2 hin hin2 hs
  have ha : (applyData hash c chunk ops).appended = [] := by rw [applyData_num hash c k hk chunk hc ops]
  rw [ha, List.append_nil] at h
  exact h

/-- a numeric section never appends anything through the parent buffer, never panics when the chunk
    exists, and emits no `Merge` -/
theorem applyData_num_emitted (hash : Bytes → Nat) (k : NumKind) (c : Col) (chunk : Nat) (ops : List Op)
    (hk : c.kind = .num k) (hc : chunk < c.nchunks) :
    (applyData hash c chunk ops).appended = [] ∧ (applyData hash c chunk ops).panic = false ∧
    (∀ o ∈ (applyData hash c chunk ops).ops, o.typ ≠ opMerge) ∧
    (applyData hash c chunk ops).ops.map (·.idx) = ops.map (·.idx) := by
  rw [applyData_num hash c k hk chunk hc ops]
  exact ⟨rfl, rfl, rwList_no_merge k ops c, map_idx_rwList k ops c⟩

/-- **Replica stays in sync (numeric).** A replica whose slots all equal the primary's, fed the
    section the primary emits for a commit, has again all slots equal to the primary's — any
    section (repeated offsets, merges, deletes, markers), any two merge functions. -/
theorem replica_stays_in_sync_num (hash hash2 : Bytes → Nat) (k k2 : NumKind) (c c2 : Col) (chunk : Nat)
    (ops : List Op) (hk : c.kind = .num k) (hk2 : c2.kind = .num k2)
    (hc : chunk < c.nchunks) (hc2 : chunk < c2.nchunks)
    (hin : InBounds c ops) (hin2 : InBounds c2 ops)
    (hsync : ∀ i, slot c2 i = slot c i) :
    ∀ i, slot (applyData hash2 c2 chunk (applyData hash c chunk ops).ops).col i =
      slot (applyData hash c chunk ops).col i :=
  fun i => applyData_num_replay_same_slot hash hash2 k k2 c c2 chunk ops i hk hk2 hc hc2 hin hin2
    (Or.inr (hsync i))

/-- … hence every typed read returns the same on both sides (same number of chunks) -/
theorem replica_stays_in_sync_num_read (hash hash2 : Bytes → Nat) (k k2 : NumKind) (c c2 : Col) (chunk : Nat)
    (ops : List Op) (hk : c.kind = .num k) (hk2 : c2.kind = .num k2)
    (hc : chunk < c.nchunks) (hc2 : chunk < c2.nchunks) (hn : c2.nchunks = c.nchunks)
    (hin : InBounds c ops) (hin2 : InBounds c2 ops)
    (hsync : ∀ i, slot c2 i = slot c i) :
    ∀ i, (applyData hash2 c2 chunk (applyData hash c chunk ops).ops).col.read i =
      (applyData hash c chunk ops).col.read i := by
  intro i
  have hsh := applyData_num_shape hash k c chunk ops hk hc
  have hsh2 := applyData_num_shape hash2 k2 c2 chunk (applyData hash c chunk ops).ops hk2 hc2
  exact read_num_of_slot_eq (hsh.kind.trans hk) (hsh2.kind.trans hk2)
    (by rw [hsh.nchunks, hsh2.nchunks]; exact hn) i
    (replica_stays_in_sync_num hash hash2 k k2 c c2 chunk ops hk hk2 hc hc2 hin hin2 hsync i)

/-- … and with arrays of the same size the presence bitmap and the data array are *identical* -/
theorem replica_stays_identical_num (hash hash2 : Bytes → Nat) (k k2 : NumKind) (c c2 : Col) (chunk : Nat)
    (ops : List Op) (hk : c.kind = .num k) (hk2 : c2.kind = .num k2)
    (hc : chunk < c.nchunks) (hc2 : chunk < c2.nchunks)
    (hin : InBounds c ops) (hin2 : InBounds c2 ops)
    (hb : c2.bits = c.bits) (hd : c2.data = c.data) :
    (applyData hash2 c2 chunk (applyData hash c chunk ops).ops).col.bits = (applyData hash c chunk ops).col.bits ∧
    (applyData hash2 c2 chunk (applyData hash c chunk ops).ops).col.data = (applyData hash c chunk ops).col.data := by
  have hsh := applyData_num_shape hash k c chunk ops hk hc
  have hsh2 := applyData_num_shape hash2 k2 c2 chunk (applyData hash c chunk ops).ops hk2 hc2
  apply arrays_eq_of_slots
  · rw [hsh.bsize, hsh2.bsize, hb]
  · rw [hsh.dsize, hsh2.dsize, hd]
  · apply replica_stays_in_sync_num hash hash2 k k2 c c2 chunk ops hk hk2 hc hc2 hin hin2
    intro i; unfold slot; rw [hb, hd]

/-! ### a history of commits (numeric) -/

/-- **Convergence over any history (numeric), per offset.** The primary applies the commits
    `(chunk, section)` one after the other (`primaryRun`) and emits each rewritten section; the
    replica replays the emitted commits in emission order (`replicaRun`). Offset `i` ends with the
    primary's slot if some Put / Merge anywhere in the history addresses it — the replica need not
    have been in sync — or if it was in sync before. -/
theorem replica_converges_num_at (hash hash2 : Bytes → Nat) (k k2 : NumKind) (commits : List (Nat × List Op))
    (c c2 : Col) (i : Nat) (hk : c.kind = .num k) (hk2 : c2.kind = .num k2)
    (hok : ∀ p ∈ commits, p.1 < c.nchunks ∧ p.1 < c2.nchunks ∧ InBounds c p.2 ∧ InBounds c2 p.2)
    (hs : (∃ p ∈ commits, ∃ o ∈ p.2, o.idx = i ∧ (o.typ = opPut ∨ o.typ = opMerge)) ∨
          slot c2 i = slot c i) :
    slot (replicaRun hash2 c2 (primaryRun hash c commits).2) i = slot (primaryRun hash c commits).1 i :=
  replicaRun_num hash hash2 k k2 commits c c2 i hk hk2 hok hs

/-- **Convergence over any history (numeric).** A replica in sync before the history is in sync
    after it, at every offset; its typed reads agree with the primary's. -/
theorem replica_converges_num (hash hash2 : Bytes → Nat) (k k2 : NumKind) (commits : List (Nat × List Op))
    (c c2 : Col) (hk : c.kind = .num k) (hk2 : c2.kind = .num k2) (hn : c2.nchunks = c.nchunks)
    (hok : ∀ p ∈ commits, p.1 < c.nchunks ∧ InBounds c p.2 ∧ InBounds c2 p.2)
    (hsync : ∀ i, slot c2 i = slot c i) :
    (∀ i, slot (replicaRun hash2 c2 (primaryRun hash c commits).2) i = slot (primaryRun hash c commits).1 i) ∧
    (∀ i, (replicaRun hash2 c2 (primaryRun hash c commits).2).read i = (primaryRun hash c commits).1.read i) := by
  have hok' : ∀ p ∈ commits, p.1 < c.nchunks ∧ p.1 < c2.nchunks ∧ InBounds c p.2 ∧ InBounds c2 p.2 := by
    intro p hp
    obtain ⟨a, b, d⟩ := hok p hp
    exact ⟨a, by rw [hn]; exact a, b, d⟩
  have hslots := fun i => replicaRun_num hash hash2 k k2 commits c c2 i hk hk2 hok' (Or.inr (hsync i))
  refine ⟨hslots, ?_⟩
  intro i
  have hsh := primaryRun_num_shape hash k commits c hk (fun p hp => (hok p hp).1)
  have hsh2 := replicaRun_num_shape hash2 k2 (primaryRun hash c commits).2 c2 hk2 (by
    intro p hp
    have hm : p.1 ∈ (primaryRun hash c commits).2.map (·.1) := List.mem_map.2 ⟨p, hp, rfl⟩
    rw [primaryRun_chunks] at hm
    obtain ⟨q, hq, e⟩ := List.mem_map.1 hm
    rw [← e, hn]; exact (hok q hq).1)
  exact read_num_of_slot_eq (hsh.kind.trans hk) (hsh2.kind.trans hk2)
    (by rw [hsh.nchunks, hsh2.nchunks]; exact hn) i (hslots i)

/-! ## Q1 — string / record columns (guard: finding D12) -/

/-- **Replica stays in sync (strings / records).** What is emitted for a string section is the
    rewritten section followed by the puts appended for resizing merges. Guard (finding D12): no op
    on an offset follows a resizing merge on that offset in the same section. -/
theorem replica_stays_in_sync_str (hash hash2 : Bytes → Nat) (c c2 : Col) (chunk : Nat) (ops : List Op)
    (hk : c.kind = .str ∨ c.kind = .record) (hk2 : c2.kind = .str ∨ c2.kind = .record)
    (hc : chunk < c.nchunks) (hc2 : chunk < c2.nchunks)
    (hin : InBounds c ops) (hin2 : InBounds c2 ops)
    (hg : ∀ i, NoOpAfterResize i (traceStr (c, [], []) ops))
    (hsync : ∀ i, slot c2 i = slot c i) :
    ∀ i, slot (applyData hash2 c2 chunk
        ((applyData hash c chunk ops).ops ++ (applyData hash c chunk ops).appended)).col i =
      slot (applyData hash c chunk ops).col i :=
  fun i => C01str.applyData_replay_same_slot hash hash2 c c2 chunk ops i hk hk2 hc hc2 hin hin2 (hg i)
    (Or.inr (hsync i))

/-- the guard holds for every offset when the section appended nothing (no resizing merge) -/
theorem guard_of_appended_nil (hash : Bytes → Nat) (c : Col) (chunk : Nat) (ops : List Op)
    (hk : c.kind = .str ∨ c.kind = .record) (hc : chunk < c.nchunks) (hin : InBounds c ops)
    (ha : (applyData hash c chunk ops).appended = []) :
    ∀ i, NoOpAfterResize i (traceStr (c, [], []) ops) := by
  rw [applyData_str hash c chunk ops hk hc] at ha
  exact noOpAfterResize_of_appended_nil c ops hin ha

/-- the same with the other guard: nothing was appended through the parent buffer (no merge of the
    section changed the length of its value) — then the rewritten section alone is replayed -/
theorem replica_stays_in_sync_str_noresize (hash hash2 : Bytes → Nat) (c c2 : Col) (chunk : Nat) (ops : List Op)
    (hk : c.kind = .str ∨ c.kind = .record) (hk2 : c2.kind = .str ∨ c2.kind = .record)
    (hc : chunk < c.nchunks) (hc2 : chunk < c2.nchunks)
    (hin : InBounds c ops) (hin2 : InBounds c2 ops)
    (ha : (applyData hash c chunk ops).appended = [])
    (hsync : ∀ i, slot c2 i = slot c i) :
    ∀ i, slot (applyData hash2 c2 chunk (applyData hash c chunk ops).ops).col i =
      slot (applyData hash c chunk ops).col i := by
  intro i
  have h := replica_stays_in_sync_str hash hash2 c c2 chunk ops hk hk2 hc hc2 hin hin2
    (guard_of_appended_nil hash c chunk ops hk hc hin ha) hsync i
  rw [ha, List.append_nil] at h
  exact h

/-- **Convergence over any guarded history (strings / records).** `GuardedRun hash c commits`: every
    commit satisfies the D12 guard on the column state it is applied to. -/
theorem replica_converges_str (hash hash2 : Bytes → Nat) (commits : List (Nat × List Op)) (c c2 : Col)
    (hk : c.kind = .str ∨ c.kind = .record) (hk2 : c2.kind = .str ∨ c2.kind = .record)
    (hok : ∀ p ∈ commits, p.1 < c.nchunks ∧ p.1 < c2.nchunks ∧ InBounds c p.2 ∧ InBounds c2 p.2)
    (hg : GuardedRun hash c commits)
    (hsync : ∀ i, slot c2 i = slot c i) :
    ∀ i, slot (replicaRun hash2 c2 (primaryRun hash c commits).2) i = slot (primaryRun hash c commits).1 i :=
  fun i => replicaRun_str hash hash2 commits c c2 i hk hk2 hok hg (Or.inr (hsync i))

/-- without the guard the statement is false: finding D12 (`C01str.resize_then_put_counterexample`),
    restated as "a replica in sync before the commit is not in sync after it" -/
theorem str_unguarded_counterexample :
    let c := C01str.concatCol
    let r := applyData (fun _ => 0) c 0 C01str.d12Ops
    slot (applyData (fun _ => 0) c 0 (r.ops ++ r.appended)).col 0 ≠ slot r.col 0 := by
  decide

/-! ## Q2 — the schedule part: every interleaving of the abstract machine -/

section Schedule
variable {cfg : ProtoCfg} {merge : Nat → Nat → Nat} {w0 w : W}

/-- `valueAt` is what the commit really leaves: at the moment a commit is handed to the logger
    (`emit`, the thread is at `wroteB c id`) — and from its `storeAcc` on — the chunk's current value
    is `valueAt … id`. -/
theorem emit_carries_current_value (hi : Init w0) (hr : Reach cfg merge w0 w) {t c id : Nat}
    (h : w.pc t = .wroteAcc c id ∨ w.pc t = .wroteA c id ∨ w.pc t = .wroteB c id) :
    valueAt merge (w0.acc c) (w.applied c) id = w.acc c := by
  have hinv := reach_inv hi hr
  have hw : wchunk (w.pc t) = some c := by rcases h with h | h | h <;> rw [h] <;> rfl
  have hp : pendEmit (w.pc t) = some id := by rcases h with h | h | h <;> rw [h] <;> rfl
  have hids := hinv.str.pend t c id (hinv.m.whold t c hw) hp
  rw [C09.merge_fold hi hr c]
  unfold idsOf at hids
  cases happ : w.applied c with
  | nil => rw [happ] at hids; simp at hids
  | cons r older =>
    rw [happ] at hids
    simp only [List.map_cons, List.cons.injEq] at hids
    rw [← hids.1, valueAt_head]

/-- … and that value is not affected by what is applied later: for the id of ANY applied commit,
    `valueAt` is the fold of the records up to and including that commit -/
theorem valueAt_is_prefix_fold (hi : Init w0) (hr : Reach cfg merge w0 w) (c : Nat)
    (newer older : List Rec) (r : Rec) (h : w.applied c = newer ++ r :: older) :
    valueAt merge (w0.acc c) (w.applied c) r.id = foldAcc merge (w0.acc c) (r :: older) := by
  have hnd := C15conc.ids_nodup hi hr c
  unfold idsOf at hnd
  rw [h] at hnd ⊢
  apply valueAt_append
  intro x hx e
  rw [List.map_append, List.map_cons] at hnd
  have := (List.nodup_append.1 hnd).2.2 x.id (List.mem_map.2 ⟨x, hx, rfl⟩) r.id (by simp)
  exact this e

/-- **Q2, main statement.** For every interleaving of any number of writers on any number of
    chunks, arbitrary merge function: whenever the primary is quiescent, a replica that replayed the
    stream entries of chunk `c` in arrival order holds the primary's value of `c`. -/
theorem stream_converges (hi : Init w0) (hr : Reach cfg merge w0 w) (hq : Quiescent w) (c : Nat) :
    replicaAcc merge (w0.acc c) (w.applied c) ((w.stream.filter (·.1 = c)).map (·.2)) = w.acc c := by
  rw [C15conc.stream_quiescent hi hr hq c, C09.merge_fold hi hr c]
  exact replicaAcc_all merge (w0.acc c) (w.applied c)

/-- **Non-quiescent form.** At any moment the replica of chunk `c` holds the primary's value after a
    prefix of the primary's commits: all of them, or — while a writer of `c` is between its
    `storeAcc` and its `emit` — all but the most recent one. -/
theorem replica_is_prefix_state (hi : Init w0) (hr : Reach cfg merge w0 w) (c : Nat) :
    let rep := replicaAcc merge (w0.acc c) (w.applied c) ((w.stream.filter (·.1 = c)).map (·.2))
    rep = foldAcc merge (w0.acc c) (w.applied c) ∨
      ((∃ t x, w.pc t = .wroteAcc c x ∨ w.pc t = .wroteA c x ∨ w.pc t = .wroteB c x) ∧
        rep = foldAcc merge (w0.acc c) (w.applied c).tail) := by
  intro rep
  rcases C15conc.stream_is_apply_order hi hr c with h | ⟨t, x, hpc, h⟩
  · left
    show replicaAcc merge (w0.acc c) (w.applied c) ((w.stream.filter (·.1 = c)).map (·.2)) = _
    rw [h]
    exact replicaAcc_all merge (w0.acc c) (w.applied c)
  · right
    refine ⟨⟨t, x, hpc⟩, ?_⟩
    show replicaAcc merge (w0.acc c) (w.applied c) ((w.stream.filter (·.1 = c)).map (·.2)) = _
    have hs : (w.stream.filter (·.1 = c)).map (·.2) = ((w.applied c).map (·.id)).tail := by
      have : idsOf w c = (w.applied c).map (·.id) := rfl
      rw [← this, h]; rfl
    rw [hs]
    exact replicaAcc_tail merge (w0.acc c) (w.applied c) (C15conc.ids_nodup hi hr c)

/-- the replica is never ahead of the primary and at most one commit behind: in the window it
    holds exactly the value the primary had before the commit in flight -/
theorem replica_equals_primary_outside_window (hi : Init w0) (hr : Reach cfg merge w0 w) (c : Nat)
    (hn : ∀ t x, w.pc t ≠ .wroteAcc c x ∧ w.pc t ≠ .wroteA c x ∧ w.pc t ≠ .wroteB c x) :
    replicaAcc merge (w0.acc c) (w.applied c) ((w.stream.filter (·.1 = c)).map (·.2)) = w.acc c := by
  rw [C15conc.stream_eq_of_no_pending hi hr c hn, C09.merge_fold hi hr c]
  exact replicaAcc_all merge (w0.acc c) (w.applied c)

/-! ### all chunks at once; entries of different chunks commute -/

/-- the absolute value entry `(c, id)` of the stream carries -/
def entryValue (merge : Nat → Nat → Nat) (w0 w : W) (c id : Nat) : Nat :=
  valueAt merge (w0.acc c) (w.applied c) id

/-- **Only the per-chunk order matters.** The replica of all chunks replays the whole stream
    (`replayStream`, entries of all chunks interleaved as they arrived). Its value of chunk `c` is
    the replica value of the sub-stream of `c` … -/
theorem replay_order_matters_only_per_chunk (merge : Nat → Nat → Nat) (w0 w : W) (s : List (Nat × Nat))
    (c : Nat) :
    replayStream (entryValue merge w0 w) w0.acc s c =
      replicaAcc merge (w0.acc c) (w.applied c) ((s.filter (·.1 = c)).map (·.2)) := by
  rw [replayStream_chunk]; rfl

/-- … hence two arrival orders with the same per-chunk sub-streams (entries of different chunks
    swapped in any way) leave the replica in the same state -/
theorem replay_commutes_across_chunks (merge : Nat → Nat → Nat) (w0 w : W) (s s' : List (Nat × Nat))
    (h : ∀ c, s.filter (·.1 = c) = s'.filter (·.1 = c)) :
    replayStream (entryValue merge w0 w) w0.acc s = replayStream (entryValue merge w0 w) w0.acc s' := by
  funext c
  rw [replay_order_matters_only_per_chunk, replay_order_matters_only_per_chunk, h c]

/-- **Convergence, all chunks.** Whenever the primary is quiescent, the replica that replayed the
    whole stream holds the primary's value of every chunk. -/
theorem stream_converges_all (hi : Init w0) (hr : Reach cfg merge w0 w) (hq : Quiescent w) :
    replayStream (entryValue merge w0 w) w0.acc w.stream = w.acc := by
  funext c
  rw [replay_order_matters_only_per_chunk]
  exact stream_converges hi hr hq c

end Schedule

/-! ## Q3 — non-vacuity -/

/-- a 4-slot i32 column, merge = byte-wise addition (any function will do) -/
def numCol : Col :=
  { name := "n", kind := .num .i32, merge := fun a d => List.zipWith (· + ·) a d, nchunks := 1,
    bits := #[true, false, true, false], data := #[[1, 0, 0, 0], [], [7, 7, 7, 7], []] }

/-- a replica with other content and another merge function -/
def numReplica : Col :=
  { name := "n", kind := .num .i32, merge := fun a _ => a, nchunks := 1,
    bits := #[false, true, true, true], data := #[[9, 9, 9, 9], [8, 8, 8, 8], [7, 7, 7, 7], [6]] }

/-- a section with repeated offsets out of order, merges on present / absent / just-deleted rows,
    a delete after a put, an insert marker -/
def numOps : List Op :=
  [⟨opMerge, 1, .fixed 2 [5, 0, 0, 0]⟩, ⟨opPut, 0, .fixed 2 [2, 0, 0, 0]⟩, ⟨opInsert, 3, .fixed 0 []⟩,
   ⟨opMerge, 0, .fixed 2 [3, 0, 0, 0]⟩, ⟨opDelete, 1, .fixed 0 []⟩, ⟨opMerge, 1, .fixed 2 [4, 0, 0, 0]⟩,
   ⟨opPut, 3, .fixed 2 [1, 1, 1, 1]⟩, ⟨opDelete, 3, .fixed 0 []⟩]

example : InBounds numCol numOps := by decide
example : InBounds numReplica numOps := by decide
example : numCol.kind = .num .i32 ∧ numReplica.kind = .num .i32 ∧ 0 < numCol.nchunks ∧ 0 < numReplica.nchunks :=
  ⟨rfl, rfl, by decide, by decide⟩
example : ∃ o ∈ numOps, o.idx = 0 ∧ (o.typ = opPut ∨ o.typ = opMerge) := by decide
/-- offset 2 is addressed by nothing and the two columns agree on it -/
example : slot numReplica 2 = slot numCol 2 := by decide

/-- what the primary emits: every Merge became a Put of the merged value (the merge on the absent
    row 1 read the zero-padded empty slot; the one after the Delete read the stale bytes) -/
example :
    (applyData (fun _ => 0) numCol 0 numOps).ops =
      [⟨opPut, 1, .fixed 2 [5, 0, 0, 0]⟩, ⟨opPut, 0, .fixed 2 [2, 0, 0, 0]⟩, ⟨opInsert, 3, .fixed 0 []⟩,
       ⟨opPut, 0, .fixed 2 [5, 0, 0, 0]⟩, ⟨opDelete, 1, .fixed 0 []⟩, ⟨opPut, 1, .fixed 2 [9, 0, 0, 0]⟩,
       ⟨opPut, 3, .fixed 2 [1, 1, 1, 1]⟩, ⟨opDelete, 3, .fixed 0 []⟩] := by decide

/-- the replica (other content, other merge function) ends with the primary's slots at the offsets
    written by a Put / Merge (0, 1) and at the offset in sync before (2); offset 3 (Put then Delete)
    also coincides here because the Put resynchronised it -/
example :
    let r := applyData (fun _ => 0) numCol 0 numOps
    (List.range 4).map (slot (applyData (fun _ => 0) numReplica 0 r.ops).col) = (List.range 4).map (slot r.col) := by
  decide

/-- the instance of the theorem for offset 0 -/
example :
    slot (applyData (fun _ => 0) numReplica 0 (applyData (fun _ => 0) numCol 0 numOps).ops).col 0 =
      slot (applyData (fun _ => 0) numCol 0 numOps).col 0 :=
  applyData_num_replay_same_slot _ _ .i32 .i32 numCol numReplica 0 numOps 0 rfl rfl (by decide) (by decide)
    (by decide) (by decide) (Or.inl (by decide))

/-- Delete-only on an offset the replica held other stale bytes for: same presence bit, raw bytes
    differ — why full slot equality asks for a Put / Merge or for sync before -/
theorem delete_only_stale_bytes_differ :
    let ops : List Op := [⟨opDelete, 0, .fixed 0 []⟩]
    let r := applyData (fun _ => 0) numCol 0 ops
    slot r.col 0 = (false, [1, 0, 0, 0]) ∧
    slot (applyData (fun _ => 0) numReplica 0 r.ops).col 0 = (false, [9, 9, 9, 9]) := by
  decide

/-- a two-commit history on chunk 0 satisfies the hypotheses of `replica_converges_num` -/
def numHistory : List (Nat × List Op) := [(0, numOps), (0, [⟨opMerge, 2, .fixed 2 [1, 2, 3, 4]⟩, ⟨opDelete, 0, .fixed 0 []⟩])]

example : ∀ p ∈ numHistory, p.1 < numCol.nchunks ∧ InBounds numCol p.2 ∧ InBounds numCol p.2 := by decide

/-- a replica that starts as a copy of the primary but merges differently ends identical -/
example :
    let rep : Col := { numCol with merge := fun a _ => a }
    (List.range 4).map (slot (replicaRun (fun _ => 0) rep (primaryRun (fun _ => 0) numCol numHistory).2)) =
      (List.range 4).map (slot (primaryRun (fun _ => 0) numCol numHistory).1) := by
  decide

/-- strings: the guarded sample section of C01str, replica a copy with another merge function -/
example : ∀ i, NoOpAfterResize i (traceStr (C01str.concatCol, [], []) C01str.sampleOps) := by
  intro i
  by_cases h : i < 4
  · have : ∀ j < 4, NoOpAfterResize j (traceStr (C01str.concatCol, [], []) C01str.sampleOps) := by decide
    exact this i h
  · apply List.pairwise_of_forall_mem_list
    intro a ha b hb e
    exfalso
    have : ∀ p ∈ traceStr (C01str.concatCol, [], []) C01str.sampleOps, p.1.idx < 4 := by decide
    have := this a ha
    omega

/-! ### the schedule part on a concrete run: two writers interleaved on one chunk -/

/-- Threads 0 and 1 both commit chunk 0 (delta 5 each), `begin` steps interleaved, thread 0 first
    through the latch; 18 steps; the end world is quiescent. -/
theorem run_two_writers (cfg : ProtoCfg) (h : cfg.idInsideLatch = true) (merge : Nat → Nat → Nat) :
    ∃ w, Reach cfg merge Demo.w0 w ∧ Quiescent w ∧ w.applied 0 = [⟨1, 2, 5⟩, ⟨0, 1, 5⟩] ∧
      w.stream = [(0, 2), (0, 1)] ∧ w.acc 0 = merge (merge 0 5) 5 := by
  have r1 := Reach.step (Reach.refl (cfg := cfg) (merge := merge) (w0 := Demo.w0))
    (Step.begin Demo.w0 0 0 [] rfl rfl h)
  have r2 := Reach.step r1 (Step.begin _ 1 0 [] rfl rfl h)
  have r3 := Reach.step r2 (Step.acquire _ 0 0 none rfl rfl rfl)
  have r4 := Reach.step r3 (Step.draw _ 0 0 rfl)
  have r5 := Reach.step r4 (Step.load _ 0 0 1 rfl)
  have r6 := Reach.step r5 (Step.storeAcc _ 0 0 1 0 rfl)
  have r7 := Reach.step r6 (Step.writeA _ 0 0 1 rfl)
  have r8 := Reach.step r7 (Step.writeB _ 0 0 1 rfl)
  have r9 := Reach.step r8 (Step.emit _ 0 0 1 rfl)
  have r10 := Reach.step r9 (Step.release _ 0 0 1 rfl)
  have r11 := Reach.step r10 (Step.acquire _ 1 0 none rfl rfl rfl)
  have r12 := Reach.step r11 (Step.draw _ 1 0 rfl)
  have r13 := Reach.step r12 (Step.load _ 1 0 2 rfl)
  have r14 := Reach.step r13 (Step.storeAcc _ 1 0 2 (merge 0 5) rfl)
  have r15 := Reach.step r14 (Step.writeA _ 1 0 2 rfl)
  have r16 := Reach.step r15 (Step.writeB _ 1 0 2 rfl)
  have r17 := Reach.step r16 (Step.emit _ 1 0 2 rfl)
  have r18 := Reach.step r17 (Step.release _ 1 0 2 rfl)
  refine ⟨_, r18, ?_, rfl, rfl, rfl⟩
  intro t
  by_cases h1 : t = 1
  · simp [setPc, h1]
  · by_cases h0 : t = 0
    · simp [setPc, h0]
    · simp [setPc, h0, h1, Demo.w0]

/-- the replica of that run: fed `[2, 1]` (most recent first) it holds `merge (merge 0 5) 5` -/
example (merge : Nat → Nat → Nat) : ∃ w, Reach ProtoCfg.good merge Demo.w0 w ∧ Quiescent w ∧
    replicaAcc merge 0 (w.applied 0) [2, 1] = merge (merge 0 5) 5 ∧
    replayStream (entryValue merge Demo.w0 w) Demo.w0.acc w.stream = w.acc := by
  obtain ⟨w, hr, hq, happ, hs, hacc⟩ := run_two_writers ProtoCfg.good rfl merge
  refine ⟨w, hr, hq, ?_, stream_converges_all Demo.init_w0 hr hq⟩
  have := stream_converges Demo.init_w0 hr hq 0
  rw [hs, hacc] at this
  exact this

/-- mid-commit the replica is one commit behind: after thread 0's `storeAcc` (6 steps) nothing has
    been emitted, the primary holds `merge 0 5`, the replica still `0` -/
example (merge : Nat → Nat → Nat) : ∃ w, Reach ProtoCfg.good merge Demo.w0 w ∧ w.acc 0 = merge 0 5 ∧
    replicaAcc merge (Demo.w0.acc 0) (w.applied 0) ((w.stream.filter (·.1 = 0)).map (·.2)) = 0 := by
  have r1 := Reach.step (Reach.refl (cfg := ProtoCfg.good) (merge := merge) (w0 := Demo.w0))
    (Step.begin Demo.w0 0 0 [] rfl rfl rfl)
  have r3 := Reach.step r1 (Step.acquire _ 0 0 none rfl rfl rfl)
  have r4 := Reach.step r3 (Step.draw _ 0 0 rfl)
  have r5 := Reach.step r4 (Step.load _ 0 0 1 rfl)
  have r6 := Reach.step r5 (Step.storeAcc _ 0 0 1 0 rfl)
  exact ⟨_, r6, rfl, rfl⟩

end ColumnVerif.Props.C06
