import ColumnVerif.Conc.Skel
/-!
# C11 — what the current source says about the protocol parts this property rests on

Obligations over the *regenerated* token lists of `Generated/Skeleton.lean` (rewritten from /repo on
every run); `decide +kernel` evaluates the structural predicate of `Conc/Skel.lean` in the kernel.
A change to the code that moves a call out of its lock, drops a `defer`, reorders the commit closure …
makes exactly the corresponding theorem fail.
-/
namespace ColumnVerif.Props.C11skel
open ColumnVerif.Skel

theorem dict_version_matches : ColumnVerif.Generated.dictVersion = expectedDictVersion := by decide +kernel
theorem flag_fillOpsUnderCollLock : fillOpsUnderCollLock = true := by decide +kernel
theorem flag_insertProtocol : insertProtocol = true := by decide +kernel
/-- the insert callback runs under the read latch of the new row's own chunk (`QueryAt`): a delete commit that has
    released the offset but not yet cleared the columns holds the write latch of that chunk -/
theorem flag_readInsideRLatch : readInsideRLatch = true := by decide +kernel

end ColumnVerif.Props.C11skel
