import ColumnVerif.Lemmas.ApplyStr
/-!
# C01 (string / record / enum part), C05 third sentence, C06 — the main pass over one section

`applyData` on a column of kind `.str` / `.record` folds `stepStr` over the section, on a column of
kind `.enum` it folds `stepEnum hash`. The statements below are about that fold, for every section
(any length, offsets in any order, repeated offsets), every previous column content and — for
strings — every merge function.

Vocabulary (all in `Lemmas/Apply.lean`, `Lemmas/ApplyStr.lean`):
* `slot c i = (presence bit of i, raw bytes of slot i)`;
* `slotEffect merge 0 st o` — effect of one op on the slot of its own offset (Put: present with the
  op's value; Merge: present with `merge old delta`, *reading the raw old slot even when the row
  is absent*; Delete: absent, bytes kept; anything else: nothing);
* `InBounds c ops` — every offset of the section lies inside the column's arrays;
* `traceStr (c, [], []) ops` — the section's ops, each paired with the value its offset holds right
  after it was applied (`trace_meaning` below);
* `resizing (o, v)` — `o` is a Merge whose result `v` has another length than its delta;
* `NoOpAfterResize i tr` — the guard of finding D12: no op on offset `i` follows a resizing merge on `i`.
-/
namespace ColumnVerif.Props.C01str
open ColumnVerif.Codec ColumnVerif.Bits ColumnVerif.Store

/-! ## T1 — every slot after the pass (C01 for strings / records) -/

/-- strings are not padded: `slotEffect` with width 0 reads the raw slot as it is -/
theorem padTo_zero (bs : Bytes) : padTo 0 bs = bs := ColumnVerif.Store.padTo_zero bs

/-- the pass keeps kind, merge function, chunk count, array sizes, name, computed columns -/
theorem str_shape (ops : List Op) (acc : ApplyAcc) : SameShape acc.1 (ops.foldl stepStr acc).1 :=
  foldStr_shape ops acc

/-- After the pass, the slot of every offset `i` is the fold of the ops addressed to `i`, in section
    order, over its previous content; offsets not addressed are unchanged (empty filter). Any merge
    function, any previous content. -/
theorem str_slot_fold (ops : List Op) (acc : ApplyAcc) (i : Nat) (hin : InBounds acc.1 ops) :
    slot (ops.foldl stepStr acc).1 i =
      (ops.filter (fun o => o.idx = i)).foldl (slotEffect acc.1.merge 0) (slot acc.1 i) :=
  foldStr_slot ops acc i hin

/-- the same through `applyData` (string and record columns, the chunk exists) -/
theorem applyData_str_slot (hash : Bytes → Nat) (c : Col) (chunk : Nat) (ops : List Op) (i : Nat)
    (hk : c.kind = .str ∨ c.kind = .record) (hc : chunk < c.nchunks) (hin : InBounds c ops) :
    slot (applyData hash c chunk ops).col i =
      (ops.filter (fun o => o.idx = i)).foldl (slotEffect c.merge 0) (slot c i) := by
  rw [applyData_str hash c chunk ops hk hc]
  exact foldStr_slot ops (c, [], []) i hin

/-! ## T2 — how the section is rewritten in place -/

/-- entry `k` of the trace is op `k` with the bytes held by its offset after ops `0..k` -/
theorem trace_meaning (c : Col) (ops : List Op) (k : Nat) :
    (traceStr (c, [], []) ops)[k]? =
      (ops[k]?).map (fun o => (o, (slot ((ops.take (k+1)).foldl stepStr (c, [], [])).1 o.idx).2)) :=
  traceStr_getElem? _ ops k

theorem trace_ops (c : Col) (ops : List Op) : (traceStr (c, [], []) ops).map Prod.fst = ops :=
  traceStr_map_fst _ ops

/-- for a Merge, the value in the trace is the merge of the raw previous slot with the delta -/
theorem trace_merge_value (acc : ApplyAcc) (o : Op) (hb : o.idx < acc.1.bits.size) (hd : o.idx < acc.1.data.size)
    (hm : o.typ = opMerge) :
    (slot (stepStr acc o).1 o.idx).2 = acc.1.merge (slot acc.1 o.idx).2 (valRaw o.val) := by
  rw [stepStr_slot acc o o.idx hb hd, if_pos rfl, slotEffect_merge hm, ColumnVerif.Store.padTo_zero]

/-- The rewritten section is the original one with every op replaced by `rwOp`; the puts appended
    through the parent buffer are the `appOp`s of the resizing merges, in section order. -/
theorem rewritten_eq (c : Col) (ops : List Op) (hin : InBounds c ops) :
    (ops.foldl stepStr (c, [], [])).2.1.reverse = (traceStr (c, [], []) ops).map rwOp ∧
    (ops.foldl stepStr (c, [], [])).2.2 = (traceStr (c, [], []) ops).filterMap appOp := by
  obtain ⟨h1, h2⟩ := foldStr_rewrite ops (c, [], []) hin
  rw [h1, h2]; simp

/-- same number of ops … -/
theorem rewritten_length (c : Col) (ops : List Op) (hin : InBounds c ops) :
    (ops.foldl stepStr (c, [], [])).2.1.reverse.length = ops.length := by
  rw [(rewritten_eq c ops hin).1, List.length_map, traceStr_length]

/-- … at the same offsets, in the same order -/
theorem rewritten_offsets (c : Col) (ops : List Op) (hin : InBounds c ops) :
    (ops.foldl stepStr (c, [], [])).2.1.reverse.map (·.idx) = ops.map (·.idx) := by
  rw [(rewritten_eq c ops hin).1, List.map_map]
  have : ((fun o : Op => o.idx) ∘ rwOp) = (fun o : Op => o.idx) ∘ Prod.fst := by
    funext p; simp [rwOp_idx]
  rw [this, ← List.map_map, traceStr_map_fst]

/-- Position `k` of the rewritten section, `v` being the value the offset holds right after op `k`:
    a non-merge op is unchanged; a merge whose result is as long as its delta became
    `Put v` in place; any other merge is marked `Skip` (its value bytes stay). -/
theorem rewritten_at (c : Col) (ops : List Op) (hin : InBounds c ops) (k : Nat) (hk : k < ops.length) :
    let o := ops[k]
    let v := (slot ((ops.take (k+1)).foldl stepStr (c, [], [])).1 o.idx).2
    (ops.foldl stepStr (c, [], [])).2.1.reverse[k]? =
      some (if o.typ = opMerge then
              (if v.length = (valRaw o.val).length then ⟨opPut, o.idx, .str v⟩ else ⟨opSkip, o.idx, o.val⟩)
            else o) := by
  intro o v
  rw [(rewritten_eq c ops hin).1, List.getElem?_map, trace_meaning, List.getElem?_eq_getElem hk]
  rfl

/-- every resizing merge has its result appended as a `Put` on the same offset … -/
theorem appended_of_resizing (c : Col) (ops : List Op) (hin : InBounds c ops) (k : Nat) (hk : k < ops.length) :
    let o := ops[k]
    let v := (slot ((ops.take (k+1)).foldl stepStr (c, [], [])).1 o.idx).2
    o.typ = opMerge → v.length ≠ (valRaw o.val).length →
      (⟨opPut, o.idx, .str v⟩ : Op) ∈ (ops.foldl stepStr (c, [], [])).2.2 := by
  intro o v hm hl
  rw [(rewritten_eq c ops hin).2, List.mem_filterMap]
  refine ⟨(o, v), ?_, ?_⟩
  · have := trace_meaning c ops k
    rw [List.getElem?_eq_getElem hk] at this
    exact List.mem_of_getElem? this
  · unfold appOp; rw [if_pos ⟨hm, hl⟩]

/-- … and nothing else is appended -/
theorem appended_only_resizing (c : Col) (ops : List Op) (hin : InBounds c ops) (a : Op)
    (ha : a ∈ (ops.foldl stepStr (c, [], [])).2.2) :
    ∃ p ∈ traceStr (c, [], []) ops, resizing p ∧ a = ⟨opPut, p.1.idx, .str p.2⟩ := by
  rw [(rewritten_eq c ops hin).2, List.mem_filterMap] at ha
  obtain ⟨p, hp, hq⟩ := ha
  exact ⟨p, hp, appOp_eq_some hq⟩

/-- no `Merge` is left, neither in the rewritten section nor among the appended puts -/
theorem no_merge_remains (c : Col) (ops : List Op) (hin : InBounds c ops) :
    ∀ o ∈ (ops.foldl stepStr (c, [], [])).2.1.reverse ++ (ops.foldl stepStr (c, [], [])).2.2,
      o.typ ≠ opMerge := by
  rw [(rewritten_eq c ops hin).1, (rewritten_eq c ops hin).2]
  exact rewritten_no_merge _

/-! ## T3 — replaying the rewritten section elsewhere (C05 third sentence, C06), guard D12 -/

/-- index form of the guard: whenever op `j` is a resizing merge on `i`, no later op is on `i` -/
theorem guard_iff (i : Nat) (tr : List (Op × Bytes)) :
    NoOpAfterResize i tr ↔
      ∀ (j k : Nat) (hj : j < tr.length) (hk : k < tr.length), j < k →
        tr[j].1.idx = i → resizing tr[j] → tr[k].1.idx ≠ i := by
  unfold NoOpAfterResize
  rw [List.pairwise_iff_getElem]

/-- Replaying the rewritten section followed by the appended puts with `stepStr` on ANY other column
    `c2` (any previous content, any merge function) leaves at offset `i` exactly the slot the
    primary has — provided no op on `i` follows a resizing merge on `i` (D12), and either a
    Put/Merge addresses `i` (it overwrites the raw bytes) or the two columns agreed on `i` before. -/
theorem rewritten_replay_same_partial (c c2 : Col) (ops : List Op) (i : Nat)
    (hin : InBounds c ops) (hin2 : InBounds c2 ops)
    (hg : NoOpAfterResize i (traceStr (c, [], []) ops))
    (hs : (∃ o ∈ ops, o.idx = i ∧ (o.typ = opPut ∨ o.typ = opMerge)) ∨ slot c2 i = slot c i) :
    slot (((ops.foldl stepStr (c, [], [])).2.1.reverse ++ (ops.foldl stepStr (c, [], [])).2.2).foldl
      stepStr (c2, [], [])).1 i = slot (ops.foldl stepStr (c, [], [])).1 i :=
  foldStr_replay c c2 ops i hin hin2 hg hs

/-- With only a Delete on `i` the stale bytes of the (now absent) row are not resynchronised, but a
    reader sees the same: same presence bit, same value when present. -/
theorem rewritten_replay_same_visible (c c2 : Col) (ops : List Op) (i : Nat)
    (hin : InBounds c ops) (hin2 : InBounds c2 ops)
    (hg : NoOpAfterResize i (traceStr (c, [], []) ops))
    (hs : (∃ o ∈ ops, o.idx = i ∧ (o.typ = opPut ∨ o.typ = opMerge ∨ o.typ = opDelete)) ∨
          VisEq (slot c2 i) (slot c i)) :
    VisEq (slot (((ops.foldl stepStr (c, [], [])).2.1.reverse ++ (ops.foldl stepStr (c, [], [])).2.2).foldl
      stepStr (c2, [], [])).1 i) (slot (ops.foldl stepStr (c, [], [])).1 i) :=
  foldStr_replay_vis c c2 ops i hin hin2 hg hs

/-- the replay theorem through `applyData` (string / record columns whose chunk exists) -/
theorem applyData_replay_same_slot (hash hash2 : Bytes → Nat) (c c2 : Col) (chunk : Nat) (ops : List Op) (i : Nat)
    (hk : c.kind = .str ∨ c.kind = .record) (hk2 : c2.kind = .str ∨ c2.kind = .record)
    (hc : chunk < c.nchunks) (hc2 : chunk < c2.nchunks)
    (hin : InBounds c ops) (hin2 : InBounds c2 ops)
    (hg : NoOpAfterResize i (traceStr (c, [], []) ops))
    (hs : (∃ o ∈ ops, o.idx = i ∧ (o.typ = opPut ∨ o.typ = opMerge)) ∨ slot c2 i = slot c i) :
    slot (applyData hash2 c2 chunk
        ((applyData hash c chunk ops).ops ++ (applyData hash c chunk ops).appended)).col i =
      slot (applyData hash c chunk ops).col i := by
  rw [applyData_str hash c chunk ops hk hc, applyData_str hash2 c2 chunk _ hk2 hc2]
  exact foldStr_replay c c2 ops i hin hin2 hg hs

/-- the same through `applyData` and the typed reader `Col.read` -/
theorem applyData_replay_same_read (hash hash2 : Bytes → Nat) (c c2 : Col) (chunk : Nat) (ops : List Op) (i : Nat)
    (hk : c.kind = .str ∨ c.kind = .record) (hk2 : c2.kind = .str ∨ c2.kind = .record)
    (hc : chunk < c.nchunks) (hc2 : chunk < c2.nchunks)
    (hi : i / 16384 < c.nchunks) (hi2 : i / 16384 < c2.nchunks)
    (hin : InBounds c ops) (hin2 : InBounds c2 ops)
    (hg : NoOpAfterResize i (traceStr (c, [], []) ops))
    (hs : (∃ o ∈ ops, o.idx = i ∧ (o.typ = opPut ∨ o.typ = opMerge ∨ o.typ = opDelete)) ∨
          VisEq (slot c2 i) (slot c i)) :
    (applyData hash2 c2 chunk
        ((applyData hash c chunk ops).ops ++ (applyData hash c chunk ops).appended)).col.read i =
      (applyData hash c chunk ops).col.read i := by
  rw [applyData_str hash c chunk ops hk hc, applyData_str hash2 c2 chunk _ hk2 hc2]
  simp only
  have h := foldStr_replay_vis c c2 ops i hin hin2 hg hs
  have s1 := foldStr_shape ops (c, [], [])
  have s2 := foldStr_shape ((ops.foldl stepStr (c, [], [])).2.1.reverse ++ (ops.foldl stepStr (c, [], [])).2.2)
    (c2, [], [])
  exact h.read_eq (by rw [s1.kind]; exact hk) (by rw [s2.kind]; exact hk2)
    (by rw [s1.nchunks]; exact hi) (by rw [s2.nchunks]; exact hi2)

/-! ### finding D12: an op after a resizing merge on the same offset is replayed in the wrong order -/

/-- a 4-slot string column holding "ab" at offset 0, merge = concatenation -/
def concatCol : Col :=
  { name := "s", kind := .str, merge := fun a d => a ++ d, nchunks := 1,
    bits := #[true, false, false, false], data := #[[97, 98], [], [], []] }

/-- `merge "cd" @0`, then `put "Z" @0` -/
def d12Ops : List Op := [⟨opMerge, 0, .str [99, 100]⟩, ⟨opPut, 0, .str [90]⟩]

/-- The primary ends with "Z"; the section becomes `[skip @0, put "Z" @0]` with `put "abcd" @0`
    appended; a replica fed that buffer (here: one that held the same "ab") ends with "abcd". -/
theorem resize_then_put_counterexample :
    let r := applyData (fun _ => 0) concatCol 0 d12Ops
    r.col.read 0 = some [90] ∧
    r.ops = [⟨opSkip, 0, .str [99, 100]⟩, ⟨opPut, 0, .str [90]⟩] ∧
    r.appended = [⟨opPut, 0, .str [97, 98, 99, 100]⟩] ∧
    (applyData (fun _ => 0) concatCol 0 (r.ops ++ r.appended)).col.read 0 = some [97, 98, 99, 100] := by
  decide

/-- the guard is what fails here -/
example : ¬ NoOpAfterResize 0 (traceStr (concatCol, [], []) d12Ops) := by decide

/-- Delete-only: the raw bytes of an absent row are not carried by the section (the replica keeps
    its own stale bytes), which is why full slot equality needs a Put/Merge or equal previous slots. -/
theorem delete_only_stale_bytes_differ :
    let c2 : Col := { concatCol with data := #[[120], [], [], []] }
    let ops : List Op := [⟨opDelete, 0, .fixed 0 []⟩]
    let r := applyData (fun _ => 0) concatCol 0 ops
    slot r.col 0 = (false, [97, 98]) ∧
    slot (applyData (fun _ => 0) c2 0 (r.ops ++ r.appended)).col 0 = (false, [120]) := by
  decide

/-! ## T4 — enum columns -/

/-- the interning table files every string under its own hash -/
def InternOK (hash : Bytes → Nat) (m : Std.HashMap Nat Bytes) : Prop :=
  ∀ (h : Nat) (w : Bytes), m[h]? = some w → hash w = h

/-- the strings that occur: already interned, or written by a Put of the section -/
def Occurs (c : Col) (ops : List Op) (x : Bytes) : Prop :=
  (∃ h : Nat, c.intern[h]? = some x) ∨ (∃ o ∈ ops, o.typ = opPut ∧ valRaw o.val = x)

/-- raw slot of every offset of an enum column after the pass: presence bit and the 4-byte hash of
    the last Put (a Merge does nothing to an enum column) -/
theorem enum_slot_fold (hash : Bytes → Nat) (ops : List Op) (acc : ApplyAcc) (i : Nat) (hin : InBounds acc.1 ops) :
    slot (ops.foldl (stepEnum hash) acc).1 i =
      (ops.filter (fun o => o.idx = i)).foldl (enumEffect hash) (slot acc.1 i) :=
  foldEnum_slot hash ops acc i hin

/-- the invariant is kept by the pass (no injectivity needed) -/
theorem enum_intern_ok (hash : Bytes → Nat) (c : Col) (ops : List Op) (hok : InternOK hash c.intern) :
    InternOK hash (ops.foldl (stepEnum hash) (c, [], [])).1.intern := by
  have hinv : InternInv hash (fun _ => True) c.intern := fun h w hw => ⟨hok h w hw, trivial⟩
  have : InternInv hash (fun _ => True) (ops.foldl (stepEnum hash) (c, [], [])).1.intern := by
    clear hok
    generalize hacc : ((c, [], []) : ApplyAcc) = acc
    have hinv' : InternInv hash (fun _ => True) acc.1.intern := by rw [← hacc]; exact hinv
    clear hinv hacc
    induction ops generalizing acc with
    | nil => exact hinv'
    | cons o os ih =>
      simp only [List.foldl_cons]
      exact ih _ (stepEnum_intern_inv hash _ acc o hinv' (fun _ => trivial))
  exact fun h w hw => (this h w hw).1

/-- With `hash` injective on the strings that occur (and below 2^32 for the value in question —
    the column stores 4 bytes), the string a reader gets at offset `i` after the pass is the value
    of the last Put on `i`, when no Delete on `i` follows it. -/
theorem enum_read_last_put (hash : Bytes → Nat) (c : Col) (pre post : List Op) (p : Op) (i : Nat)
    (hk : c.kind = .enum) (hchunk : i / 16384 < c.nchunks)
    (hin : InBounds c (pre ++ p :: post))
    (hok : InternOK hash c.intern)
    (hinj : ∀ a b, Occurs c (pre ++ p :: post) a → Occurs c (pre ++ p :: post) b → hash a = hash b → a = b)
    (h32 : hash (valRaw p.val) < 4294967296)
    (hp : p.typ = opPut) (hpi : p.idx = i)
    (hpost : ∀ o ∈ post, o.idx = i → o.typ ≠ opPut ∧ o.typ ≠ opDelete) :
    ((pre ++ p :: post).foldl (stepEnum hash) (c, [], [])).1.read i = some (valRaw p.val) :=
  foldEnum_read_last_put hash (Occurs c (pre ++ p :: post)) c pre post p i hk hchunk hin
    (fun h w hw => ⟨hok h w hw, Or.inl ⟨h, hw⟩⟩)
    (fun o ho hput => Or.inr ⟨o, ho, hput, rfl⟩) hinj h32 hp hpi hpost

/-- the same through `applyData` -/
theorem applyData_enum_read_last_put (hash : Bytes → Nat) (c : Col) (chunk : Nat) (pre post : List Op) (p : Op)
    (i : Nat) (hk : c.kind = .enum) (hc : chunk < c.nchunks) (hchunk : i / 16384 < c.nchunks)
    (hin : InBounds c (pre ++ p :: post))
    (hok : InternOK hash c.intern)
    (hinj : ∀ a b, Occurs c (pre ++ p :: post) a → Occurs c (pre ++ p :: post) b → hash a = hash b → a = b)
    (h32 : hash (valRaw p.val) < 4294967296)
    (hp : p.typ = opPut) (hpi : p.idx = i)
    (hpost : ∀ o ∈ post, o.idx = i → o.typ ≠ opPut ∧ o.typ ≠ opDelete) :
    (applyData hash c chunk (pre ++ p :: post)).col.read i = some (valRaw p.val) := by
  rw [applyData_enum hash c chunk _ hk hc]
  exact enum_read_last_put hash c pre post p i hk hchunk hin hok hinj h32 hp hpi hpost

/-- when the last Put/Delete on `i` is a Delete, the reader finds nothing (no hypothesis on `hash`) -/
theorem enum_read_last_delete (hash : Bytes → Nat) (c : Col) (pre post : List Op) (p : Op) (i : Nat)
    (hk : c.kind = .enum) (hchunk : i / 16384 < c.nchunks) (hin : InBounds c (pre ++ p :: post))
    (hp : p.typ = opDelete) (hpi : p.idx = i)
    (hpost : ∀ o ∈ post, o.idx = i → o.typ ≠ opPut ∧ o.typ ≠ opDelete) :
    ((pre ++ p :: post).foldl (stepEnum hash) (c, [], [])).1.read i = none :=
  foldEnum_read_last_delete hash c pre post p i hk hchunk hin hp hpi hpost

/-- an offset no op addresses reads the same as before, provided its stored hash is interned
    (no hypothesis on `hash`: the first string under a hash is never replaced) -/
theorem enum_read_untouched (hash : Bytes → Nat) (c : Col) (ops : List Op) (i : Nat)
    (hk : c.kind = .enum) (hchunk : i / 16384 < c.nchunks) (hin : InBounds c ops)
    (hno : ∀ o ∈ ops, o.idx ≠ i) (hint : (slot c i).1 = true → (c.intern[beNat (slot c i).2]?).isSome) :
    (ops.foldl (stepEnum hash) (c, [], [])).1.read i = c.read i :=
  foldEnum_read_untouched hash c ops i hk hchunk hin hno hint

/-- Finding D20, general form: two strings with the same hash, the first one not interned before:
    the second offset reads back the FIRST string. -/
theorem enum_collision (hash : Bytes → Nat) (c : Col) (a b : Bytes) (i j : Nat)
    (hk : c.kind = .enum) (hj : j / 16384 < c.nchunks)
    (hin : InBounds c [⟨opPut, i, .str a⟩, ⟨opPut, j, .str b⟩])
    (hcol : hash b = hash a) (h32 : hash a < 4294967296) (hfresh : c.intern[hash a]? = none) :
    ([⟨opPut, i, .str a⟩, ⟨opPut, j, .str b⟩].foldl (stepEnum hash) (c, [], [])).1.read j = some a := by
  have hs := foldEnum_shape hash [⟨opPut, i, .str a⟩, ⟨opPut, j, .str b⟩] (c, [], [])
  rw [read_enum _ j (hs.kind.trans hk) (by rw [hs.nchunks]; exact hj)]
  have hslot := foldEnum_slot hash [⟨opPut, i, .str a⟩, ⟨opPut, j, .str b⟩] (c, [], []) j hin
  have h2 : (slot ([⟨opPut, i, .str a⟩, ⟨opPut, j, .str b⟩].foldl (stepEnum hash) (c, [], [])).1 j) =
      (true, natToBE 4 (hash a)) := by
    rw [hslot]
    by_cases e : i = j
    · simp [e, enumEffect, valRaw, hcol]
    · simp [e, enumEffect, valRaw, hcol]
  rw [h2]
  simp only [if_true, beNat_natToBE4 _ h32]
  simp only [List.foldl_cons, List.foldl_nil]
  rw [stepEnum_col, if_pos rfl]
  simp only [valRaw, hcol]
  rw [stepEnum_col, if_pos rfl]
  simp only [valRaw]
  have hc : c.intern.contains (hash a) = false := by
    rw [Std.HashMap.contains_eq_isSome_getElem?, hfresh]; rfl
  simp [hc]

/-- an empty 4-slot enum column -/
def enumCol : Col :=
  { name := "e", kind := .enum, nchunks := 1, bits := #[false, false, false, false], data := #[[], [], [], []] }

/-- Finding D20 on a concrete column: constant hash, `put "a" @0`, `put "b" @1`: offset 1 reads "a". -/
theorem enum_collision_counterexample :
    (applyData (fun _ => 7) enumCol 0 [⟨opPut, 0, .str [97]⟩, ⟨opPut, 1, .str [98]⟩]).col.read 1 = some [97] := by
  rw [applyData_enum _ _ _ _ rfl (by decide)]
  exact enum_collision (fun _ => 7) enumCol [97] [98] 0 1 rfl (by decide) (by decide) rfl (by decide)
    (by simp [enumCol])

/-! ## T5 — non-vacuity: the hypotheses are met by concrete sections on tiny columns -/

/-- a section with a same-length merge, a resizing merge as last op of its offset, a delete, an
    insert marker, offsets out of order -/
def sampleOps : List Op :=
  [⟨opPut, 2, .str [104, 105]⟩, ⟨opMerge, 0, .str [99, 100]⟩, ⟨opDelete, 2, .fixed 0 []⟩,
   ⟨opInsert, 3, .fixed 0 []⟩, ⟨opMerge, 1, .str []⟩, ⟨opPut, 3, .str [33]⟩]

/-- "last wins" merge: same-length results are swapped in place -/
def lastCol : Col := { concatCol with merge := fun _ d => d }

/-- a replica with other content and another merge function -/
def otherCol : Col :=
  { name := "s", kind := .str, merge := fun a _ => a, nchunks := 1,
    bits := #[false, true, true, false], data := #[[1], [2], [3], [4]] }

example : InBounds concatCol sampleOps := by decide
example : InBounds otherCol sampleOps := by decide
example : ∀ i < 4, NoOpAfterResize i (traceStr (concatCol, [], []) sampleOps) := by decide
example : ∃ o ∈ sampleOps, o.idx = 0 ∧ (o.typ = opPut ∨ o.typ = opMerge) := by decide
example : (concatCol.kind = .str ∨ concatCol.kind = .record) ∧ 0 < concatCol.nchunks := ⟨Or.inl rfl, by decide⟩

/-- what the pass does to `sampleOps` on the concat column … -/
example :
    let r := applyData (fun _ => 0) concatCol 0 sampleOps
    r.ops = [⟨opPut, 2, .str [104, 105]⟩, ⟨opSkip, 0, .str [99, 100]⟩, ⟨opDelete, 2, .fixed 0 []⟩,
             ⟨opInsert, 3, .fixed 0 []⟩, ⟨opPut, 1, .str []⟩, ⟨opPut, 3, .str [33]⟩] ∧
    r.appended = [⟨opPut, 0, .str [97, 98, 99, 100]⟩] ∧
    (List.range 4).map (slot r.col) =
      [(true, [97, 98, 99, 100]), (true, []), (false, [104, 105]), (true, [33])] := by decide

/-- … and the replica ends with the same four slots after replaying the rewritten buffer -/
example :
    let r := applyData (fun _ => 0) concatCol 0 sampleOps
    (List.range 4).map (slot (applyData (fun _ => 0) otherCol 0 (r.ops ++ r.appended)).col) =
      (List.range 4).map (slot r.col) := by decide

/-- a same-length merge is rewritten in place to a Put -/
example :
    (applyData (fun _ => 0) lastCol 0 [⟨opMerge, 0, .str [99, 100]⟩]).ops = [⟨opPut, 0, .str [99, 100]⟩] ∧
    (applyData (fun _ => 0) lastCol 0 [⟨opMerge, 0, .str [99, 100]⟩]).appended = [] := by decide

/-- enum hypotheses: an injective, 32-bit hash on the strings of a section -/
def sampleHash (bs : Bytes) : Nat := beNat bs % 4294967296

def enumOps : List Op := [⟨opPut, 0, .str [97]⟩, ⟨opPut, 1, .str [98]⟩, ⟨opDelete, 0, .fixed 0 []⟩, ⟨opPut, 0, .str [98]⟩]

example : InBounds enumCol enumOps := by decide
example : InternOK sampleHash enumCol.intern := by intro h w hw; simp [enumCol] at hw
theorem enumOps_occurs (a : Bytes) (ha : Occurs enumCol enumOps a) : a = [97] ∨ a = [98] := by
  rcases ha with ⟨h, hh⟩ | ⟨o, ho, hput, rfl⟩
  · simp [enumCol] at hh
  · simp only [enumOps, List.mem_cons, List.not_mem_nil, or_false] at ho
    rcases ho with rfl | rfl | rfl | rfl
    · simp [valRaw]
    · simp [valRaw]
    · exact absurd hput (by decide)
    · simp [valRaw]

theorem sampleHash_inj : ∀ a b, Occurs enumCol enumOps a → Occurs enumCol enumOps b →
    sampleHash a = sampleHash b → a = b := by
  intro a b ha hb
  rcases enumOps_occurs a ha with rfl | rfl <;> rcases enumOps_occurs b hb with rfl | rfl <;> decide

/-- the instance of `enum_read_last_put` for offset 0 of `enumOps` (pre = first three ops) -/
example : (applyData sampleHash enumCol 0 enumOps).col.read 0 = some [98] :=
  applyData_enum_read_last_put sampleHash enumCol 0
    [⟨opPut, 0, .str [97]⟩, ⟨opPut, 1, .str [98]⟩, ⟨opDelete, 0, .fixed 0 []⟩] [] ⟨opPut, 0, .str [98]⟩ 0
    rfl (by decide) (by decide) (by decide) (by intro h w hw; simp [enumCol] at hw) sampleHash_inj
    (by decide) rfl rfl (by intro o ho; cases ho)

end ColumnVerif.Props.C01str
