import ColumnVerif.Lemmas.StorePlumb
/-!
# C15 (sequential part) — one commit per dirty chunk, nothing else

"Each committed transaction emits exactly one commit per 16K-row block it changed and nothing else; transactions that
roll back or change nothing emit nothing."

`Store.commit` walks `t.dirtyChunks` (ascending, without duplicates: `dirtyChunks_sorted`, `mem_dirtyChunks`); every
chunk takes the next commit id; with a logger attached the chunk is emitted iff the transaction has markers or some
non-empty buffer names an existing column (`updatedFlag`) — a decision that is the same for every chunk of the
transaction although the buffers are rewritten and the registry columns replaced from chunk to chunk.
-/
namespace ColumnVerif.Props.C15
open ColumnVerif.Codec ColumnVerif.Bits ColumnVerif.Store ColumnVerif.StorePlumb

/-! ### the dirty chunks -/

theorem mem_insertDedup (x y : Nat) (l : List Nat) : y ∈ insertDedup x l ↔ y = x ∨ y ∈ l := by
  induction l with
  | nil => simp [insertDedup]
  | cons z zs ih =>
    unfold insertDedup
    split
    · simp
    · split
      · rename_i _ e
        subst e
        simp
      · simp only [List.mem_cons, ih]
        constructor
        · rintro (h | h | h)
          · exact Or.inr (Or.inl h)
          · exact Or.inl h
          · exact Or.inr (Or.inr h)
        · rintro (h | h | h)
          · exact Or.inr (Or.inl h)
          · exact Or.inl h
          · exact Or.inr (Or.inr h)

theorem pairwise_insertDedup (x : Nat) (l : List Nat) (h : l.Pairwise (· < ·)) :
    (insertDedup x l).Pairwise (· < ·) := by
  induction l with
  | nil => simp [insertDedup]
  | cons z zs ih =>
    obtain ⟨hz, hzs⟩ := List.pairwise_cons.mp h
    unfold insertDedup
    split
    · rename_i hlt
      apply List.pairwise_cons.mpr
      refine ⟨?_, h⟩
      intro a ha
      rcases List.mem_cons.mp ha with rfl | ha
      · exact hlt
      · exact Nat.lt_trans hlt (hz a ha)
    · split
      · exact h
      · rename_i h1 h2
        apply List.pairwise_cons.mpr
        refine ⟨?_, ih hzs⟩
        intro a ha
        rcases (mem_insertDedup x a zs).mp ha with rfl | ha
        · omega
        · exact hz a ha

theorem foldl_insertDedup (xs acc : List Nat) (h : acc.Pairwise (· < ·)) :
    (xs.foldl (fun acc x => insertDedup x acc) acc).Pairwise (· < ·) ∧
    ∀ c, c ∈ xs.foldl (fun acc x => insertDedup x acc) acc ↔ c ∈ xs ∨ c ∈ acc := by
  induction xs generalizing acc with
  | nil => exact ⟨h, by simp⟩
  | cons x xs ih =>
    simp only [List.foldl_cons]
    obtain ⟨h1, h2⟩ := ih (insertDedup x acc) (pairwise_insertDedup x acc h)
    refine ⟨h1, ?_⟩
    intro c
    rw [h2, mem_insertDedup, List.mem_cons]
    constructor
    · rintro (h | h | h)
      · exact Or.inl (Or.inr h)
      · exact Or.inl (Or.inl h)
      · exact Or.inr h
    · rintro ((h | h) | h)
      · exact Or.inr (Or.inl h)
      · exact Or.inl h
      · exact Or.inr (Or.inr h)

/-- the dirty chunks are walked in strictly ascending order — in particular each one once -/
theorem dirtyChunks_sorted (t : Txn) : t.dirtyChunks.Pairwise (· < ·) :=
  (foldl_insertDedup _ [] List.Pairwise.nil).1

theorem dirtyChunks_nodup (t : Txn) : t.dirtyChunks.Nodup :=
  (dirtyChunks_sorted t).imp (fun h => Nat.ne_of_lt h)

/-- … and are exactly the chunks marked up front and the chunks of the headers of the transaction's buffers -/
theorem mem_dirtyChunks (t : Txn) (c : Nat) :
    c ∈ t.dirtyChunks ↔ c ∈ t.dirty ∨ ∃ b ∈ t.updates, c ∈ b.chunks := by
  unfold Txn.dirtyChunks
  rw [(foldl_insertDedup _ [] List.Pairwise.nil).2]
  simp only [List.mem_append, List.mem_flatten, List.mem_map, List.not_mem_nil, or_false]
  constructor
  · rintro (h | ⟨l, ⟨b, hb, rfl⟩, hc⟩)
    · exact Or.inl h
    · exact Or.inr ⟨b, hb, hc⟩
  · rintro (h | ⟨b, hb, hc⟩)
    · exact Or.inl h
    · exact Or.inr ⟨_, ⟨b, hb, rfl⟩, hc⟩

/-- the header chunks of a buffer are the chunks of the offsets written through it -/
theorem mem_chunks_put (b : Buf) (o : Op) (c : Nat) :
    c ∈ (b.put o).chunks → c = chunkOf o.idx ∨ c ∈ b.chunks := by
  unfold Buf.put Buf.chunks Buf.secs
  simp only
  split
  · split
    · rename_i x rest heq
      intro h; right
      rw [heq]
      simpa using h
    · intro h; left; simpa using h
  · intro h
    simp only [List.reverse_cons, List.map_append, List.mem_append, List.map_cons, List.map_nil,
      List.mem_cons, List.not_mem_nil, or_false] at h
    rcases h with h | h
    · right; exact h
    · left; exact h

/-! ### the loop over the dirty chunks -/

/-- the loop of `Txn.commit` -/
def runChunks (cr : Bool) (acc : Store × List Buf) (chunks : List Nat) : Store × List Buf :=
  chunks.foldl (fun (acc : Store × List Buf) chunk => acc.1.commitChunk chunk cr acc.2) acc

/-- the store the loop starts from -/
def capStore (s : Store) (t : Txn) : Store :=
  match t.dirtyChunks.getLast? with
  | some last => s.commitCapacity last
  | none => s

theorem commit_eq (s : Store) (t : Txn) :
    s.commit t = (runChunks t.markers.isSome (capStore s t, t.updates) t.dirtyChunks).1 := rfl

theorem capStore_spec (s : Store) (t : Txn) :
    Plumb s (capStore s t) ∧ (capStore s t).emitted = s.emitted ∧ (capStore s t).recorded = s.recorded ∧
    (capStore s t).nextId = s.nextId := by
  unfold capStore
  split
  · rename_i last _
    obtain ⟨h1, h2, h3, _⟩ := commitCapacity_quiet s last
    exact ⟨commitCapacity_plumb s last, h1, h2, h3⟩
  · exact ⟨Plumb.refl s, rfl, rfl, rfl⟩

/-- the loop, from any store with a logger: one id per chunk; either every chunk is emitted — in order, under
    consecutive ids, each with buffers of the transaction's shape — or none -/
theorem runChunks_spec (cr : Bool) (chunks : List Nat) (s : Store) (ups : List Buf) (hl : s.logger ≠ .none) :
    Plumb s (runChunks cr (s, ups) chunks).1 ∧
    (runChunks cr (s, ups) chunks).1.nextId = s.nextId + chunks.length ∧
    (runChunks cr (s, ups) chunks).2.map bufSig = ups.map bufSig ∧
    ∃ new : List Emitted, (runChunks cr (s, ups) chunks).1.emitted = new ++ s.emitted ∧
      new.reverse.map (·.chunk) = (if (cr || updatedFlag s ups) = true then chunks else []) ∧
      new.reverse.map (·.id) =
        (if (cr || updatedFlag s ups) = true then List.range' (s.nextId + 1) chunks.length else []) ∧
      ∀ e ∈ new, e.updates.map bufSig = ups.map bufSig := by
  induction chunks generalizing s ups with
  | nil =>
    refine ⟨Plumb.refl s, rfl, rfl, [], rfl, ?_, ?_, ?_⟩
    · split <;> rfl
    · split <;> rfl
    · intro e he; cases he
  | cons c cs ih =>
    have P1 := commitChunk_plumb s c cr ups
    have n1 := commitChunk_nextId s c cr ups
    have g1 := commitChunk_sigs s c cr ups
    have e1 := commitChunk_emitted s hl c cr ups
    have f1 := updatedFlag_commitChunk s c cr ups
    have hl1 : (s.commitChunk c cr ups).1.logger ≠ .none := by rw [P1.logger]; exact hl
    obtain ⟨P2, n2, g2, new1, hnew1, hch, hid, hup⟩ := ih (s.commitChunk c cr ups).1 (s.commitChunk c cr ups).2 hl1
    have hrun : runChunks cr (s, ups) (c :: cs) =
        runChunks cr ((s.commitChunk c cr ups).1, (s.commitChunk c cr ups).2) cs := rfl
    rw [hrun]
    refine ⟨Plumb.trans P1 P2, ?_, g2.trans g1, ?_⟩
    · rw [n2, n1, List.length_cons]; omega
    · rw [f1] at hch hid
      rw [n1] at hid
      cases hflag : (cr || updatedFlag s ups) with
      | false =>
        rw [hflag] at hch hid e1
        simp only [Bool.false_eq_true, if_false] at hch hid e1 ⊢
        refine ⟨new1, ?_, hch, hid, ?_⟩
        · rw [hnew1, e1]
        · intro e he; rw [hup e he, g1]
      | true =>
        rw [hflag] at hch hid e1
        simp only [if_true] at hch hid e1 ⊢
        refine ⟨new1 ++ [⟨s.nextId + 1, c, (s.commitChunk c cr ups).2⟩], ?_, ?_, ?_, ?_⟩
        · rw [hnew1, e1]; simp
        · simp [hch]
        · simp only [List.reverse_append, List.reverse_cons, List.reverse_nil, List.nil_append, List.cons_append,
            List.map_cons, hid, List.length_cons]
          rw [List.range'_succ]
        · intro e he
          rcases List.mem_append.mp he with he | he
          · rw [hup e he, g1]
          · simp only [List.mem_cons, List.not_mem_nil, or_false] at he
            subst he
            exact g1

/-- without a logger the loop emits nothing -/
theorem runChunks_none (cr : Bool) (chunks : List Nat) (s : Store) (ups : List Buf) (hl : s.logger = .none) :
    (runChunks cr (s, ups) chunks).1.emitted = s.emitted := by
  induction chunks generalizing s ups with
  | nil => rfl
  | cons c cs ih =>
    have P1 := commitChunk_plumb s c cr ups
    have hrun : runChunks cr (s, ups) (c :: cs) =
        runChunks cr ((s.commitChunk c cr ups).1, (s.commitChunk c cr ups).2) cs := rfl
    rw [hrun, ih _ _ (by rw [P1.logger]; exact hl), commitChunk_emitted_none s hl]

/-- every chunk of the loop applies the markers of the transaction as it was handed in -/
theorem runChunks_markers (cr : Bool) (chunks : List Nat) (s : Store) (ups : List Buf) :
    (runChunks cr (s, ups) chunks).2.find? isMarkerBuf = ups.find? isMarkerBuf := by
  induction chunks generalizing s ups with
  | nil => rfl
  | cons c cs ih =>
    have hrun : runChunks cr (s, ups) (c :: cs) =
        runChunks cr ((s.commitChunk c cr ups).1, (s.commitChunk c cr ups).2) cs := rfl
    rw [hrun, ih, commitChunk_markers]

/-! ### C15 -/

/-- the commits a step added to the change stream (most recent first) -/
def newCommits (s s' : Store) : List Emitted := s'.emitted.take (s'.emitted.length - s.emitted.length)

theorem newCommits_of_append {s s' : Store} {new : List Emitted} (h : s'.emitted = new ++ s.emitted) :
    newCommits s s' = new := by
  unfold newCommits
  rw [h]
  simp

/-- whether the transaction emits at all: it carries markers, or a non-empty buffer names an existing column -/
def emits (s : Store) (t : Txn) : Bool := t.markers.isSome || updatedFlag s t.updates

/-- **C15 (sequential part).** With a logger attached, a commit prepends to the change stream exactly one commit per
    dirty chunk of the transaction, in ascending chunk order, under the consecutive ids `nextId + 1, nextId + 2, …`,
    each carrying as many buffers, under the same column names, as the transaction — provided the transaction has
    markers or a non-empty buffer for an existing column; otherwise it emits nothing. -/
theorem commit_emits_once_per_dirty_chunk (s : Store) (t : Txn) (hl : s.logger ≠ .none) :
    (s.commit t).emitted = newCommits s (s.commit t) ++ s.emitted ∧
    (newCommits s (s.commit t)).map (·.chunk) = (if emits s t = true then t.dirtyChunks.reverse else []) ∧
    (newCommits s (s.commit t)).reverse.map (·.id) =
      (if emits s t = true then List.range' (s.nextId + 1) t.dirtyChunks.length else []) ∧
    (∀ e ∈ newCommits s (s.commit t), e.updates.map bufSig = t.updates.map bufSig) ∧
    (s.commit t).nextId = s.nextId + t.dirtyChunks.length := by
  obtain ⟨cp, ce, _, cn⟩ := capStore_spec s t
  have hl0 : (capStore s t).logger ≠ .none := by rw [cp.logger]; exact hl
  obtain ⟨_, hn, _, new, hnew, hch, hid, hup⟩ :=
    runChunks_spec t.markers.isSome t.dirtyChunks (capStore s t) t.updates hl0
  rw [updatedFlag_congr cp.names rfl] at hch hid
  rw [cn] at hid
  rw [ce] at hnew
  rw [cn] at hn
  rw [← commit_eq] at hnew hn
  rw [newCommits_of_append hnew]
  refine ⟨hnew, ?_, hid, hup, hn⟩
  have : new.map (·.chunk) = (new.reverse.map (·.chunk)).reverse := by simp
  rw [this, hch]
  unfold emits
  split <;> simp

/-- the chunks of the commits a transaction emits are pairwise different: one commit per block -/
theorem commit_chunks_nodup (s : Store) (t : Txn) (hl : s.logger ≠ .none) :
    ((newCommits s (s.commit t)).map (·.chunk)).Nodup := by
  rw [(commit_emits_once_per_dirty_chunk s t hl).2.1]
  split
  · have := (dirtyChunks_sorted t).imp (fun {a b} (h : a < b) => (Nat.ne_of_lt h).symm)
    exact List.pairwise_reverse.mpr this
  · exact List.nodup_nil

/-- … every dirty chunk is among them, and only those (when the transaction emits) -/
theorem commit_chunk_mem (s : Store) (t : Txn) (hl : s.logger ≠ .none) (he : emits s t = true) (c : Nat) :
    c ∈ (newCommits s (s.commit t)).map (·.chunk) ↔ c ∈ t.dirty ∨ ∃ b ∈ t.updates, c ∈ b.chunks := by
  rw [(commit_emits_once_per_dirty_chunk s t hl).2.1, if_pos he, List.mem_reverse, mem_dirtyChunks]

/-- the ids are fresh (above every id handed out before), hence non-zero, and strictly increasing in chunk order -/
theorem commit_ids_increasing (s : Store) (t : Txn) (hl : s.logger ≠ .none) :
    ((newCommits s (s.commit t)).reverse.map (·.id)).Pairwise (· < ·) ∧
    ∀ e ∈ newCommits s (s.commit t), s.nextId < e.id ∧ e.id ≤ (s.commit t).nextId := by
  obtain ⟨_, _, hid, _, hn⟩ := commit_emits_once_per_dirty_chunk s t hl
  constructor
  · rw [hid]
    split
    · exact List.pairwise_lt_range'
    · exact List.Pairwise.nil
  · intro e he
    have : e.id ∈ (newCommits s (s.commit t)).reverse.map (·.id) := by
      simp only [List.map_reverse, List.mem_reverse, List.mem_map]
      exact ⟨e, he, rfl⟩
    rw [hid] at this
    split at this
    · have := List.mem_range'_1.mp this
      omega
    · cases this

/-- without a logger nothing is emitted -/
theorem commit_without_logger (s : Store) (t : Txn) (hl : s.logger = .none) : (s.commit t).emitted = s.emitted := by
  obtain ⟨cp, ce, _, _⟩ := capStore_spec s t
  rw [commit_eq, runChunks_none _ _ _ _ (by rw [cp.logger]; exact hl), ce]

/-- a transaction that changes nothing — no markers and no non-empty buffer naming an existing column — emits
    nothing, whatever the logger -/
theorem commit_silent_of_not_emits (s : Store) (t : Txn) (h : emits s t = false) :
    (s.commit t).emitted = s.emitted := by
  by_cases hl : s.logger = .none
  · exact commit_without_logger s t hl
  · obtain ⟨h1, h2, _⟩ := commit_emits_once_per_dirty_chunk s t hl
    have : newCommits s (s.commit t) = [] := by
      have := congrArg List.length h2
      rw [h] at this
      simpa using this
    rw [h1, this]; rfl

/-- read-only transactions and transactions whose buffers are all empty do not emit -/
theorem emits_false_of_all_empty (s : Store) (t : Txn) (h : ∀ u ∈ t.updates, u.isEmpty = true) :
    emits s t = false := by
  unfold emits Txn.markers updatedFlag
  have h1 : t.updates.find? (fun b => !b.isEmpty && b.column == rowColumn) = none := by
    apply List.find?_eq_none.mpr
    intro u hu
    simp [h u hu]
  have h2 : (t.updates.any fun u => !u.isEmpty && u.column != rowColumn && (s.findCol u.column).isSome) = false := by
    apply List.any_eq_false.mpr
    intro u hu
    simp [h u hu]
  rw [h1, h2]; rfl

theorem read_only_commit_emits_nothing (s : Store) (t : Txn) (h : t.updates = []) :
    (s.commit t).emitted = s.emitted :=
  commit_silent_of_not_emits s t (emits_false_of_all_empty s t (by rw [h]; intro u hu; cases hu))

/-- writes addressed only to columns that do not exist (dropped meanwhile), without markers, do not emit -/
theorem emits_false_of_dropped (s : Store) (t : Txn)
    (h : ∀ u ∈ t.updates, u.column ≠ rowColumn ∧ s.findCol u.column = none) : emits s t = false := by
  unfold emits Txn.markers updatedFlag
  have h1 : t.updates.find? (fun b => !b.isEmpty && b.column == rowColumn) = none := by
    apply List.find?_eq_none.mpr
    intro u hu
    simp [(h u hu).1]
  have h2 : (t.updates.any fun u => !u.isEmpty && u.column != rowColumn && (s.findCol u.column).isSome) = false := by
    apply List.any_eq_false.mpr
    intro u hu
    simp [(h u hu).2]
  rw [h1, h2]; rfl

/-- a transaction that rolls back emits nothing (rollback only recounts) -/
theorem rollback_emits_nothing (s : Store) (t : Txn) :
    (s.rollback t).emitted = s.emitted ∧ (s.rollback t).nextId = s.nextId := ⟨rfl, rfl⟩

/-! ### non-vacuity: a store as `NewCollection` + `CreateColumn` build it, a transaction over two chunks -/

/-- `NewCollection` with a channel logger, one `int64` column -/
def store1 : Store := ((Store.new 1024 .channel (fun _ => 0)).createColumn "n" (.num .i64) (fun _ d => d)).1

/-- two inserts (offsets 5 and 16389, i.e. chunks 0 and 1), each with a value for column `n` -/
def txn1 : Txn :=
  ((((default : Txn).putOp rowColumn ⟨opInsert, 5, .fixed 0 []⟩).putOp "n" ⟨opPut, 5, .fixed 3 [0, 0, 0, 0, 0, 0, 0, 7]⟩).putOp
    rowColumn ⟨opInsert, 16384 + 5, .fixed 0 []⟩).putOp "n" ⟨opPut, 16384 + 5, .fixed 3 [0, 0, 0, 0, 0, 0, 0, 9]⟩

/-- a delete marker only -/
def txnDel : Txn := (default : Txn).putOp rowColumn ⟨opDelete, 16384 + 5, .fixed 0 []⟩

/-- a write to a column that does not exist (dropped), in two chunks -/
def txnDropped : Txn :=
  ((default : Txn).putOp "gone" ⟨opPut, 5, .fixed 3 [0, 0, 0, 0, 0, 0, 0, 7]⟩).putOp "gone" ⟨opPut, 40000, .fixed 3 [0, 0, 0, 0, 0, 0, 0, 7]⟩

/-- the same store without a logger -/
def store1Quiet : Store := { store1 with logger := .none }

example : store1.logger ≠ .none := by decide
example : txn1.dirtyChunks = [0, 1] := by decide
example : emits store1 txn1 = true := by decide
example : txnDropped.dirtyChunks = [0, 2] ∧ emits store1 txnDropped = false := by decide

-- the model evaluated: chunks and ids of the emitted commits, most recent first
example : (store1.commit txn1).emitted.map (·.chunk) = [1, 0] := by decide +kernel
example : (store1.commit txn1).emitted.map (·.id) = [2, 1] := by decide +kernel
example : (store1.commit txn1).nextId = 2 := by decide +kernel
example : ((store1.commit txn1).commit txnDel).emitted.map (fun e => (e.id, e.chunk)) = [(3, 1), (2, 1), (1, 0)] := by
  decide +kernel
example : (store1.commit txnDropped).emitted.length = 0 ∧ (store1.commit txnDropped).nextId = 2 := by decide +kernel
example : (store1.commit default).emitted.length = 0 ∧ (store1.commit default).nextId = 0 := by decide +kernel
example : (store1Quiet.commit txn1).emitted.length = 0 := by decide +kernel

-- the same through the theorem
example : (newCommits store1 (store1.commit txn1)).map (·.chunk) = [1, 0] := by
  rw [(commit_emits_once_per_dirty_chunk store1 txn1 (by decide)).2.1]
  decide

end ColumnVerif.Props.C15
