import ColumnVerif.Model.Widen
import ColumnVerif.Lemmas.Wire
import ColumnVerif.Lemmas.TTL
/-!
C01, the any-size integer readers: a signed (unsigned) integer of 16, 32 or 64 bits, written as an operation of
its own width, is read by `Reader.Int` (`Reader.Uint`) as the same number, for every value; the slot an `int` /
`uint` column keeps for it is the 64-bit two's-complement form of that number; an 8-byte value is kept as it is.
-/
namespace ColumnVerif.Props.C01widen
open ColumnVerif.Codec ColumnVerif.Wire

private theorem pow256_2 : (256 : Nat) ^ 2 = 65536 := by decide
private theorem pow256_4 : (256 : Nat) ^ 4 = 4294967296 := by decide
private theorem pow256_8 : (256 : Nat) ^ 8 = 18446744073709551616 := by decide

/-- the operation value the typed writers produce for a signed integer of `w` bytes -/
def encInt (w : Nat) (v : Int) : Bytes := natToBE w (v % (256 ^ w : Nat)).toNat

theorem beInt_encInt (w : Nat) (_hw : 0 < w) (v : Int)
    (lo : -((256 ^ w : Nat) : Int) ≤ 2 * v) (hi : 2 * v < ((256 ^ w : Nat) : Int)) :
    beInt (encInt w v) = v := by
  have hpos : 0 < (256 ^ w : Nat) := Nat.pow_pos (by decide)
  have hm0 : 0 ≤ v % ((256 ^ w : Nat) : Int) := Int.emod_nonneg _ (by omega)
  have hm1 : v % ((256 ^ w : Nat) : Int) < ((256 ^ w : Nat) : Int) := Int.emod_lt_of_pos _ (by omega)
  unfold beInt encInt
  rw [natToBE_length, beNat_natToBE]
  have hlt : (v % ((256 ^ w : Nat) : Int)).toNat < 256 ^ w := by omega
  rw [Nat.mod_eq_of_lt hlt]
  by_cases hv : 0 ≤ v
  · have : v % ((256 ^ w : Nat) : Int) = v := Int.emod_eq_of_lt hv (by omega)
    rw [this]
    have h2 : 2 * v.toNat < 256 ^ w := by omega
    simp only [h2, if_true]
    omega
  · have hv' : v < 0 := by omega
    have : v % ((256 ^ w : Nat) : Int) = v + ((256 ^ w : Nat) : Int) := by
      rw [← Int.add_emod_right]
      exact Int.emod_eq_of_lt (by omega) (by omega)
    rw [this]
    have h2 : ¬ 2 * (v + ((256 ^ w : Nat) : Int)).toNat < 256 ^ w := by omega
    simp only [h2, if_false]
    omega

/-- **C01 (any-size signed reader).** An int16 / int32 / int64 value written at its own width reads back, through
    `Reader.Int`, as the same number. -/
theorem readIntAny_int16 (v : Int) (lo : -32768 ≤ v) (hi : v < 32768) : readIntAny (encInt 2 v) = some v := by
  have hw : anyWidth (encInt 2 v) = true := by simp [anyWidth, encInt, natToBE_length]
  unfold readIntAny; rw [if_pos hw, beInt_encInt 2 (by decide) v (by rw [pow256_2]; omega) (by rw [pow256_2]; omega)]

theorem readIntAny_int32 (v : Int) (lo : -2147483648 ≤ v) (hi : v < 2147483648) :
    readIntAny (encInt 4 v) = some v := by
  have hw : anyWidth (encInt 4 v) = true := by simp [anyWidth, encInt, natToBE_length]
  unfold readIntAny; rw [if_pos hw, beInt_encInt 4 (by decide) v (by rw [pow256_4]; omega) (by rw [pow256_4]; omega)]

theorem readIntAny_int64 (v : Int) (lo : -9223372036854775808 ≤ v) (hi : v < 9223372036854775808) :
    readIntAny (encInt 8 v) = some v := by
  have hw : anyWidth (encInt 8 v) = true := by simp [anyWidth, encInt, natToBE_length]
  unfold readIntAny; rw [if_pos hw, beInt_encInt 8 (by decide) v (by rw [pow256_8]; omega) (by rw [pow256_8]; omega)]

/-- **C01 (any-size unsigned reader).** A uint16 / uint32 / uint64 value written at its own width reads back,
    through `Reader.Uint`, as the same number. -/
theorem readUintAny_value (w : Nat) (hw : w = 2 ∨ w = 4 ∨ w = 8) (n : Nat) (h : n < 256 ^ w) :
    readUintAny (natToBE w n) = some n := by
  have hwd : anyWidth (natToBE w n) = true := by
    rcases hw with rfl | rfl | rfl <;> simp [anyWidth, natToBE_length]
  unfold readUintAny; rw [if_pos hwd, beNat_natToBE, Nat.mod_eq_of_lt h]

/-- a width the readers do not know panics -/
theorem readAny_other_width (bs : Bytes) (h2 : bs.length ≠ 2) (h4 : bs.length ≠ 4) (h8 : bs.length ≠ 8) :
    readIntAny bs = none ∧ readUintAny bs = none := by
  have : anyWidth bs = false := by simp [anyWidth, h2, h4, h8]
  simp [readIntAny, readUintAny, this]

/-- **C01 (narrow put into an `int` column).** The slot kept for a narrower signed value is the 8-byte form of the
    same number: reading the slot as a 64-bit integer gives the value put. -/
theorem widen_signed_reads (w : Nat) (hw : w = 2 ∨ w = 4 ∨ w = 8) (v : Int)
    (lo : -((256 ^ w : Nat) : Int) ≤ 2 * v) (hi : 2 * v < ((256 ^ w : Nat) : Int)) :
    ∃ slot, widenInt true (encInt w v) = some slot ∧ slot.length = 8 ∧ beInt slot = v := by
  have hwd : anyWidth (encInt w v) = true := by
    rcases hw with rfl | rfl | rfl <;> simp [anyWidth, encInt, natToBE_length]
  have hwpos : 0 < w := by omega
  refine ⟨slot64 v, ?_, by simp [slot64, natToBE_length], ?_⟩
  · simp [widenInt, readIntAny, hwd, beInt_encInt w hwpos v lo hi]
  · have hle : (256 ^ w : Nat) ≤ 256 ^ 8 := Nat.pow_le_pow_right (by decide) (by omega)
    have := beInt_encInt 8 (by decide) v (by rw [pow256_8]; rw [pow256_8] at hle; omega)
      (by rw [pow256_8]; rw [pow256_8] at hle; omega)
    simpa [encInt, slot64, pow256_8] using this

/-- **C01 (narrow put into a `uint` column).** -/
theorem widen_unsigned_reads (w : Nat) (hw : w = 2 ∨ w = 4 ∨ w = 8) (n : Nat) (h : n < 256 ^ w) :
    ∃ slot, widenInt false (natToBE w n) = some slot ∧ slot.length = 8 ∧ beNat slot = n := by
  have hle : (256 ^ w : Nat) ≤ 256 ^ 8 := Nat.pow_le_pow_right (by decide) (by omega)
  rw [pow256_8] at hle
  refine ⟨slot64 (n : Int), ?_, by simp [slot64, natToBE_length], ?_⟩
  · simp [widenInt, readUintAny_value w hw n h]
  · unfold slot64
    have : ((n : Int) % 18446744073709551616).toNat = n := by omega
    rw [this, beNat_natToBE, pow256_8]; omega

/-- an operation of the column's own width is kept bit for bit -/
theorem widen_full_width (signed : Bool) (bs : Bytes) (h : bs.length = 8) : widenInt signed bs = some bs := by
  have hwd : anyWidth bs = true := by simp [anyWidth, h]
  have hb := ColumnVerif.Store.beNat_lt bs
  rw [h, pow256_8] at hb
  have hid : natToBE 8 (beNat bs) = bs := by
    have := ColumnVerif.Store.natToBE_beNat bs; rwa [h] at this
  cases signed
  · have : ((beNat bs : Int) % 18446744073709551616).toNat = beNat bs := by omega
    simp [widenInt, readUintAny, hwd, slot64, this, hid]
  · have : (beInt bs % 18446744073709551616).toNat = beNat bs := by
      unfold beInt; rw [h, pow256_8]; split <;> omega
    simp [widenInt, readIntAny, hwd, slot64, this, hid]

/-- the hypotheses are met: -12 as an int16 -/
example : readIntAny (encInt 2 (-12)) = some (-12) ∧ widenInt true (encInt 2 (-12)) = some [255,255,255,255,255,255,255,244] := by
  decide

end ColumnVerif.Props.C01widen

namespace ColumnVerif.Props.C01widen
open ColumnVerif.Codec ColumnVerif.Wire

private theorem p256_2 : (256 : Nat) ^ 2 = 65536 := by decide
private theorem p256_4 : (256 : Nat) ^ 4 = 4294967296 := by decide
private theorem p256_8 : (256 : Nat) ^ 8 = 18446744073709551616 := by decide

/-- **C01 (untyped writers, signed).** Whatever signed Go integer type the value handed to `Row.SetAny` /
    `Row.SetMany` / `Buffer.PutAny` has — int8, int16, int32, int64 or int — the operation written for it is read by
    an `int` column (`Reader.Int`) as the same number. -/
theorem putAny_signed_reads_back (t : GoInt) (hs : t.signed = true) (v : Int) (h : t.holds v) :
    readIntAny (match putAnyInt t v with | .fixed _ bs => bs | .str bs => bs) = some v := by
  cases t <;> simp [GoInt.signed] at hs <;>
    simp only [GoInt.holds, GoInt.signed, GoInt.bits, if_true] at h <;>
    simp only [putAnyInt, GoInt.opWidth]
  · exact readIntAny_int16 v (by omega) (by omega)
  · exact readIntAny_int16 v (by omega) (by omega)
  · exact readIntAny_int32 v (by omega) (by omega)
  · exact readIntAny_int64 v (by omega) (by omega)
  · exact readIntAny_int64 v (by omega) (by omega)

/-- **C01 (untyped writers, unsigned).** The same for uint8, uint16, uint32, uint64 and uint read by a `uint` column. -/
theorem putAny_unsigned_reads_back (t : GoInt) (hs : t.signed = false) (v : Int) (h : t.holds v) :
    readUintAny (match putAnyInt t v with | .fixed _ bs => bs | .str bs => bs) = some v.toNat := by
  cases t <;> simp [GoInt.signed] at hs <;>
    simp only [GoInt.holds, GoInt.signed, GoInt.bits, Bool.false_eq_true, if_false] at h <;>
    simp only [putAnyInt, GoInt.opWidth]
  · have hm : v % ((256 ^ 2 : Nat) : Int) = v := Int.emod_eq_of_lt h.1 (by rw [p256_2]; omega)
    rw [hm]; exact readUintAny_value 2 (by simp) v.toNat (by rw [p256_2]; omega)
  · have hm : v % ((256 ^ 2 : Nat) : Int) = v := Int.emod_eq_of_lt h.1 (by rw [p256_2]; omega)
    rw [hm]; exact readUintAny_value 2 (by simp) v.toNat (by rw [p256_2]; omega)
  · have hm : v % ((256 ^ 4 : Nat) : Int) = v := Int.emod_eq_of_lt h.1 (by rw [p256_4]; omega)
    rw [hm]; exact readUintAny_value 4 (by simp) v.toNat (by rw [p256_4]; omega)
  · have hm : v % ((256 ^ 8 : Nat) : Int) = v := Int.emod_eq_of_lt h.1 (by rw [p256_8]; omega)
    rw [hm]; exact readUintAny_value 8 (by simp) v.toNat (by rw [p256_8]; omega)
  · have hm : v % ((256 ^ 8 : Nat) : Int) = v := Int.emod_eq_of_lt h.1 (by rw [p256_8]; omega)
    rw [hm]; exact readUintAny_value 8 (by simp) v.toNat (by rw [p256_8]; omega)

/-- the operation has the width the column kind of the same Go type expects, except for the 8-bit types (16-bit) -/
theorem putAny_width (t : GoInt) (v : Int) :
    (match putAnyInt t v with | .fixed _ bs => bs.length | .str bs => bs.length) = t.opWidth := by
  simp [putAnyInt, natToBE_length]

example : GoInt.i8.holds (-128) ∧ putAnyInt .i8 (-128) = .fixed 1 [255, 128] := by decide

end ColumnVerif.Props.C01widen
