import ColumnVerif.Lemmas.StateWire
import ColumnVerif.Props.C05
/-!
# C07 (wire level) — the snapshot state section round-trips byte for byte and no truncated state
section is ever accepted

`encState` is Go's `writeState` (version · column count · chunk count · per chunk: last commit id
and `column count` buffers as `Buffer.WriteTo` writes them); `readStateRaw` is the parsing half of
`readState`. Statements use the definitions of `Model/StateWire`, `Model/Wire`, `Model/Snapshot`
plus the spec-level names of `Lemmas/StateWire` and `Lemmas/Wire`:

* `Snap.WireWF snap` — `snap.columns < 2^64`, `snap.chunks.length < 2^64`, and every chunk `c`
  satisfies `c.WireWF snap.columns`: `c.lastCommit < 2^64`, `c.buffers.length = snap.columns`,
  every buffer `(Buf.toRaw b).WF` (`RawBuf.WF` of `Lemmas/Wire`: the field widths of
  `Buffer.WriteTo`). Both are decidable (`instance`s in `Lemmas/StateWire`); `wireWF_iff` below
  spells the predicate out.
* `RawChunkState` = `⟨lastCommit, buffers : List RawBuf⟩` (of `Model/StateWire`).

As in `Props/C13`, a source `⟨bytes, e⟩` carries the end flag `e`: `e = true` means the stream was
cut inside a compressed (s2) frame, so running off the end must never look like a clean `io.EOF`.
-/
namespace ColumnVerif.Props.C07wire
open ColumnVerif.Codec ColumnVerif.Store ColumnVerif.Wire

/-! ## 1 — well-formedness -/

/-- `Snap.WireWF`, field by field. -/
theorem wireWF_iff (snap : Snap) : snap.WireWF ↔
    snap.columns < 2 ^ 64 ∧ snap.chunks.length < 2 ^ 64 ∧
    ∀ c ∈ snap.chunks, c.lastCommit < 2 ^ 64 ∧ c.buffers.length = snap.columns ∧
      ∀ b ∈ c.buffers, (Buf.toRaw b).WF :=
  Snap.wireWF_iff snap

/-- the buffer part of `WireWF` follows from the buffer invariant and four plain size bounds
    (`buffer_fits` of `Props/C05`) -/
theorem wireWF_of_inv (snap : Snap) (hcols : snap.columns < 2 ^ 64)
    (hchunks : snap.chunks.length < 2 ^ 64)
    (hc : ∀ c ∈ snap.chunks, c.lastCommit < 2 ^ 64 ∧ c.buffers.length = snap.columns)
    (hb : ∀ c ∈ snap.chunks, ∀ b ∈ c.buffers, b.Inv ∧ b.column.toUTF8.toList.length < 2 ^ 64 ∧
      b.secs.length < 2 ^ 64 ∧ b.bytes.length < 2 ^ 32 ∧ ∀ s ∈ b.secs, s.chunk < 2 ^ 32) :
    snap.WireWF :=
  ⟨hcols, hchunks, fun c hcm => ⟨(hc c hcm).1, (hc c hcm).2, fun b hbm =>
    let ⟨h1, h2, h3, h4, h5⟩ := hb c hcm b hbm
    C05.buffer_fits b h1 h2 h3 h4 h5⟩⟩

/-! ## 2 — round trip -/

/-- `writeState` then `readState`'s parser: the column count and, per chunk, the last commit id
    and the raw form of every buffer written — exactly the bytes of the section are consumed, the
    end flag is untouched. -/
theorem state_roundtrip (snap : Snap) (h : snap.WireWF) (rest : Bytes) (e : Bool) :
    readStateRaw ⟨encState snap ++ rest, e⟩ =
      .ok ((snap.columns, snap.chunks.map (fun c => ⟨c.lastCommit, c.buffers.map Buf.toRaw⟩)),
        ⟨rest, e⟩) :=
  state_reads snap h rest e

/-- one chunk of the section on its own (the reader reads exactly `columns` buffers) -/
theorem chunk_roundtrip (columns : Nat) (c : ChunkState) (h : c.WireWF columns) (rest : Bytes)
    (e : Bool) :
    readChunkState columns ⟨encChunkState c ++ rest, e⟩ =
      .ok (⟨c.lastCommit, c.buffers.map Buf.toRaw⟩, ⟨rest, e⟩) :=
  chunk_reads columns c h rest e

/-! ## 3 — truncation -/

/-- Every strict prefix of the state section is rejected; when the stream was cut inside a
    compressed frame (`e = true`) the error is `.bad`. -/
theorem state_prefix_fails (snap : Snap) (h : snap.WireWF) (p : Bytes) (hp : p <+: encState snap)
    (hne : p ≠ encState snap) (e : Bool) :
    ∃ err, readStateRaw ⟨p, e⟩ = .error err ∧ (e = true → err = .bad) :=
  (state_cuts snap h).of_prefix p hp hne e

/-- … whatever the corrupt flag … -/
theorem state_prefix_never_ok (snap : Snap) (h : snap.WireWF) (p : Bytes) (hp : p <+: encState snap)
    (hne : p ≠ encState snap) (e : Bool) : ∃ err, readStateRaw ⟨p, e⟩ = .error err :=
  let ⟨err, h1, _⟩ := state_prefix_fails snap h p hp hne e
  ⟨err, h1⟩

/-- … as a non-`.ok` statement … -/
theorem state_prefix_not_ok (snap : Snap) (h : snap.WireWF) (p : Bytes) (hp : p <+: encState snap)
    (hne : p ≠ encState snap) (e : Bool) (r : (Nat × List RawChunkState) × Src) :
    readStateRaw ⟨p, e⟩ ≠ .ok r := by
  obtain ⟨err, h1⟩ := state_prefix_never_ok snap h p hp hne e
  rw [h1]; intro h2; cases h2

/-- … and a cut inside a compressed frame is never taken for a clean end. -/
theorem state_prefix_corrupt_bad (snap : Snap) (h : snap.WireWF) (p : Bytes)
    (hp : p <+: encState snap) (hne : p ≠ encState snap) : readStateRaw ⟨p, true⟩ = .error .bad := by
  obtain ⟨err, h1, h2⟩ := state_prefix_fails snap h p hp hne true
  rw [h1, h2 rfl]

/-- The empty section (a file that ends before the version number) is a non-EOF error even with a
    clean end: `readState` does not pass the `io.EOF` of the version read on. -/
theorem state_empty_bad (e : Bool) : readStateRaw ⟨[], e⟩ = .error .bad := readStateRaw_nil e

/-- A version number other than 1 is rejected. -/
theorem state_version_rejected (v : Nat) (hv : v < 2 ^ 64) (hne : v ≠ 1) (rest : Bytes) (e : Bool) :
    readStateRaw ⟨encUvarint v ++ rest, e⟩ = .error .bad :=
  readStateRaw_version v hv hne rest e

/-- One chunk: every strict prefix is rejected … -/
theorem chunk_prefix_fails (columns : Nat) (c : ChunkState) (h : c.WireWF columns) (p : Bytes)
    (hp : p <+: encChunkState c) (hne : p ≠ encChunkState c) (e : Bool) :
    ∃ err, readChunkState columns ⟨p, e⟩ = .error err ∧ (e = true → err = .bad) :=
  (chunk_cuts columns c h).of_prefix p hp hne e

/-- … and once the chunk's commit id has been read, a missing or cut buffer is a non-EOF error
    even on a clean end (Go: `err == io.EOF && i < columns ⇒ io.ErrUnexpectedEOF`). -/
theorem chunk_cut_in_buffers_bad (columns : Nat) (c : ChunkState) (h : c.WireWF columns) (n : Nat)
    (e : Bool) (hlo : (encUvarint c.lastCommit).length ≤ n) (hn : n < (encChunkState c).length) :
    readChunkState columns ⟨(encChunkState c).take n, e⟩ = .error .bad :=
  chunk_cut_in_buffers columns c h n e hlo hn

/-! ## 4 — the decoded buffers are the buffers written -/

/-- Every decoded raw buffer converts back (`RawBuf.toBuf`) to a buffer with the column name,
    `last`, sections and — for every chunk — operations (`rangeOps`) of the buffer written. -/
theorem state_roundtrip_ops (snap : Snap) (h : snap.WireWF)
    (hinv : ∀ c ∈ snap.chunks, ∀ b ∈ c.buffers, b.Inv) (rest : Bytes) (e : Bool) :
    ∃ raw, readStateRaw ⟨encState snap ++ rest, e⟩ = .ok ((snap.columns, raw), ⟨rest, e⟩) ∧
      raw.length = snap.chunks.length ∧
      ∀ i (hi : i < snap.chunks.length) (hi' : i < raw.length),
        raw[i].lastCommit = snap.chunks[i].lastCommit ∧
        raw[i].buffers.length = snap.chunks[i].buffers.length ∧
        ∀ j (hj : j < snap.chunks[i].buffers.length) (hj' : j < raw[i].buffers.length),
          ∃ b', raw[i].buffers[j].toBuf = some b' ∧
            b'.column = snap.chunks[i].buffers[j].column ∧
            b'.last = snap.chunks[i].buffers[j].last ∧
            b'.secs = snap.chunks[i].buffers[j].secs ∧
            ∀ ch, b'.rangeOps ch = snap.chunks[i].buffers[j].rangeOps ch := by
  refine ⟨snap.chunks.map chunkRaw, state_reads snap h rest e, by simp, ?_⟩
  intro i hi hi'
  simp only [List.getElem_map, chunkRaw, List.length_map]
  refine ⟨trivial, trivial, ?_⟩
  intro j hj _
  have hb := hinv _ (List.getElem_mem hi) _ (List.getElem_mem hj)
  exact ⟨_, C05.buffer_toBuf_roundtrip _ hb, rfl, rfl, rfl, fun _ => rfl⟩

/-- … which is the written buffer itself unless it was reset while holding sections. -/
theorem state_roundtrip_bufs (snap : Snap) (h : snap.WireWF)
    (hinv : ∀ c ∈ snap.chunks, ∀ b ∈ c.buffers, b.Inv ∧ (b.cur = none → b.rsecs = []))
    (rest : Bytes) (e : Bool) :
    ∃ raw, readStateRaw ⟨encState snap ++ rest, e⟩ = .ok ((snap.columns, raw), ⟨rest, e⟩) ∧
      raw.map (fun r => (r.lastCommit, r.buffers.map RawBuf.toBuf)) =
        snap.chunks.map (fun c => (c.lastCommit, c.buffers.map some)) := by
  refine ⟨snap.chunks.map chunkRaw, state_reads snap h rest e, ?_⟩
  rw [List.map_map]
  apply List.map_congr_left
  intro c hc
  simp only [Function.comp, chunkRaw, List.map_map, Prod.mk.injEq, true_and]
  apply List.map_congr_left
  intro b hb
  exact C05.buffer_toBuf_roundtrip_eq b (hinv c hc b hb).1 (hinv c hc b hb).2

/-! ## 5 — `Store.snapshot` meets the structural precondition -/

/-- every chunk of a snapshot carries exactly the number of buffers the header announces
    (`readChunkState` reads exactly `columns` buffers per chunk) -/
theorem snapshot_buffers_count (s : Store) :
    ∀ c ∈ (s.snapshot).1.chunks, c.buffers.length = (s.snapshot).1.columns := by
  intro c hc
  rw [snapshot_chunks, List.mem_map] at hc
  obtain ⟨ch, _, rfl⟩ := hc
  rw [snapshot_columns, chunkState_buffers_length]

/-- one chunk state per chunk of the collection -/
theorem snapshot_chunks_count (s : Store) : (s.snapshot).1.chunks.length = s.nChunks := by
  rw [snapshot_chunks]; simp

/-- the stored commit id of chunk `i` is the collection's last commit id of that chunk -/
theorem snapshot_chunk_lastCommit (s : Store) (i : Nat) (hi : i < (s.snapshot).1.chunks.length) :
    (s.snapshot).1.chunks[i].lastCommit = s.commits.getD i 0 := by
  simp only [snapshot_chunks, List.getElem_map, List.getElem_range]
  rfl

/-! ## 6 — non-vacuity: two chunks, two buffers each, built through the writer API -/

def ops0 : List Op :=
  [⟨opInsert, 3, .fixed 0 []⟩, ⟨opInsert, 7, .fixed 0 []⟩]
def ops0v : List Op :=
  [⟨opPut, 3, .fixed 1 [1, 2]⟩, ⟨opPut, 7, .fixed 3 [0,0,0,0,0,0,0,9]⟩, ⟨opMerge, 3, .str [104, 105]⟩]
def ops1 : List Op :=
  [⟨opInsert, 16384, .fixed 0 []⟩, ⟨opInsert, 20000, .fixed 0 []⟩]
def ops1v : List Op :=
  [⟨opPut, 16384, .fixed 2 [1,2,3,4]⟩, ⟨opPut, 20000, .fixed 2 [5,6,7,8]⟩]

def bufA0 : Buf := (Buf.empty "row").putAll ops0
def bufB0 : Buf := (Buf.empty "c").putAll ops0v
def bufA1 : Buf := (Buf.empty "row").putAll ops1
def bufB1 : Buf := (Buf.empty "c").putAll ops1v

def sampleSnap : Snap := ⟨2, [⟨5, [bufA0, bufB0]⟩, ⟨9, [bufA1, bufB1]⟩], []⟩

theorem bufA0_inv : bufA0.Inv := Buf.putAll_inv _ _ (Buf.empty_inv _) (by decide)
theorem bufB0_inv : bufB0.Inv := Buf.putAll_inv _ _ (Buf.empty_inv _) (by decide)
theorem bufA1_inv : bufA1.Inv := Buf.putAll_inv _ _ (Buf.empty_inv _) (by decide)
theorem bufB1_inv : bufB1.Inv := Buf.putAll_inv _ _ (Buf.empty_inv _) (by decide)

theorem sampleSnap_inv : ∀ c ∈ sampleSnap.chunks, ∀ b ∈ c.buffers, b.Inv := by
  intro c hc b hb
  simp only [sampleSnap, List.mem_cons, List.not_mem_nil, or_false] at hc
  rcases hc with rfl | rfl <;>
    simp only [List.mem_cons, List.not_mem_nil, or_false] at hb <;> rcases hb with rfl | rfl
  · exact bufA0_inv
  · exact bufB0_inv
  · exact bufA1_inv
  · exact bufB1_inv

/-- `WireWF` is satisfiable -/
theorem sampleSnap_wf : sampleSnap.WireWF := by
  refine wireWF_of_inv sampleSnap (by decide) (by decide) ?_ ?_
  · intro c hc
    simp only [sampleSnap, List.mem_cons, List.not_mem_nil, or_false] at hc
    rcases hc with rfl | rfl <;> decide
  · intro c hc b hb
    simp only [sampleSnap, List.mem_cons, List.not_mem_nil, or_false] at hc
    rcases hc with rfl | rfl <;>
      simp only [List.mem_cons, List.not_mem_nil, or_false] at hb <;> rcases hb with rfl | rfl
    · exact ⟨bufA0_inv, by rw [utf8_length]; decide, by decide, by decide, by decide⟩
    · exact ⟨bufB0_inv, by rw [utf8_length]; decide, by decide, by decide, by decide⟩
    · exact ⟨bufA1_inv, by rw [utf8_length]; decide, by decide, by decide, by decide⟩
    · exact ⟨bufB1_inv, by rw [utf8_length]; decide, by decide, by decide, by decide⟩

example : sampleSnap.WireWF := sampleSnap_wf
/-- … and decidable: the `Decidable` instance evaluates on the sample -/
example : sampleSnap.WireWF := by decide +kernel
example : ∀ c ∈ sampleSnap.chunks, ∀ b ∈ c.buffers, b.Inv := sampleSnap_inv

/-- the sample is not about empty data -/
example : (encState sampleSnap).length = 139 := by decide +kernel
example : bufB0.rangeOps 0 = ops0v := by decide
example : bufB1.rangeOps 1 = ops1v := by decide

/-- the empty snapshot (no chunks) also meets `WireWF`; its section is the three header varints -/
example : (⟨1, [], []⟩ : Snap).WireWF := ⟨by decide, by decide, fun c hc => by cases hc⟩
example : encState ⟨1, [], []⟩ = [1, 1, 0] := by decide

/-- the parser accepts the sample section (with the clean and with the corrupt end flag) -/
example : (match readStateRaw ⟨encState sampleSnap, false⟩ with | .ok _ => true | _ => false) = true := by
  decide +kernel

/-- A clean cut exactly between two chunks (byte 74 = header + first chunk) makes the parser fail
    with `.eof` (the commit id of the next chunk hits `io.EOF`) — which `state_prefix_fails` allows
    for `e = false` — so Go's `readState` returns a bare `io.EOF` there; a cut one byte later, inside
    the chunk, is `.bad`; with `e = true` every cut is `.bad` (`state_prefix_corrupt_bad`). -/
example : (encUvarint 1 ++ encUvarint 2 ++ encUvarint 2 ++ encChunkState ⟨5, [bufA0, bufB0]⟩).length = 74 := by
  decide +kernel
example : (match readStateRaw ⟨(encState sampleSnap).take 74, false⟩ with
    | .error .eof => true | _ => false) = true := by decide +kernel
example : (match readStateRaw ⟨(encState sampleSnap).take 75, false⟩ with
    | .error .bad => true | _ => false) = true := by decide +kernel
example : (match readStateRaw ⟨(encState sampleSnap).take 74, true⟩ with
    | .error .bad => true | _ => false) = true := by decide +kernel

#print axioms state_roundtrip
#print axioms state_prefix_never_ok
#print axioms state_prefix_fails
#print axioms state_prefix_corrupt_bad
#print axioms state_roundtrip_ops
#print axioms state_roundtrip_bufs
#print axioms snapshot_buffers_count
#print axioms snapshot_chunks_count
#print axioms chunk_cut_in_buffers_bad
#print axioms sampleSnap_wf

end ColumnVerif.Props.C07wire
