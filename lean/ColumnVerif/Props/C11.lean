import ColumnVerif.Lemmas.Bits
import ColumnVerif.Model.Txn
/-!
# C11 — insert offsets never collide; offsets of deleted rows become available again

The fill list and the row counter are only touched inside sections guarded by the collection
lock: `next()` (insert reservation), `free()` (failed insert), the marker loop of a commit
(`fill.Set` for insert markers — already set by the reservation —, `fill.Remove` for deletes),
and the recount (`commitMarkers`, `rollback`). `FillOp` lists these atomic sections; a history /
schedule is any list of them. The theorems hold for every fill pattern and length (64-bit word and
16K chunk boundaries are plain arithmetic here) and every interleaving of the sections.
-/
namespace ColumnVerif.Props.C11
open ColumnVerif.Bits ColumnVerif.Store

/-- fewer (or as many) bits set than the counter says; equality after every recount -/
def FillInv (s : Store) : Prop := Bits.count s.fill ≤ s.count

/-- the offset `next()` hands out is occupied by no live row and no other in-flight insert
    (both are exactly the set bits of the fill list) -/
theorem next_is_free (s : Store) (h : FillInv s) : Bits.get s.fill s.next.2 = false := by
  unfold Store.next
  exact findFreeIndex_free s.fill (s.count + 1) (by omega) (by unfold FillInv at h; simpa using h)

/-- … it is occupied afterwards (so the next insert cannot receive it) … -/
theorem next_occupies (s : Store) : Bits.get s.next.1.fill s.next.2 = true := by
  unfold Store.next; simp [get_set]

/-- … no other offset changes … -/
theorem next_frame (s : Store) (j : Nat) (hj : j ≠ s.next.2) :
    Bits.get s.next.1.fill j = Bits.get s.fill j := by
  unfold Store.next at *; simp only at *; simp [get_set, hj]

/-- … and the invariant is kept. -/
theorem next_inv (s : Store) (h : FillInv s) : FillInv s.next.1 := by
  have hf := next_is_free s h
  unfold Store.next at *
  simp only [FillInv] at *
  rw [count_set_of_false _ _ hf]; omega

theorem free_inv (s : Store) (i : Nat) : FillInv (s.free i) := by
  unfold Store.free FillInv; simp

/-- a freed / deleted offset is available again -/
theorem free_clears (s : Store) (i : Nat) : Bits.get (s.free i).fill i = false := by
  unfold Store.free; simp [get_remove]

theorem count_remove_le (b : Bitmap) (i : Nat) : Bits.count (Bits.remove b i) ≤ Bits.count b := by
  unfold Bits.remove Bits.count
  by_cases h : i < b.size
  · rw [Array.toList_setIfInBounds]
    have : ∀ (l : List Bool) (i : Nat), (l.set i false).countP id ≤ l.countP id := by
      intro l
      induction l with
      | nil => intro i; simp
      | cons x xs ih =>
        intro i
        cases i with
        | zero => cases x <;> simp
        | succ k => simp only [List.set_cons_succ, List.countP_cons]; have := ih k; omega
    exact this _ _
  · rw [Array.setIfInBounds_eq_of_size_le (by omega)]
    exact Nat.le_refl _

/-! ### every history of atomic fill sections -/

inductive FillOp
  | next                 -- `next()` of some inserting transaction
  | free (i : Nat)       -- `free(i)` of a failed insert
  | markIns (i : Nat)    -- insert marker of a commit (the offset was reserved by `next`)
  | markDel (i : Nat)    -- delete marker of a commit
  | recount              -- `count = fill.Count()` (end of `commitMarkers`, `rollback`)

/-- one atomic section; the second component is the offset handed out, for `next` -/
def stepFill (s : Store) : FillOp → Store × Option Nat
  | .next => (s.next.1, some s.next.2)
  | .free i => (s.free i, none)
  | .markIns i => ({ s with fill := Bits.set s.fill i }, none)
  | .markDel i => ({ s with fill := Bits.remove s.fill i }, none)
  | .recount => ({ s with count := Bits.count s.fill }, none)

/-- the guard of a history: insert markers only name offsets that are set (reserved) -/
def opOk (s : Store) : FillOp → Prop
  | .markIns i => Bits.get s.fill i = true
  | _ => True

theorem set_of_true (b : Bitmap) (i : Nat) (h : Bits.get b i = true) : Bits.count (Bits.set b i) = Bits.count b := by
  unfold Bits.set
  have hs := size_grow_gt b i
  have hg : Bits.get (Bits.grow b i) i = true := by rw [get_grow]; exact h
  rw [get_eq_getElem _ _ hs] at hg
  have : (Bits.grow b i).setIfInBounds i true = Bits.grow b i := by
    apply Array.ext
    · simp
    · intro j h1 h2
      rw [Array.getElem_setIfInBounds]
      split
      · rename_i e; subst e; exact hg.symm
      · rfl
  rw [this]; unfold Bits.grow; exact count_growTo b _

theorem step_inv (s : Store) (op : FillOp) (h : FillInv s) (hok : opOk s op) : FillInv (stepFill s op).1 := by
  cases op with
  | next => exact next_inv s h
  | free i => exact free_inv s i
  | markIns i =>
    simp only [stepFill, FillInv, opOk] at *
    rw [set_of_true _ _ hok]; exact h
  | markDel i =>
    simp only [stepFill, FillInv] at *
    exact Nat.le_trans (count_remove_le _ _) h
  | recount => simp [stepFill, FillInv]

/-- run a history, collecting `(offset handed out, was it occupied at that moment)` -/
def runFill : Store → List FillOp → List (Nat × Bool)
  | _, [] => []
  | s, op :: rest =>
    match (stepFill s op).2 with
    | some i => (i, Bits.get s.fill i) :: runFill (stepFill s op).1 rest
    | none => runFill (stepFill s op).1 rest

def histOk : Store → List FillOp → Prop
  | _, [] => True
  | s, op :: rest => opOk s op ∧ histOk (stepFill s op).1 rest

/-- **C11, first sentence**: in every history of inserts, failed inserts, commits (markers +
    recount) and rollbacks, interleaved in any order, no insert ever receives an occupied offset. -/
theorem inserts_never_collide (s : Store) (ops : List FillOp) (h : FillInv s) (hok : histOk s ops) :
    ∀ p ∈ runFill s ops, p.2 = false := by
  induction ops generalizing s with
  | nil => simp [runFill]
  | cons op rest ih =>
    obtain ⟨h1, h2⟩ := hok
    have hi := step_inv s op h h1
    intro p hp
    unfold runFill at hp
    cases op with
    | next =>
      simp only [stepFill] at hp
      rcases List.mem_cons.mp hp with rfl | hp
      · exact next_is_free s h
      · exact ih _ hi h2 p hp
    | free i => exact ih _ hi h2 p (by simpa [stepFill] using hp)
    | markIns i => exact ih _ hi h2 p (by simpa [stepFill] using hp)
    | markDel i => exact ih _ hi h2 p (by simpa [stepFill] using hp)
    | recount => exact ih _ hi h2 p (by simpa [stepFill] using hp)

/-- `Count` equals the number of occupied offsets after every recount (quiescence) -/
theorem count_at_quiescence (s : Store) : (stepFill s .recount).1.count = Bits.count (stepFill s .recount).1.fill := by
  simp [stepFill]

/-- why the direction of the invariant matters: with a full bitmap and a stale (too small) counter
    `MinZero` returns offset 0, which is occupied -/
theorem minzero_full_counterexample :
    let fill : Bitmap := Array.replicate 64 true
    Bits.get fill (findFreeIndex fill 64) = true := by decide

/-! non-vacuity: a fragmented fill across a word boundary satisfies the invariant, and the model
    hands out a hole -/
def sampleStore : Store :=
  { fill := #[true, true, false, true] ++ Array.replicate 60 true ++ #[true, false] ++ Array.replicate 62 false,
    count := 64 }

example : FillInv sampleStore := by unfold FillInv sampleStore; decide
example : sampleStore.next.2 = 65 := by decide +kernel
example : (stepFill (stepFill sampleStore (.markDel 64)).1 .recount).1.next.2 = 2 := by decide +kernel

end ColumnVerif.Props.C11
