import ColumnVerif.Lemmas.Buffer
import ColumnVerif.Lemmas.Wire
/-!
# C05 — commit buffers, commits and logs round-trip every operation sequence

Statements only use definitions of `Model/Codec`, `Model/Buffer`, `Model/Wire`; helper lemmas are
in `Lemmas/`. "For all" here means: every list of well-formed operations (`Op.WF`: type nibble
< 16, offset < 2^32, value of 0/2/4/8 bytes or a string of at most 65535 bytes), of any length,
with offsets in any order.
-/
namespace ColumnVerif.Props.C05
open ColumnVerif.Codec

/-- One operation: `Reader.Next` after any `Put*` returns the same type, offset and value and
    leaves exactly the bytes that followed. Every width, every delta (1–5 byte varint, the
    `isNext` flag, negative deltas by wrap-around). -/
theorem op_roundtrip (last : Nat) (o : Op) (rest : Bytes) (hl : last < M32) (hw : o.WF) :
    decodeOp (encodeOp last o ++ rest) last = some (o, rest) :=
  decode_encode last o rest hl hw

/-- `Seek` + `for r.Next()`: a buffer filled through the writer API reads back as the identical
    sequence (kind, offset, value), whatever the offsets do (repeats, decreasing, chunk jumps). -/
theorem seek_roundtrip (col : String) (ops : List Op) (hw : ∀ o ∈ ops, o.WF) :
    decodeBytes ((Buf.empty col).putAll ops).bytes 0 = some ops := by
  rw [Buf.bytes_putAll _ _ (Buf.empty_inv col) hw]
  simp only [Buf.empty, Buf.bytes, Buf.secs, List.reverse_nil, List.map_nil, List.flatten_nil,
    List.nil_append]
  exact decodeBytes_encodeAll ops 0 (by simp [M32]) hw

/-- `Range(buf, chunk)`: reading one chunk yields exactly that chunk's operations in write order,
    for every chunk of an arbitrarily interleaved buffer … -/
theorem range_roundtrip (col : String) (ops : List Op) (hw : ∀ o ∈ ops, o.WF) (c : Nat) :
    ((Buf.empty col).putAll ops).rangeOps c = ops.filter (fun o => chunkOf o.idx = c) := by
  rw [Buf.rangeOps_eq_filter _ _ (Buf.putAll_inv _ _ (Buf.empty_inv col) hw), Buf.allOps_putAll]
  simp [Buf.empty, Buf.allOps, Buf.secs]

/-- … and each section's byte slice, decoded from its header's `Value`, is that section's ops
    (this is what ties `rangeOps` to the bytes the real reader walks). -/
theorem range_sections_decode (col : String) (ops : List Op) (hw : ∀ o ∈ ops, o.WF)
    (s : Sec) (hs : s ∈ ((Buf.empty col).putAll ops).secs) :
    decodeBytes s.bytes s.value = some s.ops :=
  Buf.section_decodes _ (Buf.putAll_inv _ _ (Buf.empty_inv col) hw) s hs

/-! non-vacuity: a concrete interleaved, backwards-jumping buffer meets the hypotheses -/
def sampleOps : List Op :=
  [⟨opPut, 5, .fixed 1 [1, 2]⟩, ⟨opMerge, 20000, .str [104, 105]⟩, ⟨opPut, 6, .fixed 3 [0,0,0,0,0,0,0,9]⟩,
   ⟨opDelete, 6, .fixed 0 []⟩, ⟨opInsert, 4294967295, .fixed 0 []⟩, ⟨opPut, 0, .fixed 2 [1,2,3,4]⟩]

example : ∀ o ∈ sampleOps, o.WF := by decide
example : ((Buf.empty "x").putAll sampleOps).rangeOps 0 =
    [⟨opPut, 5, .fixed 1 [1, 2]⟩, ⟨opPut, 6, .fixed 3 [0,0,0,0,0,0,0,9]⟩, ⟨opDelete, 6, .fixed 0 []⟩,
     ⟨opPut, 0, .fixed 2 [1,2,3,4]⟩] := by decide


/-! ## The wire format (`Model/Wire`): `iostream` primitives, `Buffer.WriteTo/ReadFrom`,
`Commit.WriteTo/ReadFrom`, `Log.Range`

Every statement has the shape "decoding `encoding ++ rest` returns the value and leaves exactly
`rest`" (with the stream's end flag `e` untouched), for **all** values that fit the field widths.
Spec-level names used below (defined in `Lemmas/Wire`, all plain functions of the model's data):
`chunkSecs chunk b` = the sections of `b` whose header says `chunk`, in write order;
`chunkData chunk b` = their bytes; `commitBufRaw chunk b` = what `Commit.ReadFrom` rebuilds for
`b`; `Commit.toRaw c` = `⟨c.id, c.chunk, c.updates.map (commitBufRaw c.chunk)⟩`;
`RawBuf.WF`, `BufFits`, `Commit.WF` = the size bounds of the format (see there). -/
section Wire
open ColumnVerif.Wire

/-- A1 `WriteUvarint`/`ReadUvarint`: every `uint64` (1 to 10 bytes, including the 10-byte
    overflow guard). -/
theorem uvarint_roundtrip (x : Nat) (hx : x < 2 ^ 64) (rest : Bytes) (e : Bool) :
    readUvarint ⟨encUvarint x ++ rest, e⟩ = .ok (x, ⟨rest, e⟩) :=
  uvarint_reads x hx rest e

/-- A2 `Slice(n)`. -/
theorem readN_roundtrip (b rest : Bytes) (e : Bool) :
    readN b.length ⟨b ++ rest, e⟩ = .ok (b, ⟨rest, e⟩) :=
  readN_reads b rest e

/-- A2 little-endian `uint32`. -/
theorem u32_roundtrip (v : Nat) (hv : v < 2 ^ 32) (rest : Bytes) (e : Bool) :
    readU32 ⟨encU32 v ++ rest, e⟩ = .ok (v, ⟨rest, e⟩) :=
  u32_reads v hv rest e

/-- A2 `WriteBytes`/`ReadBytes`. -/
theorem bytes_roundtrip (b : Bytes) (hb : b.length < 2 ^ 64) (rest : Bytes) (e : Bool) :
    readBytes ⟨encBytes b ++ rest, e⟩ = .ok (b, ⟨rest, e⟩) :=
  bytes_reads b hb rest e

/-- A2 `WriteString`/`ReadBytes`: the UTF-8 bytes of the string. -/
theorem string_roundtrip (s : String) (hs : s.toUTF8.toList.length < 2 ^ 64) (rest : Bytes) (e : Bool) :
    readBytes ⟨encString s ++ rest, e⟩ = .ok (s.toUTF8.toList, ⟨rest, e⟩) :=
  bytes_reads _ hs rest e

/-- A2 one big-endian header triple `(Chunk, Start, Value)`. -/
theorem header_roundtrip (h : Nat × Nat × Nat) (h1 : h.1 < 2 ^ 32) (h2 : h.2.1 < 2 ^ 32)
    (h3 : h.2.2 < 2 ^ 32) (rest : Bytes) (e : Bool) :
    readHeader ⟨encHeader h ++ rest, e⟩ = .ok (h, ⟨rest, e⟩) :=
  header_reads h ⟨h1, h2, h3⟩ rest e

/-- A2 `n` items in a row, given the item round trip. -/
theorem readMany_roundtrip {α} (d : Dec α) (enc : α → Bytes) (as : List α)
    (h : ∀ a ∈ as, ∀ rest e, d ⟨enc a ++ rest, e⟩ = .ok (a, ⟨rest, e⟩)) (rest : Bytes) (e : Bool) :
    readMany d as.length ⟨(as.map enc).flatten ++ rest, e⟩ = .ok (as, ⟨rest, e⟩) :=
  many_reads d enc as h rest e

/-- A2 `WriteRange`/`ReadRange`: count, then the items. -/
theorem readRange_roundtrip {α} (d : Dec α) (enc : α → Bytes) (as : List α) (hl : as.length < 2 ^ 64)
    (h : ∀ a ∈ as, ∀ rest e, d ⟨enc a ++ rest, e⟩ = .ok (a, ⟨rest, e⟩)) (rest : Bytes) (e : Bool) :
    readRange d ⟨encUvarint as.length ++ (as.map enc).flatten ++ rest, e⟩ = .ok (as, ⟨rest, e⟩) :=
  range_reads d enc as hl h rest e

/-- A3 `Buffer.WriteTo`/`ReadFrom` on the raw record. -/
theorem rawbuf_roundtrip (r : RawBuf) (hWF : r.WF) (rest : Bytes) (e : Bool) :
    readRawBuf ⟨encRawBuf r ++ rest, e⟩ = .ok (r, ⟨rest, e⟩) :=
  rawbuf_reads r hWF rest e

/-- A4 slicing the derived byte slice along the derived header table and decoding every slice from
    its header's `Value` gives back all sections — chunk, value and the operations of each
    (`Sec.ops = rops.reverse`, and a `Sec` is determined by `chunk`, `value`, `rops`). -/
theorem buffer_sections_roundtrip (b : Buf) (h : b.Inv) :
    sectionsOf b.headers b.bytes = some b.secs :=
  sectionsOf_buf b h

/-- A4 the same, spelled out per section. -/
theorem buffer_sections_roundtrip_ops (b : Buf) (h : b.Inv) :
    ∃ secs, sectionsOf b.headers b.bytes = some secs ∧
      secs.map (fun s => (s.chunk, s.value, s.ops)) = b.secs.map (fun s => (s.chunk, s.value, s.ops)) :=
  ⟨b.secs, sectionsOf_buf b h, rfl⟩

/-- A4 the column name survives the UTF-8 round trip (no hypothesis needed). -/
theorem column_roundtrip (s : String) : String.fromUTF8? ⟨s.toUTF8.toList.toArray⟩ = some s :=
  fromUTF8_toUTF8 s

/-- A4 `toBuf ∘ toRaw`: column, `last` and all sections are recovered; the writer-side field `cur`
    is rebuilt from the last header. -/
theorem buffer_toBuf_roundtrip (b : Buf) (h : b.Inv) :
    (Buf.toRaw b).toBuf = some { b with cur := b.rsecs.head?.map Sec.chunk } :=
  toRaw_toBuf b h

/-- A4 … which is `b` itself unless `b` was reset while holding sections (`cur = none`). -/
theorem buffer_toBuf_roundtrip_eq (b : Buf) (h : b.Inv) (hc : b.cur = none → b.rsecs = []) :
    (Buf.toRaw b).toBuf = some b :=
  toRaw_toBuf_eq b h hc

/-- A3+A4 end to end for a buffer filled through the writer API: write, read, rebuild = identity. -/
theorem buffer_wire_roundtrip (col : String) (ops : List Op) (hw : ∀ o ∈ ops, o.WF)
    (hfit : (Buf.toRaw ((Buf.empty col).putAll ops)).WF) (rest : Bytes) (e : Bool) :
    ∃ raw, readRawBuf ⟨encBuf ((Buf.empty col).putAll ops) ++ rest, e⟩ = .ok (raw, ⟨rest, e⟩) ∧
      raw.toBuf = some ((Buf.empty col).putAll ops) := by
  refine ⟨_, rawbuf_reads _ hfit rest e, ?_⟩
  exact toRaw_toBuf_eq _ (Buf.putAll_inv _ _ (Buf.empty_inv col) hw)
    (Buf.putAll_cur _ _ (fun _ => rfl))

/-- … and the buffer read back is the *writer's* state too (`cur`, the chunk being written, is rebuilt from the last
    header — `none` for an empty buffer): writing on after `Buffer.ReadFrom` gives the buffer that writing on the
    original would have given, whatever is written (driver op `loadfrom`). -/
theorem write_after_readfrom (col : String) (ops more : List Op) (hw : ∀ o ∈ ops, o.WF)
    (hfit : (Buf.toRaw ((Buf.empty col).putAll ops)).WF) (rest : Bytes) (e : Bool) :
    ∃ raw, readRawBuf ⟨encBuf ((Buf.empty col).putAll ops) ++ rest, e⟩ = .ok (raw, ⟨rest, e⟩) ∧
      (raw.toBuf).map (·.putAll more) = some (((Buf.empty col).putAll ops).putAll more) := by
  obtain ⟨raw, h1, h2⟩ := buffer_wire_roundtrip col ops hw hfit rest e
  exact ⟨raw, h1, by rw [h2]; rfl⟩

/-- the size hypothesis `RawBuf.WF` follows from the invariant and four plain bounds -/
theorem buffer_fits (b : Buf) (h : b.Inv) (hname : b.column.toUTF8.toList.length < 2 ^ 64)
    (hcount : b.secs.length < 2 ^ 64) (hdata : b.bytes.length < 2 ^ 32)
    (hchunk : ∀ s ∈ b.secs, s.chunk < 2 ^ 32) : (Buf.toRaw b).WF :=
  Buf.toRaw_wf b h hname hcount hdata hchunk

/-- A5 `Commit.WriteTo`/`ReadFrom`: the decoder returns exactly `c.toRaw` … -/
theorem commit_roundtrip (c : Commit) (h : c.WF) (rest : Bytes) (e : Bool) :
    readCommit ⟨encCommit c ++ rest, e⟩ = .ok (c.toRaw, ⟨rest, e⟩) :=
  commit_reads c h rest e

/-- A5 … whose `i`-th buffer, sliced along its rebuilt header table and decoded, is the list of
    sections of chunk `c.chunk` of the `i`-th update, in write order. -/
theorem commit_roundtrip_sections (c : Commit) (h : c.WF) (hinv : ∀ b ∈ c.updates, b.Inv)
    (rest : Bytes) (e : Bool) :
    ∃ raw, readCommit ⟨encCommit c ++ rest, e⟩ = .ok (raw, ⟨rest, e⟩) ∧
      raw.id = c.id ∧ raw.chunk = c.chunk ∧ raw.updates.length = c.updates.length ∧
      ∀ i (hi : i < c.updates.length) (hi' : i < raw.updates.length),
        raw.updates[i].column = c.updates[i].column.toUTF8.toList ∧
        sectionsOf raw.updates[i].headers raw.updates[i].data =
          some (c.updates[i].secs.filter (fun s => s.chunk = c.chunk)) := by
  refine ⟨c.toRaw, commit_reads c h rest e, rfl, rfl, by simp [Commit.toRaw], ?_⟩
  intro i hi hi'
  simp only [Commit.toRaw, List.getElem_map]
  exact ⟨rfl, sectionsOf_commitBufRaw c.chunk c.updates[i] (hinv _ (List.getElem_mem hi))⟩

/-- A5 … so a reader walking the received buffer sees exactly `Buf.range` of the sender. -/
theorem commit_roundtrip_ops (c : Commit) (hinv : ∀ b ∈ c.updates, b.Inv) (b : Buf)
    (hb : b ∈ c.updates) :
    (sectionsOf (commitBufRaw c.chunk b).headers (commitBufRaw c.chunk b).data).map
      (fun secs => secs.map Sec.ops) = some (b.range c.chunk) := by
  rw [sectionsOf_commitBufRaw c.chunk b (hinv b hb)]; rfl

/-- A6 `Log.Range` over an intact log delivers every commit, in order, and reports no error. -/
theorem log_roundtrip (cs : List Commit) (h : ∀ c ∈ cs, c.WF) :
    rangeLog ⟨(cs.map encCommit).flatten, false⟩ = (cs.map Commit.toRaw, false) :=
  rangeLog_all cs h

/-! non-vacuity of the size hypotheses: a two-buffer commit built through the writer API -/
def sampleBuf : Buf := (Buf.empty "col").putAll sampleOps
def sampleBuf2 : Buf := (Buf.empty "other").putAll sampleOps
def sampleCommit : Commit := ⟨7, 0, [sampleBuf, sampleBuf2]⟩

theorem sampleBuf_inv : sampleBuf.Inv := Buf.putAll_inv _ _ (Buf.empty_inv _) (by decide)
theorem sampleBuf2_inv : sampleBuf2.Inv := Buf.putAll_inv _ _ (Buf.empty_inv _) (by decide)

theorem sampleBuf_fits : BufFits 0 sampleBuf :=
  BufFits.of_inv 0 sampleBuf sampleBuf_inv (by rw [utf8_length]; decide) (by decide) (by decide)
theorem sampleBuf2_fits : BufFits 0 sampleBuf2 :=
  BufFits.of_inv 0 sampleBuf2 sampleBuf2_inv (by rw [utf8_length]; decide) (by decide) (by decide)

/-- `Commit.WF` is satisfiable (and so are `BufFits`, `Buf.Inv`) -/
theorem sampleCommit_wf : sampleCommit.WF := by
  refine ⟨by decide, by decide, by decide, ?_⟩
  intro b hb
  simp only [sampleCommit, List.mem_cons, List.not_mem_nil, or_false] at hb
  rcases hb with rfl | rfl
  · exact sampleBuf_fits
  · exact sampleBuf2_fits

example : ∀ b ∈ sampleCommit.updates, b.Inv := by
  intro b hb
  simp only [sampleCommit, List.mem_cons, List.not_mem_nil, or_false] at hb
  rcases hb with rfl | rfl
  · exact sampleBuf_inv
  · exact sampleBuf2_inv

/-- `RawBuf.WF` is satisfiable: the whole sample buffer fits `Buffer.WriteTo` -/
example : (Buf.toRaw sampleBuf).WF :=
  buffer_fits sampleBuf sampleBuf_inv (by rw [utf8_length]; decide) (by decide) (by decide) (by decide)

/-- the sample commit has sections in chunk 0 (the statements are not about empty data) -/
example : (chunkSecs 0 sampleBuf).length = 3 := by decide

end Wire
end ColumnVerif.Props.C05
