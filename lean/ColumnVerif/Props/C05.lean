import ColumnVerif.Lemmas.Buffer
/-!
# C05 — commit buffers, commits and logs round-trip every operation sequence

Statements only use definitions of `Model/Codec`, `Model/Buffer`, `Model/Wire`; helper lemmas are
in `Lemmas/`. "For all" here means: every list of well-formed operations (`Op.WF`: type nibble
< 16, offset < 2^32, value of 0/2/4/8 bytes or a string of at most 65535 bytes), of any length,
with offsets in any order.
-/
namespace ColumnVerif.Props.C05
open ColumnVerif.Codec

/-- One operation: `Reader.Next` after any `Put*` returns the same type, offset and value and
    leaves exactly the bytes that followed. Every width, every delta (1–5 byte varint, the
    `isNext` flag, negative deltas by wrap-around). -/
theorem op_roundtrip (last : Nat) (o : Op) (rest : Bytes) (hl : last < M32) (hw : o.WF) :
    decodeOp (encodeOp last o ++ rest) last = some (o, rest) :=
  decode_encode last o rest hl hw

/-- `Seek` + `for r.Next()`: a buffer filled through the writer API reads back as the identical
    sequence (kind, offset, value), whatever the offsets do (repeats, decreasing, chunk jumps). -/
theorem seek_roundtrip (col : String) (ops : List Op) (hw : ∀ o ∈ ops, o.WF) :
    decodeBytes ((Buf.empty col).putAll ops).bytes 0 = some ops := by
  rw [Buf.bytes_putAll _ _ (Buf.empty_inv col) hw]
  simp only [Buf.empty, Buf.bytes, Buf.secs, List.reverse_nil, List.map_nil, List.flatten_nil,
    List.nil_append]
  exact decodeBytes_encodeAll ops 0 (by simp [M32]) hw

/-- `Range(buf, chunk)`: reading one chunk yields exactly that chunk's operations in write order,
    for every chunk of an arbitrarily interleaved buffer … -/
theorem range_roundtrip (col : String) (ops : List Op) (hw : ∀ o ∈ ops, o.WF) (c : Nat) :
    ((Buf.empty col).putAll ops).rangeOps c = ops.filter (fun o => chunkOf o.idx = c) := by
  rw [Buf.rangeOps_eq_filter _ _ (Buf.putAll_inv _ _ (Buf.empty_inv col) hw), Buf.allOps_putAll]
  simp [Buf.empty, Buf.allOps, Buf.secs]

/-- … and each section's byte slice, decoded from its header's `Value`, is that section's ops
    (this is what ties `rangeOps` to the bytes the real reader walks). -/
theorem range_sections_decode (col : String) (ops : List Op) (hw : ∀ o ∈ ops, o.WF)
    (s : Sec) (hs : s ∈ ((Buf.empty col).putAll ops).secs) :
    decodeBytes s.bytes s.value = some s.ops :=
  Buf.section_decodes _ (Buf.putAll_inv _ _ (Buf.empty_inv col) hw) s hs

/-! non-vacuity: a concrete interleaved, backwards-jumping buffer meets the hypotheses -/
def sampleOps : List Op :=
  [⟨opPut, 5, .fixed 1 [1, 2]⟩, ⟨opMerge, 20000, .str [104, 105]⟩, ⟨opPut, 6, .fixed 3 [0,0,0,0,0,0,0,9]⟩,
   ⟨opDelete, 6, .fixed 0 []⟩, ⟨opInsert, 4294967295, .fixed 0 []⟩, ⟨opPut, 0, .fixed 2 [1,2,3,4]⟩]

example : ∀ o ∈ sampleOps, o.WF := by decide
example : ((Buf.empty "x").putAll sampleOps).rangeOps 0 =
    [⟨opPut, 5, .fixed 1 [1, 2]⟩, ⟨opPut, 6, .fixed 3 [0,0,0,0,0,0,0,9]⟩, ⟨opDelete, 6, .fixed 0 []⟩,
     ⟨opPut, 0, .fixed 2 [1,2,3,4]⟩] := by decide

end ColumnVerif.Props.C05
