import ColumnVerif.Model.Buffer
/-!
`Reader.Int` / `Reader.Uint` (commit/reader.go): the readers an `int` / `uint` column applies its operations
with. They accept a value of 2, 4 or 8 bytes and widen it — sign-extending for `Int`, zero-extending for `Uint`
— so that a narrower integer stored through the untyped writers (`Row.SetAny`, `Row.SetMany`, `Buffer.PutAny`
choose the operation width from the Go type of the value) reads back as the same number. Any other width
panics (`none`).
-/
namespace ColumnVerif.Codec

/-- two's-complement reading of a big-endian byte string -/
def beInt (bs : Bytes) : Int :=
  if 2 * beNat bs < 256 ^ bs.length then (beNat bs : Int) else (beNat bs : Int) - (256 ^ bs.length : Nat)

def anyWidth (bs : Bytes) : Bool := bs.length == 2 || bs.length == 4 || bs.length == 8

/-- `Reader.Uint` -/
def readUintAny (bs : Bytes) : Option Nat := if anyWidth bs then some (beNat bs) else none

/-- `Reader.Int` -/
def readIntAny (bs : Bytes) : Option Int := if anyWidth bs then some (beInt bs) else none

/-- the 8 bytes of a Go `int` / `uint` (64-bit) holding the number -/
def slot64 (v : Int) : Bytes := natToBE 8 (v % 18446744073709551616).toNat

/-- the slot of an `int` (signed) / `uint` column after a put of the operation value `bs` -/
def widenInt (signed : Bool) (bs : Bytes) : Option Bytes :=
  if signed then (readIntAny bs).map slot64 else (readUintAny bs).map (fun n => slot64 (n : Int))

end ColumnVerif.Codec

namespace ColumnVerif.Codec

/-- the Go integer types `Buffer.PutAny` knows -/
inductive GoInt | i8 | i16 | i32 | i64 | int | u8 | u16 | u32 | u64 | uint
  deriving DecidableEq, Repr, Inhabited

def GoInt.signed : GoInt → Bool
  | .i8 | .i16 | .i32 | .i64 | .int => true
  | _ => false

/-- size of the Go type in bits (`int` / `uint` are 64-bit here) -/
def GoInt.bits : GoInt → Nat
  | .i8 | .u8 => 8
  | .i16 | .u16 => 16
  | .i32 | .u32 => 32
  | _ => 64

/-- width in bytes of the operation `PutAny` writes: the 8-bit types are stored as 16-bit operations -/
def GoInt.opWidth : GoInt → Nat
  | .i8 | .u8 | .i16 | .u16 => 2
  | .i32 | .u32 => 4
  | _ => 8

def GoInt.code (t : GoInt) : Nat := if t.opWidth = 2 then 1 else if t.opWidth = 4 then 2 else 3

/-- the values of the type -/
def GoInt.holds (t : GoInt) (v : Int) : Prop :=
  if t.signed then -((2 ^ (t.bits - 1) : Nat) : Int) ≤ v ∧ v < ((2 ^ (t.bits - 1) : Nat) : Int)
  else 0 ≤ v ∧ v < ((2 ^ t.bits : Nat) : Int)

instance (t : GoInt) (v : Int) : Decidable (t.holds v) := by unfold GoInt.holds; exact inferInstance

/-- the operation value `PutAny` writes for the integer `v` of Go type `t`: the Go conversion to the 16-, 32- or
    64-bit type of the same signedness, big-endian -/
def putAnyInt (t : GoInt) (v : Int) : Val :=
  .fixed t.code (natToBE t.opWidth (v % ((256 ^ t.opWidth : Nat) : Int)).toNat)

def GoInt.parse : String → Option GoInt
  | "i8" => some .i8 | "i16" => some .i16 | "i32" => some .i32 | "i64" => some .i64 | "int" => some .int
  | "u8" => some .u8 | "u16" => some .u16 | "u32" => some .u32 | "u64" => some .u64 | "uint" => some .uint
  | _ => none

end ColumnVerif.Codec
