import ColumnVerif.Model.Buffer
/-!
`Reader.Int` / `Reader.Uint` (commit/reader.go): the readers an `int` / `uint` column applies its operations
with. They accept a value of 2, 4 or 8 bytes and widen it — sign-extending for `Int`, zero-extending for `Uint`
— so that a narrower integer stored through the untyped writers (`Row.SetAny`, `Row.SetMany`, `Buffer.PutAny`
choose the operation width from the Go type of the value) reads back as the same number. Any other width
panics (`none`).
-/
namespace ColumnVerif.Codec

/-- two's-complement reading of a big-endian byte string -/
def beInt (bs : Bytes) : Int :=
  if 2 * beNat bs < 256 ^ bs.length then (beNat bs : Int) else (beNat bs : Int) - (256 ^ bs.length : Nat)

def anyWidth (bs : Bytes) : Bool := bs.length == 2 || bs.length == 4 || bs.length == 8

/-- `Reader.Uint` -/
def readUintAny (bs : Bytes) : Option Nat := if anyWidth bs then some (beNat bs) else none

/-- `Reader.Int` -/
def readIntAny (bs : Bytes) : Option Int := if anyWidth bs then some (beInt bs) else none

/-- the 8 bytes of a Go `int` / `uint` (64-bit) holding the number -/
def slot64 (v : Int) : Bytes := natToBE 8 (v % 18446744073709551616).toNat

/-- the slot of an `int` (signed) / `uint` column after a put of the operation value `bs` -/
def widenInt (signed : Bool) (bs : Bytes) : Option Bytes :=
  if signed then (readIntAny bs).map slot64 else (readUintAny bs).map (fun n => slot64 (n : Int))

end ColumnVerif.Codec
