import ColumnVerif.Model.Wire
import ColumnVerif.Model.Snapshot
/-!
# L2 — byte level of the snapshot state section (`writeState` / `readState`, snapshot.go)

`version (uvarint 1) · column count (uvarint) · chunk count (uvarint) · per chunk: last commit id
(uvarint), then `column count` buffers, each as `Buffer.WriteTo` writes it`. The section is what
the s2 writer receives; the recorded commit log follows it in the file as a separate s2 stream.
-/
namespace ColumnVerif.Wire
open ColumnVerif.Codec ColumnVerif.Store

def encChunkState (c : ChunkState) : Bytes :=
  encUvarint c.lastCommit ++ (c.buffers.map encBuf).flatten

/-- `writeState` -/
def encState (snap : Snap) : Bytes :=
  encUvarint 1 ++ encUvarint snap.columns ++ encUvarint snap.chunks.length ++
    (snap.chunks.map encChunkState).flatten

structure RawChunkState where
  lastCommit : Nat
  buffers : List RawBuf
  deriving Repr, DecidableEq

def readChunkState (columns : Nat) : Dec RawChunkState := fun s =>
  match readUvarint s with
  | .error e => .error e
  | .ok (last, s1) =>
    match readMany readRawBuf columns s1 with
    | .error _ => .error .bad            -- `err == io.EOF && i < columns` ⇒ errUnexpectedEOF; any other error as is: never EOF
    | .ok (bufs, s2) => .ok (⟨last, bufs⟩, s2)

/-- `readState`: the decoded chunks, or an error (a version other than 1 is an error) -/
def readStateRaw : Dec (Nat × List RawChunkState) := fun s =>
  match readUvarint s with
  | .error _ => .error .bad
  | .ok (version, s1) =>
    if version ≠ 1 then .error .bad else
    match readUvarint s1 with
    | .error e => .error e
    | .ok (columns, s2) =>
      match readRange (readChunkState columns) s2 with
      | .error e => .error e
      | .ok (chunks, s3) => .ok ((columns, chunks), s3)

end ColumnVerif.Wire
