import ColumnVerif.Model.Filter
/-!
# TTL arithmetic and one vacuum pass (`column_expire.go`)

The deadline of a row is an ordinary `int64` column named `expire` (nanoseconds since the epoch;
0 = never). A vacuum pass is a transaction: `With("expire")`, then for every selected row
`ExpiresAt()` (a deadline exists iff the value is present and non-zero) and `now.After(deadline)`.
-/
namespace ColumnVerif.Store
open ColumnVerif.Codec ColumnVerif.Bits

def expireColumn : String := "expire"

/-- two's complement value of the stored 8 bytes -/
def int64OfBytes (bs : Bytes) : Int :=
  let v := beNat bs
  if v ≥ 9223372036854775808 then (v : Int) - 18446744073709551616 else (v : Int)

/-- `rwTTL.ExpiresAt`: a deadline exists iff the value is present and non-zero -/
def expiresAt (v : Option Bytes) : Option Int :=
  match v with
  | some bs => if int64OfBytes bs ≠ 0 then some (int64OfBytes bs) else none
  | none => none

/-- the vacuum decision for one row: `expiresAt, ok := ttl.ExpiresAt(); ok && now.After(expiresAt)` -/
def vacuumDeletes (now : Int) (v : Option Bytes) : Bool :=
  match expiresAt v with
  | some d => decide (d < now)
  | none => false

/-- `writeTTL`: `ttl > 0 ? now + ttl : 0` -/
def writeTTL (now ttl : Int) : Int := if ttl > 0 then now + ttl else 0

/-- `Extend`: a merge (default additive) on the deadline -/
def extendTTL (deadline delta : Int) : Int := deadline + delta

/-- one vacuum pass: the offsets it deletes, in ascending order -/
def Store.vacuumPass (s : Store) (now : Int) : List Nat :=
  match s.findCol expireColumn with
  | none => []
  | some c =>
    (((({} : Txn).with_ s [expireColumn]).rangeList s).2).filter (fun o => vacuumDeletes now (c.read o))

end ColumnVerif.Store
