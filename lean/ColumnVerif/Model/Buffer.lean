import ColumnVerif.Model.Codec
/-!
# L2 — `commit.Buffer` and `commit.Reader` over sections

A buffer is kept as its list of *sections* (one per chunk header, in write order); every section
records the header's `Chunk` and `Value` and the operations written into it. The flat byte
slice and the header table (`Start` offsets) are **derived** (`Buf.bytes`, `Buf.headers`);
that the real layout is this concatenation is what the byte-exact correspondence checks.

Both lists are stored most-recent-first so that `put` is O(1) in the executable model;
`Buf.secs` / `Sec.ops` give write order.
-/
namespace ColumnVerif.Codec

def chunkShift : Nat := 14
def chunkSize : Nat := 16384
def chunkOf (idx : Nat) : Nat := idx / chunkSize

/-- one chunk header with the operations written after it -/
structure Sec where
  chunk : Nat
  value : Nat            -- header.Value: the buffer's `last` when the section was opened
  rops  : List Op        -- most recent first
  deriving Repr, DecidableEq, Inhabited

def Sec.ops (s : Sec) : List Op := s.rops.reverse
def Sec.bytes (s : Sec) : Bytes := encodeAll s.value s.ops

structure Buf where
  column : String
  last   : Nat           -- uint32(b.last)
  cur    : Option Nat    -- b.chunk; `none` = the MaxUint32 sentinel after Reset
  rsecs  : List Sec      -- most recent first
  deriving Repr, DecidableEq, Inhabited

def Buf.empty (column : String) : Buf := ⟨column, 0, none, []⟩

/-- sections in write order -/
def Buf.secs (b : Buf) : List Sec := b.rsecs.reverse

/-- `Buffer.IsEmpty` (no bytes ⇔ no operation: every op has at least its header byte) -/
def Buf.isEmpty (b : Buf) : Bool := b.rsecs.all (fun s => s.rops.isEmpty)

/-- every operation in write order -/
def Buf.allOps (b : Buf) : List Op := (b.secs.map Sec.ops).flatten

/-- derived flat byte slice -/
def Buf.bytes (b : Buf) : Bytes := (b.secs.map Sec.bytes).flatten

/-- derived header table `(Chunk, Start, Value)` -/
def headersFrom : Nat → List Sec → List (Nat × Nat × Nat)
  | _, [] => []
  | start, s :: rest => (s.chunk, start, s.value) :: headersFrom (start + s.bytes.length) rest

def Buf.headers (b : Buf) : List (Nat × Nat × Nat) := headersFrom 0 b.secs

/-- `writeChunk` + the append of one operation (any `Put*`) -/
def Buf.put (b : Buf) (o : Op) : Buf :=
  let c := chunkOf o.idx
  if b.cur = some c then
    match b.rsecs with
    | s :: rest => { b with last := o.idx, rsecs := { s with rops := o :: s.rops } :: rest }
    | [] => { b with last := o.idx, rsecs := [⟨c, b.last, [o]⟩] }   -- unreachable: no header ⇒ `cur = none`
  else { b with last := o.idx, cur := some c, rsecs := ⟨c, b.last, [o]⟩ :: b.rsecs }

def Buf.putAll (b : Buf) (ops : List Op) : Buf := ops.foldl Buf.put b

/-- `RangeChunks`: chunk of every header in order -/
def Buf.chunks (b : Buf) : List Nat := b.secs.map Sec.chunk

/-- `Reader.Range(buf, chunk, …)` followed by `for r.Next()`: the op lists of the sections of `chunk` -/
def Buf.range (b : Buf) (c : Nat) : List (List Op) :=
  (b.secs.filter (fun s => s.chunk = c)).map Sec.ops

def Buf.rangeOps (b : Buf) (c : Nat) : List Op := (b.range c).flatten

/-! ### reader-side rewriting (`Swap*`) on an op -/

/-- fixed-size swap / same-length `SwapBytes`: value replaced in place, type becomes `Put` -/
def swapInPlace (o : Op) (v : Val) : Op := { o with typ := opPut, val := v }

/-- different-length `SwapBytes`: the op is marked `Skip` (its bytes stay) -/
def markSkip (o : Op) : Op := { o with typ := opSkip }

/-- typed getters on a value (big endian) -/
def beNat : Bytes → Nat
  | [] => 0
  | b :: bs => b.toNat * 256 ^ bs.length + beNat bs

def natToBE : Nat → Nat → Bytes
  | 0, _ => []
  | n+1, v => UInt8.ofNat (v / 256 ^ n % 256) :: natToBE n v

end ColumnVerif.Codec
