/-!
# L1 — `kelindar/bitmap` at the granularity the code depends on

A bitmap is an `Array Bool` whose size is always a multiple of 64 (`size / 64` = number of
words, `len(bitmap)` in the code). Bits beyond the size read as `false` (`Contains`).
-/
namespace ColumnVerif.Bits

abbrev Bitmap := Array Bool

def words (b : Bitmap) : Nat := b.size / 64

def get (b : Bitmap) (i : Nat) : Bool := (b[i]?).getD false

/-- `Bitmap.Grow(bit)` / `grow(blkAt)`: at least `bit/64 + 1` words -/
def growTo (b : Bitmap) (nwords : Nat) : Bitmap :=
  if b.size < 64 * nwords then b ++ Array.replicate (64 * nwords - b.size) false else b

def grow (b : Bitmap) (bit : Nat) : Bitmap := growTo b (bit / 64 + 1)

/-- `Bitmap.Set`: grows if necessary -/
def set (b : Bitmap) (i : Nat) : Bitmap := (grow b i).setIfInBounds i true

/-- `Bitmap.Remove`: no-op beyond the end -/
def remove (b : Bitmap) (i : Nat) : Bitmap := b.setIfInBounds i false

/-- `Bitmap.Count` -/
def count (b : Bitmap) : Nat := b.toList.countP id

/-- `Bitmap.Range`: set bits in ascending order -/
def toIdxList (b : Bitmap) : List Nat := (List.range b.size).filter (fun i => get b i)

/-- first index in `[lo, lo+n)` holding `false` -/
def firstZero (b : Bitmap) : Nat → Nat → Option Nat
  | _, 0 => none
  | lo, n+1 => if get b lo then firstZero b (lo+1) n else some lo

/-- `Bitmap.Max` -/
def maxSet (b : Bitmap) : Option Nat := (toIdxList b).getLast?

/-- `Collection.findFreeIndex(count)`; `count` is the already incremented row counter -/
def findFreeIndex (fill : Bitmap) (count : Nat) : Nat :=
  if count > fill.size then fill.size               -- full: append at len(fill) << 6
  else
    let tailAt := (count - 1) / 64
    match (if tailAt < words fill then firstZero fill (64 * tailAt) 64 else none) with
    | some i => i
    | none =>
      match firstZero fill 0 fill.size with         -- MinZero
      | some i => i
      | none => 0                                   -- MinZero's (0, false)

/-- slice of a bitmap seen by `Chunk.OfBitmap` as a predicate on global offsets -/
def inChunk (c i : Nat) : Bool := i / 16384 == c

end ColumnVerif.Bits
