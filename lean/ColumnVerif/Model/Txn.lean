import ColumnVerif.Model.Store
/-!
# L1 — transactions: buffers, row operations, commit, rollback, replay

Mirrors `txn.go` / `txn_lock.go`: buffers are transaction-local, `insert` reserves an offset in the
shared fill list at once, commit walks the dirty chunks in ascending order; per chunk: commit id,
markers (fill, then every registry column), column buffers in creation order (main pass with
merge rewriting, then the computed pass over the rewritten buffer), emission.
-/
namespace ColumnVerif.Store
open ColumnVerif.Codec ColumnVerif.Bits

def rowColumn : String := "row"

structure Txn where
  setup : Bool := false
  sel : Bitmap := #[]
  cursor : Nat := 0
  updates : List Buf := []     -- creation order
  dirty : List Nat := []       -- chunks marked dirty up front (Replay, readState)
  deriving Inhabited

/-- `bufferFor`: find or create (appended last) -/
def Txn.bufferFor (t : Txn) (name : String) : Txn :=
  if t.updates.any (fun b => b.column == name) then t
  else { t with updates := t.updates ++ [Buf.empty name] }

def Txn.putOp (t : Txn) (name : String) (o : Op) : Txn :=
  let t := t.bufferFor name
  { t with updates := t.updates.map (fun b => if b.column == name then b.put o else b) }

/-- `initialize`: the selection is a copy of the fill list, at least `Capacity/64 + 1` words long -/
def Txn.initialize (s : Store) (t : Txn) : Txn :=
  if t.setup then t
  else
    let n := max (s.cap / 64 + 1) (Bits.words s.fill)
    { t with setup := true, sel := Bits.growTo s.fill n }

/-- `DeleteAt` -/
def Txn.deleteAt (s : Store) (t : Txn) (idx : Nat) : Txn × Bool :=
  let t := t.initialize s
  if Bits.get t.sel idx then (t.putOp rowColumn ⟨opDelete, idx, .fixed 0 []⟩, true) else (t, false)

/-- the reservation step of `insert`: `next()` and the marker -/
def Txn.reserve (s : Store) (t : Txn) : Store × Txn × Nat :=
  let (s, idx) := s.next
  (s, { (t.putOp rowColumn ⟨opInsert, idx, .fixed 0 []⟩) with cursor := idx }, idx)

/-- outcome of a key operation -/
inductive KeyResult
  | existsAt (i : Nat)     -- the key resolves to row `i` (update path / `InsertKey` refused)
  | inserted (i : Nat)     -- a new row was reserved at `i`
  | notFound
  | noKey
  deriving DecidableEq, Repr, Inhabited

/-- `OffsetOf(key)`: lookup in the committed key table -/
def Store.offsetOf (s : Store) (key : Bytes) : Option Nat :=
  (s.pk.bind s.findCol).bind (fun kc => kc.seek.get? key)

/-- `InsertKey` / `UpsertKey` / `QueryKey`: the decision and the reservation; `body` is the row
    callback (it buffers writes at the cursor), `fail` its result. The key itself is written after
    the callback, also when the callback failed (as the code does). -/
def Txn.keyOp (s : Store) (t : Txn) (cmd : String) (key : Bytes) (body : Store → Txn → Txn) (fail : Bool) :
    Store × Txn × KeyResult :=
  match s.pk with
  | none => (s, t, .noKey)
  | some pk =>
    match s.offsetOf key with
    | some i =>
      if cmd = "inskey" then (s, t, .existsAt i)
      else (s, body s { t with cursor := i }, .existsAt i)
    | none =>
      if cmd = "qkey" then (s, t, .notFound)
      else
        let (s1, t1, idx) := t.reserve s
        let t2 := body s1 t1
        let s2 := if fail then s1.free idx else s1
        (s2, t2.putOp pk ⟨opPut, idx, .str key⟩, .inserted idx)

/-- `DeleteKey` -/
def Txn.deleteKey (s : Store) (t : Txn) (key : Bytes) : Txn × KeyResult :=
  match s.pk with
  | none => (t, .noKey)
  | some _ =>
    match s.offsetOf key with
    | some i => (t.putOp rowColumn ⟨opDelete, i, .fixed 0 []⟩, .existsAt i)
    | none => (t, .notFound)

/-- `Txn.Insert` (collections without a key column): reservation, callback, release on failure -/
def Txn.insert (s : Store) (t : Txn) (body : Store → Txn → Txn) (fail : Bool) : Store × Txn × Nat :=
  let (s1, t1, idx) := t.reserve s
  let t2 := body s1 t1
  (if fail then s1.free idx else s1, t2, idx)

/-- `rwKey.Set`: refused when the key already resolves -/
def Txn.setKey (s : Store) (t : Txn) (key : Bytes) : Txn × Bool :=
  match s.pk with
  | none => (t, false)
  | some pk =>
    let t := t.bufferFor pk
    if (s.offsetOf key).isSome then (t, false) else (t.putOp pk ⟨opPut, t.cursor, .str key⟩, true)

/-! ### commit -/

def insertDedup (x : Nat) : List Nat → List Nat
  | [] => [x]
  | y :: ys => if x < y then x :: y :: ys else if x = y then y :: ys else y :: insertDedup x ys

/-- dirty chunks ascending: those set up front and every header chunk of every buffer -/
def Txn.dirtyChunks (t : Txn) : List Nat :=
  (t.dirty ++ (t.updates.map Buf.chunks).flatten).foldl (fun acc x => insertDedup x acc) []

/-- `findMarkers` -/
def Txn.markers (t : Txn) : Option Buf := t.updates.find? (fun b => !b.isEmpty && b.column == rowColumn)

/-- `commitCapacity(last)` -/
def Store.commitCapacity (s : Store) (last : Nat) : Store :=
  if s.commits.size ≥ last + 1 then s
  else
    let mx := 16384 * last + 16383
    { s with commits := s.commits ++ Array.replicate (last + 1 - s.commits.size) 0,
             fill := Bits.grow s.fill mx,
             cols := s.cols.map (fun c => c.grow mx) }

/-- `commitMarkers(chunk, fill, markers)` -/
def Store.commitMarkers (s : Store) (chunk : Nat) (markers : Buf) : Store :=
  let secs := markers.range chunk
  let fill := secs.flatten.foldl (fun (f : Bitmap) o =>
    if o.typ = opInsert then Bits.set f o.idx
    else if o.typ = opDelete then Bits.remove f o.idx else f) s.fill
  let (cols, p) := secs.foldl (fun (acc : Array Col × Bool) ops =>
    acc.1.foldl (fun (a : Array Col × Bool) c =>
      let (c', p) := c.applyAny s.hash chunk ops
      (a.1.push c', a.2 || p)) (#[], acc.2)) (s.cols, false)
  { s with fill := fill, cols := cols, count := Bits.count fill, panicked := s.panicked || p }

def replaceSec (secs : List Sec) (i : Nat) (ops : List Op) : List Sec :=
  secs.mapIdx (fun j sec => if j = i then { sec with rops := ops.reverse } else sec)

/-- main pass of `commitUpdates` for one buffer: `reader.Range(u, chunk, columns[0].Apply)` —
    the sections present when the loop starts, each with the ops it holds when it is reached -/
def mainPass (hash : Bytes → Nat) (col : Col) (chunk : Nat) (u : Buf) : Col × Buf × Bool :=
  (List.range u.rsecs.length).foldl (fun (acc : Col × Buf × Bool) i =>
    let (col, u, p) := acc
    match u.secs[i]? with
    | none => acc
    | some sec =>
      if sec.chunk ≠ chunk then acc
      else
        let r := applyData hash col chunk sec.ops
        let u1 : Buf := { u with rsecs := (replaceSec u.secs i r.ops).reverse }
        (r.col, u1.putAll r.appended, p || r.panic)) (col, u, false)

/-- computed pass: every section of the chunk now in the buffer, every computed column in order -/
def computedPass (s : Store) (names : List String) (chunk : Nat) (u : Buf) : Store :=
  (u.range chunk).foldl (fun (s : Store) ops =>
    names.foldl (fun (s : Store) n =>
      match s.findCol n with
      | some c =>
        let (c', p) := c.applyAny s.hash chunk ops
        { (s.setCol c') with panicked := s.panicked || p }
      | none => s) s) s

/-- `commitUpdates(chunk)`: returns the store, the rewritten buffers and `updated` -/
def Store.commitUpdates (s : Store) (chunk : Nat) (ups : List Buf) : Store × List Buf × Bool :=
  ups.foldl (fun (acc : Store × List Buf × Bool) u =>
    let (s, done, updated) := acc
    if u.isEmpty || u.column == rowColumn then (s, done ++ [u], updated)
    else
      match s.findCol u.column with
      | none => (s, done ++ [u], updated)
      | some col =>
        if col.kind.isData then
          let (col', u', p) := mainPass s.hash col chunk u
          let s1 := { (s.setCol col') with panicked := s.panicked || p }
          let s2 := computedPass s1 col.computed chunk u'
          (s2, done ++ [u'], true)
        else
          -- bool / index / trigger / sorted as a main column: no rewriting
          let s1 := (u.range chunk).foldl (fun (s : Store) ops =>
            match s.findCol u.column with
            | some c =>
              let (c', p) := c.applyAny s.hash chunk ops
              { (s.setCol c') with panicked := s.panicked || p }
            | none => s) s
          let s2 := computedPass s1 col.computed chunk u
          (s2, done ++ [u], true)) (s, [], false)

/-- the latch section of one dirty chunk -/
def Store.commitChunk (s : Store) (chunk : Nat) (changedRows : Bool) (ups : List Buf) : Store × List Buf :=
  let id := s.nextId + 1
  let s := { s with nextId := id, commits := s.commits.setIfInBounds chunk id,
                    panicked := s.panicked || decide (chunk ≥ s.commits.size) }
  let s := if changedRows then
      match ups.find? (fun b => !b.isEmpty && b.column == rowColumn) with
      | some m => s.commitMarkers chunk m
      | none => s
    else s
  let (s, ups', updated) := s.commitUpdates chunk ups
  if !changedRows && !updated then (s, ups')
  else
    let e : Emitted := ⟨id, chunk, ups'⟩
    let s := if s.recording then { s with recorded := e :: s.recorded } else s
    let s := if s.logger ≠ .none then { s with emitted := e :: s.emitted } else s
    (s, ups')

/-- `Txn.commit` -/
def Store.commit (s : Store) (t : Txn) : Store :=
  let dirty := t.dirtyChunks
  let changedRows := t.markers.isSome
  let s := match dirty.getLast? with
    | some last => s.commitCapacity last
    | none => s
  (dirty.foldl (fun (acc : Store × List Buf) chunk => acc.1.commitChunk chunk changedRows acc.2) (s, t.updates)).1

/-- `Txn.rollback`: recount only -/
def Store.rollback (s : Store) (_t : Txn) : Store := { s with count := Bits.count s.fill }

/-! ### replay of an emitted commit -/

/-- what `Commit.ReadFrom` reconstructs of a buffer: only the commit's chunk, `chunk`/`last` reset -/
def restrictBuf (b : Buf) (chunk : Nat) : Buf :=
  { column := b.column, last := 0, cur := none, rsecs := b.rsecs.filter (fun s => s.chunk = chunk) }

/-- the commit as a replica receives it -/
def Emitted.received (e : Emitted) (k : LoggerKind) : List Buf :=
  match k with
  | .log => (e.updates.map (fun b => restrictBuf b e.chunk)).filter (fun b => !b.isEmpty)
  | _ => e.updates.filter (fun b => !b.isEmpty)            -- `Clone` drops empty buffers

/-- `Collection.Replay` -/
def Store.replay (s : Store) (chunk : Nat) (ups : List Buf) : Store :=
  s.commit { dirty := [chunk], updates := ups.filter (fun b => !b.isEmpty) }

end ColumnVerif.Store
