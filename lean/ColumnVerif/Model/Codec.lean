/-!
# L2 — byte-exact model of one commit-buffer operation

Mirrors `commit/buffer.go` (`writeUint16/32/64`, `PutOperation`, `PutBytes`, `writeOffset`,
`writeChunk`'s delta) and `commit/reader.go` (`Next`, `readFixed`, `readString`, `readOffset`).

* bytes are `List UInt8`;
* offsets are `Nat` below `2^32`; the code's `uint32(int32(idx) - last)` is `(idx + 2^32 - last) % 2^32`;
* a value is either fixed-size (size code 0..3 = 0/2/4/8 bytes, big endian bit pattern) or a
  string (2-byte big-endian length + bytes).
-/
namespace ColumnVerif.Codec

abbrev Byte := UInt8
abbrev Bytes := List UInt8

def M32 : Nat := 4294967296

/-- value carried by an op; `fixed` has 0/2/4/8 bytes, `str` has ≤ 65535 bytes -/
inductive Val where
  | fixed (code : Nat) (bs : Bytes)     -- code 0..3, bs.length = sizeOfCode code
  | str (bs : Bytes)
  deriving DecidableEq, Repr, Inhabited

def sizeOfCode (c : Nat) : Nat := if c = 0 then 0 else if c = 1 then 2 else if c = 2 then 4 else 8

/-- operation types of `commit.OpType` -/
def opDelete : Nat := 0
def opInsert : Nat := 1
def opPut    : Nat := 2
def opMerge  : Nat := 3
def opSkip   : Nat := 4

structure Op where
  typ : Nat
  idx : Nat
  val : Val
  deriving DecidableEq, Repr, Inhabited

def Val.WF : Val → Prop
  | .fixed c bs => c < 4 ∧ bs.length = sizeOfCode c
  | .str bs => bs.length < 65536

instance (v : Val) : Decidable v.WF := by
  cases v <;> simp only [Val.WF] <;> exact inferInstance

def Op.WF (o : Op) : Prop := o.typ < 16 ∧ o.idx < M32 ∧ o.val.WF

instance (o : Op) : Decidable o.WF := by unfold Op.WF; exact inferInstance

/-- `Buffer.writeOffset`: varint of a uint32 (at most 5 bytes, fuel 4) -/
def writeOffset : Nat → Nat → Bytes
  | 0, d => [UInt8.ofNat d]
  | fuel+1, d => if d ≥ 0x80 then UInt8.ofNat (d % 128 + 128) :: writeOffset fuel (d / 128) else [UInt8.ofNat d]

/-- `Reader.readOffset` (the five unrolled cases); `none` = the code would index out of range -/
def readOffset : Nat → Bytes → Option (Nat × Bytes)
  | _, [] => none
  | 0, b :: rest => some (b.toNat, rest)
  | fuel+1, b :: rest =>
    if b.toNat < 0x80 then some (b.toNat, rest)
    else match readOffset fuel rest with
      | some (x, rest') => some ((b.toNat % 128) + 128 * x, rest')
      | none => none

/-- header byte: `byte(op) | size | isString | isNext` -/
def header (typ code : Nat) (isStr isNext : Bool) : Byte :=
  UInt8.ofNat (typ + 16 * code + (if isStr then 64 else 0) + (if isNext then 128 else 0))

def parseHeader (h : Byte) : Nat × Nat × Bool × Bool :=
  (h.toNat % 16, h.toNat / 16 % 4, h.toNat / 64 % 2 == 1, h.toNat / 128 % 2 == 1)

def valBytes : Val → Bytes
  | .fixed _ bs => bs
  | .str bs => [UInt8.ofNat (bs.length / 256), UInt8.ofNat (bs.length % 256)] ++ bs

/-- `readFixed` / `readString` -/
def parseVal (isStr : Bool) (code : Nat) (bs : Bytes) : Option (Val × Bytes) :=
  if isStr then
    match bs with
    | hi :: lo :: r2 =>
      let n := hi.toNat * 256 + lo.toNat
      if n ≤ r2.length then some (.str (r2.take n), r2.drop n) else none
    | _ => none
  else
    let n := sizeOfCode code
    if n ≤ bs.length then some (.fixed code (bs.take n), bs.drop n) else none

/-- delta as the code computes it: `uint32(int32(idx) - last)` -/
def delta (last idx : Nat) : Nat := (idx + M32 - last) % M32

def codeOf : Val → Nat × Bool
  | .fixed c _ => (c, false)
  | .str _ => (1, true)

/-- one `Put*` call, given the buffer's `last` -/
def encodeOp (last : Nat) (o : Op) : Bytes :=
  let d := delta last o.idx
  if d = 1 then header o.typ (codeOf o.val).1 (codeOf o.val).2 true :: valBytes o.val
  else header o.typ (codeOf o.val).1 (codeOf o.val).2 false :: (valBytes o.val ++ writeOffset 4 d)

/-- one `Reader.Next`; `off` = current reader offset (uint32) -/
def decodeOp (bs : Bytes) (off : Nat) : Option (Op × Bytes) :=
  match bs with
  | [] => none
  | h :: rest =>
    match parseHeader h with
    | (typ, code, isStr, isNext) =>
      match parseVal isStr code rest with
      | none => none
      | some (v, r3) =>
        if isNext then some (⟨typ, (off + 1) % M32, v⟩, r3)
        else match readOffset 4 r3 with
          | some (d, r4) => some (⟨typ, (off + d) % M32, v⟩, r4)
          | none => none

/-- a run of `Put*` calls -/
def encodeAll : Nat → List Op → Bytes
  | _, [] => []
  | last, o :: os => encodeOp last o ++ encodeAll o.idx os

/-- `for r.Next() { … }` over a byte slice -/
def decodeAll : Nat → Bytes → Nat → Option (List Op)
  | 0, bs, _ => if bs = [] then some [] else none
  | fuel+1, bs, off =>
    if bs = [] then some [] else
    match decodeOp bs off with
    | none => none
    | some (o, rest) =>
      match decodeAll fuel rest o.idx with
      | none => none
      | some os => some (o :: os)

/-- decode with enough fuel for any input (every op consumes at least one byte) -/
def decodeBytes (bs : Bytes) (off : Nat) : Option (List Op) := decodeAll bs.length bs off

/-- the last offset written by a run (the buffer's `last` afterwards) -/
def lastIdx : Nat → List Op → Nat
  | last, [] => last
  | _, o :: os => lastIdx o.idx os

end ColumnVerif.Codec
