import Std.Data.HashMap
import ColumnVerif.Model.Buffer
import ColumnVerif.Model.Bits
/-!
# L1 — the sequential store: columns, registry, fill list

The model is the code that exists: `data` keeps stale values of deleted rows, presence is a
separate bitmap, merges read the raw slot, markers are applied before column updates, …
Go panics (index out of range on a missing chunk) are the sticky flag `panicked`.
-/
namespace ColumnVerif.Store
open ColumnVerif.Codec ColumnVerif.Bits

inductive NumKind | i16 | i32 | i64 | u16 | u32 | u64 | f32 | f64
  deriving DecidableEq, Repr, Inhabited

def NumKind.width : NumKind → Nat
  | .i16 | .u16 => 2
  | .i32 | .u32 | .f32 => 4
  | .i64 | .u64 | .f64 => 8

def NumKind.code : NumKind → Nat
  | .i16 | .u16 => 1
  | .i32 | .u32 | .f32 => 2
  | .i64 | .u64 | .f64 => 3

def NumKind.isSigned : NumKind → Bool
  | .i16 | .i32 | .i64 => true
  | _ => false

def NumKind.isFloat : NumKind → Bool
  | .f32 | .f64 => true
  | _ => false

/-- what a reader-side callback (index rule, trigger) sees of an operation -/
abbrev RuleFn := Op → Bool

inductive Kind
  | num (k : NumKind)
  | bool | str | enum | key | record
  | index (target : String) (rule : RuleFn)
  | trigger (target : String)
  | sorted (target : String)
  deriving Inhabited

def Kind.isData : Kind → Bool
  | .num _ | .str | .enum | .key | .record => true
  | _ => false

def Kind.isComputed : Kind → Bool
  | .index .. | .trigger _ | .sorted _ => true
  | _ => false

/-- `column.IsIndex()` — only `*columnIndex`, not triggers or sorted indexes -/
def Kind.isIndex : Kind → Bool
  | .index .. => true
  | _ => false

def Kind.isNumeric : Kind → Bool
  | .num _ => true
  | _ => false

/-- `IsTextual`: string, enum, key, record (embeds columnString) -/
def Kind.isTextual : Kind → Bool
  | .str | .enum | .key | .record => true
  | _ => false

structure TrigEvent where
  idx : Nat
  typ : Nat
  val : Bytes
  deriving DecidableEq, Repr, Inhabited

def valRaw : Val → Bytes
  | .fixed _ bs => bs
  | .str bs => bs

/-- lexicographic order on byte strings (Go's string `<`) -/
def bytesLt : Bytes → Bytes → Bool
  | [], [] => false
  | [], _ :: _ => true
  | _ :: _, [] => false
  | a :: as, b :: bs => if a < b then true else if b < a then false else bytesLt as bs

/-- the comparator passed to the B-tree (after the tie-break repair): key, then offset -/
def entryLt (a b : Bytes × Nat) : Bool :=
  if a.1 = b.1 then a.2 < b.2 else bytesLt a.1 b.1

def insertSorted (e : Bytes × Nat) : List (Bytes × Nat) → List (Bytes × Nat)
  | [] => [e]
  | x :: xs => if entryLt e x then e :: x :: xs else if e = x then x :: xs else x :: insertSorted e xs

/-- one registry column (main or computed); unused fields stay at their defaults -/
structure Col where
  name : String
  kind : Kind
  merge : Bytes → Bytes → Bytes := fun _ d => d
  computed : List String := []              -- names of the computed columns attached, in order
  nchunks : Nat := 0                        -- data columns: allocated chunks
  bits : Bitmap := #[]                      -- presence (data) / values (bool) / fill (index)
  data : Array Bytes := #[]                 -- data columns: raw slots, size 16384 * nchunks
  seek : Std.HashMap Bytes Nat := {}        -- key column: key → offset
  intern : Std.HashMap Nat Bytes := {}      -- enum column: hash → first string stored under it
  entries : List (Bytes × Nat) := []        -- sorted index: B-tree content in order
  back : Std.HashMap Nat Bytes := {}        -- sorted index: offset → key
  trig : List TrigEvent := []               -- trigger: calls, most recent first
  deriving Inhabited

/-- `Grow(idx)` per kind -/
def Col.grow (c : Col) (idx : Nat) : Col :=
  match c.kind with
  | .num _ | .str | .enum | .key | .record =>
    let n := idx / 16384 + 1
    if c.nchunks < n then
      { c with nchunks := n,
               bits := c.bits ++ Array.replicate (16384 * n - c.bits.size) false,
               data := c.data ++ Array.replicate (16384 * n - c.data.size) [] }
    else c
  | .bool | .index .. => { c with bits := Bits.grow c.bits idx }
  | .trigger _ | .sorted _ => c

/-- the value a typed reader returns (`load` / `LoadString` / `Contains`), `none` = not present -/
def Col.read (c : Col) (idx : Nat) : Option Bytes :=
  match c.kind with
  | .num _ | .str | .key | .record =>
    if idx / 16384 < c.nchunks ∧ Bits.get c.bits idx then some (c.data.getD idx []) else none
  | .enum =>
    if idx / 16384 < c.nchunks ∧ Bits.get c.bits idx then
      some ((c.intern.get? (beNat (c.data.getD idx []))).getD [])
    else none
  | .bool | .index .. => if Bits.get c.bits idx then some [1] else none
  | .trigger _ | .sorted _ => none

/-- result of applying one section to one column -/
structure Applied where
  col : Col
  ops : List Op            -- the section's ops after in-place rewriting
  appended : List Op       -- puts appended through the parent buffer (resizing swaps)
  panic : Bool := false

def padTo (w : Nat) (bs : Bytes) : Bytes := if bs.length = 0 then List.replicate w 0 else bs

/-- accumulator of the main pass over one section: column, rewritten ops (reversed), appended puts -/
abbrev ApplyAcc := Col × List Op × List Op

/-- `numericColumn.Apply`, one op -/
def stepNum (k : NumKind) (acc : ApplyAcc) (o : Op) : ApplyAcc :=
  let (c, done, app) := acc
  let i := o.idx
  if o.typ = opPut then
    ({ c with bits := c.bits.setIfInBounds i true, data := c.data.setIfInBounds i (valRaw o.val) }, o :: done, app)
  else if o.typ = opMerge then
    let v := c.merge (padTo k.width (c.data.getD i [])) (valRaw o.val)
    ({ c with bits := c.bits.setIfInBounds i true, data := c.data.setIfInBounds i v },
      swapInPlace o (.fixed k.code v) :: done, app)
  else if o.typ = opDelete then ({ c with bits := c.bits.setIfInBounds i false }, o :: done, app)
  else (c, o :: done, app)

/-- `columnString.Apply` (also record columns), one op: a merge whose result has another length
    than the delta is marked `Skip` and its result appended through the parent buffer -/
def stepStr (acc : ApplyAcc) (o : Op) : ApplyAcc :=
  let (c, done, app) := acc
  let i := o.idx
  if o.typ = opPut then
    ({ c with bits := c.bits.setIfInBounds i true, data := c.data.setIfInBounds i (valRaw o.val) }, o :: done, app)
  else if o.typ = opMerge then
    let v := c.merge (c.data.getD i []) (valRaw o.val)
    let c' := { c with bits := c.bits.setIfInBounds i true, data := c.data.setIfInBounds i v }
    if v.length = (valRaw o.val).length then (c', swapInPlace o (.str v) :: done, app)
    else (c', markSkip o :: done, app ++ [⟨opPut, i, .str v⟩])
  else if o.typ = opDelete then ({ c with bits := c.bits.setIfInBounds i false }, o :: done, app)
  else (c, o :: done, app)

/-- `columnEnum.Apply`, one op (interning by 32-bit hash, first string wins) -/
def stepEnum (hash : Bytes → Nat) (acc : ApplyAcc) (o : Op) : ApplyAcc :=
  let (c, done, app) := acc
  let i := o.idx
  if o.typ = opPut then
    let h := hash (valRaw o.val)
    let intern := if c.intern.contains h then c.intern else c.intern.insert h (valRaw o.val)
    ({ c with bits := c.bits.setIfInBounds i true, data := c.data.setIfInBounds i (natToBE 4 h), intern := intern },
      o :: done, app)
  else if o.typ = opDelete then ({ c with bits := c.bits.setIfInBounds i false }, o :: done, app)
  else (c, o :: done, app)

/-- `columnKey.Apply`, one op (after the re-key repair) -/
def stepKey (acc : ApplyAcc) (o : Op) : ApplyAcc :=
  let (c, done, app) := acc
  let i := o.idx
  if o.typ = opPut then
    let v := valRaw o.val
    let prev := c.data.getD i []
    let seek :=
      if Bits.get c.bits i ∧ prev ≠ v ∧ c.seek.get? prev = some i then c.seek.erase prev else c.seek
    ({ c with bits := c.bits.setIfInBounds i true, data := c.data.setIfInBounds i v, seek := seek.insert v i },
      o :: done, app)
  else if o.typ = opDelete then
    ({ c with bits := c.bits.setIfInBounds i false, seek := c.seek.erase (c.data.getD i []) }, o :: done, app)
  else (c, o :: done, app)

def stepOf (hash : Bytes → Nat) (k : Kind) : ApplyAcc → Op → ApplyAcc :=
  match k with
  | .num nk => stepNum nk
  | .str | .record => stepStr
  | .enum => stepEnum hash
  | .key => stepKey
  | _ => fun acc o => (acc.1, o :: acc.2.1, acc.2.2)

/-- numeric / string / record / enum / key `Apply` over the ops of one section of chunk `chunk`
    (`chunkAt(chunk)` panics when the column has no such chunk) -/
def applyData (hash : Bytes → Nat) (c : Col) (chunk : Nat) (ops : List Op) : Applied :=
  if chunk ≥ c.nchunks then { col := c, ops := ops, appended := [], panic := true }
  else
    let r := ops.foldl (stepOf hash c.kind) (c, [], [])
    { col := r.1, ops := r.2.1.reverse, appended := r.2.2 }

/-- bool / index / trigger / sorted-index `Apply` (no rewriting) -/
def applyOther (c : Col) (ops : List Op) : Col × Bool :=
  match c.kind with
  | .bool =>
    ops.foldl (fun (acc : Col × Bool) o =>
      let (c, p) := acc
      if o.typ = opPut then
        if o.idx < c.bits.size then ({ c with bits := c.bits.setIfInBounds o.idx true }, p) else (c, true)
      else if o.typ = opDelete then
        if o.idx < c.bits.size then ({ c with bits := c.bits.setIfInBounds o.idx false }, p) else (c, true)
      else (c, p)) (c, false)
  | .index _ rule =>
    (ops.foldl (fun (c : Col) o =>
      if o.typ = opPut then
        if rule o then { c with bits := Bits.set c.bits o.idx } else { c with bits := Bits.remove c.bits o.idx }
      else if o.typ = opDelete then { c with bits := Bits.remove c.bits o.idx }
      else c) c, false)
  | .trigger _ =>
    (ops.foldl (fun (c : Col) o =>
      if o.typ = opPut ∨ o.typ = opDelete then { c with trig := ⟨o.idx, o.typ, valRaw o.val⟩ :: c.trig } else c) c, false)
  | .sorted _ =>
    (ops.foldl (fun (c : Col) o =>
      if o.typ = opPut then
        let es := match c.back.get? o.idx with
          | some k => c.entries.filter (fun e => e ≠ (k, o.idx))
          | none => c.entries
        let k := valRaw o.val
        { c with back := c.back.insert o.idx k, entries := insertSorted (k, o.idx) es }
      else if o.typ = opDelete then
        let k := (c.back.get? o.idx).getD []
        { c with entries := c.entries.filter (fun e => e ≠ (k, o.idx)) }
      else c) c, false)
  | _ => (c, false)

/-- `column.Apply` for marker ops and for computed columns: any kind -/
def Col.applyAny (hash : Bytes → Nat) (c : Col) (chunk : Nat) (ops : List Op) : Col × Bool :=
  if c.kind.isData then
    let r := applyData hash c chunk ops
    (r.col, r.panic)
  else applyOther c ops

/-- `Column.Snapshot(chunk, dst)` as the list of ops it writes -/
def Col.snapshotOps (c : Col) (chunk : Nat) : List Op × Bool :=
  let lo := 16384 * chunk
  match c.kind with
  | .num k =>
    if chunk ≥ c.nchunks then ([], true) else
    (((List.range 16384).filter (fun x => Bits.get c.bits (lo + x))).map
      (fun x => ⟨opPut, lo + x, .fixed k.code (padTo k.width (c.data.getD (lo + x) []))⟩), false)
  | .str | .key | .record =>
    if chunk ≥ c.nchunks then ([], true) else
    (((List.range 16384).filter (fun x => Bits.get c.bits (lo + x))).map
      (fun x => ⟨opPut, lo + x, .str (c.data.getD (lo + x) [])⟩), false)
  | .enum =>
    if chunk ≥ c.nchunks then ([], true) else
    (((List.range 16384).filter (fun x => Bits.get c.bits (lo + x))).map
      (fun x => ⟨opPut, lo + x, .str ((c.intern.get? (beNat (c.data.getD (lo + x) []))).getD [])⟩), false)
  | .bool | .index .. =>
    (((List.range 16384).filter (fun x => Bits.get c.bits (lo + x))).map
      (fun x => ⟨opPut, lo + x, .fixed 0 []⟩), false)
  | .trigger _ | .sorted _ => ([], false)

inductive LoggerKind | none | channel | log
  deriving DecidableEq, Repr, Inhabited

/-- one commit as handed to a logger: the transaction's buffers as they are at that moment -/
structure Emitted where
  id : Nat
  chunk : Nat
  updates : List Buf
  deriving Inhabited

structure Store where
  cap : Nat := 1024
  fill : Bitmap := #[]
  count : Nat := 0
  cols : Array Col := #[]
  commits : Array Nat := #[]
  nextId : Nat := 0
  pk : Option String := none
  hash : Bytes → Nat := fun _ => 0
  logger : LoggerKind := .none
  emitted : List Emitted := []          -- most recent first
  recording : Bool := false
  recorded : List Emitted := []         -- most recent first
  panicked : Bool := false
  deriving Inhabited

def Store.findCol (s : Store) (name : String) : Option Col := s.cols.find? (fun c => c.name == name)

def Store.colIdx (s : Store) (name : String) : Option Nat := s.cols.findIdx? (fun c => c.name == name)

def Store.setCol (s : Store) (c : Col) : Store :=
  match s.colIdx c.name with
  | some i => { s with cols := s.cols.setIfInBounds i c }
  | none => s

/-- the default merge of an `int64` column: wrapping addition (`ForInt64()` without options) -/
def addMerge64 : Bytes → Bytes → Bytes := fun v d => natToBE 8 ((beNat v + beNat d) % 2 ^ 64)

/-- `NewCollection`: default capacity 1024, the `expire` column (a plain `ForInt64()` column: merges add,
    which is what `TTL.Extend` relies on) -/
def Store.new (cap : Nat) (logger : LoggerKind) (hash : Bytes → Nat) : Store :=
  let cap := if cap > 0 then cap else 1024
  let expire : Col := (Col.grow { name := "expire", kind := .num .i64, merge := addMerge64 } cap)
  { cap := cap, cols := #[expire], logger := logger, hash := hash }

/-- `CreateColumn` (after the repair: the new column covers every allocated chunk) -/
def Store.createColumn (s : Store) (name : String) (kind : Kind) (merge : Bytes → Bytes → Bytes) : Store × Bool :=
  if (s.findCol name).isSome then (s, false)
  else
    let capacity := if s.cap > s.count then s.cap else s.count
    let capacity := if s.commits.size > 0 ∧ 16384 * (s.commits.size - 1) + 16383 > capacity
      then 16384 * (s.commits.size - 1) + 16383 else capacity
    let c : Col := Col.grow { name := name, kind := kind, merge := merge } capacity
    let s' := { s with cols := s.cols.push c }
    match kind with
    | .key => if s.pk.isSome then (s', false) else ({ s' with pk := some name }, true)
    | _ => (s', true)

/-- `DropColumn` -/
def Store.dropColumn (s : Store) (name : String) : Store :=
  { s with cols := s.cols.filter (fun c => c.name != name) }

/-- back-fill of `CreateIndex` / `CreateSortIndex` -/
def Store.backfill (s : Store) (target : Col) (idx : Col) : Col × Bool :=
  (List.range s.commits.size).foldl (fun (acc : Col × Bool) chunk =>
    let (ic, p) := acc
    if target.kind.isIndex then (ic, p) else
    let (ops, p1) := target.snapshotOps chunk
    let (ic', p2) := applyOther ic ops
    (ic', p || p1 || p2)) (idx, false)

/-- `CreateIndex` / `CreateTrigger` / `CreateSortIndex` -/
def Store.createComputed (s : Store) (name target : String) (kind : Kind) : Store × Bool :=
  match s.findCol target with
  | none => (s, false)
  | some tc =>
    match kind with
    | .index .. =>
      let ic : Col := Col.grow { name := name, kind := kind } s.cap
      let (ic, p) := s.backfill tc ic
      let s1 := if (s.findCol name).isSome then s.setCol ic else { s with cols := s.cols.push ic }
      let s2 := s1.setCol { tc with computed := tc.computed ++ [name] }
      ({ s2 with panicked := s2.panicked || p }, true)
    | .sorted _ =>
      if (s.findCol name).isSome then (s, false) else
      let ic : Col := { name := name, kind := kind }
      let (ic, p) := s.backfill tc ic
      let s1 := { s with cols := s.cols.push ic }
      let s2 := s1.setCol { tc with computed := tc.computed ++ [name] }
      ({ s2 with panicked := s2.panicked || p }, true)
    | .trigger _ =>
      let ic : Col := { name := name, kind := kind }
      let s1 := if (s.findCol name).isSome then s.setCol ic else { s with cols := s.cols.push ic }
      (s1.setCol { tc with computed := tc.computed ++ [name] }, true)
    | _ => (s, false)

/-- `DropIndex` / `DropTrigger` -/
def Store.dropComputed (s : Store) (name : String) : Store × Bool :=
  match s.findCol name with
  | none => (s, false)
  | some c =>
    match c.kind with
    | .index t _ | .trigger t | .sorted t =>
      let s1 := match s.findCol t with
        | some tc => s.setCol { tc with computed := tc.computed.filter (· != name) }
        | none => s
      (s1.dropColumn name, true)
    | _ => (s, false)

/-- `Collection.next()` -/
def Store.next (s : Store) : Store × Nat :=
  let count := s.count + 1
  let idx := findFreeIndex s.fill count
  ({ s with count := count, fill := Bits.set s.fill idx }, idx)

/-- `Collection.free(idx)` -/
def Store.free (s : Store) (idx : Nat) : Store :=
  let fill := Bits.remove s.fill idx
  { s with fill := fill, count := Bits.count fill }

end ColumnVerif.Store
