import ColumnVerif.Model.Buffer
/-!
# L2 — serialisation: `iostream` primitives, `Buffer.WriteTo/ReadFrom`, `Commit.WriteTo/ReadFrom`,
`Log.Range` over the *plain* (decompressed) byte stream

A source is a byte list with an explicit end: reading past the end yields `eof` (exactly `io.EOF`)
when the end is clean and no byte of the primitive was consumed, and `bad` otherwise
(`io.ErrUnexpectedEOF`, s2's `ErrCorrupt`, varint overflow …). `Log.Range` and `readState`
only distinguish `io.EOF` from everything else, so two classes suffice.
-/
namespace ColumnVerif.Wire
open ColumnVerif.Codec

inductive RErr | eof | bad
  deriving DecidableEq, Repr, Inhabited

/-- byte source; `corrupt = true`: the stream was cut inside an s2 frame, so the read that
    runs off the end fails with a non-EOF error -/
structure Src where
  bytes : Bytes
  corrupt : Bool
  deriving Repr, DecidableEq

abbrev Dec (α : Type) := Src → Except RErr (α × Src)

def Src.endErr (s : Src) (consumed : Bool) : RErr := if s.corrupt || consumed then .bad else .eof

/-! ### writers -/

/-- `WriteUvarint` (fuel 9 ⇒ at most 10 bytes) -/
def uvarint : Nat → Nat → Bytes
  | 0, x => [UInt8.ofNat x]
  | fuel+1, x => if x ≥ 0x80 then UInt8.ofNat (x % 128 + 128) :: uvarint fuel (x / 128) else [UInt8.ofNat x]

def encUvarint (x : Nat) : Bytes := uvarint 9 x

/-- little-endian fixed ints of `iostream` -/
def leBytes : Nat → Nat → Bytes
  | 0, _ => []
  | n+1, v => UInt8.ofNat (v % 256) :: leBytes n (v / 256)

def encU32 (v : Nat) : Bytes := leBytes 4 v

/-- big-endian uint32 used by `Buffer.WriteTo` for the header table -/
def beU32 (v : Nat) : Bytes := natToBE 4 v

def encBytes (b : Bytes) : Bytes := encUvarint b.length ++ b
def encString (s : String) : Bytes := encBytes s.toUTF8.toList

/-! ### readers -/

/-- `binary.ReadUvarint`; `i` = bytes consumed so far, `shift`-free formulation -/
def readUvarintAux : Nat → Nat → Nat → Src → Except RErr (Nat × Src)
  | 0, _, _, _ => .error .bad                                  -- overflow (> 10 bytes)
  | fuel+1, i, mul, s =>
    match s.bytes with
    | [] => .error (s.endErr (i > 0))
    | b :: rest =>
      if b.toNat < 0x80 then
        if i = 9 ∧ b.toNat > 1 then .error .bad               -- overflow
        else .ok (b.toNat * mul, { s with bytes := rest })
      else
        match readUvarintAux fuel (i+1) (mul * 128) { s with bytes := rest } with
        | .ok (x, s') => .ok ((b.toNat % 128) * mul + x, s')
        | .error e => .error e

def readUvarint : Dec Nat := readUvarintAux 10 0 1

/-- `Slice(n)` / `io.ReadAtLeast(…, n)` -/
def readN (n : Nat) : Dec Bytes := fun s =>
  if n = 0 then .ok ([], s)
  else if n ≤ s.bytes.length then .ok (s.bytes.take n, { s with bytes := s.bytes.drop n })
  else .error (s.endErr (s.bytes.length > 0))

def leNat : Bytes → Nat
  | [] => 0
  | b :: bs => b.toNat + 256 * leNat bs

def readU32 : Dec Nat := fun s =>
  match readN 4 s with
  | .ok (b, s') => .ok (leNat b, s')
  | .error e => .error e

def readBytes : Dec Bytes := fun s =>
  match readUvarint s with
  | .ok (n, s') => readN n s'
  | .error e => .error e

/-- lists with a uvarint count (`WriteRange` / `ReadRange`) -/
def readMany {α} (d : Dec α) : Nat → Dec (List α)
  | 0 => fun s => .ok ([], s)
  | n+1 => fun s =>
    match d s with
    | .ok (a, s') =>
      match readMany d n s' with
      | .ok (as, s'') => .ok (a :: as, s'')
      | .error e => .error e
    | .error e => .error e

def readRange {α} (d : Dec α) : Dec (List α) := fun s =>
  match readUvarint s with
  | .ok (n, s') => readMany d n s'
  | .error e => .error e

/-! ### `Buffer.WriteTo` / `Buffer.ReadFrom` (buffer_codec.go) -/

/-- raw form of a buffer on the wire -/
structure RawBuf where
  column  : Bytes
  last    : Nat                          -- int32 as uint32
  headers : List (Nat × Nat × Nat)       -- (Chunk, Start, Value)
  data    : Bytes
  deriving Repr, DecidableEq

def encHeader (h : Nat × Nat × Nat) : Bytes := beU32 h.1 ++ beU32 h.2.1 ++ beU32 h.2.2

def encRawBuf (r : RawBuf) : Bytes :=
  encBytes r.column ++ encU32 r.last ++ encUvarint r.headers.length ++
    (r.headers.map encHeader).flatten ++ encBytes r.data

def Buf.toRaw (b : Buf) : RawBuf :=
  ⟨b.column.toUTF8.toList, b.last, b.headers, b.bytes⟩

/-- `Buffer.WriteTo` -/
def encBuf (b : Buf) : Bytes := encRawBuf (Buf.toRaw b)

def readHeader : Dec (Nat × Nat × Nat) := fun s =>
  match readN 12 s with
  | .ok (b, s') => .ok ((beNat (b.take 4), beNat ((b.drop 4).take 4), beNat (b.drop 8)), s')
  | .error e => .error e

/-- `Buffer.ReadFrom` (raw) -/
def readRawBuf : Dec RawBuf := fun s =>
  match readBytes s with
  | .error e => .error e
  | .ok (col, s1) =>
    match readU32 s1 with
    | .error e => .error e
    | .ok (last, s2) =>
      match readRange readHeader s2 with
      | .error e => .error e
      | .ok (hs, s3) =>
        match readBytes s3 with
        | .error e => .error e
        | .ok (data, s4) => .ok (⟨col, last, hs, data⟩, s4)

/-- slice `data` into sections along the header table and decode each of them
    (what any later `Reader.Range`/`Seek` would see); `none` = a reader would run off the slice -/
def sectionsOf : List (Nat × Nat × Nat) → Bytes → Option (List Sec)
  | [], _ => some []
  | [(c, st, v)], data =>
    match decodeBytes (data.drop st) v with
    | some ops => some [⟨c, v, ops.reverse⟩]
    | none => none
  | (c, st, v) :: (c', st', v') :: rest, data =>
    match decodeBytes ((data.drop st).take (st' - st)) v, sectionsOf ((c', st', v') :: rest) data with
    | some ops, some secs => some (⟨c, v, ops.reverse⟩ :: secs)
    | _, _ => none

def RawBuf.toBuf (r : RawBuf) : Option Buf :=
  match sectionsOf r.headers r.data, String.fromUTF8? ⟨r.column.toArray⟩ with
  | some secs, some col =>
    some ⟨col, r.last, (r.headers.getLast?).map (·.1), secs.reverse⟩
  | _, _ => none

/-! ### `Commit.WriteTo` / `Commit.ReadFrom` (commit.go) -/

structure Commit where
  id : Nat
  chunk : Nat
  updates : List Buf
  deriving Repr, DecidableEq

/-- per buffer: name, shard count, (Value, Offset) per shard, total length, bytes of the chunk's sections -/
def shardTable : Nat → List Sec → List (Nat × Nat)
  | _, [] => []
  | off, s :: rest => (s.value, off) :: shardTable (off + s.bytes.length) rest

def encCommitBuf (chunk : Nat) (b : Buf) : Bytes :=
  let secs := b.secs.filter (fun s => s.chunk = chunk)
  let data := (secs.map Sec.bytes).flatten
  encString b.column ++ encUvarint secs.length ++
    ((shardTable 0 secs).map (fun p => encU32 p.1 ++ encU32 p.2)).flatten ++
    encUvarint data.length ++ data

def encCommit (c : Commit) : Bytes :=
  encUvarint c.chunk ++ encUvarint c.id ++ encUvarint c.updates.length ++
    (c.updates.map (encCommitBuf c.chunk)).flatten

def readShard : Dec (Nat × Nat) := fun s =>
  match readU32 s with
  | .error e => .error e
  | .ok (v, s1) =>
    match readU32 s1 with
    | .error e => .error e
    | .ok (o, s2) => .ok ((v, o), s2)

/-- one update buffer of `Commit.ReadFrom`. The code ignores the error of the inner `ReadRange`
    (the shard table) and carries on with `ReadBytes`; on a source that ran dry that read fails
    too, so the outcome class is the same — modelled as written. -/
def readCommitBuf (chunk : Nat) : Dec RawBuf := fun s =>
  match readBytes s with
  | .error e => .error e
  | .ok (col, s1) =>
    let (shards, s2) : List (Nat × Nat) × Src :=
      match readRange readShard s1 with
      | .ok (sh, s2) => (sh, s2)
      | .error _ => ([], { s1 with bytes := [] })     -- source exhausted / failed; next read fails
    match readBytes s2 with
    | .error e => .error e
    | .ok (data, s3) =>
      .ok (⟨col, 0, shards.map (fun p => (chunk, p.2, p.1)), data⟩, s3)

structure RawCommit where
  id : Nat
  chunk : Nat
  updates : List RawBuf
  deriving Repr, DecidableEq

def readCommit : Dec RawCommit := fun s =>
  match readUvarint s with
  | .error e => .error e
  | .ok (chunk, s1) =>
    match readUvarint s1 with
    | .error e => .error e
    | .ok (id, s2) =>
      match readRange (readCommitBuf chunk) s2 with
      | .error e => .error e
      | .ok (ups, s3) => .ok (⟨id, chunk, ups⟩, s3)

/-- `Log.Range` with a callback that never fails: the commits delivered, and whether the call
    returned an error. Fuel = number of bytes (every commit consumes at least one). -/
def rangeLogAux : Nat → Src → List RawCommit → List RawCommit × Bool
  | 0, _, acc => (acc.reverse, true)
  | fuel+1, s, acc =>
    match readCommit s with
    | .error .eof => (acc.reverse, false)
    | .error .bad => (acc.reverse, true)
    | .ok (c, s') => rangeLogAux fuel s' (c :: acc)

def rangeLog (s : Src) : List RawCommit × Bool := rangeLogAux (s.bytes.length + 1) s []

end ColumnVerif.Wire
