import ColumnVerif.Model.Buffer
/-!
# L2 — reader-side rewriting of a buffer (`Reader.Swap*` under `Reader.Range`)

`swapAt b chunk k v` positions a reader on the `k`-th operation (0-based, counting through the
sections of `chunk` in order) and swaps its value: fixed-size values and byte strings of the same
length are replaced in place and the type becomes `Put`; a byte string of another length marks the
operation `Skip` and appends a `Put` of the new value through the parent buffer (`PutBytes` with
the reader's absolute offset), possibly opening a new section.
-/
namespace ColumnVerif.Codec

def valLen : Val → Nat
  | .fixed _ bs => bs.length
  | .str bs => bs.length

def sameShape (a b : Val) : Bool :=
  match a, b with
  | .fixed c1 _, .fixed c2 _ => c1 == c2
  | .str x, .str y => x.length == y.length
  | _, _ => false

/-- rewrite op `k` of a list -/
def rewriteNth (ops : List Op) (k : Nat) (f : Op → Op) : List Op :=
  ops.mapIdx (fun j o => if j = k then f o else o)

/-- locate the `k`-th op of the chunk: (index of the section among all sections, position in it) -/
def locate : List Sec → Nat → Nat → Nat → Option (Nat × Nat)
  | [], _, _, _ => none
  | s :: rest, chunk, k, i =>
    if s.chunk = chunk then
      if k < s.ops.length then some (i, k) else locate rest chunk (k - s.ops.length) (i + 1)
    else locate rest chunk k (i + 1)

def Buf.swapAt (b : Buf) (chunk k : Nat) (v : Val) : Option Buf :=
  match locate b.secs chunk k 0 with
  | none => none
  | some (si, pos) =>
    match b.secs[si]? with
    | none => none
    | some sec =>
      match sec.ops[pos]? with
      | none => none
      | some o =>
        let setSec := fun (ops : List Op) =>
          (b.secs.mapIdx (fun j s => if j = si then { s with rops := ops.reverse } else s)).reverse
        if sameShape o.val v then
          some { b with rsecs := setSec (rewriteNth sec.ops pos (fun o => swapInPlace o v)) }
        else
          match v with
          | .str _ =>
            let b1 : Buf := { b with rsecs := setSec (rewriteNth sec.ops pos markSkip) }
            some (b1.put ⟨opPut, o.idx, v⟩)
          | _ => none

end ColumnVerif.Codec
