import ColumnVerif.Model.Txn
/-!
# L1 — snapshot / restore at the level of buffers (`snapshot.go`)

`writeState` emits, per committed chunk, the chunk's last commit id, a `row` buffer holding one
insert marker per occupied offset, and one `Snapshot` buffer per registry column that is not a
bitmap index (triggers and sorted indexes contribute empty buffers). `readState` turns each chunk
into one committed transaction. The byte level of these buffers is `Model/Wire`.
-/
namespace ColumnVerif.Store
open ColumnVerif.Codec ColumnVerif.Bits

structure ChunkState where
  lastCommit : Nat
  buffers : List Buf          -- `row` first, then the columns in registry order
  deriving Inhabited

structure Snap where
  columns : Nat               -- the column count written in the header
  chunks : List ChunkState
  tail : List Emitted         -- commits recorded while the snapshot was written, oldest first
  deriving Inhabited

/-- `Collection.chunks()` after the repair -/
def Store.nChunks (s : Store) : Nat := s.commits.size

def Store.chunkState (s : Store) (chunk : Nat) : ChunkState × Bool :=
  let lo := 16384 * chunk
  let markers := ((List.range 16384).filter (fun x => Bits.get s.fill (lo + x))).map
    (fun x => (⟨opInsert, lo + x, .fixed 0 []⟩ : Op))
  let rowBuf := (Buf.empty rowColumn).putAll markers
  let (bufs, p) := s.cols.foldl (fun (acc : List Buf × Bool) c =>
    if c.kind.isIndex then acc
    else
      let (ops, p) := c.snapshotOps chunk
      (acc.1 ++ [(Buf.empty c.name).putAll ops], acc.2 || p)) ([], false)
  (⟨s.commits.getD chunk 0, rowBuf :: bufs⟩, p)

/-- `writeState` of a quiescent collection -/
def Store.snapshot (s : Store) : Snap × Bool :=
  let (cs, p) := (List.range s.nChunks).foldl (fun (acc : List ChunkState × Bool) c =>
    let (st, p) := s.chunkState c
    (acc.1 ++ [st], acc.2 || p)) ([], false)
  (⟨(s.cols.filter (fun c => !c.kind.isIndex)).size + 1, cs, []⟩, p)

/-- `readState`: one transaction per chunk -/
def Store.readState (s : Store) (snap : Snap) : Store :=
  (snap.chunks.zipIdx).foldl (fun (s : Store) (p : ChunkState × Nat) =>
    s.commit { dirty := [p.2], updates := p.1.buffers }) s

/-- `Restore`: state, then every logged commit newer than its chunk's stored id -/
def Store.restore (s : Store) (snap : Snap) (k : LoggerKind) : Store :=
  let s := s.readState snap
  snap.tail.foldl (fun (s : Store) e =>
    let last := match snap.chunks[e.chunk]? with | some c => c.lastCommit | none => 0
    if e.id > last then s.replay e.chunk (e.received k) else s) s

end ColumnVerif.Store
