import ColumnVerif.Model.Txn
/-!
# L1 — filters, iteration, aggregates (`txn.go`, `txn_lock.go`, `column_numeric.go`)

The selection (`txn.index`) is a bitmap of fixed length; every filter works chunk by chunk for
chunks `0 … len/256` (inclusive, as `rangeRead`/`rangeReadPair` do), on the chunk's slice of the
selection. `Clear()` truncates the selection to length 0 (later operators then have nothing to
work on — the behaviour recorded as finding D22).
-/
namespace ColumnVerif.Store
open ColumnVerif.Codec ColumnVerif.Bits

/-- `column.Index(chunk)` bit of a global offset: presence for data columns (missing chunk ⇒ no
    bits), the flat bitmap for bool/index columns, nothing for triggers / sorted indexes -/
def Col.indexBit (c : Col) (i : Nat) : Bool :=
  match c.kind with
  | .num _ | .str | .enum | .key | .record => decide (i / 16384 < c.nchunks) && Bits.get c.bits i
  | .bool | .index .. => Bits.get c.bits i
  | .trigger _ | .sorted _ => false

/-- `limit = len(txn.index) >> 8` -/
def selLimit (sel : Bitmap) : Nat := Bits.words sel / 256

/-- apply `f` to the selection bits of chunk `c` (the slice `OfBitmap` hands out) -/
def mapChunk (sel : Bitmap) (c : Nat) (f : Nat → Bool → Bool) : Bitmap :=
  sel.mapIdx (fun i b => if i / 16384 = c then f i b else b)

/-- chunks `0 … n-1` -/
def mapChunksUpTo (sel : Bitmap) (f : Nat → Bool → Bool) : Nat → Bitmap
  | 0 => sel
  | n+1 => mapChunk (mapChunksUpTo sel f n) n f

/-- chunks `0 … limit` (inclusive) -/
def mapChunks (sel : Bitmap) (f : Nat → Bool → Bool) : Bitmap := mapChunksUpTo sel f (selLimit sel + 1)

def Txn.with_ (s : Store) (t : Txn) (names : List String) : Txn :=
  names.foldl (fun (t : Txn) n =>
    match s.findCol n with
    | some c => { t with sel := mapChunks t.sel (fun i b => b && c.indexBit i) }
    | none => { t with sel := #[] }) (t.initialize s)

def Txn.without (s : Store) (t : Txn) (names : List String) : Txn :=
  names.foldl (fun (t : Txn) n =>
    match s.findCol n with
    | some c => { t with sel := mapChunks t.sel (fun i b => b && !c.indexBit i) }
    | none => t) (t.initialize s)

/-- one name of `Union`: the very first name of a first call intersects, all others unite;
    a missing name only switches the "first" flag off -/
def unionStep (s : Store) (acc : Txn × Bool) (n : String) : Txn × Bool :=
  match s.findCol n with
  | some c =>
    (if acc.2 then { acc.1 with sel := mapChunks acc.1.sel (fun i b => b && c.indexBit i) }
     else { acc.1 with sel := mapChunks acc.1.sel (fun i b => b || c.indexBit i) }, false)
  | none => (acc.1, false)

def Txn.union (s : Store) (t : Txn) (names : List String) : Txn :=
  (names.foldl (unionStep s) (t.initialize s, !t.setup)).1

/-- `WithUnion` (after the single-name repair) -/
def Txn.withUnion (s : Store) (t : Txn) (names : List String) : Txn :=
  if !t.setup then t.union s names
  else if names.length = 1 then t.with_ s names
  else
    let cols := names.filterMap s.findCol
    { t with sel := mapChunks t.sel (fun i b => b && cols.any (fun c => c.indexBit i)) }

/-- typed value filters: `index.And(fill)` then `Filter(predicate)`; the whole chunk slice is left
    untouched when the column has no such chunk; wrong kind / missing column ⇒ `Clear()` -/
def Txn.withPred (s : Store) (t : Txn) (col : String) (kindOk : Kind → Bool) (pred : Bytes → Bool) : Txn :=
  let t := t.initialize s
  match s.findCol col with
  | none => { t with sel := #[] }
  | some c =>
    if !kindOk c.kind then { t with sel := #[] }
    else
      { t with sel := mapChunks t.sel (fun i b =>
          if i / 16384 < c.nchunks then
            b && Bits.get c.bits i && pred ((c.read i).getD [])
          else b) }

/-- `WithValue`: `c.Value(offset+x)`; rows without a value are dropped, any column kind -/
def Txn.withValue (s : Store) (t : Txn) (col : String) (pred : Bytes → Bool) : Txn :=
  let t := t.initialize s
  match s.findCol col with
  | none => { t with sel := #[] }
  | some c =>
    { t with sel := mapChunks t.sel (fun i b =>
        b && (match c.read i with | some v => pred v | none => false)) }

/-- one link of a filter chain (`txn.With(...).Without(...).WithUint(...)…`) -/
inductive FilterOp
  | with_ (names : List String)
  | without (names : List String)
  | union (names : List String)
  | withUnion (names : List String)
  | withNum (col : String) (pred : Bytes → Bool)      -- WithInt / WithUint / WithFloat (predicate on the stored bytes)
  | withString (col : String) (pred : Bytes → Bool)
  | withValue (col : String) (pred : Bytes → Bool)

def Txn.applyOp (s : Store) (t : Txn) : FilterOp → Txn
  | .with_ ns => t.with_ s ns
  | .without ns => t.without s ns
  | .union ns => t.union s ns
  | .withUnion ns => t.withUnion s ns
  | .withNum col pred => t.withPred s col Kind.isNumeric pred
  | .withString col pred => t.withPred s col Kind.isTextual pred
  | .withValue col pred => t.withValue s col pred

/-- a whole chain, left to right -/
def Txn.chain (s : Store) (t : Txn) (ops : List FilterOp) : Txn := ops.foldl (Txn.applyOp s) t

/-- `Count` -/
def Txn.count (s : Store) (t : Txn) : Txn × Nat :=
  let t := t.initialize s
  (t, Bits.count t.sel)

/-- `Range`: selected offsets ascending (the cursor takes each value in turn) -/
def Txn.rangeList (s : Store) (t : Txn) : Txn × List Nat :=
  let t := t.initialize s
  (t, Bits.toIdxList t.sel)

/-- `Ascend`: B-tree order, restricted to the selection -/
def Txn.ascend (s : Store) (t : Txn) (name : String) : Txn × Option (List Nat) :=
  let t := t.initialize s
  match s.findCol name with
  | some c =>
    match c.kind with
    | .sorted _ => (t, some ((c.entries.map (·.2)).filter (fun i => Bits.get t.sel i)))
    | _ => (t, none)
  | none => (t, none)

/-- the values an aggregate folds: selected rows of the chunks the column has, holding a value -/
def Txn.aggValues (s : Store) (t : Txn) (col : String) : Txn × List Bytes :=
  let t := t.initialize s
  match s.findCol col with
  | some c =>
    (t, ((Bits.toIdxList t.sel).filter (fun i => i / 16384 < c.nchunks ∧ Bits.get c.bits i)).map
      (fun i => (c.read i).getD []))
  | none => (t, [])

end ColumnVerif.Store
