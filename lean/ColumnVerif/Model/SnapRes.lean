/-!
# `Snapshot` as a resource machine (`snapshot.go`)

What a `Snapshot` call does to the four resources it touches — the recorder slot of the
collection, open file descriptors, temporary files, running compressor goroutines (every
`s2.NewWriter` starts one that only `Close` stops) — for every combination of faults. Which
clean-up actions exist is a parameter (`SnapCfg`), read from the source by the skeleton extractor.
-/
namespace ColumnVerif.SnapRes

structure Res where
  recorder : Bool      -- a recorder is installed (`c.record != nil`)
  fds : Nat            -- open descriptors
  temps : Nat          -- temporary files on disk
  workers : Nat := 0   -- running compressor goroutines (with their buffers)
  deriving DecidableEq, Repr

/-- the faults of one call: the environment's choices -/
structure Faults where
  openTempFails : Bool     -- `commit.OpenTemp()` fails
  writeStateFails : Bool   -- the destination writer fails while the state is written (any write call, any byte budget; also surfaces at Flush)
  copyFails : Bool         -- the destination writer fails while the recorded log is copied
  deriving DecidableEq, Repr

/-- what the source does (flags over the regenerated skeleton) -/
structure SnapCfg where
  defersCleanup : Bool     -- `defer os.Remove`, `defer recorder.Close()`, `defer c.recorderClose()` right after the recorder is opened
  casCleans : Bool         -- a refused second snapshot closes and removes its own temp log
  closesCompressors : Bool := true  -- the state compressor is closed after `writeState`, `Log.Close` closes the log's compressor (defect D27 before)
  deriving DecidableEq, Repr

def SnapCfg.good : SnapCfg := ⟨true, true, true⟩

/-- one `Snapshot(dst)` call: resulting resources and whether an error is returned -/
def snapshot (cfg : SnapCfg) (r : Res) (f : Faults) : Res × Bool :=
  if f.openTempFails then (r, true)
  else
    -- temp log created and opened; `commit.Open` starts the log's compressor
    let r1 : Res := { r with fds := r.fds + 1, temps := r.temps + 1, workers := r.workers + 1 }
    -- what `log.Close()` / `recorder.Close()` does to the workers
    let closeLog := fun (w : Nat) => if cfg.closesCompressors then w - 1 else w
    if r.recorder then
      -- CompareAndSwap fails: another snapshot is in progress (or a recorder leaked)
      if cfg.casCleans then ({ r with workers := closeLog r1.workers }, true) else (r1, true)
    else
      -- recorder installed; `s2.NewWriter(dst)` starts the state compressor, closed again right after `writeState`
      -- (whether it failed or not) iff `closesCompressors`
      let r2 : Res := { r1 with recorder := true, workers := if cfg.closesCompressors then r1.workers else r1.workers + 1 }
      let cleaned : Res := { recorder := false, fds := r2.fds - 1, temps := r2.temps - 1, workers := closeLog r2.workers }
      if f.writeStateFails then
        if cfg.defersCleanup then (cleaned, true) else (r2, true)
      else
        -- recorderClose, then Copy
        let r3 : Res := { r2 with recorder := false }
        if cfg.defersCleanup then (cleaned, f.copyFails)
        else ({ r3 with temps := r3.temps - 1 }, f.copyFails)   -- only `defer os.Remove` existed: the descriptor (and the log's compressor) leak

/-- a history of snapshot calls -/
def snapshots (cfg : SnapCfg) : Res → List Faults → Res × List Bool
  | r, [] => (r, [])
  | r, f :: fs =>
    let (r', e) := snapshot cfg r f
    let (r'', es) := snapshots cfg r' fs
    (r'', e :: es)

end ColumnVerif.SnapRes
