/-!
# `Snapshot` as a resource machine (`snapshot.go`)

What a `Snapshot` call does to the three resources it touches — the recorder slot of the
collection, open file descriptors, temporary files — for every combination of faults. Which
clean-up actions exist is a parameter (`SnapCfg`), read from the source by the skeleton extractor.
-/
namespace ColumnVerif.SnapRes

structure Res where
  recorder : Bool      -- a recorder is installed (`c.record != nil`)
  fds : Nat            -- open descriptors
  temps : Nat          -- temporary files on disk
  deriving DecidableEq, Repr

/-- the faults of one call: the environment's choices -/
structure Faults where
  openTempFails : Bool     -- `commit.OpenTemp()` fails
  writeStateFails : Bool   -- the destination writer fails while the state is written (any write call, any byte budget; also surfaces at Flush)
  copyFails : Bool         -- the destination writer fails while the recorded log is copied
  deriving DecidableEq, Repr

/-- what the source does (flags over the regenerated skeleton) -/
structure SnapCfg where
  defersCleanup : Bool     -- `defer os.Remove`, `defer recorder.Close()`, `defer c.recorderClose()` right after the recorder is opened
  casCleans : Bool         -- a refused second snapshot closes and removes its own temp log
  deriving DecidableEq, Repr

def SnapCfg.good : SnapCfg := ⟨true, true⟩

/-- one `Snapshot(dst)` call: resulting resources and whether an error is returned -/
def snapshot (cfg : SnapCfg) (r : Res) (f : Faults) : Res × Bool :=
  if f.openTempFails then (r, true)
  else
    -- temp log created and opened
    let r1 : Res := { r with fds := r.fds + 1, temps := r.temps + 1 }
    if r.recorder then
      -- CompareAndSwap fails: another snapshot is in progress (or a recorder leaked)
      if cfg.casCleans then (r, true) else (r1, true)
    else
      let r2 : Res := { r1 with recorder := true }
      let cleaned : Res := { recorder := false, fds := r2.fds - 1, temps := r2.temps - 1 }
      if f.writeStateFails then
        if cfg.defersCleanup then (cleaned, true) else (r2, true)
      else
        -- recorderClose, then Copy
        let r3 : Res := { r2 with recorder := false }
        if cfg.defersCleanup then (cleaned, f.copyFails)
        else ({ r3 with temps := r3.temps - 1 }, f.copyFails)   -- only `defer os.Remove` existed: the descriptor leaks

/-- a history of snapshot calls -/
def snapshots (cfg : SnapCfg) : Res → List Faults → Res × List Bool
  | r, [] => (r, [])
  | r, f :: fs =>
    let (r', e) := snapshot cfg r f
    let (r'', es) := snapshots cfg r' fs
    (r'', e :: es)

end ColumnVerif.SnapRes
