import ColumnVerif.Generated.Skeleton
import ColumnVerif.Conc.Machine
/-!
# Interpretation of the regenerated protocol skeleton

`Generated/Skeleton.lean` is rewritten from /repo on every run; it only contains token lists
`(depth, kind, name)`. What the tokens *mean* — which call sits inside which lock, what is
deferred, in which order the commit closure works — is decided here, in Lean. The resulting flags
are the hypotheses under which the machines of `Conc/Machine.lean` and `Conc/SnapMachine.lean`
model the code; the flag theorems in `Props/*skel.lean` are re-checked by the kernel against what
the code says now.

kinds: 1 call · 2 defer · 3 go · 4 assign · 5 return · 6/7 closure open/close · 8/9 branch
open/close · 10/11 loop open/close · 12 condition · 13 else · 14 call with exact text.  names: see `Generated.dictNames`.
-/
namespace ColumnVerif.Skel
open ColumnVerif.Generated

/-- the dictionary version this file was written against -/
def expectedDictVersion : Nat := 6

def isCall (n : Nat) (t : Tok) : Bool := t.2.1 == 1 && t.2.2 == n
def isDefer (n : Nat) (t : Tok) : Bool := t.2.1 == 2 && t.2.2 == n
def isAssign (n : Nat) (t : Tok) : Bool := t.2.1 == 4 && t.2.2 == n
def isCond (n : Nat) (t : Tok) : Bool := t.2.1 == 12 && t.2.2 == n
def isRet (t : Tok) : Bool := t.2.1 == 5
def isExact (n : Nat) (t : Tok) : Bool := t.2.1 == 14 && t.2.2 == n

def has (l : List Tok) (p : Tok → Bool) : Bool := l.any p
def cnt (l : List Tok) (p : Tok → Bool) : Nat := l.countP p

/-- positions (indices) of the tokens satisfying `p` -/
def positions (l : List Tok) (p : Tok → Bool) : List Nat :=
  (l.zipIdx.filter (fun x => p x.1)).map (·.2)

/-- first occurrences appear in this order (all present) -/
def ordered (l : List Tok) : List (Tok → Bool) → Bool
  | [] => true
  | [p] => has l p
  | p :: q :: rest =>
    match l.findIdx? p, l.findIdx? q with
    | some i, some j => i < j && ordered l (q :: rest)
    | _, _ => false

/-- `p` occurs, and every occurrence lies strictly between the first `a` and the first `b` after it -/
def between (l : List Tok) (a b p : Tok → Bool) : Bool :=
  match l.findIdx? a with
  | none => false
  | some i =>
    match (l.drop (i + 1)).findIdx? b with
    | none => false
    | some j =>
      let ps := positions l p
      !ps.isEmpty && ps.all (fun k => i < k && k < i + 1 + j)

/-- no `return` between the first `a` and the first `b` after it -/
def noReturnBetween (l : List Tok) (a b : Tok → Bool) : Bool :=
  match l.findIdx? a with
  | none => false
  | some i =>
    match (l.drop (i + 1)).findIdx? b with
    | none => false
    | some j => ((l.drop (i + 1)).take j).all (fun t => !isRet t)

-- names (mirrors the extractor's dictionary, version `expectedDictVersion`)
def nNext := 1
def nLock := 2
def nUnlock := 3
def nRLock := 4
def nRUnlock := 5
def nFn := 6
def nF := 7
def nCommits := 8
def nFill := 9
def nCommitMarkers := 11
def nCommitUpdates := 12
def nIsSnapshotting := 13
def nDstAppend := 14
def nLoggerAppend := 15
def nRangeWrite := 16
def nChunkAt := 17
def nChunkConv := 18
def nRecorderOpen := 19
def nRecorderClose := 20
def nRecClose := 21
def nOsRemove := 22
def nWriteState := 23
def nRecCopy := 24
def nSRLock := 25
def nSRUnlock := 26
def nSLock := 27
def nSUnlock := 28
def nCloneID := 29
def nClone := 30
def nFindFree := 31
def nFillSet := 32
def nFillRemove := 33
def nStore64 := 34
def nApply := 35
def nReaderRange := 36
def nNowAfter := 37
def nExpiresAt := 38
def nDeleteAt := 39
def cExpired := 40
def cHasDeadline := 41
def nSeek := 42
def nWriteTo := 43
def nFlush := 44
def nIoCopy := 45
def nLogClose := 48
def nCAS := 49
def nOwnerNext := 53
def nOwnerFree := 54
def nOffsetOf := 55
def nTxnInsert := 56
def nYield := 57
def nReset := 59
def cNewer := 60
def nReplay := 61
def cTtlPositive := 62
def cNothingChanged := 63
def xChunkAtIndex := 66
def xRLockChunk := 67
def xRUnlockChunk := 68
def xLockChunk := 69
def xUnlockChunk := 70
def nColSnapshot := 71
def nGrow := 72
def nColsRange := 73
def nColsStore := 74
def nCopy := 75
def nMake := 76
def nCompressorClose := 77
def nOutputClose := 78
def nCloserClose := 79

/-! ### flags -/

/-- `commit.Next()` is called between `slock.Lock(chunk)` and `slock.Unlock(chunk)` in `rangeWrite` -/
def idInsideLatch : Bool := between Txn_rangeWrite (isCall nSLock) (isCall nSUnlock) (isCall nNext) &&
  -- … unconditionally, once per latch section: same nesting depth as the `Lock` call (not under an `if`)
  cnt Txn_rangeWrite (isCall nNext) == 1 &&
  ((Txn_rangeWrite.find? (isCall nNext)).map (·.1) == (Txn_rangeWrite.find? (isCall nSLock)).map (·.1))

/-- `commits[chunk] = id` inside the latch -/
def setLastInsideLatch : Bool := between Txn_rangeWrite (isCall nSLock) (isCall nSUnlock) (isAssign nCommits)

/-- the commit closure (markers, updates, recorder, logger) runs inside the latch, once -/
def delegateInsideLatch : Bool :=
  between Txn_rangeWrite (isCall nSLock) (isCall nSUnlock) (isCall nFn) && cnt Txn_rangeWrite (isCall nFn) == 1 &&
  cnt Txn_rangeWrite (isCall nSLock) == 1 && cnt Txn_rangeWrite (isCall nSUnlock) == 1 &&
  has Txn_rangeWrite (isExact xLockChunk) && has Txn_rangeWrite (isExact xUnlockChunk)

/-- order inside the commit closure: markers, column updates (early-out when nothing changed),
    recorder, logger; the closure is what `rangeWrite` gets -/
def commitClosureOrder : Bool :=
  ordered Txn_commit [isCall nCommitMarkers, isCall nCommitUpdates, isCond cNothingChanged, isCall nIsSnapshotting,
    isCall nDstAppend, isCall nLoggerAppend, isCall nRangeWrite] &&
  cnt Txn_commit (isCall nDstAppend) == 1 && cnt Txn_commit (isCall nLoggerAppend) == 1 &&
  cnt Txn_commit (isCall nCommitUpdates) == 1 && has Txn_commit (isDefer nReset) &&
  -- recorder and logger appends sit directly under their presence test inside the closure (same nesting
  -- as the marker pass): not in a loop, not batched behind a further condition
  ((Txn_commit.find? (isCall nLoggerAppend)).map (·.1) == (Txn_commit.find? (isCall nCommitMarkers)).map (·.1)) &&
  ((Txn_commit.find? (isCall nDstAppend)).map (·.1) == (Txn_commit.find? (isCall nCommitMarkers)).map (·.1))

/-- column pass first, computed pass second (two `reader.Range` over the same buffer) -/
def computedAfterColumn : Bool :=
  cnt Txn_commitUpdates (isCall nReaderRange) == 2 && cnt Txn_commitUpdates (isCall nApply) == 2 &&
  (match positions Txn_commitUpdates (isCall nApply), positions Txn_commitUpdates (isCall nReaderRange) with
   | [a1, a2], [r1, r2] => a1 < r1 && r1 < a2 && a2 < r2
   | _, _ => false)

/-- reader callbacks run between `RLock(chunk)` and `RUnlock(chunk)` of the sharded latch -/
def readerLatched (l : List Tok) : Bool :=
  ordered l [isCall nSRLock, isCall nF, isCall nSRUnlock] && cnt l (isCall nF) == 1 &&
  cnt l (isCall nSRLock) == 1 && cnt l (isCall nSRUnlock) == 1 &&
  noReturnBetween l (isCall nSRLock) (isCall nSRUnlock)

def readInsideRLatch : Bool :=
  readerLatched Txn_QueryAt && readerLatched Txn_rangeRead && readerLatched Txn_rangeReadPair &&
  -- the latch of `QueryAt` is the one of the row's chunk: `commit.ChunkAt(index)`, not a conversion
  cnt Txn_QueryAt (isCall nChunkAt) == 1 && cnt Txn_QueryAt (isCall nChunkConv) == 0 &&
  ordered Txn_QueryAt [isExact xChunkAtIndex, isExact xRLockChunk, isCall nF, isExact xRUnlockChunk] &&
  has Txn_rangeRead (isExact xRLockChunk) && has Txn_rangeRead (isExact xRUnlockChunk) &&
  has Txn_rangeReadPair (isExact xRLockChunk) && has Txn_rangeReadPair (isExact xRUnlockChunk)

/-- `Snapshot`: recorder opened first; temp file removed, log closed and recorder released on every
    path (deferred right after the open); state written; recorder closed before the copy -/
def snapshotProtocol : Bool :=
  ordered Collection_Snapshot [isCall nRecorderOpen, isDefer nOsRemove, isDefer nRecClose, isDefer nRecorderClose,
    isCall nWriteState, isCall nRecorderClose, isCall nRecCopy] &&
  -- no return between the open's error check and the defers is possible other than the error return itself:
  cnt Collection_Snapshot (isCall nRecCopy) == 1

/-- a refused second snapshot closes and removes its own temp log -/
def openCleansOnCasFailure : Bool :=
  ordered Collection_recorderOpen [isCall nCAS, isCall nLogClose, isCall nOsRemove]

/-- `readChunk`: chunk read latch + collection lock, released by defers, callback inside -/
def snapReadLocked : Bool :=
  ordered Collection_readChunk [isCall nSRLock, isCall nLock, isDefer nSRUnlock, isDefer nUnlock, isCall nFn]

/-- `Log.Append`, `Log.Range`, `Log.Copy` share the log mutex -/
def logMutexed (l : List Tok) : Bool := ordered l [isCall nLock, isDefer nUnlock] && l.findIdx? (isCall nLock) == some 0
def appendCopyShareMutex : Bool := logMutexed Log_Append && logMutexed Log_Range && logMutexed Log_Copy &&
  ordered Log_Append [isCall nWriteTo, isCall nFlush]

def cloneCarriesId : Bool := has Commit_Clone (isAssign nCloneID)
def channelClones : Bool := has Channel_Append (isCall nClone)

/-- the fill list and the counter are only touched under the collection lock -/
def fillOpsUnderCollLock : Bool :=
  ordered Collection_next [isCall nLock, isCall nFindFree, isCall nFillSet, isCall nUnlock] &&
  ordered Collection_free [isCall nLock, isCall nFillRemove, isCall nStore64, isCall nUnlock] &&
  ordered Txn_rollback [isCall nLock, isCall nStore64, isCall nUnlock, isCall nReset] &&
  between Txn_commitMarkers (isCall nLock) (isCall nUnlock) (isCall nFillSet) &&
  between Txn_commitMarkers (isCall nLock) (isCall nUnlock) (isCall nFillRemove) &&
  ordered Txn_commitMarkers [isCall nLock, isCall nFillRemove, isCall nUnlock, isCall nApply, isCall nStore64] &&
  -- the recount sits between the second Lock/Unlock pair
  (match positions Txn_commitMarkers (isCall nLock), positions Txn_commitMarkers (isCall nUnlock),
         positions Txn_commitMarkers (isCall nStore64) with
   | [_, l2], [_, u2], [st] => l2 < st && st < u2
   | _, _, _ => false)

/-- `insert`: reservation, marker, callback, release on failure -/
def insertProtocol : Bool :=
  ordered Txn_insert [isCall nOwnerNext, isCall nOwnerFree] && cnt Txn_insert (isCall nOwnerNext) == 1

/-- key table writes under its lock; existence check and insert are separate steps -/
def keyTableLocked : Bool :=
  ordered columnKey_Apply [isCall nLock, isAssign nSeek] && ordered columnKey_OffsetOf [isCall nRLock, isCall nRUnlock]
def keyCheckThenInsert : Bool :=
  ordered Txn_InsertKey [isCall nOffsetOf, isCall nTxnInsert] && ordered Txn_UpsertKey [isCall nOffsetOf, isCall nTxnInsert]

/-- `Restore` replays a logged commit iff it is newer than the chunk's stored id -/
def restoreFiltersById : Bool := ordered Collection_Restore [isCond cNewer, isCall nReplay]

/-- the vacuum decision: a deadline exists (`ok && expireAt != 0`) and has passed (`now.After`) -/
def vacuumDecision : Bool :=
  ordered Collection_vacuum [isCall nExpiresAt, isCall nNowAfter, isCond cExpired, isCall nDeleteAt] &&
  has rwTTL_ExpiresAt (isCond cHasDeadline) && has fn_writeTTL (isCond cTtlPositive)

/-- the configuration of the commit-protocol machine, as read from the source -/
def cfg : Conc.ProtoCfg :=
  { idInsideLatch := idInsideLatch && setLastInsideLatch,
    emitInsideLatch := delegateInsideLatch && commitClosureOrder,
    applyInsideLatch := delegateInsideLatch && commitClosureOrder && computedAfterColumn,
    readInsideRLatch := readInsideRLatch }

/-! ### index creation, chunk allocation, registry (defects D24–D26, C08-m2) -/

/-- every occurrence of `p` is preceded by a `q` that comes after the previous `p` -/
def guardedBy (l : List Tok) (p q : Tok → Bool) : Bool :=
  (l.foldl (fun (st : Bool × Bool) t =>
    if p t then (st.1 && st.2, false) else if q t then (st.1, true) else st) (true, false)).1

/-- back-fill loop: the chunk of the target column is read (`column.Snapshot`) and indexed (`Apply`) between
    `slock.Lock(chunk)` and `slock.Unlock(chunk)`, both directly in the loop body, no `return` in between -/
def backfillLatchedIn (l : List Tok) : Bool :=
  between l (isCall nSLock) (isCall nSUnlock) (isCall nColSnapshot) &&
  between l (isCall nSLock) (isCall nSUnlock) (isCall nApply) &&
  noReturnBetween l (isCall nSLock) (isCall nSUnlock) &&
  cnt l (isCall nSLock) == 1 && cnt l (isCall nSUnlock) == 1 &&
  ((l.find? (isCall nSLock)).map (·.1) == (l.find? (isCall nSUnlock)).map (·.1))

def backfillLatched : Bool := backfillLatchedIn Collection_CreateIndex && backfillLatchedIn Collection_CreateSortIndex

/-- the new index is grown and registered under the collection lock -/
def indexGrownUnderLock : Bool :=
  ordered Collection_CreateIndex [isCall nLock, isCall nGrow, isCall nColsStore, isCall nUnlock, isCall nSLock] &&
  ordered Collection_CreateSortIndex [isCall nLock, isCall nColsStore, isCall nUnlock, isCall nSLock]

/-- `commitCapacity`: the collection lock is taken first, released by `defer` only (no explicit `Unlock`):
    the commit array, the fill list and every column grow inside one critical section -/
def capacityUnderCollLock : Bool :=
  Txn_commitCapacity.head? == some (0, 1, nLock) && Txn_commitCapacity[1]? == some (0, 2, nUnlock) &&
  cnt Txn_commitCapacity (isCall nUnlock) == 0 &&
  ordered Txn_commitCapacity [isAssign nCommits, isCall nGrow, isCall nColsRange]

/-- the registry slice is never published without having been copied first -/
def registryCopyOnWrite : Bool :=
  has columns_Store (isCall nColsStore) && guardedBy columns_Store (isCall nColsStore) (isCall nCopy) &&
  has columns_DeleteIndex (isCall nColsStore) && guardedBy columns_DeleteIndex (isCall nColsStore) (isCall nCopy)

/-- every compressor a snapshot starts is stopped (defect D27): the state compressor right after `writeState`, before the
    recorded log is copied; the commit log's compressor in `Log.Close`, before the file is closed -/
def compressorsClosed : Bool :=
  ordered Collection_Snapshot [isCall nWriteState, isCall nCompressorClose, isCall nRecCopy] &&
  cnt Collection_Snapshot (isCall nCompressorClose) == 1 &&
  ((Collection_Snapshot.find? (isCall nCompressorClose)).map (·.1) == some 0) &&
  ordered Log_Close [isCall nLock, isDefer nUnlock, isCall nOutputClose, isCall nCloserClose]

end ColumnVerif.Skel
