import ColumnVerif.Conc.Machine
/-!
# Invariants of the commit-protocol machine (all schedules)

Each invariant is a `structure` of ∀-clauses over the world. For each one there is
* an `init_…` lemma (it holds in every `Init` world),
* usually a *frame* lemma (the invariant only looks at some projections of the world — some fields
  and some classification of the program counters: a step that leaves those unchanged keeps it),
  which closes the majority of the `Step` constructors, and
* a `step_…` lemma: one case per `Step` constructor; the cases that really touch the invariant are
  closed by case analysis on "same thread / other thread", "same chunk / other chunk" (`grind` after
  unfolding `setPc`; `step_invM` is written out by hand in the style of the prototype).

The dependencies are: `InvM` (mutual exclusion) stands alone; `InvW`, `InvAcc`, `InvS` need `InvM`;
`InvRd` needs `InvM` and `InvW`; `InvIds` and `InvT` stand alone; `InvDesc` needs `InvM`, `InvIds`
and `cfg.idInsideLatch = true`. `Inv` bundles those that hold for every `ProtoCfg`;
`reach_inv` / `reach_invDesc` carry them along every run.
-/
namespace ColumnVerif.Conc

/-! ### classification of program counters -/

/-- the chunk whose write latch the pc implies -/
def wchunk : PC → Option Nat
  | .held c _ => some c
  | .loaded c _ _ => some c
  | .wroteAcc c _ => some c
  | .wroteA c _ => some c
  | .wroteB c _ => some c
  | .emitted c _ => some c
  | _ => none

/-- the chunk whose read latch the pc implies -/
def rchunk : PC → Option Nat
  | .rheld c => some c
  | .readA c _ => some c
  | .readAB c _ _ => some c
  | _ => none

/-- the commit has written column A but not yet column B -/
def midAB : PC → Bool
  | .wroteA _ _ => true
  | _ => false

/-- an id drawn but not yet in an `applied` record -/
def pendId : PC → Option Nat
  | .pre _ (some id) => some id
  | .held _ (some id) => some id
  | .loaded _ id _ => some id
  | _ => none

/-- the id of a commit applied (record appended) but not yet handed to the logger -/
def pendEmit : PC → Option Nat
  | .wroteAcc _ id => some id
  | .wroteA _ id => some id
  | .wroteB _ id => some id
  | _ => none

/-- the chunk the thread is committing (from `begin` to `release`) -/
def workChunk : PC → Option Nat
  | .pre c _ => some c
  | p => wchunk p

/-- 1 iff the commit of chunk `c` is past `storeAcc` and not yet released -/
def inflight (p : PC) (c : Nat) : Nat :=
  match p with
  | .wroteAcc d _ => if d = c then 1 else 0
  | .wroteA d _ => if d = c then 1 else 0
  | .wroteB d _ => if d = c then 1 else 0
  | .emitted d _ => if d = c then 1 else 0
  | _ => 0

/-- (chunk, id) of an id held inside the latch section, before `storeAcc` -/
def latchId : PC → Option (Nat × Nat)
  | .held c (some id) => some (c, id)
  | .loaded c id _ => some (c, id)
  | _ => none

theorem setPc_self (w : W) (t : Nat) (p : PC) : setPc w t p t = p := by simp [setPc]
theorem setPc_ne (w : W) {t u : Nat} (p : PC) (h : u ≠ t) : setPc w t p u = w.pc u := by
  simp [setPc, h]

/-- a projection of the pc that the step of thread `t` does not change is unchanged for all threads -/
theorem proj_setPc {α : Type} (f : PC → α) {w : W} {t : Nat} {p : PC} (h : f p = f (w.pc t)) (u : Nat) :
    f (setPc w t p u) = f (w.pc u) := by
  unfold setPc
  by_cases hut : u = t
  · subst hut; simp [h]
  · simp [hut]

/-- if the step of thread `t` does not move it to `q`, whoever is at `q` afterwards was there before -/
theorem setPc_back {w : W} {t u : Nat} {p q : PC} (hne : p ≠ q) (h : setPc w t p u = q) :
    w.pc u = q := by
  unfold setPc at h
  split at h
  · exact absurd h hne
  · exact h

/-! ### M1 — mutual exclusion -/

structure InvM (w : W) : Prop where
  /-- a thread inside a write-latch section of `c` is the holder of `c` -/
  whold : ∀ t c, wchunk (w.pc t) = some c → w.holder c = some t
  /-- the holder of `c` is inside a write-latch section of `c` -/
  hpc : ∀ t c, w.holder c = some t → wchunk (w.pc t) = some c
  /-- a thread inside a read-latch section of `c` is registered as a reader of `c` -/
  rhold : ∀ t c, rchunk (w.pc t) = some c → t ∈ w.readers c
  /-- writers exclude readers -/
  excl : ∀ t c, w.holder c = some t → w.readers c = []

theorem InvM.frame {w w' : W} (h : InvM w) (hh : w'.holder = w.holder) (hr : w'.readers = w.readers)
    (hw : ∀ u, wchunk (w'.pc u) = wchunk (w.pc u)) (hrc : ∀ u, rchunk (w'.pc u) = rchunk (w.pc u)) :
    InvM w' := by
  constructor
  · intro t c; rw [hw, hh]; exact h.whold t c
  · intro t c; rw [hw, hh]; exact h.hpc t c
  · intro t c; rw [hrc, hr]; exact h.rhold t c
  · intro t c; rw [hh, hr]; exact h.excl t c

theorem init_invM {w : W} (hi : Init w) : InvM w := by
  constructor
  · intro t c h; rw [hi.pc] at h; simp [wchunk] at h
  · intro t c h; rw [hi.holder] at h; simp at h
  · intro t c h; rw [hi.pc] at h; simp [rchunk] at h
  · intro t c _; exact hi.readers c

theorem step_invM {cfg : ProtoCfg} {merge : Nat → Nat → Nat} {w w' : W} (h : InvM w)
    (hs : Step cfg merge w w') : InvM w' := by
  cases hs with
  | begin t c rest hpc htodo hc =>
    exact h.frame rfl rfl (proj_setPc wchunk (by rw [hpc]; rfl)) (proj_setPc rchunk (by rw [hpc]; rfl))
  | beginEarlyId t c rest hpc htodo hc =>
    exact h.frame rfl rfl (proj_setPc wchunk (by rw [hpc]; rfl)) (proj_setPc rchunk (by rw [hpc]; rfl))
  | acquire t c id hpc hh hrd =>
    constructor
    · intro u d hu
      by_cases hut : u = t
      · subst hut; simp [setPc, wchunk] at hu; simp [hu]
      · simp only [setPc, hut, if_false] at hu
        have := h.whold u d hu
        by_cases hdc : d = c
        · subst hdc; rw [hh] at this; simp at this
        · simpa [hdc] using this
    · intro u d hu
      by_cases hdc : d = c
      · subst hdc; simp at hu; subst hu; simp [setPc, wchunk]
      · simp [hdc] at hu
        have := h.hpc u d hu
        by_cases hut : u = t
        · subst hut; rw [hpc] at this; simp [wchunk] at this
        · simpa [setPc, hut] using this
    · intro u d hu
      by_cases hut : u = t
      · subst hut; simp [setPc, rchunk] at hu
      · simp only [setPc, hut, if_false] at hu
        exact h.rhold u d hu
    · intro u d hu
      by_cases hdc : d = c
      · subst hdc; exact hrd
      · simp [hdc] at hu; exact h.excl u d hu
  | draw t c hpc =>
    exact h.frame rfl rfl (proj_setPc wchunk (by rw [hpc]; rfl)) (proj_setPc rchunk (by rw [hpc]; rfl))
  | load t c id hpc =>
    exact h.frame rfl rfl (proj_setPc wchunk (by rw [hpc]; rfl)) (proj_setPc rchunk (by rw [hpc]; rfl))
  | storeAcc t c id seen hpc =>
    exact h.frame rfl rfl (proj_setPc wchunk (by rw [hpc]; rfl)) (proj_setPc rchunk (by rw [hpc]; rfl))
  | writeA t c id hpc =>
    exact h.frame rfl rfl (proj_setPc wchunk (by rw [hpc]; rfl)) (proj_setPc rchunk (by rw [hpc]; rfl))
  | writeB t c id hpc =>
    exact h.frame rfl rfl (proj_setPc wchunk (by rw [hpc]; rfl)) (proj_setPc rchunk (by rw [hpc]; rfl))
  | emit t c id hpc =>
    exact h.frame rfl rfl (proj_setPc wchunk (by rw [hpc]; rfl)) (proj_setPc rchunk (by rw [hpc]; rfl))
  | release t c id hpc =>
    have hht := h.whold t c (by rw [hpc]; rfl)
    constructor
    · intro u d hu
      by_cases hut : u = t
      · subst hut; simp [setPc, wchunk] at hu
      · simp only [setPc, hut, if_false] at hu
        have := h.whold u d hu
        have hdc : d ≠ c := by
          intro e; subst e; rw [hht] at this; simp at this; exact hut this.symm
        simpa [hdc] using this
    · intro u d hu
      by_cases hdc : d = c
      · subst hdc; simp at hu
      · simp [hdc] at hu
        have := h.hpc u d hu
        by_cases hut : u = t
        · subst hut; rw [hpc] at this; simp [wchunk] at this; exact absurd this.symm hdc
        · simpa [setPc, hut] using this
    · intro u d hu
      by_cases hut : u = t
      · subst hut; simp [setPc, rchunk] at hu
      · simp only [setPc, hut, if_false] at hu
        exact h.rhold u d hu
    · intro u d hu
      by_cases hdc : d = c
      · subst hdc; simp at hu
      · simp [hdc] at hu; exact h.excl u d hu
  | racquire t c hpc htodo hh =>
    constructor
    · intro u d hu
      by_cases hut : u = t
      · subst hut; simp [setPc, wchunk] at hu
      · simp only [setPc, hut, if_false] at hu
        exact h.whold u d hu
    · intro u d hu
      have := h.hpc u d hu
      by_cases hut : u = t
      · subst hut; rw [hpc] at this; simp [wchunk] at this
      · simpa [setPc, hut] using this
    · intro u d hu
      by_cases hut : u = t
      · subst hut; simp [setPc, rchunk] at hu; simp [hu]
      · simp only [setPc, hut, if_false] at hu
        have := h.rhold u d hu
        by_cases hdc : d = c
        · simp [hdc] at this ⊢; exact Or.inr this
        · simpa [hdc] using this
    · intro u d hu
      have hu' : w.holder d = some u := hu
      by_cases hdc : d = c
      · subst hdc; rw [hh] at hu'; simp at hu'
      · simp [hdc]; exact h.excl u d hu'
  | rreadA t c hpc =>
    exact h.frame rfl rfl (proj_setPc wchunk (by rw [hpc]; rfl)) (proj_setPc rchunk (by rw [hpc]; rfl))
  | rreadB t c a hpc =>
    exact h.frame rfl rfl (proj_setPc wchunk (by rw [hpc]; rfl)) (proj_setPc rchunk (by rw [hpc]; rfl))
  | rrelease t c a b hpc =>
    constructor
    · intro u d hu
      by_cases hut : u = t
      · subst hut; simp [setPc, wchunk] at hu
      · simp only [setPc, hut, if_false] at hu
        exact h.whold u d hu
    · intro u d hu
      have := h.hpc u d hu
      by_cases hut : u = t
      · subst hut; rw [hpc] at this; simp [wchunk] at this
      · simpa [setPc, hut] using this
    · intro u d hu
      by_cases hut : u = t
      · subst hut; simp [setPc, rchunk] at hu
      · simp only [setPc, hut, if_false] at hu
        have := h.rhold u d hu
        by_cases hdc : d = c
        · subst hdc; simp; exact (List.mem_erase_of_ne hut).mpr this
        · simpa [hdc] using this
    · intro u d hu
      have hu' : w.holder d = some u := hu
      have := h.excl u d hu'
      by_cases hdc : d = c
      · subst hdc; simp [this]
      · simp [hdc]; exact this


/-- a registered reader excludes a writer -/
theorem InvM.rd_free {w : W} (h : InvM w) {t c : Nat} (hr : rchunk (w.pc t) = some c) :
    w.holder c = none := by
  have hm := h.rhold t c hr
  cases hh : w.holder c with
  | none => rfl
  | some u => rw [h.excl u c hh] at hm; simp at hm

/-- at most one thread per chunk is inside a write-latch section -/
theorem InvM.unique {w : W} (h : InvM w) {t u c : Nat} (ht : wchunk (w.pc t) = some c)
    (hu : wchunk (w.pc u) = some c) : t = u := by
  have a := h.whold t c ht
  have b := h.whold u c hu
  rw [a] at b; simpa using b

/-! ### C10 — writer side: columns A and B agree outside the `writeA … writeB` window -/

structure InvW (w : W) : Prop where
  /-- no writer: the columns agree -/
  same_free : ∀ c, w.holder c = none → w.colA c = w.colB c
  /-- a writer that is not between `writeA` and `writeB`: the columns agree -/
  same_held : ∀ t c, wchunk (w.pc t) = some c → midAB (w.pc t) = false → w.colA c = w.colB c
  /-- between `writeA` and `writeB` column A already carries the commit's id -/
  colA : ∀ t c id, w.pc t = .wroteA c id → w.colA c = id

theorem init_invW {w : W} (hi : Init w) : InvW w := by
  constructor
  · intro c _; exact hi.same c
  · intro t c _ _; exact hi.same c
  · intro t c id h; rw [hi.pc] at h; simp at h

theorem InvW.frame {w w' : W} (h : InvW w) (hh : w'.holder = w.holder) (ha : w'.colA = w.colA)
    (hb : w'.colB = w.colB) (hw : ∀ u, wchunk (w'.pc u) = wchunk (w.pc u))
    (hm : ∀ u, midAB (w'.pc u) = midAB (w.pc u))
    (hwa : ∀ u c id, w'.pc u = .wroteA c id → w.pc u = .wroteA c id) : InvW w' := by
  constructor
  · intro c; rw [hh, ha, hb]; exact h.same_free c
  · intro t c; rw [hw, hm, ha, hb]; exact h.same_held t c
  · intro t c id hp; rw [ha]; exact h.colA t c id (hwa t c id hp)

theorem step_invW {cfg : ProtoCfg} {merge : Nat → Nat → Nat} {w w' : W} (hm : InvM w) (h : InvW w)
    (hs : Step cfg merge w w') : InvW w' := by
  cases hs with
  | acquire t c id hpc hh hrd =>
    obtain ⟨m1, m2, m3, m4⟩ := hm
    obtain ⟨h1, h2, h3⟩ := h
    constructor <;> intros <;> simp only [setPc] at * <;> grind [wchunk, midAB]
  | writeA t c id hpc =>
    obtain ⟨m1, m2, m3, m4⟩ := hm
    obtain ⟨h1, h2, h3⟩ := h
    constructor <;> intros <;> simp only [setPc] at * <;> grind [wchunk, midAB]
  | writeB t c id hpc =>
    obtain ⟨m1, m2, m3, m4⟩ := hm
    obtain ⟨h1, h2, h3⟩ := h
    constructor <;> intros <;> simp only [setPc] at * <;> grind [wchunk, midAB]
  | release t c id hpc =>
    obtain ⟨m1, m2, m3, m4⟩ := hm
    obtain ⟨h1, h2, h3⟩ := h
    constructor <;> intros <;> simp only [setPc] at * <;> grind [wchunk, midAB]
  | begin t c rest hpc htodo hc =>
    exact h.frame rfl rfl rfl (proj_setPc _ (by rw [hpc]; rfl)) (proj_setPc _ (by rw [hpc]; rfl))
      (fun _ _ _ hp => setPc_back (by simp) hp)
  | beginEarlyId t c rest hpc htodo hc =>
    exact h.frame rfl rfl rfl (proj_setPc _ (by rw [hpc]; rfl)) (proj_setPc _ (by rw [hpc]; rfl))
      (fun _ _ _ hp => setPc_back (by simp) hp)
  | draw t c hpc =>
    exact h.frame rfl rfl rfl (proj_setPc _ (by rw [hpc]; rfl)) (proj_setPc _ (by rw [hpc]; rfl))
      (fun _ _ _ hp => setPc_back (by simp) hp)
  | load t c id hpc =>
    exact h.frame rfl rfl rfl (proj_setPc _ (by rw [hpc]; rfl)) (proj_setPc _ (by rw [hpc]; rfl))
      (fun _ _ _ hp => setPc_back (by simp) hp)
  | storeAcc t c id seen hpc =>
    exact h.frame rfl rfl rfl (proj_setPc _ (by rw [hpc]; rfl)) (proj_setPc _ (by rw [hpc]; rfl))
      (fun _ _ _ hp => setPc_back (by simp) hp)
  | emit t c id hpc =>
    exact h.frame rfl rfl rfl (proj_setPc _ (by rw [hpc]; rfl)) (proj_setPc _ (by rw [hpc]; rfl))
      (fun _ _ _ hp => setPc_back (by simp) hp)
  | racquire t c hpc htodo hh =>
    exact h.frame rfl rfl rfl (proj_setPc _ (by rw [hpc]; rfl)) (proj_setPc _ (by rw [hpc]; rfl))
      (fun _ _ _ hp => setPc_back (by simp) hp)
  | rreadA t c hpc =>
    exact h.frame rfl rfl rfl (proj_setPc _ (by rw [hpc]; rfl)) (proj_setPc _ (by rw [hpc]; rfl))
      (fun _ _ _ hp => setPc_back (by simp) hp)
  | rreadB t c a hpc =>
    exact h.frame rfl rfl rfl (proj_setPc _ (by rw [hpc]; rfl)) (proj_setPc _ (by rw [hpc]; rfl))
      (fun _ _ _ hp => setPc_back (by simp) hp)
  | rrelease t c a b hpc =>
    exact h.frame rfl rfl rfl (proj_setPc _ (by rw [hpc]; rfl)) (proj_setPc _ (by rw [hpc]; rfl))
      (fun _ _ _ hp => setPc_back (by simp) hp)

/-! ### C10 — reader side -/

structure InvRd (w : W) : Prop where
  /-- what a reader has read is still what the column holds (no writer can get in) -/
  readA : ∀ t c a, w.pc t = .readA c a → a = w.colA c
  readAB : ∀ t c a b, w.pc t = .readAB c a b → a = w.colA c ∧ b = w.colB c
  /-- every recorded observation shows one version -/
  obs : ∀ p ∈ w.obs, p.2.1 = p.2.2

theorem init_invRd {w : W} (hi : Init w) : InvRd w := by
  constructor
  · intro t c a h; rw [hi.pc] at h; simp at h
  · intro t c a b h; rw [hi.pc] at h; simp at h
  · intro p hp; rw [hi.obs] at hp; simp at hp

theorem InvRd.frame {w w' : W} (h : InvRd w) (ha : w'.colA = w.colA) (hb : w'.colB = w.colB)
    (ho : w'.obs = w.obs)
    (hra : ∀ u c a, w'.pc u = .readA c a → w.pc u = .readA c a)
    (hrab : ∀ u c a b, w'.pc u = .readAB c a b → w.pc u = .readAB c a b) : InvRd w' := by
  constructor
  · intro t c a hp; rw [ha]; exact h.readA t c a (hra t c a hp)
  · intro t c a b hp; rw [ha, hb]; exact h.readAB t c a b (hrab t c a b hp)
  · rw [ho]; exact h.obs

theorem step_invRd {cfg : ProtoCfg} {merge : Nat → Nat → Nat} {w w' : W} (hm : InvM w) (hw : InvW w)
    (h : InvRd w) (hs : Step cfg merge w w') : InvRd w' := by
  have m5 := @InvM.rd_free w hm
  have m1 := hm.whold
  have w1 := hw.same_free
  clear hm hw
  cases hs with
  | writeA t c id hpc =>
    obtain ⟨h1, h2, h3⟩ := h
    constructor <;> intros <;> simp only [setPc] at * <;> grind [wchunk, rchunk]
  | writeB t c id hpc =>
    obtain ⟨h1, h2, h3⟩ := h
    constructor <;> intros <;> simp only [setPc] at * <;> grind [wchunk, rchunk]
  | rreadA t c hpc =>
    obtain ⟨h1, h2, h3⟩ := h
    constructor <;> intros <;> simp only [setPc] at * <;> grind [wchunk, rchunk]
  | rreadB t c a hpc =>
    obtain ⟨h1, h2, h3⟩ := h
    constructor <;> intros <;> simp only [setPc] at * <;> grind [wchunk, rchunk]
  | rrelease t c a b hpc =>
    obtain ⟨h1, h2, h3⟩ := h
    constructor <;> intros <;> simp only [setPc] at * <;> grind [wchunk, rchunk]
  | begin t c rest hpc htodo hc =>
    exact h.frame rfl rfl rfl (fun _ _ _ hp => setPc_back (by simp) hp)
      (fun _ _ _ _ hp => setPc_back (by simp) hp)
  | beginEarlyId t c rest hpc htodo hc =>
    exact h.frame rfl rfl rfl (fun _ _ _ hp => setPc_back (by simp) hp)
      (fun _ _ _ _ hp => setPc_back (by simp) hp)
  | acquire t c id hpc hh hrd =>
    exact h.frame rfl rfl rfl (fun _ _ _ hp => setPc_back (by simp) hp)
      (fun _ _ _ _ hp => setPc_back (by simp) hp)
  | draw t c hpc =>
    exact h.frame rfl rfl rfl (fun _ _ _ hp => setPc_back (by simp) hp)
      (fun _ _ _ _ hp => setPc_back (by simp) hp)
  | load t c id hpc =>
    exact h.frame rfl rfl rfl (fun _ _ _ hp => setPc_back (by simp) hp)
      (fun _ _ _ _ hp => setPc_back (by simp) hp)
  | storeAcc t c id seen hpc =>
    exact h.frame rfl rfl rfl (fun _ _ _ hp => setPc_back (by simp) hp)
      (fun _ _ _ _ hp => setPc_back (by simp) hp)
  | emit t c id hpc =>
    exact h.frame rfl rfl rfl (fun _ _ _ hp => setPc_back (by simp) hp)
      (fun _ _ _ _ hp => setPc_back (by simp) hp)
  | release t c id hpc =>
    exact h.frame rfl rfl rfl (fun _ _ _ hp => setPc_back (by simp) hp)
      (fun _ _ _ _ hp => setPc_back (by simp) hp)
  | racquire t c hpc htodo hh =>
    exact h.frame rfl rfl rfl (fun _ _ _ hp => setPc_back (by simp) hp)
      (fun _ _ _ _ hp => setPc_back (by simp) hp)

/-! ### C09 — the merged value is the fold of the applied commits -/

structure InvAcc (merge : Nat → Nat → Nat) (w0 w : W) : Prop where
  fold : ∀ c, w.acc c = foldAcc merge (w0.acc c) (w.applied c)
  /-- the value read by the first half of a merge is still current (the thread holds the latch) -/
  seen : ∀ t c id s, w.pc t = .loaded c id s → s = w.acc c

theorem init_invAcc (merge : Nat → Nat → Nat) {w : W} (hi : Init w) : InvAcc merge w w := by
  constructor
  · intro c; rw [hi.applied]; rfl
  · intro t c id s h; rw [hi.pc] at h; simp at h

theorem step_invAcc {cfg : ProtoCfg} {merge : Nat → Nat → Nat} {w0 w w' : W} (hm : InvM w)
    (h : InvAcc merge w0 w) (hs : Step cfg merge w w') : InvAcc merge w0 w' := by
  have m5 : ∀ t c id s, w.pc t = .loaded c id s → w.holder c = some t :=
    fun t c id s h => hm.whold t c (by rw [h]; rfl)
  obtain ⟨h1, h2⟩ := h
  cases hs <;> constructor <;> intros <;> simp only [setPc] at * <;> grind [foldAcc]

/-! ### C15-b — ids are fresh: bounded by the counter, above the initial counter, one owner each -/

theorem pendId_held (c : Nat) (id : Option Nat) : pendId (.held c id) = id := by cases id <;> rfl
theorem pendId_pre (c : Nat) (id : Option Nat) : pendId (.pre c id) = id := by cases id <;> rfl

structure InvIds (w0 w : W) : Prop where
  mono : w0.next ≤ w.next
  /-- an id a thread has drawn and not yet applied was drawn in this run … -/
  pend_bound : ∀ t id, pendId (w.pc t) = some id → w0.next < id ∧ id ≤ w.next
  /-- … is held by that thread only … -/
  pend_inj : ∀ t u id, pendId (w.pc t) = some id → pendId (w.pc u) = some id → t = u
  /-- … and is in no record yet -/
  pend_fresh : ∀ t id, pendId (w.pc t) = some id → ∀ c, ∀ r ∈ w.applied c, r.id ≠ id
  rec_bound : ∀ c, ∀ r ∈ w.applied c, w0.next < r.id ∧ r.id ≤ w.next
  /-- ids of records are globally distinct -/
  rec_inj : ∀ c d, ∀ r ∈ w.applied c, ∀ s ∈ w.applied d, r.id = s.id → c = d ∧ r = s
  nodup : ∀ c, (idsOf w c).Nodup

theorem InvIds.frame {w0 w w' : W} (h : InvIds w0 w) (hn : w'.next = w.next)
    (ha : w'.applied = w.applied) (hp : ∀ u, pendId (w'.pc u) = pendId (w.pc u)) : InvIds w0 w' := by
  constructor
  · rw [hn]; exact h.mono
  · intro t id; rw [hp, hn]; exact h.pend_bound t id
  · intro t u id; rw [hp, hp]; exact h.pend_inj t u id
  · intro t id; rw [hp, ha]; exact h.pend_fresh t id
  · rw [ha, hn]; exact h.rec_bound
  · rw [ha]; exact h.rec_inj
  · intro c; unfold idsOf; rw [ha]; exact h.nodup c

theorem step_invIds {cfg : ProtoCfg} {merge : Nat → Nat → Nat} {w0 w w' : W} (h : InvIds w0 w)
    (hs : Step cfg merge w w') : InvIds w0 w' := by
  cases hs with
  | beginEarlyId t c rest hpc htodo hc =>
    obtain ⟨h1, h2, h3, h4, h5, h6, h7⟩ := h
    constructor <;> intros <;> simp only [setPc, idsOf] at * <;> grind [pendId]
  | draw t c hpc =>
    obtain ⟨h1, h2, h3, h4, h5, h6, h7⟩ := h
    constructor <;> intros <;> simp only [setPc, idsOf] at * <;> grind [pendId]
  | storeAcc t c id seen hpc =>
    obtain ⟨h1, h2, h3, h4, h5, h6, h7⟩ := h
    constructor <;> intros <;> simp only [setPc, idsOf] at * <;> grind [pendId]
  | acquire t c id hpc hh hrd =>
    exact h.frame rfl rfl (proj_setPc _ (by rw [hpc, pendId_held, pendId_pre]))
  | begin t c rest hpc htodo hc => exact h.frame rfl rfl (proj_setPc _ (by rw [hpc]; rfl))
  | load t c id hpc => exact h.frame rfl rfl (proj_setPc _ (by rw [hpc]; rfl))
  | writeA t c id hpc => exact h.frame rfl rfl (proj_setPc _ (by rw [hpc]; rfl))
  | writeB t c id hpc => exact h.frame rfl rfl (proj_setPc _ (by rw [hpc]; rfl))
  | emit t c id hpc => exact h.frame rfl rfl (proj_setPc _ (by rw [hpc]; rfl))
  | release t c id hpc => exact h.frame rfl rfl (proj_setPc _ (by rw [hpc]; rfl))
  | racquire t c hpc htodo hh => exact h.frame rfl rfl (proj_setPc _ (by rw [hpc]; rfl))
  | rreadA t c hpc => exact h.frame rfl rfl (proj_setPc _ (by rw [hpc]; rfl))
  | rreadB t c a hpc => exact h.frame rfl rfl (proj_setPc _ (by rw [hpc]; rfl))
  | rrelease t c a b hpc => exact h.frame rfl rfl (proj_setPc _ (by rw [hpc]; rfl))



theorem init_invIds {w : W} (hi : Init w) : InvIds w w := by
  constructor
  · exact Nat.le_refl _
  · intro t id h; rw [hi.pc] at h; simp [pendId] at h
  · intro t u id h; rw [hi.pc] at h; simp [pendId] at h
  · intro t id h; rw [hi.pc] at h; simp [pendId] at h
  · intro c r hr; rw [hi.applied] at hr; simp at hr
  · intro c d r hr; rw [hi.applied] at hr; simp at hr
  · intro c; unfold idsOf; rw [hi.applied]; simp

/-! ### C15-a — with the id drawn inside the latch, ids increase per chunk -/

structure InvDesc (w : W) : Prop where
  desc : ∀ c, Desc (idsOf w c)
  /-- no id is drawn before the latch is taken -/
  noEarly : ∀ t c id, w.pc t ≠ .pre c (some id)
  /-- an id drawn inside the latch section of `c` is above everything applied to `c` so far -/
  fresh : ∀ t c id, latchId (w.pc t) = some (c, id) → ∀ r ∈ w.applied c, r.id < id

theorem init_invDesc {w : W} (hi : Init w) : InvDesc w := by
  constructor
  · intro c; unfold idsOf; rw [hi.applied]; trivial
  · intro t c id h; rw [hi.pc] at h; simp at h
  · intro t c id h; rw [hi.pc] at h; simp [latchId] at h

theorem wchunk_of_latchId {p : PC} {c id : Nat} (h : latchId p = some (c, id)) : wchunk p = some c := by
  unfold latchId at h
  split at h <;> simp_all [wchunk]

theorem desc_cons {a : Nat} {l : List Nat} : Desc (a :: l) ↔ (∀ x ∈ l, x < a) ∧ Desc l := Iff.rfl

theorem step_invDesc {cfg : ProtoCfg} {merge : Nat → Nat → Nat} {w0 w w' : W}
    (hc : cfg.idInsideLatch = true) (hm : InvM w) (hi : InvIds w0 w) (h : InvDesc w)
    (hs : Step cfg merge w w') : InvDesc w' := by
  have m1 : ∀ t c id, latchId (w.pc t) = some (c, id) → w.holder c = some t :=
    fun t c id h => hm.whold t c (wchunk_of_latchId h)
  have i1 := hi.rec_bound
  clear hm hi
  obtain ⟨h1, h2, h3⟩ := h
  cases hs with
  | acquire t c id hpc hh hrd =>
    cases id <;> constructor <;> intros <;> simp only [setPc, idsOf] at * <;> grind [latchId, desc_cons]
  | _ => constructor <;> intros <;> simp only [setPc, idsOf] at * <;> grind [latchId, desc_cons]


/-! ### C15-c — the logger stream of a chunk is its apply order -/

/-- ids handed to the logger for chunk `c`, most recent first -/
def emittedOf (w : W) (c : Nat) : List Nat := (w.stream.filter (fun p => p.1 = c)).map (·.2)

structure InvS (w : W) : Prop where
  /-- no writer, or a writer before `storeAcc` / after `emit`: the logger has everything applied -/
  free : ∀ c, w.holder c = none → emittedOf w c = idsOf w c
  done : ∀ t c, w.holder c = some t → pendEmit (w.pc t) = none → emittedOf w c = idsOf w c
  /-- a writer between `storeAcc` and `emit`: exactly its commit is applied and not yet handed over -/
  pend : ∀ t c id, w.holder c = some t → pendEmit (w.pc t) = some id → idsOf w c = id :: emittedOf w c

theorem init_invS {w : W} (hi : Init w) : InvS w := by
  constructor
  · intro c _; unfold emittedOf idsOf; rw [hi.stream, hi.applied]; rfl
  · intro t c h; rw [hi.holder] at h; simp at h
  · intro t c id h; rw [hi.holder] at h; simp at h

theorem InvS.frame {w w' : W} (h : InvS w) (hh : w'.holder = w.holder) (hs : w'.stream = w.stream)
    (ha : w'.applied = w.applied) (hp : ∀ u, pendEmit (w'.pc u) = pendEmit (w.pc u)) : InvS w' := by
  have e1 : ∀ c, emittedOf w' c = emittedOf w c := by intro c; unfold emittedOf; rw [hs]
  have e2 : ∀ c, idsOf w' c = idsOf w c := by intro c; unfold idsOf; rw [ha]
  constructor
  · intro c; rw [hh, e1, e2]; exact h.free c
  · intro t c; rw [hh, hp, e1, e2]; exact h.done t c
  · intro t c id; rw [hh, hp, e1, e2]; exact h.pend t c id

theorem step_invS {cfg : ProtoCfg} {merge : Nat → Nat → Nat} {w w' : W}
    (hm : InvM w) (h : InvS w) (hs : Step cfg merge w w') : InvS w' := by
  cases hs with
  | acquire t c id hpc hh hrd =>
    obtain ⟨m1, m2, m3, m4⟩ := hm
    obtain ⟨h1, h2, h3⟩ := h
    constructor <;> intros <;> simp only [setPc, idsOf, emittedOf] at * <;> grind [pendEmit, wchunk]
  | storeAcc t c id seen hpc =>
    obtain ⟨m1, m2, m3, m4⟩ := hm
    obtain ⟨h1, h2, h3⟩ := h
    constructor <;> intros <;> simp only [setPc, idsOf, emittedOf] at * <;> grind [pendEmit, wchunk]
  | emit t c id hpc =>
    obtain ⟨m1, m2, m3, m4⟩ := hm
    obtain ⟨h1, h2, h3⟩ := h
    constructor <;> intros <;> simp only [setPc, idsOf, emittedOf] at * <;> grind [pendEmit, wchunk]
  | release t c id hpc =>
    obtain ⟨m1, m2, m3, m4⟩ := hm
    obtain ⟨h1, h2, h3⟩ := h
    constructor <;> intros <;> simp only [setPc, idsOf, emittedOf] at * <;> grind [pendEmit, wchunk]
  | begin t c rest hpc htodo hc => exact h.frame rfl rfl rfl (proj_setPc _ (by rw [hpc]; rfl))
  | beginEarlyId t c rest hpc htodo hc => exact h.frame rfl rfl rfl (proj_setPc _ (by rw [hpc]; rfl))
  | draw t c hpc => exact h.frame rfl rfl rfl (proj_setPc _ (by rw [hpc]; rfl))
  | load t c id hpc => exact h.frame rfl rfl rfl (proj_setPc _ (by rw [hpc]; rfl))
  | writeA t c id hpc => exact h.frame rfl rfl rfl (proj_setPc _ (by rw [hpc]; rfl))
  | writeB t c id hpc => exact h.frame rfl rfl rfl (proj_setPc _ (by rw [hpc]; rfl))
  | racquire t c hpc htodo hh => exact h.frame rfl rfl rfl (proj_setPc _ (by rw [hpc]; rfl))
  | rreadA t c hpc => exact h.frame rfl rfl rfl (proj_setPc _ (by rw [hpc]; rfl))
  | rreadB t c a hpc => exact h.frame rfl rfl rfl (proj_setPc _ (by rw [hpc]; rfl))
  | rrelease t c a b hpc => exact h.frame rfl rfl rfl (proj_setPc _ (by rw [hpc]; rfl))


/-! ### C09 `applied_once` — every listed chunk of a transaction is applied exactly once -/

/-- number of records thread `t` has in `applied c` -/
def recsOf (w : W) (t c : Nat) : Nat := ((w.applied c).filter (fun r => r.tid = t)).length

structure InvT (w0 w : W) : Prop where
  /-- the chunk being committed is the head of the thread's `todo` -/
  head : ∀ t c, workChunk (w.pc t) = some c → ∃ rest, w.todo t = c :: rest
  /-- records + remaining occurrences = initial occurrences (+1 while the commit is applied but
      its chunk not yet popped from `todo`) -/
  count : ∀ t c, recsOf w t c + (w.todo t).count c = (w0.todo t).count c + inflight (w.pc t) c
  /-- the programs' deltas never change, and every record carries the delta of its thread -/
  delta : ∀ t, w.delta t = w0.delta t
  rec_delta : ∀ c, ∀ r ∈ w.applied c, r.delta = w0.delta r.tid

theorem init_invT {w : W} (hi : Init w) : InvT w w := by
  constructor
  · intro t c h; rw [hi.pc] at h; simp [workChunk, wchunk] at h
  · intro t c; unfold recsOf; rw [hi.applied, hi.pc]; simp [inflight]
  · intro t; rfl
  · intro c r hr; rw [hi.applied] at hr; simp at hr

theorem count_tail_cons (c d : Nat) (l : List Nat) :
    (d :: l).count c = (if d = c then 1 else 0) + l.count c := by
  by_cases h : d = c
  · subst h; simp; omega
  · simp [h]

theorem step_invT {cfg : ProtoCfg} {merge : Nat → Nat → Nat} {w0 w w' : W}
    (h : InvT w0 w) (hs : Step cfg merge w w') : InvT w0 w' := by
  obtain ⟨h1, h2, h3, h4⟩ := h
  cases hs with
  | acquire t c id hpc hh hrd =>
    cases id <;> constructor <;> intros <;> simp only [setPc, recsOf] at * <;>
    grind [workChunk, wchunk, inflight]
  | release t c id hpc => 
    obtain ⟨rest, hrest⟩ := h1 t c (by rw [hpc]; rfl)
    have := h2 t
    constructor <;> intros <;> simp only [setPc, recsOf] at * <;>
    grind [workChunk, wchunk, inflight, count_tail_cons]
  | _ => constructor <;> intros <;> simp only [setPc, recsOf] at * <;>
    grind [workChunk, wchunk, inflight]


/-! ### all invariants along every run -/

/-- the invariants that hold for every protocol configuration -/
structure Inv (merge : Nat → Nat → Nat) (w0 w : W) : Prop where
  m : InvM w
  wr : InvW w
  rd : InvRd w
  acc : InvAcc merge w0 w
  ids : InvIds w0 w
  str : InvS w
  todo : InvT w0 w

theorem init_inv (merge : Nat → Nat → Nat) {w : W} (hi : Init w) : Inv merge w w :=
  ⟨init_invM hi, init_invW hi, init_invRd hi, init_invAcc merge hi, init_invIds hi, init_invS hi,
    init_invT hi⟩

theorem step_inv {cfg : ProtoCfg} {merge : Nat → Nat → Nat} {w0 w w' : W} (h : Inv merge w0 w)
    (hs : Step cfg merge w w') : Inv merge w0 w' :=
  ⟨step_invM h.m hs, step_invW h.m h.wr hs, step_invRd h.m h.wr h.rd hs, step_invAcc h.m h.acc hs,
    step_invIds h.ids hs, step_invS h.m h.str hs, step_invT h.todo hs⟩

theorem reach_inv {cfg : ProtoCfg} {merge : Nat → Nat → Nat} {w0 w : W} (hi : Init w0)
    (hr : Reach cfg merge w0 w) : Inv merge w0 w := by
  induction hr with
  | refl => exact init_inv merge hi
  | step _ hs ih => exact step_inv ih hs

theorem reach_invDesc {cfg : ProtoCfg} {merge : Nat → Nat → Nat} {w0 w : W}
    (hc : cfg.idInsideLatch = true) (hi : Init w0) (hr : Reach cfg merge w0 w) : InvDesc w := by
  induction hr with
  | refl => exact init_invDesc hi
  | step hr' hs ih =>
    have h := reach_inv hi hr'
    exact step_invDesc hc h.m h.ids ih hs


/-! ### a concrete world and run (non-vacuity witness shared by the property files) -/

namespace Demo

/-- threads 0 and 1 each commit chunk 0 (delta 5); every other thread only reads -/
def w0 : W where
  next := 0
  holder := fun _ => none
  readers := fun _ => []
  colA := fun _ => 0
  colB := fun _ => 0
  acc := fun _ => 0
  applied := fun _ => []
  stream := []
  obs := []
  pc := fun _ => .idle
  todo := fun t => if t < 2 then [0] else []
  delta := fun _ => 5

theorem init_w0 : Init w0 :=
  ⟨fun _ => rfl, fun _ => rfl, fun _ => rfl, rfl, rfl, fun _ => rfl, fun _ => rfl⟩

/-- thread 0 commits chunk 0 (id 1) — 9 steps —, then thread 2 reads chunk 0 — 4 steps -/
theorem run_good (cfg : ProtoCfg) (h : cfg.idInsideLatch = true) (merge : Nat → Nat → Nat) :
    ∃ w, Reach cfg merge w0 w ∧ idsOf w 0 = [1] ∧ w.stream = [(0, 1)] ∧ w.obs = [(0, 1, 1)] ∧
      w.acc 0 = merge 0 5 ∧ w.applied 0 = [⟨0, 1, 5⟩] ∧ w.pc 0 = .idle ∧ w.todo 0 = [] := by
  have r1 := Reach.step (Reach.refl (cfg := cfg) (merge := merge) (w0 := w0))
    (Step.begin w0 0 0 [] rfl rfl h)
  have r2 := Reach.step r1 (Step.acquire _ 0 0 none rfl rfl rfl)
  have r3 := Reach.step r2 (Step.draw _ 0 0 rfl)
  have r4 := Reach.step r3 (Step.load _ 0 0 1 rfl)
  have r5 := Reach.step r4 (Step.storeAcc _ 0 0 1 0 rfl)
  have r6 := Reach.step r5 (Step.writeA _ 0 0 1 rfl)
  have r7 := Reach.step r6 (Step.writeB _ 0 0 1 rfl)
  have r8 := Reach.step r7 (Step.emit _ 0 0 1 rfl)
  have r9 := Reach.step r8 (Step.release _ 0 0 1 rfl)
  have r10 := Reach.step r9 (Step.racquire _ 2 0 rfl rfl rfl)
  have r11 := Reach.step r10 (Step.rreadA _ 2 0 rfl)
  have r12 := Reach.step r11 (Step.rreadB _ 2 0 1 rfl)
  have r13 := Reach.step r12 (Step.rrelease _ 2 0 1 1 rfl)
  exact ⟨_, r13, rfl, rfl, rfl, rfl, rfl, rfl, rfl⟩

end Demo

end ColumnVerif.Conc
