import ColumnVerif.Conc.SnapMachine
/-!
# Invariants of the snapshot machine (all schedules) — property C08

Same style as `Conc/Invariants.lean`: every invariant is a `structure` of ∀-clauses with an `init_…`
lemma and a `step_…` lemma; `reach_inv` carries the bundle `Inv` along every run.

Proof engineering:
* the clauses talk about program counters through Prop-valued *views* (`InLatch p c`, `IsHeld p c`,
  `IsDrawn p c id`, `IsPost p c id`, …) so that every clause has a single-term E-matching pattern
  (`IsDrawn (w.pc t) c id`); clauses written as `w.pc t = .drawn c id → …` give `grind` only the
  multi-pattern `{w.pc t, .drawn c id}`, which explodes;
* `step_inv…` is split into one lemma per `Step` constructor (each a few seconds at most). Every one
  of them has the same shape: the facts about the acting thread (`InLatch (w.pc t) c`, …) are stated
  up front, then `constructor <;> intros <;> simp only [setPc] at * <;> grind […]`. Two steps need a
  hand-proved key fact first: `appendLog` (the appended id is newer than the id read) and `sRead`
  (nothing logged is newer than the id read).

The invariants:
* `InvM`   latch mutual exclusion;
* `InvC`   per chunk: content strictly decreasing, ids in `(0, next]`, `lastId` = head of the content
           or the id drawn and not yet applied;
* `InvL`   the log restricted to a chunk is strictly decreasing and contained in the content;
* `InvR`   recorder flag ↔ `spc = opened _`; what `readChunk` stored is a suffix of the content;
* `InvN`   the key lemma: (logged ids of `c` newer than the id read) ++ (content read) is a suffix of
           the content of `c`, and *equal* to the content (minus the commit of the current holder
           that is applied but not yet appended) while the recorder is on / for a writer that saw it on;
* `InvCut` after `sCopy`: the restored block is a suffix of `contentAtCopy`, which is a suffix of
           the content;
* `InvD`   `doneBeforeOpen c` is a suffix of the finished part of the content, and of what was read.

"Suffix" (`<:+`) because lists are most-recent-first: a suffix is the chunk after a prefix of its
commits in apply order.
-/
namespace ColumnVerif.Conc.Snap

-- the hypotheses of the per-constructor step lemmas are used by `grind` through the context
set_option linter.unusedVariables false

/-! ### classification of program counters -/

/-- the chunk whose write latch the pc implies -/
def latchChunk : WPC → Option Nat
  | .held c => some c
  | .drawn c _ => some c
  | .applied c _ => some c
  | .sawRecorder c _ _ => some c
  | .recorded c _ => some c
  | _ => none

/-- (chunk, id) of a commit that is applied while its latch section has not finished -/
def postId : WPC → Option (Nat × Nat)
  | .applied c id => some (c, id)
  | .sawRecorder c id _ => some (c, id)
  | .recorded c id => some (c, id)
  | _ => none

/-- (chunk, id) of a commit that is applied and whose log append is still open -/
def pendLog : WPC → Option (Nat × Nat)
  | .applied c id => some (c, id)
  | .sawRecorder c id _ => some (c, id)
  | _ => none

/-- the commit of the pc is applied (content extended), latch not yet released -/
def isPost : WPC → Bool
  | .applied _ _ => true
  | .sawRecorder _ _ _ => true
  | .recorded _ _ => true
  | _ => false

/-! Prop-valued views of a pc (single-term E-matching patterns for `grind`) -/

/-- the pc is inside the latch section of `c` -/
def InLatch (p : WPC) (c : Nat) : Prop := latchChunk p = some c
def IsHeld (p : WPC) (c : Nat) : Prop := p = .held c
def IsDrawn (p : WPC) (c id : Nat) : Prop := p = .drawn c id
def IsApplied (p : WPC) (c id : Nat) : Prop := p = .applied c id
def IsRecorded (p : WPC) (c id : Nat) : Prop := p = .recorded c id
/-- applied, latch section not finished -/
def IsPost (p : WPC) (c id : Nat) : Prop := postId p = some (c, id)
/-- applied, log append still open -/
def IsPend (p : WPC) (c id : Nat) : Prop := pendLog p = some (c, id)
def SawOn (p : WPC) (c id : Nat) : Prop := p = .sawRecorder c id true
def SawOff (p : WPC) (c id : Nat) : Prop := p = .sawRecorder c id false

theorem IsHeld.latch {p : WPC} {c : Nat} (h : IsHeld p c) : InLatch p c := by
  simp_all [IsHeld, InLatch, latchChunk]
theorem IsDrawn.latch {p : WPC} {c id : Nat} (h : IsDrawn p c id) : InLatch p c := by
  simp_all [IsDrawn, InLatch, latchChunk]
theorem IsApplied.latch {p : WPC} {c id : Nat} (h : IsApplied p c id) : InLatch p c := by
  simp_all [IsApplied, InLatch, latchChunk]
theorem IsRecorded.latch {p : WPC} {c id : Nat} (h : IsRecorded p c id) : InLatch p c := by
  simp_all [IsRecorded, InLatch, latchChunk]
theorem SawOn.latch {p : WPC} {c id : Nat} (h : SawOn p c id) : InLatch p c := by
  simp_all [SawOn, InLatch, latchChunk]
theorem SawOff.latch {p : WPC} {c id : Nat} (h : SawOff p c id) : InLatch p c := by
  simp_all [SawOff, InLatch, latchChunk]
theorem IsPost.latch {p : WPC} {c id : Nat} (h : IsPost p c id) : InLatch p c := by
  cases p <;> simp_all [IsPost, postId, InLatch, latchChunk]
theorem IsPend.latch {p : WPC} {c id : Nat} (h : IsPend p c id) : InLatch p c := by
  cases p <;> simp_all [IsPend, pendLog, InLatch, latchChunk]
theorem IsPend.post {p : WPC} {c id : Nat} (h : IsPend p c id) : IsPost p c id := by
  cases p <;> simp_all [IsPend, pendLog, IsPost, postId]
theorem SawOn.pend {p : WPC} {c id : Nat} (h : SawOn p c id) : IsPend p c id := by
  simp_all [SawOn, IsPend, pendLog]
theorem IsApplied.pend {p : WPC} {c id : Nat} (h : IsApplied p c id) : IsPend p c id := by
  simp_all [IsApplied, IsPend, pendLog]

theorem setPc_self (w : W) (t : Nat) (p : WPC) : setPc w t p t = p := by simp [setPc]
theorem setPc_ne (w : W) {t u : Nat} (p : WPC) (h : u ≠ t) : setPc w t p u = w.pc u := by
  simp [setPc, h]

/-- a projection of the pc that the step of thread `t` does not change is unchanged for all threads -/
theorem proj_setPc {α : Type} (f : WPC → α) {w : W} {t : Nat} {p : WPC} (h : f p = f (w.pc t))
    (u : Nat) : f (setPc w t p u) = f (w.pc u) := by
  unfold setPc
  by_cases hut : u = t
  · subst hut; simp [h]
  · simp [hut]

/-- ids logged for chunk `c`, most recent first -/
def logOf (log : List (Nat × Nat)) (c : Nat) : List Nat := (log.filter (fun p => p.1 = c)).map (·.2)

/-- ids logged for chunk `c` that are newer than `l`, most recent first (what `Restore` replays) -/
def newer (log : List (Nat × Nat)) (c l : Nat) : List Nat :=
  (log.filter (fun p => p.1 = c ∧ p.2 > l)).map (·.2)

theorem logOf_cons_same (log : List (Nat × Nat)) (c id : Nat) :
    logOf ((c, id) :: log) c = id :: logOf log c := by simp [logOf]

theorem logOf_cons_ne (log : List (Nat × Nat)) {c d : Nat} (id : Nat) (h : c ≠ d) :
    logOf ((c, id) :: log) d = logOf log d := by simp [logOf, h]

theorem newer_cons_same (log : List (Nat × Nat)) {c id l : Nat} (h : l < id) :
    newer ((c, id) :: log) c l = id :: newer log c l := by simp [newer, h]

theorem newer_cons_ne (log : List (Nat × Nat)) {c d : Nat} (id l : Nat) (h : c ≠ d) :
    newer ((c, id) :: log) d l = newer log d l := by simp [newer, h]

theorem mem_logOf_of_mem_newer {log : List (Nat × Nat)} {c l x : Nat} (h : x ∈ newer log c l) :
    x ∈ logOf log c ∧ l < x := by
  simp only [newer, logOf, List.mem_map, List.mem_filter, decide_eq_true_eq] at *
  obtain ⟨p, ⟨hp, h1, h2⟩, rfl⟩ := h
  exact ⟨⟨p, ⟨hp, h1⟩, rfl⟩, h2⟩

theorem newer_eq_nil {log : List (Nat × Nat)} {c l : Nat} (h : ∀ x ∈ logOf log c, x ≤ l) :
    newer log c l = [] := by
  cases hn : newer log c l with
  | nil => rfl
  | cons x xs =>
    have hx : x ∈ newer log c l := by rw [hn]; simp
    have := mem_logOf_of_mem_newer hx
    have := h x this.1
    omega

theorem restored_eq {w : W} {c l : Nat} {cont : List Nat} (h : w.snapRead c = some (l, cont)) :
    restored w c = some (newer w.snapLog c l ++ cont) := by
  unfold restored; rw [h]; rfl

/-! ### N1 — mutual exclusion of the chunk latch -/

structure InvM (w : W) : Prop where
  /-- a writer inside the latch section of `c` is the holder of `c` -/
  whold : ∀ t c, InLatch (w.pc t) c → w.holder c = some t
  /-- the holder of `c` is inside the latch section of `c` -/
  hpc : ∀ t c, w.holder c = some t → InLatch (w.pc t) c

theorem init_invM {w : W} (hi : Init w) : InvM w := by
  constructor
  · intro t c h; rw [hi.pc] at h; simp [InLatch, latchChunk] at h
  · intro t c h; rw [hi.holder] at h; simp at h

theorem step_invM_begin {w : W} (h : InvM w) (t c : Nat) (rest : List Nat)
    (hpc : w.pc t = .idle) (htodo : w.todo t = c :: rest) :
    InvM { w with pc := setPc w t (.pre c) } := by
  obtain ⟨h1, h2⟩ := h
  constructor <;> intros <;> simp only [setPc] at * <;>
    grind [InLatch, latchChunk]

theorem step_invM_acquire {w : W} (h : InvM w) (t c : Nat)
    (hpc : w.pc t = .pre c) (hh : w.holder c = none) :
    InvM { w with holder := fun d => if d = c then some t else w.holder d, pc := setPc w t (.held c) } := by
  obtain ⟨h1, h2⟩ := h
  constructor <;> intros <;> simp only [setPc] at * <;>
    grind [InLatch, latchChunk]

theorem step_invM_draw {w : W} (h : InvM w) (t c : Nat)
    (hpc : w.pc t = .held c) :
    InvM { w with next := w.next + 1, lastId := fun d => if d = c then w.next + 1 else w.lastId d, pc := setPc w t (.drawn c (w.next + 1)) } := by
  have f0 : InLatch (w.pc t) c := by simp only [hpc, InLatch, latchChunk]
  have f1 : IsHeld (w.pc t) c := by simp only [hpc, IsHeld]
  obtain ⟨h1, h2⟩ := h
  constructor <;> intros <;> simp only [setPc] at * <;>
    grind [InLatch, latchChunk]

theorem step_invM_apply {w : W} (h : InvM w) (t c id : Nat)
    (hpc : w.pc t = .drawn c id) :
    InvM { w with content := fun d => if d = c then id :: w.content d else w.content d, pc := setPc w t (.applied c id) } := by
  have f0 : InLatch (w.pc t) c := by simp only [hpc, InLatch, latchChunk]
  have f1 : IsDrawn (w.pc t) c id := by simp only [hpc, IsDrawn]
  obtain ⟨h1, h2⟩ := h
  constructor <;> intros <;> simp only [setPc] at * <;>
    grind [InLatch, latchChunk]

theorem step_invM_loadRecorder {w : W} (h : InvM w) (t c id : Nat)
    (hpc : w.pc t = .applied c id) :
    InvM { w with pc := setPc w t (.sawRecorder c id w.recorder) } := by
  have f0 : InLatch (w.pc t) c := by simp only [hpc, InLatch, latchChunk]
  have f1 : IsApplied (w.pc t) c id := by simp only [hpc, IsApplied]
  have f2 : IsPost (w.pc t) c id := by simp only [hpc, IsPost, postId]
  have f3 : IsPend (w.pc t) c id := by simp only [hpc, IsPend, pendLog]
  obtain ⟨h1, h2⟩ := h
  constructor <;> intros <;> simp only [setPc] at * <;>
    grind [InLatch, latchChunk]

theorem step_invM_appendLog {w : W} (h : InvM w) (t c id : Nat)
    (hpc : w.pc t = .sawRecorder c id true) :
    InvM { w with log := (c, id) :: w.log, pc := setPc w t (.recorded c id) } := by
  have f0 : InLatch (w.pc t) c := by simp only [hpc, InLatch, latchChunk]
  have f1 : SawOn (w.pc t) c id := by simp only [hpc, SawOn]
  have f2 : IsPost (w.pc t) c id := by simp only [hpc, IsPost, postId]
  have f3 : IsPend (w.pc t) c id := by simp only [hpc, IsPend, pendLog]
  obtain ⟨h1, h2⟩ := h
  constructor <;> intros <;> simp only [setPc] at * <;>
    grind [InLatch, latchChunk]

theorem step_invM_skipLog {w : W} (h : InvM w) (t c id : Nat)
    (hpc : w.pc t = .sawRecorder c id false) :
    InvM { w with pc := setPc w t (.recorded c id) } := by
  have f0 : InLatch (w.pc t) c := by simp only [hpc, InLatch, latchChunk]
  have f1 : SawOff (w.pc t) c id := by simp only [hpc, SawOff]
  have f2 : IsPost (w.pc t) c id := by simp only [hpc, IsPost, postId]
  have f3 : IsPend (w.pc t) c id := by simp only [hpc, IsPend, pendLog]
  obtain ⟨h1, h2⟩ := h
  constructor <;> intros <;> simp only [setPc] at * <;>
    grind [InLatch, latchChunk]

theorem step_invM_release {w : W} (h : InvM w) (t c id : Nat)
    (hpc : w.pc t = .recorded c id) :
    InvM { w with holder := fun d => if d = c then none else w.holder d, pc := setPc w t .idle, todo := fun u => if u = t then (w.todo u).tail else w.todo u } := by
  have f0 : InLatch (w.pc t) c := by simp only [hpc, InLatch, latchChunk]
  have f1 : IsRecorded (w.pc t) c id := by simp only [hpc, IsRecorded]
  have f2 : IsPost (w.pc t) c id := by simp only [hpc, IsPost, postId]
  obtain ⟨h1, h2⟩ := h
  constructor <;> intros <;> simp only [setPc] at * <;>
    grind [InLatch, latchChunk]

theorem step_invM_sOpen {w : W} (h : InvM w) (chunks : List Nat)
    (hspc : w.spc = .notStarted) :
    InvM { w with recorder := true, spc := .opened chunks, doneBeforeOpen := fun c => finishedOf w c } := by
  obtain ⟨h1, h2⟩ := h
  constructor <;> intros <;>
    grind [InLatch, latchChunk]

theorem step_invM_sRead {w : W} (h : InvM w) (c : Nat) (rest : List Nat)
    (hspc : w.spc = .opened (c :: rest)) (hh : w.holder c = none) :
    InvM { w with snapRead := fun d => if d = c then some (w.lastId c, w.content c) else w.snapRead d, spc := .opened rest } := by
  obtain ⟨h1, h2⟩ := h
  constructor <;> intros <;>
    grind [InLatch, latchChunk]

theorem step_invM_sClose {w : W} (h : InvM w) 
    (hspc : w.spc = .opened []) :
    InvM { w with recorder := false, spc := .closed } := by
  obtain ⟨h1, h2⟩ := h
  constructor <;> intros <;>
    grind [InLatch, latchChunk]

theorem step_invM_sCopy {w : W} (h : InvM w) 
    (hspc : w.spc = .closed) :
    InvM { w with snapLog := w.log, spc := .copied, contentAtCopy := w.content } := by
  obtain ⟨h1, h2⟩ := h
  constructor <;> intros <;>
    grind [InLatch, latchChunk]

theorem step_invM {w w' : W} (h : InvM w) (hs : Step w w') : InvM w' := by
  cases hs with
  | begin t c rest hpc htodo => exact step_invM_begin h t c rest hpc htodo
  | acquire t c hpc hh => exact step_invM_acquire h t c hpc hh
  | draw t c hpc => exact step_invM_draw h t c hpc
  | apply t c id hpc => exact step_invM_apply h t c id hpc
  | loadRecorder t c id hpc => exact step_invM_loadRecorder h t c id hpc
  | appendLog t c id hpc => exact step_invM_appendLog h t c id hpc
  | skipLog t c id hpc => exact step_invM_skipLog h t c id hpc
  | release t c id hpc => exact step_invM_release h t c id hpc
  | sOpen chunks hspc => exact step_invM_sOpen h chunks hspc
  | sRead c rest hspc hh => exact step_invM_sRead h c rest hspc hh
  | sClose hspc => exact step_invM_sClose h hspc
  | sCopy hspc => exact step_invM_sCopy h hspc

theorem InvM.unique {w : W} (h : InvM w) {t u c : Nat} (ht : InLatch (w.pc t) c)
    (hu : InLatch (w.pc u) c) : t = u := by
  have a := h.whold t c ht
  have b := h.whold u c hu
  rw [a] at b; simpa using b

/-! ### N1 — content, ids, `lastId` -/

structure InvC (w : W) : Prop where
  sorted : ∀ c, (w.content c).Pairwise (· > ·)
  pos : ∀ c, ∀ x ∈ w.content c, 0 < x
  bound : ∀ c, ∀ x ∈ w.content c, x ≤ w.next
  /-- no writer, or a writer that has not drawn its id yet: `lastId` is the head of the content -/
  last_free : ∀ c, w.holder c = none → w.lastId c = (w.content c).headD 0
  last_held : ∀ t c, IsHeld (w.pc t) c → w.lastId c = (w.content c).headD 0
  /-- id drawn, not yet applied: `lastId` is that id, and it is above everything applied -/
  drawn_last : ∀ t c id, IsDrawn (w.pc t) c id → w.lastId c = id
  drawn_le : ∀ t c id, IsDrawn (w.pc t) c id → id ≤ w.next
  drawn_pos : ∀ t c id, IsDrawn (w.pc t) c id → 0 < id
  drawn_gt : ∀ t c id x, IsDrawn (w.pc t) c id → x ∈ w.content c → x < id
  /-- applied, latch not yet released: the id is `lastId` and the head of the content -/
  post_last : ∀ t c id, IsPost (w.pc t) c id → w.lastId c = id
  post_head : ∀ t c id, IsPost (w.pc t) c id → (w.content c).head? = some id

theorem init_invC {w : W} (hi : Init w) : InvC w := by
  constructor
  · intro c; exact (hi.content_ok c).2.2.1
  · intro c; exact (hi.content_ok c).2.2.2
  · intro c; exact (hi.content_ok c).1
  · intro c _; exact (hi.content_ok c).2.1
  all_goals (intros; simp_all [hi.pc, IsHeld, IsDrawn, IsPost, postId])

theorem step_invC_begin {w : W} (hm : InvM w) (h : InvC w) (t c : Nat) (rest : List Nat)
    (hpc : w.pc t = .idle) (htodo : w.todo t = c :: rest) :
    InvC { w with pc := setPc w t (.pre c) } := by
  obtain ⟨m1, m2⟩ := hm
  obtain ⟨h1, h2, h3, h4, h5, h6, h7, h8, h9, h10, h11⟩ := h
  constructor <;> intros <;> simp only [setPc] at * <;>
    grind [InLatch, latchChunk, IsHeld, IsDrawn, IsPost, postId, List.pairwise_cons,
      → IsHeld.latch, → IsDrawn.latch, → IsPost.latch]

theorem step_invC_acquire {w : W} (hm : InvM w) (h : InvC w) (t c : Nat)
    (hpc : w.pc t = .pre c) (hh : w.holder c = none) :
    InvC { w with holder := fun d => if d = c then some t else w.holder d, pc := setPc w t (.held c) } := by
  obtain ⟨m1, m2⟩ := hm
  obtain ⟨h1, h2, h3, h4, h5, h6, h7, h8, h9, h10, h11⟩ := h
  constructor <;> intros <;> simp only [setPc] at * <;>
    grind [InLatch, latchChunk, IsHeld, IsDrawn, IsPost, postId, List.pairwise_cons,
      → IsHeld.latch, → IsDrawn.latch, → IsPost.latch]

theorem step_invC_draw {w : W} (hm : InvM w) (h : InvC w) (t c : Nat)
    (hpc : w.pc t = .held c) :
    InvC { w with next := w.next + 1, lastId := fun d => if d = c then w.next + 1 else w.lastId d, pc := setPc w t (.drawn c (w.next + 1)) } := by
  have f0 : InLatch (w.pc t) c := by simp only [hpc, InLatch, latchChunk]
  have f1 : IsHeld (w.pc t) c := by simp only [hpc, IsHeld]
  obtain ⟨m1, m2⟩ := hm
  obtain ⟨h1, h2, h3, h4, h5, h6, h7, h8, h9, h10, h11⟩ := h
  constructor <;> intros <;> simp only [setPc] at * <;>
    grind [InLatch, latchChunk, IsHeld, IsDrawn, IsPost, postId, List.pairwise_cons,
      → IsHeld.latch, → IsDrawn.latch, → IsPost.latch]

theorem step_invC_apply {w : W} (hm : InvM w) (h : InvC w) (t c id : Nat)
    (hpc : w.pc t = .drawn c id) :
    InvC { w with content := fun d => if d = c then id :: w.content d else w.content d, pc := setPc w t (.applied c id) } := by
  have f0 : InLatch (w.pc t) c := by simp only [hpc, InLatch, latchChunk]
  have f1 : IsDrawn (w.pc t) c id := by simp only [hpc, IsDrawn]
  obtain ⟨m1, m2⟩ := hm
  obtain ⟨h1, h2, h3, h4, h5, h6, h7, h8, h9, h10, h11⟩ := h
  constructor <;> intros <;> simp only [setPc] at * <;>
    grind [InLatch, latchChunk, IsHeld, IsDrawn, IsPost, postId, List.pairwise_cons,
      → IsHeld.latch, → IsDrawn.latch, → IsPost.latch]

theorem step_invC_loadRecorder {w : W} (hm : InvM w) (h : InvC w) (t c id : Nat)
    (hpc : w.pc t = .applied c id) :
    InvC { w with pc := setPc w t (.sawRecorder c id w.recorder) } := by
  have f0 : InLatch (w.pc t) c := by simp only [hpc, InLatch, latchChunk]
  have f1 : IsApplied (w.pc t) c id := by simp only [hpc, IsApplied]
  have f2 : IsPost (w.pc t) c id := by simp only [hpc, IsPost, postId]
  have f3 : IsPend (w.pc t) c id := by simp only [hpc, IsPend, pendLog]
  obtain ⟨m1, m2⟩ := hm
  obtain ⟨h1, h2, h3, h4, h5, h6, h7, h8, h9, h10, h11⟩ := h
  constructor <;> intros <;> simp only [setPc] at * <;>
    grind [InLatch, latchChunk, IsHeld, IsDrawn, IsPost, postId, List.pairwise_cons,
      → IsHeld.latch, → IsDrawn.latch, → IsPost.latch]

theorem step_invC_appendLog {w : W} (hm : InvM w) (h : InvC w) (t c id : Nat)
    (hpc : w.pc t = .sawRecorder c id true) :
    InvC { w with log := (c, id) :: w.log, pc := setPc w t (.recorded c id) } := by
  have f0 : InLatch (w.pc t) c := by simp only [hpc, InLatch, latchChunk]
  have f1 : SawOn (w.pc t) c id := by simp only [hpc, SawOn]
  have f2 : IsPost (w.pc t) c id := by simp only [hpc, IsPost, postId]
  have f3 : IsPend (w.pc t) c id := by simp only [hpc, IsPend, pendLog]
  obtain ⟨m1, m2⟩ := hm
  obtain ⟨h1, h2, h3, h4, h5, h6, h7, h8, h9, h10, h11⟩ := h
  constructor <;> intros <;> simp only [setPc] at * <;>
    grind [InLatch, latchChunk, IsHeld, IsDrawn, IsPost, postId, List.pairwise_cons,
      → IsHeld.latch, → IsDrawn.latch, → IsPost.latch]

theorem step_invC_skipLog {w : W} (hm : InvM w) (h : InvC w) (t c id : Nat)
    (hpc : w.pc t = .sawRecorder c id false) :
    InvC { w with pc := setPc w t (.recorded c id) } := by
  have f0 : InLatch (w.pc t) c := by simp only [hpc, InLatch, latchChunk]
  have f1 : SawOff (w.pc t) c id := by simp only [hpc, SawOff]
  have f2 : IsPost (w.pc t) c id := by simp only [hpc, IsPost, postId]
  have f3 : IsPend (w.pc t) c id := by simp only [hpc, IsPend, pendLog]
  obtain ⟨m1, m2⟩ := hm
  obtain ⟨h1, h2, h3, h4, h5, h6, h7, h8, h9, h10, h11⟩ := h
  constructor <;> intros <;> simp only [setPc] at * <;>
    grind [InLatch, latchChunk, IsHeld, IsDrawn, IsPost, postId, List.pairwise_cons,
      → IsHeld.latch, → IsDrawn.latch, → IsPost.latch]

theorem step_invC_release {w : W} (hm : InvM w) (h : InvC w) (t c id : Nat)
    (hpc : w.pc t = .recorded c id) :
    InvC { w with holder := fun d => if d = c then none else w.holder d, pc := setPc w t .idle, todo := fun u => if u = t then (w.todo u).tail else w.todo u } := by
  have f0 : InLatch (w.pc t) c := by simp only [hpc, InLatch, latchChunk]
  have f1 : IsRecorded (w.pc t) c id := by simp only [hpc, IsRecorded]
  have f2 : IsPost (w.pc t) c id := by simp only [hpc, IsPost, postId]
  obtain ⟨m1, m2⟩ := hm
  obtain ⟨h1, h2, h3, h4, h5, h6, h7, h8, h9, h10, h11⟩ := h
  constructor <;> intros <;> simp only [setPc] at * <;>
    grind [InLatch, latchChunk, IsHeld, IsDrawn, IsPost, postId, List.pairwise_cons,
      → IsHeld.latch, → IsDrawn.latch, → IsPost.latch]

theorem step_invC_sOpen {w : W} (hm : InvM w) (h : InvC w) (chunks : List Nat)
    (hspc : w.spc = .notStarted) :
    InvC { w with recorder := true, spc := .opened chunks, doneBeforeOpen := fun c => finishedOf w c } := by
  obtain ⟨m1, m2⟩ := hm
  obtain ⟨h1, h2, h3, h4, h5, h6, h7, h8, h9, h10, h11⟩ := h
  constructor <;> intros <;>
    grind [InLatch, latchChunk, IsHeld, IsDrawn, IsPost, postId, List.pairwise_cons,
      → IsHeld.latch, → IsDrawn.latch, → IsPost.latch]

theorem step_invC_sRead {w : W} (hm : InvM w) (h : InvC w) (c : Nat) (rest : List Nat)
    (hspc : w.spc = .opened (c :: rest)) (hh : w.holder c = none) :
    InvC { w with snapRead := fun d => if d = c then some (w.lastId c, w.content c) else w.snapRead d, spc := .opened rest } := by
  obtain ⟨m1, m2⟩ := hm
  obtain ⟨h1, h2, h3, h4, h5, h6, h7, h8, h9, h10, h11⟩ := h
  constructor <;> intros <;>
    grind [InLatch, latchChunk, IsHeld, IsDrawn, IsPost, postId, List.pairwise_cons,
      → IsHeld.latch, → IsDrawn.latch, → IsPost.latch]

theorem step_invC_sClose {w : W} (hm : InvM w) (h : InvC w) 
    (hspc : w.spc = .opened []) :
    InvC { w with recorder := false, spc := .closed } := by
  obtain ⟨m1, m2⟩ := hm
  obtain ⟨h1, h2, h3, h4, h5, h6, h7, h8, h9, h10, h11⟩ := h
  constructor <;> intros <;>
    grind [InLatch, latchChunk, IsHeld, IsDrawn, IsPost, postId, List.pairwise_cons,
      → IsHeld.latch, → IsDrawn.latch, → IsPost.latch]

theorem step_invC_sCopy {w : W} (hm : InvM w) (h : InvC w) 
    (hspc : w.spc = .closed) :
    InvC { w with snapLog := w.log, spc := .copied, contentAtCopy := w.content } := by
  obtain ⟨m1, m2⟩ := hm
  obtain ⟨h1, h2, h3, h4, h5, h6, h7, h8, h9, h10, h11⟩ := h
  constructor <;> intros <;>
    grind [InLatch, latchChunk, IsHeld, IsDrawn, IsPost, postId, List.pairwise_cons,
      → IsHeld.latch, → IsDrawn.latch, → IsPost.latch]

theorem step_invC {w w' : W} (hm : InvM w) (h : InvC w) (hs : Step w w') : InvC w' := by
  cases hs with
  | begin t c rest hpc htodo => exact step_invC_begin hm h t c rest hpc htodo
  | acquire t c hpc hh => exact step_invC_acquire hm h t c hpc hh
  | draw t c hpc => exact step_invC_draw hm h t c hpc
  | apply t c id hpc => exact step_invC_apply hm h t c id hpc
  | loadRecorder t c id hpc => exact step_invC_loadRecorder hm h t c id hpc
  | appendLog t c id hpc => exact step_invC_appendLog hm h t c id hpc
  | skipLog t c id hpc => exact step_invC_skipLog hm h t c id hpc
  | release t c id hpc => exact step_invC_release hm h t c id hpc
  | sOpen chunks hspc => exact step_invC_sOpen hm h chunks hspc
  | sRead c rest hspc hh => exact step_invC_sRead hm h c rest hspc hh
  | sClose hspc => exact step_invC_sClose hm h hspc
  | sCopy hspc => exact step_invC_sCopy hm h hspc

/-! ### N1 — the log of a chunk -/

theorem logOf_cons (log : List (Nat × Nat)) (c id d : Nat) :
    logOf ((c, id) :: log) d = if c = d then id :: logOf log d else logOf log d := by
  by_cases h : c = d <;> simp [logOf, h]

theorem newer_cons (log : List (Nat × Nat)) (c id d l : Nat) :
    newer ((c, id) :: log) d l = if c = d ∧ l < id then id :: newer log d l else newer log d l := by
  by_cases h : c = d ∧ l < id
  · simp [newer, h]
  · rw [if_neg h]; simp only [newer]; rw [List.filter_cons_of_neg]; simpa using h

theorem mem_of_head? {α : Type} {l : List α} {a : α} (h : l.head? = some a) : a ∈ l := by
  cases l with
  | nil => simp at h
  | cons b t => simp at h; simp [h]

structure InvL (w : W) : Prop where
  /-- the logged ids of a chunk are strictly decreasing (most recent first) -/
  sorted : ∀ c, (logOf w.log c).Pairwise (· > ·)
  /-- every logged commit of a chunk has been applied to it -/
  mem : ∀ c x, x ∈ logOf w.log c → x ∈ w.content c
  /-- the commit of a writer that has not appended yet is newer than everything logged for its chunk -/
  pend_gt : ∀ t c id x, IsPend (w.pc t) c id → x ∈ logOf w.log c → x < id

theorem init_invL {w : W} (hi : Init w) : InvL w := by
  constructor
  · intro c; rw [hi.log]; simp [logOf]
  · intro c x h; rw [hi.log] at h; simp [logOf] at h
  · intro t c id x h; rw [hi.pc] at h; simp [IsPend, pendLog] at h

theorem step_invL_begin {w : W} (hm : InvM w) (hc : InvC w) (h : InvL w) (t c : Nat) (rest : List Nat)
    (hpc : w.pc t = .idle) (htodo : w.todo t = c :: rest) :
    InvL { w with pc := setPc w t (.pre c) } := by
  obtain ⟨m1, m2⟩ := hm
  have c9 := hc.drawn_gt
  have c11 := hc.post_head
  clear hc
  obtain ⟨h1, h2, h3⟩ := h
  constructor <;> intros <;> simp only [setPc] at * <;>
    grind [IsPend, pendLog, IsDrawn, List.pairwise_cons, logOf_cons, mem_of_head?,
      → IsPend.latch, → IsPend.post, → IsDrawn.latch]

theorem step_invL_acquire {w : W} (hm : InvM w) (hc : InvC w) (h : InvL w) (t c : Nat)
    (hpc : w.pc t = .pre c) (hh : w.holder c = none) :
    InvL { w with holder := fun d => if d = c then some t else w.holder d, pc := setPc w t (.held c) } := by
  obtain ⟨m1, m2⟩ := hm
  have c9 := hc.drawn_gt
  have c11 := hc.post_head
  clear hc
  obtain ⟨h1, h2, h3⟩ := h
  constructor <;> intros <;> simp only [setPc] at * <;>
    grind [IsPend, pendLog, IsDrawn, List.pairwise_cons, logOf_cons, mem_of_head?,
      → IsPend.latch, → IsPend.post, → IsDrawn.latch]

theorem step_invL_draw {w : W} (hm : InvM w) (hc : InvC w) (h : InvL w) (t c : Nat)
    (hpc : w.pc t = .held c) :
    InvL { w with next := w.next + 1, lastId := fun d => if d = c then w.next + 1 else w.lastId d, pc := setPc w t (.drawn c (w.next + 1)) } := by
  have f0 : InLatch (w.pc t) c := by simp only [hpc, InLatch, latchChunk]
  have f1 : IsHeld (w.pc t) c := by simp only [hpc, IsHeld]
  obtain ⟨m1, m2⟩ := hm
  have c9 := hc.drawn_gt
  have c11 := hc.post_head
  clear hc
  obtain ⟨h1, h2, h3⟩ := h
  constructor <;> intros <;> simp only [setPc] at * <;>
    grind [IsPend, pendLog, IsDrawn, List.pairwise_cons, logOf_cons, mem_of_head?,
      → IsPend.latch, → IsPend.post, → IsDrawn.latch]

theorem step_invL_apply {w : W} (hm : InvM w) (hc : InvC w) (h : InvL w) (t c id : Nat)
    (hpc : w.pc t = .drawn c id) :
    InvL { w with content := fun d => if d = c then id :: w.content d else w.content d, pc := setPc w t (.applied c id) } := by
  have f0 : InLatch (w.pc t) c := by simp only [hpc, InLatch, latchChunk]
  have f1 : IsDrawn (w.pc t) c id := by simp only [hpc, IsDrawn]
  obtain ⟨m1, m2⟩ := hm
  have c9 := hc.drawn_gt
  have c11 := hc.post_head
  clear hc
  obtain ⟨h1, h2, h3⟩ := h
  constructor <;> intros <;> simp only [setPc] at * <;>
    grind [IsPend, pendLog, IsDrawn, List.pairwise_cons, logOf_cons, mem_of_head?,
      → IsPend.latch, → IsPend.post, → IsDrawn.latch]

theorem step_invL_loadRecorder {w : W} (hm : InvM w) (hc : InvC w) (h : InvL w) (t c id : Nat)
    (hpc : w.pc t = .applied c id) :
    InvL { w with pc := setPc w t (.sawRecorder c id w.recorder) } := by
  have f0 : InLatch (w.pc t) c := by simp only [hpc, InLatch, latchChunk]
  have f1 : IsApplied (w.pc t) c id := by simp only [hpc, IsApplied]
  have f2 : IsPost (w.pc t) c id := by simp only [hpc, IsPost, postId]
  have f3 : IsPend (w.pc t) c id := by simp only [hpc, IsPend, pendLog]
  obtain ⟨m1, m2⟩ := hm
  have c9 := hc.drawn_gt
  have c11 := hc.post_head
  clear hc
  obtain ⟨h1, h2, h3⟩ := h
  constructor <;> intros <;> simp only [setPc] at * <;>
    grind [IsPend, pendLog, IsDrawn, List.pairwise_cons, logOf_cons, mem_of_head?,
      → IsPend.latch, → IsPend.post, → IsDrawn.latch]

theorem step_invL_appendLog {w : W} (hm : InvM w) (hc : InvC w) (h : InvL w) (t c id : Nat)
    (hpc : w.pc t = .sawRecorder c id true) :
    InvL { w with log := (c, id) :: w.log, pc := setPc w t (.recorded c id) } := by
  have f0 : InLatch (w.pc t) c := by simp only [hpc, InLatch, latchChunk]
  have f1 : SawOn (w.pc t) c id := by simp only [hpc, SawOn]
  have f2 : IsPost (w.pc t) c id := by simp only [hpc, IsPost, postId]
  have f3 : IsPend (w.pc t) c id := by simp only [hpc, IsPend, pendLog]
  obtain ⟨m1, m2⟩ := hm
  have c9 := hc.drawn_gt
  have c11 := hc.post_head
  clear hc
  obtain ⟨h1, h2, h3⟩ := h
  constructor <;> intros <;> simp only [setPc] at * <;>
    grind [IsPend, pendLog, IsDrawn, List.pairwise_cons, logOf_cons, mem_of_head?,
      → IsPend.latch, → IsPend.post, → IsDrawn.latch]

theorem step_invL_skipLog {w : W} (hm : InvM w) (hc : InvC w) (h : InvL w) (t c id : Nat)
    (hpc : w.pc t = .sawRecorder c id false) :
    InvL { w with pc := setPc w t (.recorded c id) } := by
  have f0 : InLatch (w.pc t) c := by simp only [hpc, InLatch, latchChunk]
  have f1 : SawOff (w.pc t) c id := by simp only [hpc, SawOff]
  have f2 : IsPost (w.pc t) c id := by simp only [hpc, IsPost, postId]
  have f3 : IsPend (w.pc t) c id := by simp only [hpc, IsPend, pendLog]
  obtain ⟨m1, m2⟩ := hm
  have c9 := hc.drawn_gt
  have c11 := hc.post_head
  clear hc
  obtain ⟨h1, h2, h3⟩ := h
  constructor <;> intros <;> simp only [setPc] at * <;>
    grind [IsPend, pendLog, IsDrawn, List.pairwise_cons, logOf_cons, mem_of_head?,
      → IsPend.latch, → IsPend.post, → IsDrawn.latch]

theorem step_invL_release {w : W} (hm : InvM w) (hc : InvC w) (h : InvL w) (t c id : Nat)
    (hpc : w.pc t = .recorded c id) :
    InvL { w with holder := fun d => if d = c then none else w.holder d, pc := setPc w t .idle, todo := fun u => if u = t then (w.todo u).tail else w.todo u } := by
  have f0 : InLatch (w.pc t) c := by simp only [hpc, InLatch, latchChunk]
  have f1 : IsRecorded (w.pc t) c id := by simp only [hpc, IsRecorded]
  have f2 : IsPost (w.pc t) c id := by simp only [hpc, IsPost, postId]
  obtain ⟨m1, m2⟩ := hm
  have c9 := hc.drawn_gt
  have c11 := hc.post_head
  clear hc
  obtain ⟨h1, h2, h3⟩ := h
  constructor <;> intros <;> simp only [setPc] at * <;>
    grind [IsPend, pendLog, IsDrawn, List.pairwise_cons, logOf_cons, mem_of_head?,
      → IsPend.latch, → IsPend.post, → IsDrawn.latch]

theorem step_invL_sOpen {w : W} (hm : InvM w) (hc : InvC w) (h : InvL w) (chunks : List Nat)
    (hspc : w.spc = .notStarted) :
    InvL { w with recorder := true, spc := .opened chunks, doneBeforeOpen := fun c => finishedOf w c } := by
  obtain ⟨m1, m2⟩ := hm
  have c9 := hc.drawn_gt
  have c11 := hc.post_head
  clear hc
  obtain ⟨h1, h2, h3⟩ := h
  constructor <;> intros <;>
    grind [IsPend, pendLog, IsDrawn, List.pairwise_cons, logOf_cons, mem_of_head?,
      → IsPend.latch, → IsPend.post, → IsDrawn.latch]

theorem step_invL_sRead {w : W} (hm : InvM w) (hc : InvC w) (h : InvL w) (c : Nat) (rest : List Nat)
    (hspc : w.spc = .opened (c :: rest)) (hh : w.holder c = none) :
    InvL { w with snapRead := fun d => if d = c then some (w.lastId c, w.content c) else w.snapRead d, spc := .opened rest } := by
  obtain ⟨m1, m2⟩ := hm
  have c9 := hc.drawn_gt
  have c11 := hc.post_head
  clear hc
  obtain ⟨h1, h2, h3⟩ := h
  constructor <;> intros <;>
    grind [IsPend, pendLog, IsDrawn, List.pairwise_cons, logOf_cons, mem_of_head?,
      → IsPend.latch, → IsPend.post, → IsDrawn.latch]

theorem step_invL_sClose {w : W} (hm : InvM w) (hc : InvC w) (h : InvL w) 
    (hspc : w.spc = .opened []) :
    InvL { w with recorder := false, spc := .closed } := by
  obtain ⟨m1, m2⟩ := hm
  have c9 := hc.drawn_gt
  have c11 := hc.post_head
  clear hc
  obtain ⟨h1, h2, h3⟩ := h
  constructor <;> intros <;>
    grind [IsPend, pendLog, IsDrawn, List.pairwise_cons, logOf_cons, mem_of_head?,
      → IsPend.latch, → IsPend.post, → IsDrawn.latch]

theorem step_invL_sCopy {w : W} (hm : InvM w) (hc : InvC w) (h : InvL w) 
    (hspc : w.spc = .closed) :
    InvL { w with snapLog := w.log, spc := .copied, contentAtCopy := w.content } := by
  obtain ⟨m1, m2⟩ := hm
  have c9 := hc.drawn_gt
  have c11 := hc.post_head
  clear hc
  obtain ⟨h1, h2, h3⟩ := h
  constructor <;> intros <;>
    grind [IsPend, pendLog, IsDrawn, List.pairwise_cons, logOf_cons, mem_of_head?,
      → IsPend.latch, → IsPend.post, → IsDrawn.latch]

theorem step_invL {w w' : W} (hm : InvM w) (hc : InvC w) (h : InvL w) (hs : Step w w') : InvL w' := by
  cases hs with
  | begin t c rest hpc htodo => exact step_invL_begin hm hc h t c rest hpc htodo
  | acquire t c hpc hh => exact step_invL_acquire hm hc h t c hpc hh
  | draw t c hpc => exact step_invL_draw hm hc h t c hpc
  | apply t c id hpc => exact step_invL_apply hm hc h t c id hpc
  | loadRecorder t c id hpc => exact step_invL_loadRecorder hm hc h t c id hpc
  | appendLog t c id hpc => exact step_invL_appendLog hm hc h t c id hpc
  | skipLog t c id hpc => exact step_invL_skipLog hm hc h t c id hpc
  | release t c id hpc => exact step_invL_release hm hc h t c id hpc
  | sOpen chunks hspc => exact step_invL_sOpen hm hc h chunks hspc
  | sRead c rest hspc hh => exact step_invL_sRead hm hc h c rest hspc hh
  | sClose hspc => exact step_invL_sClose hm hc h hspc
  | sCopy hspc => exact step_invL_sCopy hm hc h hspc

/-! ### N2 — the recorder flag and what `readChunk` stored -/

structure InvR (w : W) : Prop where
  rec_ns : w.spc = .notStarted → w.recorder = false
  rec_open : ∀ todo, w.spc = .opened todo → w.recorder = true
  rec_closed : w.spc = .closed → w.recorder = false
  rec_copied : w.spc = .copied → w.recorder = false
  /-- nothing is read before the recorder is opened -/
  read_ns : w.spc = .notStarted → ∀ c, w.snapRead c = none
  /-- the snapshot's log is empty until `sCopy` -/
  snaplog : w.spc ≠ .copied → w.snapLog = []
  /-- the content read is a suffix of the current content (most recent first: an apply-order prefix) -/
  read_suffix : ∀ c l cont, w.snapRead c = some (l, cont) → cont <:+ w.content c
  /-- the id stored with the chunk is the head of the content read -/
  read_last : ∀ c l cont, w.snapRead c = some (l, cont) → l = cont.headD 0
  /-- a writer that saw the recorder off while it is on now took its latch before `sOpen`:
      its chunk cannot have been read -/
  saw_off : ∀ t c id, SawOff (w.pc t) c id → w.recorder = true → w.snapRead c = none

theorem init_invR {w : W} (hi : Init w) : InvR w := by
  constructor
  · intro _; exact hi.recorder
  · intro todo h; rw [hi.spc] at h; simp at h
  · intro h; rw [hi.spc] at h; simp at h
  · intro h; rw [hi.spc] at h; simp at h
  · intro _; exact hi.snapRead
  · intro _; exact hi.snapLog
  · intro c l cont h; rw [hi.snapRead] at h; simp at h
  · intro c l cont h; rw [hi.snapRead] at h; simp at h
  · intro t c id h; rw [hi.pc] at h; simp [SawOff] at h

theorem suffix_cons_of {α : Type} {l m : List α} (a : α) (h : l <:+ m) : l <:+ a :: m :=
  h.trans (List.suffix_cons a m)

theorem step_invR_begin {w : W} (hm : InvM w) (hc : InvC w) (h : InvR w) (t c : Nat) (rest : List Nat)
    (hpc : w.pc t = .idle) (htodo : w.todo t = c :: rest) :
    InvR { w with pc := setPc w t (.pre c) } := by
  obtain ⟨m1, m2⟩ := hm
  have c4 := hc.last_free
  clear hc
  obtain ⟨h1, h2, h3, h4, h5, h6, h7, h8, h9⟩ := h
  constructor <;> intros <;> simp only [setPc] at * <;>
    grind [SawOff, suffix_cons_of, List.suffix_refl, → SawOff.latch]

theorem step_invR_acquire {w : W} (hm : InvM w) (hc : InvC w) (h : InvR w) (t c : Nat)
    (hpc : w.pc t = .pre c) (hh : w.holder c = none) :
    InvR { w with holder := fun d => if d = c then some t else w.holder d, pc := setPc w t (.held c) } := by
  obtain ⟨m1, m2⟩ := hm
  have c4 := hc.last_free
  clear hc
  obtain ⟨h1, h2, h3, h4, h5, h6, h7, h8, h9⟩ := h
  constructor <;> intros <;> simp only [setPc] at * <;>
    grind [SawOff, suffix_cons_of, List.suffix_refl, → SawOff.latch]

theorem step_invR_draw {w : W} (hm : InvM w) (hc : InvC w) (h : InvR w) (t c : Nat)
    (hpc : w.pc t = .held c) :
    InvR { w with next := w.next + 1, lastId := fun d => if d = c then w.next + 1 else w.lastId d, pc := setPc w t (.drawn c (w.next + 1)) } := by
  have f0 : InLatch (w.pc t) c := by simp only [hpc, InLatch, latchChunk]
  have f1 : IsHeld (w.pc t) c := by simp only [hpc, IsHeld]
  obtain ⟨m1, m2⟩ := hm
  have c4 := hc.last_free
  clear hc
  obtain ⟨h1, h2, h3, h4, h5, h6, h7, h8, h9⟩ := h
  constructor <;> intros <;> simp only [setPc] at * <;>
    grind [SawOff, suffix_cons_of, List.suffix_refl, → SawOff.latch]

theorem step_invR_apply {w : W} (hm : InvM w) (hc : InvC w) (h : InvR w) (t c id : Nat)
    (hpc : w.pc t = .drawn c id) :
    InvR { w with content := fun d => if d = c then id :: w.content d else w.content d, pc := setPc w t (.applied c id) } := by
  have f0 : InLatch (w.pc t) c := by simp only [hpc, InLatch, latchChunk]
  have f1 : IsDrawn (w.pc t) c id := by simp only [hpc, IsDrawn]
  obtain ⟨m1, m2⟩ := hm
  have c4 := hc.last_free
  clear hc
  obtain ⟨h1, h2, h3, h4, h5, h6, h7, h8, h9⟩ := h
  constructor <;> intros <;> simp only [setPc] at * <;>
    grind [SawOff, suffix_cons_of, List.suffix_refl, → SawOff.latch]

theorem step_invR_loadRecorder {w : W} (hm : InvM w) (hc : InvC w) (h : InvR w) (t c id : Nat)
    (hpc : w.pc t = .applied c id) :
    InvR { w with pc := setPc w t (.sawRecorder c id w.recorder) } := by
  have f0 : InLatch (w.pc t) c := by simp only [hpc, InLatch, latchChunk]
  have f1 : IsApplied (w.pc t) c id := by simp only [hpc, IsApplied]
  have f2 : IsPost (w.pc t) c id := by simp only [hpc, IsPost, postId]
  have f3 : IsPend (w.pc t) c id := by simp only [hpc, IsPend, pendLog]
  obtain ⟨m1, m2⟩ := hm
  have c4 := hc.last_free
  clear hc
  obtain ⟨h1, h2, h3, h4, h5, h6, h7, h8, h9⟩ := h
  constructor <;> intros <;> simp only [setPc] at * <;>
    grind [SawOff, suffix_cons_of, List.suffix_refl, → SawOff.latch]

theorem step_invR_appendLog {w : W} (hm : InvM w) (hc : InvC w) (h : InvR w) (t c id : Nat)
    (hpc : w.pc t = .sawRecorder c id true) :
    InvR { w with log := (c, id) :: w.log, pc := setPc w t (.recorded c id) } := by
  have f0 : InLatch (w.pc t) c := by simp only [hpc, InLatch, latchChunk]
  have f1 : SawOn (w.pc t) c id := by simp only [hpc, SawOn]
  have f2 : IsPost (w.pc t) c id := by simp only [hpc, IsPost, postId]
  have f3 : IsPend (w.pc t) c id := by simp only [hpc, IsPend, pendLog]
  obtain ⟨m1, m2⟩ := hm
  have c4 := hc.last_free
  clear hc
  obtain ⟨h1, h2, h3, h4, h5, h6, h7, h8, h9⟩ := h
  constructor <;> intros <;> simp only [setPc] at * <;>
    grind [SawOff, suffix_cons_of, List.suffix_refl, → SawOff.latch]

theorem step_invR_skipLog {w : W} (hm : InvM w) (hc : InvC w) (h : InvR w) (t c id : Nat)
    (hpc : w.pc t = .sawRecorder c id false) :
    InvR { w with pc := setPc w t (.recorded c id) } := by
  have f0 : InLatch (w.pc t) c := by simp only [hpc, InLatch, latchChunk]
  have f1 : SawOff (w.pc t) c id := by simp only [hpc, SawOff]
  have f2 : IsPost (w.pc t) c id := by simp only [hpc, IsPost, postId]
  have f3 : IsPend (w.pc t) c id := by simp only [hpc, IsPend, pendLog]
  obtain ⟨m1, m2⟩ := hm
  have c4 := hc.last_free
  clear hc
  obtain ⟨h1, h2, h3, h4, h5, h6, h7, h8, h9⟩ := h
  constructor <;> intros <;> simp only [setPc] at * <;>
    grind [SawOff, suffix_cons_of, List.suffix_refl, → SawOff.latch]

theorem step_invR_release {w : W} (hm : InvM w) (hc : InvC w) (h : InvR w) (t c id : Nat)
    (hpc : w.pc t = .recorded c id) :
    InvR { w with holder := fun d => if d = c then none else w.holder d, pc := setPc w t .idle, todo := fun u => if u = t then (w.todo u).tail else w.todo u } := by
  have f0 : InLatch (w.pc t) c := by simp only [hpc, InLatch, latchChunk]
  have f1 : IsRecorded (w.pc t) c id := by simp only [hpc, IsRecorded]
  have f2 : IsPost (w.pc t) c id := by simp only [hpc, IsPost, postId]
  obtain ⟨m1, m2⟩ := hm
  have c4 := hc.last_free
  clear hc
  obtain ⟨h1, h2, h3, h4, h5, h6, h7, h8, h9⟩ := h
  constructor <;> intros <;> simp only [setPc] at * <;>
    grind [SawOff, suffix_cons_of, List.suffix_refl, → SawOff.latch]

theorem step_invR_sOpen {w : W} (hm : InvM w) (hc : InvC w) (h : InvR w) (chunks : List Nat)
    (hspc : w.spc = .notStarted) :
    InvR { w with recorder := true, spc := .opened chunks, doneBeforeOpen := fun c => finishedOf w c } := by
  obtain ⟨m1, m2⟩ := hm
  have c4 := hc.last_free
  clear hc
  obtain ⟨h1, h2, h3, h4, h5, h6, h7, h8, h9⟩ := h
  constructor <;> intros <;>
    grind [SawOff, suffix_cons_of, List.suffix_refl, → SawOff.latch]

theorem step_invR_sRead {w : W} (hm : InvM w) (hc : InvC w) (h : InvR w) (c : Nat) (rest : List Nat)
    (hspc : w.spc = .opened (c :: rest)) (hh : w.holder c = none) :
    InvR { w with snapRead := fun d => if d = c then some (w.lastId c, w.content c) else w.snapRead d, spc := .opened rest } := by
  obtain ⟨m1, m2⟩ := hm
  have c4 := hc.last_free
  clear hc
  obtain ⟨h1, h2, h3, h4, h5, h6, h7, h8, h9⟩ := h
  constructor <;> intros <;>
    grind [SawOff, suffix_cons_of, List.suffix_refl, → SawOff.latch]

theorem step_invR_sClose {w : W} (hm : InvM w) (hc : InvC w) (h : InvR w) 
    (hspc : w.spc = .opened []) :
    InvR { w with recorder := false, spc := .closed } := by
  obtain ⟨m1, m2⟩ := hm
  have c4 := hc.last_free
  clear hc
  obtain ⟨h1, h2, h3, h4, h5, h6, h7, h8, h9⟩ := h
  constructor <;> intros <;>
    grind [SawOff, suffix_cons_of, List.suffix_refl, → SawOff.latch]

theorem step_invR_sCopy {w : W} (hm : InvM w) (hc : InvC w) (h : InvR w) 
    (hspc : w.spc = .closed) :
    InvR { w with snapLog := w.log, spc := .copied, contentAtCopy := w.content } := by
  obtain ⟨m1, m2⟩ := hm
  have c4 := hc.last_free
  clear hc
  obtain ⟨h1, h2, h3, h4, h5, h6, h7, h8, h9⟩ := h
  constructor <;> intros <;>
    grind [SawOff, suffix_cons_of, List.suffix_refl, → SawOff.latch]

theorem step_invR {w w' : W} (hm : InvM w) (hc : InvC w) (h : InvR w) (hs : Step w w') : InvR w' := by
  cases hs with
  | begin t c rest hpc htodo => exact step_invR_begin hm hc h t c rest hpc htodo
  | acquire t c hpc hh => exact step_invR_acquire hm hc h t c hpc hh
  | draw t c hpc => exact step_invR_draw hm hc h t c hpc
  | apply t c id hpc => exact step_invR_apply hm hc h t c id hpc
  | loadRecorder t c id hpc => exact step_invR_loadRecorder hm hc h t c id hpc
  | appendLog t c id hpc => exact step_invR_appendLog hm hc h t c id hpc
  | skipLog t c id hpc => exact step_invR_skipLog hm hc h t c id hpc
  | release t c id hpc => exact step_invR_release hm hc h t c id hpc
  | sOpen chunks hspc => exact step_invR_sOpen hm hc h chunks hspc
  | sRead c rest hspc hh => exact step_invR_sRead hm hc h c rest hspc hh
  | sClose hspc => exact step_invR_sClose hm hc h hspc
  | sCopy hspc => exact step_invR_sCopy hm hc h hspc

/-! ### N3 — prefix closure of the recorded set -/

theorem le_headD_of_mem {l : List Nat} (hs : l.Pairwise (· > ·)) {x : Nat} (hx : x ∈ l) :
    x ≤ l.headD 0 := by
  cases l with
  | nil => simp at hx
  | cons a t =>
    simp only [List.mem_cons] at hx
    simp only [List.headD_cons]
    rcases hx with rfl | h
    · omega
    · have := (List.pairwise_cons.1 hs).1 x h; omega

theorem headD_lt_of_cons_append {id : Nat} {n cont : List Nat}
    (hs : (id :: (n ++ cont)).Pairwise (· > ·)) (hp : 0 < id) : cont.headD 0 < id := by
  cases cont with
  | nil => simpa
  | cons a t =>
    simp only [List.headD_cons]
    have := (List.pairwise_cons.1 hs).1 a (by simp)
    omega

/-- For a chunk that has been read as `(l, cont)`: `newer log c l ++ cont` (= what `Restore` would
    produce from the current log) is a suffix of the content; it is the *whole* content — minus the
    commit of the current holder while that is applied and not yet appended — as long as the recorder
    is on, and for a writer that saw the recorder on. -/
structure InvN (w : W) : Prop where
  suffix : ∀ c l cont, w.snapRead c = some (l, cont) → newer w.log c l ++ cont <:+ w.content c
  free : ∀ c l cont, w.snapRead c = some (l, cont) → w.recorder = true → w.holder c = none →
    newer w.log c l ++ cont = w.content c
  held : ∀ t c l cont, w.snapRead c = some (l, cont) → w.recorder = true → IsHeld (w.pc t) c →
    newer w.log c l ++ cont = w.content c
  drawn : ∀ t c id l cont, w.snapRead c = some (l, cont) → w.recorder = true →
    IsDrawn (w.pc t) c id → newer w.log c l ++ cont = w.content c
  recorded : ∀ t c id l cont, w.snapRead c = some (l, cont) → w.recorder = true →
    IsRecorded (w.pc t) c id → newer w.log c l ++ cont = w.content c
  applied : ∀ t c id l cont, w.snapRead c = some (l, cont) → w.recorder = true →
    IsApplied (w.pc t) c id → w.content c = id :: (newer w.log c l ++ cont)
  sawOn : ∀ t c id l cont, w.snapRead c = some (l, cont) →
    SawOn (w.pc t) c id → w.content c = id :: (newer w.log c l ++ cont)

theorem init_invN {w : W} (hi : Init w) : InvN w := by
  constructor <;> intros <;> simp_all [hi.snapRead]

theorem step_invN_begin {w : W} (hm : InvM w) (hc : InvC w) (hl : InvL w) (hr : InvR w) (h : InvN w) (t c : Nat) (rest : List Nat)
    (hpc : w.pc t = .idle) (htodo : w.todo t = c :: rest) :
    InvN { w with pc := setPc w t (.pre c) } := by
  obtain ⟨m1, m2⟩ := hm
  have r9 := hr.saw_off
  have r5 := hr.read_ns
  clear hr hc hl
  obtain ⟨h1, h2, h3, h4, h5, h6, h7⟩ := h
  constructor <;> intros <;> simp only [setPc] at * <;>
    grind [IsHeld, IsDrawn, IsApplied, IsRecorded, SawOn, SawOff, suffix_cons_of,
      List.suffix_refl, newer_cons, → IsHeld.latch, → IsDrawn.latch, → IsApplied.latch,
      → IsRecorded.latch, → SawOn.latch, → SawOff.latch]

theorem step_invN_acquire {w : W} (hm : InvM w) (hc : InvC w) (hl : InvL w) (hr : InvR w) (h : InvN w) (t c : Nat)
    (hpc : w.pc t = .pre c) (hh : w.holder c = none) :
    InvN { w with holder := fun d => if d = c then some t else w.holder d, pc := setPc w t (.held c) } := by
  obtain ⟨m1, m2⟩ := hm
  have r9 := hr.saw_off
  have r5 := hr.read_ns
  clear hr hc hl
  obtain ⟨h1, h2, h3, h4, h5, h6, h7⟩ := h
  constructor <;> intros <;> simp only [setPc] at * <;>
    grind [IsHeld, IsDrawn, IsApplied, IsRecorded, SawOn, SawOff, suffix_cons_of,
      List.suffix_refl, newer_cons, → IsHeld.latch, → IsDrawn.latch, → IsApplied.latch,
      → IsRecorded.latch, → SawOn.latch, → SawOff.latch]

theorem step_invN_draw {w : W} (hm : InvM w) (hc : InvC w) (hl : InvL w) (hr : InvR w) (h : InvN w) (t c : Nat)
    (hpc : w.pc t = .held c) :
    InvN { w with next := w.next + 1, lastId := fun d => if d = c then w.next + 1 else w.lastId d, pc := setPc w t (.drawn c (w.next + 1)) } := by
  have f0 : InLatch (w.pc t) c := by simp only [hpc, InLatch, latchChunk]
  have f1 : IsHeld (w.pc t) c := by simp only [hpc, IsHeld]
  obtain ⟨m1, m2⟩ := hm
  have r9 := hr.saw_off
  have r5 := hr.read_ns
  clear hr hc hl
  obtain ⟨h1, h2, h3, h4, h5, h6, h7⟩ := h
  constructor <;> intros <;> simp only [setPc] at * <;>
    grind [IsHeld, IsDrawn, IsApplied, IsRecorded, SawOn, SawOff, suffix_cons_of,
      List.suffix_refl, newer_cons, → IsHeld.latch, → IsDrawn.latch, → IsApplied.latch,
      → IsRecorded.latch, → SawOn.latch, → SawOff.latch]

theorem step_invN_apply {w : W} (hm : InvM w) (hc : InvC w) (hl : InvL w) (hr : InvR w) (h : InvN w) (t c id : Nat)
    (hpc : w.pc t = .drawn c id) :
    InvN { w with content := fun d => if d = c then id :: w.content d else w.content d, pc := setPc w t (.applied c id) } := by
  have f0 : InLatch (w.pc t) c := by simp only [hpc, InLatch, latchChunk]
  have f1 : IsDrawn (w.pc t) c id := by simp only [hpc, IsDrawn]
  obtain ⟨m1, m2⟩ := hm
  have r9 := hr.saw_off
  have r5 := hr.read_ns
  clear hr hc hl
  obtain ⟨h1, h2, h3, h4, h5, h6, h7⟩ := h
  constructor <;> intros <;> simp only [setPc] at * <;>
    grind [IsHeld, IsDrawn, IsApplied, IsRecorded, SawOn, SawOff, suffix_cons_of,
      List.suffix_refl, newer_cons, → IsHeld.latch, → IsDrawn.latch, → IsApplied.latch,
      → IsRecorded.latch, → SawOn.latch, → SawOff.latch]

theorem step_invN_loadRecorder {w : W} (hm : InvM w) (hc : InvC w) (hl : InvL w) (hr : InvR w) (h : InvN w) (t c id : Nat)
    (hpc : w.pc t = .applied c id) :
    InvN { w with pc := setPc w t (.sawRecorder c id w.recorder) } := by
  have f0 : InLatch (w.pc t) c := by simp only [hpc, InLatch, latchChunk]
  have f1 : IsApplied (w.pc t) c id := by simp only [hpc, IsApplied]
  have f2 : IsPost (w.pc t) c id := by simp only [hpc, IsPost, postId]
  have f3 : IsPend (w.pc t) c id := by simp only [hpc, IsPend, pendLog]
  obtain ⟨m1, m2⟩ := hm
  have r9 := hr.saw_off
  have r5 := hr.read_ns
  clear hr hc hl
  obtain ⟨h1, h2, h3, h4, h5, h6, h7⟩ := h
  constructor <;> intros <;> simp only [setPc] at * <;>
    grind [IsHeld, IsDrawn, IsApplied, IsRecorded, SawOn, SawOff, suffix_cons_of,
      List.suffix_refl, newer_cons, → IsHeld.latch, → IsDrawn.latch, → IsApplied.latch,
      → IsRecorded.latch, → SawOn.latch, → SawOff.latch]

theorem step_invN_appendLog {w : W} (hm : InvM w) (hc : InvC w) (hl : InvL w) (hr : InvR w) (h : InvN w) (t c id : Nat)
    (hpc : w.pc t = .sawRecorder c id true) :
    InvN { w with log := (c, id) :: w.log, pc := setPc w t (.recorded c id) } := by
  have f0 : InLatch (w.pc t) c := by simp only [hpc, InLatch, latchChunk]
  have f1 : SawOn (w.pc t) c id := by simp only [hpc, SawOn]
  have f2 : IsPost (w.pc t) c id := by simp only [hpc, IsPost, postId]
  have f3 : IsPend (w.pc t) c id := by simp only [hpc, IsPend, pendLog]
  have key : ∀ l cont, w.snapRead c = some (l, cont) → l < id := by
    intro l cont hrd
    have e := h.sawOn t c id l cont hrd f1
    have hs := hc.sorted c
    rw [e] at hs
    have hp : 0 < id := hc.pos c id (by rw [e]; simp)
    rw [hr.read_last c l cont hrd]
    exact headD_lt_of_cons_append hs hp
  obtain ⟨m1, m2⟩ := hm
  have r9 := hr.saw_off
  have r5 := hr.read_ns
  clear hr hc hl
  obtain ⟨h1, h2, h3, h4, h5, h6, h7⟩ := h
  constructor <;> intros <;> simp only [setPc] at * <;>
    grind [IsHeld, IsDrawn, IsApplied, IsRecorded, SawOn, SawOff, suffix_cons_of,
      List.suffix_refl, newer_cons, → IsHeld.latch, → IsDrawn.latch, → IsApplied.latch,
      → IsRecorded.latch, → SawOn.latch, → SawOff.latch]

theorem step_invN_skipLog {w : W} (hm : InvM w) (hc : InvC w) (hl : InvL w) (hr : InvR w) (h : InvN w) (t c id : Nat)
    (hpc : w.pc t = .sawRecorder c id false) :
    InvN { w with pc := setPc w t (.recorded c id) } := by
  have f0 : InLatch (w.pc t) c := by simp only [hpc, InLatch, latchChunk]
  have f1 : SawOff (w.pc t) c id := by simp only [hpc, SawOff]
  have f2 : IsPost (w.pc t) c id := by simp only [hpc, IsPost, postId]
  have f3 : IsPend (w.pc t) c id := by simp only [hpc, IsPend, pendLog]
  obtain ⟨m1, m2⟩ := hm
  have r9 := hr.saw_off
  have r5 := hr.read_ns
  clear hr hc hl
  obtain ⟨h1, h2, h3, h4, h5, h6, h7⟩ := h
  constructor <;> intros <;> simp only [setPc] at * <;>
    grind [IsHeld, IsDrawn, IsApplied, IsRecorded, SawOn, SawOff, suffix_cons_of,
      List.suffix_refl, newer_cons, → IsHeld.latch, → IsDrawn.latch, → IsApplied.latch,
      → IsRecorded.latch, → SawOn.latch, → SawOff.latch]

theorem step_invN_release {w : W} (hm : InvM w) (hc : InvC w) (hl : InvL w) (hr : InvR w) (h : InvN w) (t c id : Nat)
    (hpc : w.pc t = .recorded c id) :
    InvN { w with holder := fun d => if d = c then none else w.holder d, pc := setPc w t .idle, todo := fun u => if u = t then (w.todo u).tail else w.todo u } := by
  have f0 : InLatch (w.pc t) c := by simp only [hpc, InLatch, latchChunk]
  have f1 : IsRecorded (w.pc t) c id := by simp only [hpc, IsRecorded]
  have f2 : IsPost (w.pc t) c id := by simp only [hpc, IsPost, postId]
  obtain ⟨m1, m2⟩ := hm
  have r9 := hr.saw_off
  have r5 := hr.read_ns
  clear hr hc hl
  obtain ⟨h1, h2, h3, h4, h5, h6, h7⟩ := h
  constructor <;> intros <;> simp only [setPc] at * <;>
    grind [IsHeld, IsDrawn, IsApplied, IsRecorded, SawOn, SawOff, suffix_cons_of,
      List.suffix_refl, newer_cons, → IsHeld.latch, → IsDrawn.latch, → IsApplied.latch,
      → IsRecorded.latch, → SawOn.latch, → SawOff.latch]

theorem step_invN_sOpen {w : W} (hm : InvM w) (hc : InvC w) (hl : InvL w) (hr : InvR w) (h : InvN w) (chunks : List Nat)
    (hspc : w.spc = .notStarted) :
    InvN { w with recorder := true, spc := .opened chunks, doneBeforeOpen := fun c => finishedOf w c } := by
  obtain ⟨m1, m2⟩ := hm
  have r9 := hr.saw_off
  have r5 := hr.read_ns
  clear hr hc hl
  obtain ⟨h1, h2, h3, h4, h5, h6, h7⟩ := h
  constructor <;> intros <;>
    grind [IsHeld, IsDrawn, IsApplied, IsRecorded, SawOn, SawOff, suffix_cons_of,
      List.suffix_refl, newer_cons, → IsHeld.latch, → IsDrawn.latch, → IsApplied.latch,
      → IsRecorded.latch, → SawOn.latch, → SawOff.latch]

theorem step_invN_sRead {w : W} (hm : InvM w) (hc : InvC w) (hl : InvL w) (hr : InvR w) (h : InvN w) (c : Nat) (rest : List Nat)
    (hspc : w.spc = .opened (c :: rest)) (hh : w.holder c = none) :
    InvN { w with snapRead := fun d => if d = c then some (w.lastId c, w.content c) else w.snapRead d, spc := .opened rest } := by
  have key : newer w.log c (w.lastId c) = [] := by
    apply newer_eq_nil
    intro x hx
    rw [hc.last_free c hh]
    exact le_headD_of_mem (hc.sorted c) (hl.mem c x hx)
  obtain ⟨m1, m2⟩ := hm
  have r9 := hr.saw_off
  have r5 := hr.read_ns
  clear hr hc hl
  obtain ⟨h1, h2, h3, h4, h5, h6, h7⟩ := h
  constructor <;> intros <;>
    grind [IsHeld, IsDrawn, IsApplied, IsRecorded, SawOn, SawOff, suffix_cons_of,
      List.suffix_refl, newer_cons, → IsHeld.latch, → IsDrawn.latch, → IsApplied.latch,
      → IsRecorded.latch, → SawOn.latch, → SawOff.latch]

theorem step_invN_sClose {w : W} (hm : InvM w) (hc : InvC w) (hl : InvL w) (hr : InvR w) (h : InvN w) 
    (hspc : w.spc = .opened []) :
    InvN { w with recorder := false, spc := .closed } := by
  obtain ⟨m1, m2⟩ := hm
  have r9 := hr.saw_off
  have r5 := hr.read_ns
  clear hr hc hl
  obtain ⟨h1, h2, h3, h4, h5, h6, h7⟩ := h
  constructor <;> intros <;>
    grind [IsHeld, IsDrawn, IsApplied, IsRecorded, SawOn, SawOff, suffix_cons_of,
      List.suffix_refl, newer_cons, → IsHeld.latch, → IsDrawn.latch, → IsApplied.latch,
      → IsRecorded.latch, → SawOn.latch, → SawOff.latch]

theorem step_invN_sCopy {w : W} (hm : InvM w) (hc : InvC w) (hl : InvL w) (hr : InvR w) (h : InvN w) 
    (hspc : w.spc = .closed) :
    InvN { w with snapLog := w.log, spc := .copied, contentAtCopy := w.content } := by
  obtain ⟨m1, m2⟩ := hm
  have r9 := hr.saw_off
  have r5 := hr.read_ns
  clear hr hc hl
  obtain ⟨h1, h2, h3, h4, h5, h6, h7⟩ := h
  constructor <;> intros <;>
    grind [IsHeld, IsDrawn, IsApplied, IsRecorded, SawOn, SawOff, suffix_cons_of,
      List.suffix_refl, newer_cons, → IsHeld.latch, → IsDrawn.latch, → IsApplied.latch,
      → IsRecorded.latch, → SawOn.latch, → SawOff.latch]

theorem step_invN {w w' : W} (hm : InvM w) (hc : InvC w) (hl : InvL w) (hr : InvR w) (h : InvN w) (hs : Step w w') : InvN w' := by
  cases hs with
  | begin t c rest hpc htodo => exact step_invN_begin hm hc hl hr h t c rest hpc htodo
  | acquire t c hpc hh => exact step_invN_acquire hm hc hl hr h t c hpc hh
  | draw t c hpc => exact step_invN_draw hm hc hl hr h t c hpc
  | apply t c id hpc => exact step_invN_apply hm hc hl hr h t c id hpc
  | loadRecorder t c id hpc => exact step_invN_loadRecorder hm hc hl hr h t c id hpc
  | appendLog t c id hpc => exact step_invN_appendLog hm hc hl hr h t c id hpc
  | skipLog t c id hpc => exact step_invN_skipLog hm hc hl hr h t c id hpc
  | release t c id hpc => exact step_invN_release hm hc hl hr h t c id hpc
  | sOpen chunks hspc => exact step_invN_sOpen hm hc hl hr h chunks hspc
  | sRead c rest hspc hh => exact step_invN_sRead hm hc hl hr h c rest hspc hh
  | sClose hspc => exact step_invN_sClose hm hc hl hr h hspc
  | sCopy hspc => exact step_invN_sCopy hm hc hl hr h hspc

/-! ### N4 — after `sCopy` -/

structure InvCut (w : W) : Prop where
  /-- what `Restore` produces is a suffix of the content at the moment of the copy -/
  cut : w.spc = .copied → ∀ c l cont, w.snapRead c = some (l, cont) →
    newer w.snapLog c l ++ cont <:+ w.contentAtCopy c
  /-- the content only grows at the front -/
  atcopy : w.spc = .copied → ∀ c, w.contentAtCopy c <:+ w.content c

theorem init_invCut {w : W} (hi : Init w) : InvCut w := by
  constructor <;> intro h <;> rw [hi.spc] at h <;> simp at h

theorem step_invCut_begin {w : W} (hn : InvN w) (h : InvCut w) (t c : Nat) (rest : List Nat)
    (hpc : w.pc t = .idle) (htodo : w.todo t = c :: rest) :
    InvCut { w with pc := setPc w t (.pre c) } := by
  have n1 := hn.suffix
  clear hn
  obtain ⟨h1, h2⟩ := h
  constructor <;> intros <;>
    grind [suffix_cons_of, List.suffix_refl]

theorem step_invCut_acquire {w : W} (hn : InvN w) (h : InvCut w) (t c : Nat)
    (hpc : w.pc t = .pre c) (hh : w.holder c = none) :
    InvCut { w with holder := fun d => if d = c then some t else w.holder d, pc := setPc w t (.held c) } := by
  have n1 := hn.suffix
  clear hn
  obtain ⟨h1, h2⟩ := h
  constructor <;> intros <;>
    grind [suffix_cons_of, List.suffix_refl]

theorem step_invCut_draw {w : W} (hn : InvN w) (h : InvCut w) (t c : Nat)
    (hpc : w.pc t = .held c) :
    InvCut { w with next := w.next + 1, lastId := fun d => if d = c then w.next + 1 else w.lastId d, pc := setPc w t (.drawn c (w.next + 1)) } := by
  have f0 : InLatch (w.pc t) c := by simp only [hpc, InLatch, latchChunk]
  have f1 : IsHeld (w.pc t) c := by simp only [hpc, IsHeld]
  have n1 := hn.suffix
  clear hn
  obtain ⟨h1, h2⟩ := h
  constructor <;> intros <;>
    grind [suffix_cons_of, List.suffix_refl]

theorem step_invCut_apply {w : W} (hn : InvN w) (h : InvCut w) (t c id : Nat)
    (hpc : w.pc t = .drawn c id) :
    InvCut { w with content := fun d => if d = c then id :: w.content d else w.content d, pc := setPc w t (.applied c id) } := by
  have f0 : InLatch (w.pc t) c := by simp only [hpc, InLatch, latchChunk]
  have f1 : IsDrawn (w.pc t) c id := by simp only [hpc, IsDrawn]
  have n1 := hn.suffix
  clear hn
  obtain ⟨h1, h2⟩ := h
  constructor <;> intros <;>
    grind [suffix_cons_of, List.suffix_refl]

theorem step_invCut_loadRecorder {w : W} (hn : InvN w) (h : InvCut w) (t c id : Nat)
    (hpc : w.pc t = .applied c id) :
    InvCut { w with pc := setPc w t (.sawRecorder c id w.recorder) } := by
  have f0 : InLatch (w.pc t) c := by simp only [hpc, InLatch, latchChunk]
  have f1 : IsApplied (w.pc t) c id := by simp only [hpc, IsApplied]
  have f2 : IsPost (w.pc t) c id := by simp only [hpc, IsPost, postId]
  have f3 : IsPend (w.pc t) c id := by simp only [hpc, IsPend, pendLog]
  have n1 := hn.suffix
  clear hn
  obtain ⟨h1, h2⟩ := h
  constructor <;> intros <;>
    grind [suffix_cons_of, List.suffix_refl]

theorem step_invCut_appendLog {w : W} (hn : InvN w) (h : InvCut w) (t c id : Nat)
    (hpc : w.pc t = .sawRecorder c id true) :
    InvCut { w with log := (c, id) :: w.log, pc := setPc w t (.recorded c id) } := by
  have f0 : InLatch (w.pc t) c := by simp only [hpc, InLatch, latchChunk]
  have f1 : SawOn (w.pc t) c id := by simp only [hpc, SawOn]
  have f2 : IsPost (w.pc t) c id := by simp only [hpc, IsPost, postId]
  have f3 : IsPend (w.pc t) c id := by simp only [hpc, IsPend, pendLog]
  have n1 := hn.suffix
  clear hn
  obtain ⟨h1, h2⟩ := h
  constructor <;> intros <;>
    grind [suffix_cons_of, List.suffix_refl]

theorem step_invCut_skipLog {w : W} (hn : InvN w) (h : InvCut w) (t c id : Nat)
    (hpc : w.pc t = .sawRecorder c id false) :
    InvCut { w with pc := setPc w t (.recorded c id) } := by
  have f0 : InLatch (w.pc t) c := by simp only [hpc, InLatch, latchChunk]
  have f1 : SawOff (w.pc t) c id := by simp only [hpc, SawOff]
  have f2 : IsPost (w.pc t) c id := by simp only [hpc, IsPost, postId]
  have f3 : IsPend (w.pc t) c id := by simp only [hpc, IsPend, pendLog]
  have n1 := hn.suffix
  clear hn
  obtain ⟨h1, h2⟩ := h
  constructor <;> intros <;>
    grind [suffix_cons_of, List.suffix_refl]

theorem step_invCut_release {w : W} (hn : InvN w) (h : InvCut w) (t c id : Nat)
    (hpc : w.pc t = .recorded c id) :
    InvCut { w with holder := fun d => if d = c then none else w.holder d, pc := setPc w t .idle, todo := fun u => if u = t then (w.todo u).tail else w.todo u } := by
  have f0 : InLatch (w.pc t) c := by simp only [hpc, InLatch, latchChunk]
  have f1 : IsRecorded (w.pc t) c id := by simp only [hpc, IsRecorded]
  have f2 : IsPost (w.pc t) c id := by simp only [hpc, IsPost, postId]
  have n1 := hn.suffix
  clear hn
  obtain ⟨h1, h2⟩ := h
  constructor <;> intros <;>
    grind [suffix_cons_of, List.suffix_refl]

theorem step_invCut_sOpen {w : W} (hn : InvN w) (h : InvCut w) (chunks : List Nat)
    (hspc : w.spc = .notStarted) :
    InvCut { w with recorder := true, spc := .opened chunks, doneBeforeOpen := fun c => finishedOf w c } := by
  have n1 := hn.suffix
  clear hn
  obtain ⟨h1, h2⟩ := h
  constructor <;> intros <;>
    grind [suffix_cons_of, List.suffix_refl]

theorem step_invCut_sRead {w : W} (hn : InvN w) (h : InvCut w) (c : Nat) (rest : List Nat)
    (hspc : w.spc = .opened (c :: rest)) (hh : w.holder c = none) :
    InvCut { w with snapRead := fun d => if d = c then some (w.lastId c, w.content c) else w.snapRead d, spc := .opened rest } := by
  have n1 := hn.suffix
  clear hn
  obtain ⟨h1, h2⟩ := h
  constructor <;> intros <;>
    grind [suffix_cons_of, List.suffix_refl]

theorem step_invCut_sClose {w : W} (hn : InvN w) (h : InvCut w) 
    (hspc : w.spc = .opened []) :
    InvCut { w with recorder := false, spc := .closed } := by
  have n1 := hn.suffix
  clear hn
  obtain ⟨h1, h2⟩ := h
  constructor <;> intros <;>
    grind [suffix_cons_of, List.suffix_refl]

theorem step_invCut_sCopy {w : W} (hn : InvN w) (h : InvCut w) 
    (hspc : w.spc = .closed) :
    InvCut { w with snapLog := w.log, spc := .copied, contentAtCopy := w.content } := by
  have n1 := hn.suffix
  clear hn
  obtain ⟨h1, h2⟩ := h
  constructor <;> intros <;>
    grind [suffix_cons_of, List.suffix_refl]

theorem step_invCut {w w' : W} (hn : InvN w) (h : InvCut w) (hs : Step w w') : InvCut w' := by
  cases hs with
  | begin t c rest hpc htodo => exact step_invCut_begin hn h t c rest hpc htodo
  | acquire t c hpc hh => exact step_invCut_acquire hn h t c hpc hh
  | draw t c hpc => exact step_invCut_draw hn h t c hpc
  | apply t c id hpc => exact step_invCut_apply hn h t c id hpc
  | loadRecorder t c id hpc => exact step_invCut_loadRecorder hn h t c id hpc
  | appendLog t c id hpc => exact step_invCut_appendLog hn h t c id hpc
  | skipLog t c id hpc => exact step_invCut_skipLog hn h t c id hpc
  | release t c id hpc => exact step_invCut_release hn h t c id hpc
  | sOpen chunks hspc => exact step_invCut_sOpen hn h chunks hspc
  | sRead c rest hspc hh => exact step_invCut_sRead hn h c rest hspc hh
  | sClose hspc => exact step_invCut_sClose hn h hspc
  | sCopy hspc => exact step_invCut_sCopy hn h hspc

/-! ### N4 — commits finished before the snapshot began -/

/-- the chunk of a pc inside the latch section before `apply` -/
def preChunk : WPC → Option Nat
  | .held c => some c
  | .drawn c _ => some c
  | _ => none

def IsPre (p : WPC) (c : Nat) : Prop := preChunk p = some c

theorem IsPre.latch {p : WPC} {c : Nat} (h : IsPre p c) : InLatch p c := by
  cases p <;> simp_all [IsPre, preChunk, InLatch, latchChunk]

theorem finishedOf_free {w : W} {c : Nat} (h : w.holder c = none) : finishedOf w c = w.content c := by
  unfold finishedOf; rw [h]

theorem finishedOf_pre {w : W} {t c : Nat} (hh : w.holder c = some t) (h : IsPre (w.pc t) c) :
    finishedOf w c = w.content c := by
  unfold finishedOf; rw [hh]
  cases hp : w.pc t <;> simp_all [IsPre, preChunk]

theorem finishedOf_post {w : W} {t c id : Nat} (hh : w.holder c = some t) (h : IsPost (w.pc t) c id) :
    finishedOf w c = (w.content c).tail := by
  unfold finishedOf; rw [hh]
  cases hp : w.pc t <;> simp_all [IsPost, postId]

theorem suffix_of_suffix_tail {α : Type} {l m : List α} (h : l <:+ m.tail) : l <:+ m :=
  h.trans (List.tail_suffix m)

structure InvD (w : W) : Prop where
  free : w.spc ≠ .notStarted → ∀ c, w.holder c = none → w.doneBeforeOpen c <:+ w.content c
  pre : w.spc ≠ .notStarted → ∀ t c, IsPre (w.pc t) c → w.doneBeforeOpen c <:+ w.content c
  post : w.spc ≠ .notStarted → ∀ t c id, IsPost (w.pc t) c id →
    w.doneBeforeOpen c <:+ (w.content c).tail
  /-- every commit finished before `sOpen` is in the content read -/
  read : ∀ c l cont, w.snapRead c = some (l, cont) → w.doneBeforeOpen c <:+ cont

theorem init_invD {w : W} (hi : Init w) : InvD w := by
  constructor
  · intro h; exact absurd hi.spc h
  · intro h; exact absurd hi.spc h
  · intro h; exact absurd hi.spc h
  · intro c l cont h; rw [hi.snapRead] at h; simp at h

theorem step_invD_begin {w : W} (hm : InvM w) (hr : InvR w) (h : InvD w) (t c : Nat) (rest : List Nat)
    (hpc : w.pc t = .idle) (htodo : w.todo t = c :: rest) :
    InvD { w with pc := setPc w t (.pre c) } := by
  obtain ⟨m1, m2⟩ := hm
  have r5 := hr.read_ns
  clear hr
  obtain ⟨h1, h2, h3, h4⟩ := h
  constructor <;> intros <;> simp only [setPc] at * <;>
    grind [IsPre, preChunk, IsPost, postId, suffix_cons_of, List.suffix_refl,
      suffix_of_suffix_tail, List.tail_cons, → IsPre.latch, → IsPost.latch]

theorem step_invD_acquire {w : W} (hm : InvM w) (hr : InvR w) (h : InvD w) (t c : Nat)
    (hpc : w.pc t = .pre c) (hh : w.holder c = none) :
    InvD { w with holder := fun d => if d = c then some t else w.holder d, pc := setPc w t (.held c) } := by
  obtain ⟨m1, m2⟩ := hm
  have r5 := hr.read_ns
  clear hr
  obtain ⟨h1, h2, h3, h4⟩ := h
  constructor <;> intros <;> simp only [setPc] at * <;>
    grind [IsPre, preChunk, IsPost, postId, suffix_cons_of, List.suffix_refl,
      suffix_of_suffix_tail, List.tail_cons, → IsPre.latch, → IsPost.latch]

theorem step_invD_draw {w : W} (hm : InvM w) (hr : InvR w) (h : InvD w) (t c : Nat)
    (hpc : w.pc t = .held c) :
    InvD { w with next := w.next + 1, lastId := fun d => if d = c then w.next + 1 else w.lastId d, pc := setPc w t (.drawn c (w.next + 1)) } := by
  have f0 : InLatch (w.pc t) c := by simp only [hpc, InLatch, latchChunk]
  have f1 : IsHeld (w.pc t) c := by simp only [hpc, IsHeld]
  have f9 : IsPre (w.pc t) c := by simp only [hpc, IsPre, preChunk]
  obtain ⟨m1, m2⟩ := hm
  have r5 := hr.read_ns
  clear hr
  obtain ⟨h1, h2, h3, h4⟩ := h
  constructor <;> intros <;> simp only [setPc] at * <;>
    grind [IsPre, preChunk, IsPost, postId, suffix_cons_of, List.suffix_refl,
      suffix_of_suffix_tail, List.tail_cons, → IsPre.latch, → IsPost.latch]

theorem step_invD_apply {w : W} (hm : InvM w) (hr : InvR w) (h : InvD w) (t c id : Nat)
    (hpc : w.pc t = .drawn c id) :
    InvD { w with content := fun d => if d = c then id :: w.content d else w.content d, pc := setPc w t (.applied c id) } := by
  have f0 : InLatch (w.pc t) c := by simp only [hpc, InLatch, latchChunk]
  have f1 : IsDrawn (w.pc t) c id := by simp only [hpc, IsDrawn]
  have f9 : IsPre (w.pc t) c := by simp only [hpc, IsPre, preChunk]
  obtain ⟨m1, m2⟩ := hm
  have r5 := hr.read_ns
  clear hr
  obtain ⟨h1, h2, h3, h4⟩ := h
  constructor <;> intros <;> simp only [setPc] at * <;>
    grind [IsPre, preChunk, IsPost, postId, suffix_cons_of, List.suffix_refl,
      suffix_of_suffix_tail, List.tail_cons, → IsPre.latch, → IsPost.latch]

theorem step_invD_loadRecorder {w : W} (hm : InvM w) (hr : InvR w) (h : InvD w) (t c id : Nat)
    (hpc : w.pc t = .applied c id) :
    InvD { w with pc := setPc w t (.sawRecorder c id w.recorder) } := by
  have f0 : InLatch (w.pc t) c := by simp only [hpc, InLatch, latchChunk]
  have f1 : IsApplied (w.pc t) c id := by simp only [hpc, IsApplied]
  have f2 : IsPost (w.pc t) c id := by simp only [hpc, IsPost, postId]
  have f3 : IsPend (w.pc t) c id := by simp only [hpc, IsPend, pendLog]
  obtain ⟨m1, m2⟩ := hm
  have r5 := hr.read_ns
  clear hr
  obtain ⟨h1, h2, h3, h4⟩ := h
  constructor <;> intros <;> simp only [setPc] at * <;>
    grind [IsPre, preChunk, IsPost, postId, suffix_cons_of, List.suffix_refl,
      suffix_of_suffix_tail, List.tail_cons, → IsPre.latch, → IsPost.latch]

theorem step_invD_appendLog {w : W} (hm : InvM w) (hr : InvR w) (h : InvD w) (t c id : Nat)
    (hpc : w.pc t = .sawRecorder c id true) :
    InvD { w with log := (c, id) :: w.log, pc := setPc w t (.recorded c id) } := by
  have f0 : InLatch (w.pc t) c := by simp only [hpc, InLatch, latchChunk]
  have f1 : SawOn (w.pc t) c id := by simp only [hpc, SawOn]
  have f2 : IsPost (w.pc t) c id := by simp only [hpc, IsPost, postId]
  have f3 : IsPend (w.pc t) c id := by simp only [hpc, IsPend, pendLog]
  obtain ⟨m1, m2⟩ := hm
  have r5 := hr.read_ns
  clear hr
  obtain ⟨h1, h2, h3, h4⟩ := h
  constructor <;> intros <;> simp only [setPc] at * <;>
    grind [IsPre, preChunk, IsPost, postId, suffix_cons_of, List.suffix_refl,
      suffix_of_suffix_tail, List.tail_cons, → IsPre.latch, → IsPost.latch]

theorem step_invD_skipLog {w : W} (hm : InvM w) (hr : InvR w) (h : InvD w) (t c id : Nat)
    (hpc : w.pc t = .sawRecorder c id false) :
    InvD { w with pc := setPc w t (.recorded c id) } := by
  have f0 : InLatch (w.pc t) c := by simp only [hpc, InLatch, latchChunk]
  have f1 : SawOff (w.pc t) c id := by simp only [hpc, SawOff]
  have f2 : IsPost (w.pc t) c id := by simp only [hpc, IsPost, postId]
  have f3 : IsPend (w.pc t) c id := by simp only [hpc, IsPend, pendLog]
  obtain ⟨m1, m2⟩ := hm
  have r5 := hr.read_ns
  clear hr
  obtain ⟨h1, h2, h3, h4⟩ := h
  constructor <;> intros <;> simp only [setPc] at * <;>
    grind [IsPre, preChunk, IsPost, postId, suffix_cons_of, List.suffix_refl,
      suffix_of_suffix_tail, List.tail_cons, → IsPre.latch, → IsPost.latch]

theorem step_invD_release {w : W} (hm : InvM w) (hr : InvR w) (h : InvD w) (t c id : Nat)
    (hpc : w.pc t = .recorded c id) :
    InvD { w with holder := fun d => if d = c then none else w.holder d, pc := setPc w t .idle, todo := fun u => if u = t then (w.todo u).tail else w.todo u } := by
  have f0 : InLatch (w.pc t) c := by simp only [hpc, InLatch, latchChunk]
  have f1 : IsRecorded (w.pc t) c id := by simp only [hpc, IsRecorded]
  have f2 : IsPost (w.pc t) c id := by simp only [hpc, IsPost, postId]
  obtain ⟨m1, m2⟩ := hm
  have r5 := hr.read_ns
  clear hr
  obtain ⟨h1, h2, h3, h4⟩ := h
  constructor <;> intros <;> simp only [setPc] at * <;>
    grind [IsPre, preChunk, IsPost, postId, suffix_cons_of, List.suffix_refl,
      suffix_of_suffix_tail, List.tail_cons, → IsPre.latch, → IsPost.latch]

theorem step_invD_sOpen {w : W} (hm : InvM w) (hr : InvR w) (h : InvD w) (chunks : List Nat)
    (hspc : w.spc = .notStarted) :
    InvD { w with recorder := true, spc := .opened chunks, doneBeforeOpen := fun c => finishedOf w c } := by
  have fo1 : ∀ c, w.holder c = none → finishedOf w c = w.content c := fun c h => finishedOf_free h
  have fo2 : ∀ t c, IsPre (w.pc t) c → finishedOf w c = w.content c :=
    fun t c h => finishedOf_pre (hm.whold t c h.latch) h
  have fo3 : ∀ t c id, IsPost (w.pc t) c id → finishedOf w c = (w.content c).tail :=
    fun t c id h => finishedOf_post (hm.whold t c h.latch) h
  obtain ⟨m1, m2⟩ := hm
  have r5 := hr.read_ns
  clear hr
  obtain ⟨h1, h2, h3, h4⟩ := h
  constructor <;> intros <;>
    grind [IsPre, preChunk, IsPost, postId, suffix_cons_of, List.suffix_refl,
      suffix_of_suffix_tail, List.tail_cons, → IsPre.latch, → IsPost.latch]

theorem step_invD_sRead {w : W} (hm : InvM w) (hr : InvR w) (h : InvD w) (c : Nat) (rest : List Nat)
    (hspc : w.spc = .opened (c :: rest)) (hh : w.holder c = none) :
    InvD { w with snapRead := fun d => if d = c then some (w.lastId c, w.content c) else w.snapRead d, spc := .opened rest } := by
  obtain ⟨m1, m2⟩ := hm
  have r5 := hr.read_ns
  clear hr
  obtain ⟨h1, h2, h3, h4⟩ := h
  constructor <;> intros <;>
    grind [IsPre, preChunk, IsPost, postId, suffix_cons_of, List.suffix_refl,
      suffix_of_suffix_tail, List.tail_cons, → IsPre.latch, → IsPost.latch]

theorem step_invD_sClose {w : W} (hm : InvM w) (hr : InvR w) (h : InvD w) 
    (hspc : w.spc = .opened []) :
    InvD { w with recorder := false, spc := .closed } := by
  obtain ⟨m1, m2⟩ := hm
  have r5 := hr.read_ns
  clear hr
  obtain ⟨h1, h2, h3, h4⟩ := h
  constructor <;> intros <;>
    grind [IsPre, preChunk, IsPost, postId, suffix_cons_of, List.suffix_refl,
      suffix_of_suffix_tail, List.tail_cons, → IsPre.latch, → IsPost.latch]

theorem step_invD_sCopy {w : W} (hm : InvM w) (hr : InvR w) (h : InvD w) 
    (hspc : w.spc = .closed) :
    InvD { w with snapLog := w.log, spc := .copied, contentAtCopy := w.content } := by
  obtain ⟨m1, m2⟩ := hm
  have r5 := hr.read_ns
  clear hr
  obtain ⟨h1, h2, h3, h4⟩ := h
  constructor <;> intros <;>
    grind [IsPre, preChunk, IsPost, postId, suffix_cons_of, List.suffix_refl,
      suffix_of_suffix_tail, List.tail_cons, → IsPre.latch, → IsPost.latch]

theorem step_invD {w w' : W} (hm : InvM w) (hr : InvR w) (h : InvD w) (hs : Step w w') : InvD w' := by
  cases hs with
  | begin t c rest hpc htodo => exact step_invD_begin hm hr h t c rest hpc htodo
  | acquire t c hpc hh => exact step_invD_acquire hm hr h t c hpc hh
  | draw t c hpc => exact step_invD_draw hm hr h t c hpc
  | apply t c id hpc => exact step_invD_apply hm hr h t c id hpc
  | loadRecorder t c id hpc => exact step_invD_loadRecorder hm hr h t c id hpc
  | appendLog t c id hpc => exact step_invD_appendLog hm hr h t c id hpc
  | skipLog t c id hpc => exact step_invD_skipLog hm hr h t c id hpc
  | release t c id hpc => exact step_invD_release hm hr h t c id hpc
  | sOpen chunks hspc => exact step_invD_sOpen hm hr h chunks hspc
  | sRead c rest hspc hh => exact step_invD_sRead hm hr h c rest hspc hh
  | sClose hspc => exact step_invD_sClose hm hr h hspc
  | sCopy hspc => exact step_invD_sCopy hm hr h hspc

/-! ### all invariants along every run -/

structure Inv (w : W) : Prop where
  m : InvM w
  c : InvC w
  l : InvL w
  r : InvR w
  n : InvN w
  cut : InvCut w
  d : InvD w

theorem init_inv {w : W} (hi : Init w) : Inv w :=
  ⟨init_invM hi, init_invC hi, init_invL hi, init_invR hi, init_invN hi, init_invCut hi, init_invD hi⟩

theorem step_inv {w w' : W} (h : Inv w) (hs : Step w w') : Inv w' :=
  ⟨step_invM h.m hs, step_invC h.m h.c hs, step_invL h.m h.c h.l hs, step_invR h.m h.c h.r hs,
    step_invN h.m h.c h.l h.r h.n hs, step_invCut h.n h.cut hs, step_invD h.m h.r h.d hs⟩

theorem reach_inv {w0 w : W} (hi : Init w0) (hr : Reach w0 w) : Inv w := by
  induction hr with
  | refl => exact init_inv hi
  | step _ hs ih => exact step_inv ih hs

/-! ### consequences used by the property file -/

theorem suffix_drop {α : Type} {l m : List α} (h : l <:+ m) : ∃ k, l = m.drop k :=
  ⟨_, List.suffix_iff_eq_drop.1 h⟩

theorem Inv.restored_cut {w : W} (h : Inv w) (hc : w.spc = .copied) {c l : Nat} {cont : List Nat}
    (hread : w.snapRead c = some (l, cont)) :
    newer w.snapLog c l ++ cont <:+ w.contentAtCopy c ∧ w.contentAtCopy c <:+ w.content c ∧
      w.doneBeforeOpen c <:+ newer w.snapLog c l ++ cont :=
  ⟨h.cut.cut hc c l cont hread, h.cut.atcopy hc c,
    (h.d.read c l cont hread).trans (List.suffix_append _ _)⟩

/-- in every reachable world what `Restore` would produce for a chunk that has been read is a suffix
    of the chunk's content -/
theorem Inv.restored_suffix {w : W} (h : Inv w) {c l : Nat} {cont : List Nat}
    (hread : w.snapRead c = some (l, cont)) : newer w.snapLog c l ++ cont <:+ w.content c := by
  by_cases hc : w.spc = .copied
  · exact (h.restored_cut hc hread).1.trans (h.restored_cut hc hread).2.1
  · rw [h.r.snaplog hc]; exact h.r.read_suffix c l cont hread

/-- `lastId` is the head of the content unless a writer has drawn an id for the chunk and not
    applied it yet -/
theorem Inv.lastId_head {w : W} (h : Inv w) {c : Nat} (hnd : ∀ t id, w.pc t ≠ .drawn c id) :
    w.lastId c = (w.content c).headD 0 := by
  cases hh : w.holder c with
  | none => exact h.c.last_free c hh
  | some t =>
    have hl := h.m.hpc t c hh
    cases hp : w.pc t with
    | idle => simp [hp, InLatch, latchChunk] at hl
    | pre d => simp [hp, InLatch, latchChunk] at hl
    | held d =>
      have : d = c := by simpa [hp, InLatch, latchChunk] using hl
      subst this
      exact h.c.last_held t d hp
    | drawn d id =>
      have : d = c := by simpa [hp, InLatch, latchChunk] using hl
      subst this
      exact absurd hp (hnd t id)
    | applied d id =>
      have : d = c := by simpa [hp, InLatch, latchChunk] using hl
      subst this
      have hpost : IsPost (w.pc t) d id := by simp only [hp, IsPost, postId]
      rw [h.c.post_last t d id hpost, List.headD_eq_head?_getD, h.c.post_head t d id hpost]; rfl
    | sawRecorder d id b =>
      have : d = c := by simpa [hp, InLatch, latchChunk] using hl
      subst this
      have hpost : IsPost (w.pc t) d id := by simp only [hp, IsPost, postId]
      rw [h.c.post_last t d id hpost, List.headD_eq_head?_getD, h.c.post_head t d id hpost]; rfl
    | recorded d id =>
      have : d = c := by simpa [hp, InLatch, latchChunk] using hl
      subst this
      have hpost : IsPost (w.pc t) d id := by simp only [hp, IsPost, postId]
      rw [h.c.post_last t d id hpost, List.headD_eq_head?_getD, h.c.post_head t d id hpost]; rfl

/-- while the recorder is on, what `Restore` would produce from the *live* log is the whole content
    of the chunk, except for the commit of a holder that has applied and not yet appended -/
theorem Inv.recorded_tight {w : W} (h : Inv w) (hrec : w.recorder = true) {c l : Nat} {cont : List Nat}
    (hread : w.snapRead c = some (l, cont)) :
    newer w.log c l ++ cont = w.content c ∨
      ∃ t id, (w.pc t = .applied c id ∨ w.pc t = .sawRecorder c id true) ∧
        w.content c = id :: (newer w.log c l ++ cont) := by
  cases hh : w.holder c with
  | none => exact Or.inl (h.n.free c l cont hread hrec hh)
  | some t =>
    have hl := h.m.hpc t c hh
    cases hp : w.pc t with
    | idle => simp [hp, InLatch, latchChunk] at hl
    | pre d => simp [hp, InLatch, latchChunk] at hl
    | held d =>
      have : d = c := by simpa [hp, InLatch, latchChunk] using hl
      subst this
      exact Or.inl (h.n.held t d l cont hread hrec hp)
    | drawn d id =>
      have : d = c := by simpa [hp, InLatch, latchChunk] using hl
      subst this
      exact Or.inl (h.n.drawn t d id l cont hread hrec hp)
    | applied d id =>
      have : d = c := by simpa [hp, InLatch, latchChunk] using hl
      subst this
      exact Or.inr ⟨t, id, Or.inl hp, h.n.applied t d id l cont hread hrec hp⟩
    | sawRecorder d id b =>
      have : d = c := by simpa [hp, InLatch, latchChunk] using hl
      subst this
      cases b with
      | true => exact Or.inr ⟨t, id, Or.inr hp, h.n.sawOn t d id l cont hread hp⟩
      | false =>
        have := h.r.saw_off t d id hp hrec
        rw [hread] at this; simp at this
    | recorded d id =>
      have : d = c := by simpa [hp, InLatch, latchChunk] using hl
      subst this
      exact Or.inl (h.n.recorded t d id l cont hread hrec hp)

end ColumnVerif.Conc.Snap
