/-!
# L3 — snapshot under concurrent commits (`snapshot.go`, `txn.go`, `txn_lock.go`)

Writers commit chunk by chunk exactly as in `Conc/Machine.lean`; here a chunk's content is
abstracted to the list of commit ids applied to it (most recent first). One snapshot thread runs
`Snapshot`: open the recorder, read every chunk under its read latch (`readChunk`: last commit id
and content), close the recorder, copy the recorded log. Writers look at the recorder pointer
*inside* the latch section, after applying (`isSnapshotting()`), and append to the log they saw
(`dst.Append`, under the log mutex) before releasing the latch. Pointer load and append are
separate steps: `close` and `copy` may fall between them.

`Restore` = for every chunk: the content read, then every logged commit of that chunk whose id is
larger than the id stored with the chunk, in log order.
-/
namespace ColumnVerif.Conc.Snap

inductive WPC where
  | idle
  | pre (c : Nat)                      -- about to take the latch of c
  | held (c : Nat)                     -- holds the write latch, id not yet drawn
  | drawn (c id : Nat)                 -- id drawn, `commits[c]` set
  | applied (c id : Nat)               -- columns updated (content extended)
  | sawRecorder (c id : Nat) (on : Bool)   -- has loaded the recorder pointer
  | recorded (c id : Nat)              -- has appended to the recorder (if it saw one)
  deriving DecidableEq, Repr

/-- snapshot thread -/
inductive SPC where
  | notStarted
  | opened (todo : List Nat)           -- recorder installed; chunks still to read
  | closed                             -- recorder removed
  | copied                             -- log copied into the snapshot
  deriving DecidableEq, Repr

structure W where
  next : Nat
  holder : Nat → Option Nat            -- write latch
  lastId : Nat → Nat                   -- commits[chunk]
  content : Nat → List Nat             -- ids applied to the chunk, most recent first
  recorder : Bool                      -- a recorder is installed
  log : List (Nat × Nat)               -- recorded (chunk, id), most recent first
  pc : Nat → WPC
  todo : Nat → List Nat
  spc : SPC
  snapRead : Nat → Option (Nat × List Nat)   -- what `readChunk` stored for a chunk: (lastId, content)
  snapLog : List (Nat × Nat)           -- the copied log (most recent first)
  -- ghosts for the statement
  doneBeforeOpen : Nat → List Nat      -- per chunk: ids whose latch section had finished when the recorder was opened
  contentAtCopy : Nat → List Nat       -- per chunk: content when the log was copied

def setPc (w : W) (t : Nat) (p : WPC) : Nat → WPC := fun u => if u = t then p else w.pc u

/-- ids of `c` whose latch section has finished: everything applied, except the commit of a
    writer that has applied but not yet released -/
def finishedOf (w : W) (c : Nat) : List Nat :=
  match w.holder c with
  | none => w.content c
  | some t =>
    match w.pc t with
    | .applied _ _ | .sawRecorder _ _ _ | .recorded _ _ => (w.content c).tail
    | _ => w.content c

inductive Step : W → W → Prop
  | begin (w : W) (t c : Nat) (rest : List Nat) :
      w.pc t = .idle → w.todo t = c :: rest →
      Step w { w with pc := setPc w t (.pre c) }
  | acquire (w : W) (t c : Nat) :
      w.pc t = .pre c → w.holder c = none →
      Step w { w with holder := fun d => if d = c then some t else w.holder d, pc := setPc w t (.held c) }
  /-- `commit.Next()` and `commits[chunk] = id`, inside the latch -/
  | draw (w : W) (t c : Nat) :
      w.pc t = .held c →
      Step w { w with next := w.next + 1, lastId := fun d => if d = c then w.next + 1 else w.lastId d,
                      pc := setPc w t (.drawn c (w.next + 1)) }
  | apply (w : W) (t c id : Nat) :
      w.pc t = .drawn c id →
      Step w { w with content := fun d => if d = c then id :: w.content d else w.content d,
                      pc := setPc w t (.applied c id) }
  /-- `isSnapshotting()`: atomic load of the recorder pointer -/
  | loadRecorder (w : W) (t c id : Nat) :
      w.pc t = .applied c id →
      Step w { w with pc := setPc w t (.sawRecorder c id w.recorder) }
  /-- `dst.Append(commit)` under the log mutex (appends to the log object it saw; after `copy` the
      append no longer reaches the snapshot) -/
  | appendLog (w : W) (t c id : Nat) :
      w.pc t = .sawRecorder c id true →
      Step w { w with log := (c, id) :: w.log, pc := setPc w t (.recorded c id) }
  | skipLog (w : W) (t c id : Nat) :
      w.pc t = .sawRecorder c id false →
      Step w { w with pc := setPc w t (.recorded c id) }
  | release (w : W) (t c id : Nat) :
      w.pc t = .recorded c id →
      Step w { w with holder := fun d => if d = c then none else w.holder d, pc := setPc w t .idle,
                      todo := fun u => if u = t then (w.todo u).tail else w.todo u }
  /-- `recorderOpen` (CAS); `chunks` = the committed chunks to read -/
  | sOpen (w : W) (chunks : List Nat) :
      w.spc = .notStarted →
      Step w { w with recorder := true, spc := .opened chunks,
                      doneBeforeOpen := fun c => finishedOf w c }
  /-- `readChunk(c)`: read latch (no writer holds c) + collection lock -/
  | sRead (w : W) (c : Nat) (rest : List Nat) :
      w.spc = .opened (c :: rest) → w.holder c = none →
      Step w { w with snapRead := fun d => if d = c then some (w.lastId c, w.content c) else w.snapRead d,
                      spc := .opened rest }
  /-- `recorderClose` -/
  | sClose (w : W) :
      w.spc = .opened [] →
      Step w { w with recorder := false, spc := .closed }
  /-- `recorder.Copy(dst)` under the log mutex -/
  | sCopy (w : W) :
      w.spc = .closed →
      Step w { w with snapLog := w.log, spc := .copied, contentAtCopy := w.content }

inductive Reach (w0 : W) : W → Prop
  | refl : Reach w0 w0
  | step {w w'} : Reach w0 w → Step w w' → Reach w0 w'

structure Init (w : W) : Prop where
  holder : ∀ c, w.holder c = none
  pc : ∀ t, w.pc t = .idle
  spc : w.spc = .notStarted
  recorder : w.recorder = false
  log : w.log = []
  snapLog : w.snapLog = []
  snapRead : ∀ c, w.snapRead c = none
  /-- ids applied so far are below the counter and `lastId` is the head of the content -/
  content_ok : ∀ c, (∀ x ∈ w.content c, x ≤ w.next) ∧ w.lastId c = (w.content c).headD 0 ∧
                    (w.content c).Pairwise (· > ·) ∧ (∀ x ∈ w.content c, 0 < x)

/-- `Restore` of chunk `c`: the content read, then the logged commits of `c` newer than the id stored
    with the chunk, in log order (the logs are most-recent-first, so is the result) -/
def restored (w : W) (c : Nat) : Option (List Nat) :=
  match w.snapRead c with
  | none => none
  | some (last, content) =>
    some (((w.snapLog.filter (fun p => p.1 = c ∧ p.2 > last)).map (·.2)) ++ content)

end ColumnVerif.Conc.Snap
