/-!
# L3 — the commit protocol as a small-step machine

Any number of threads, any number of chunks, any schedule. One constructor of `Step` per atomic
action of `txn_lock.go` / `txn.go` (writers: `rangeWrite` + the commit closure; readers: `QueryAt`,
`rangeRead`). What is atomic here is atomic in the code because one lock covers it — which lock
covers what is read from the source on every run (`Generated/Skeleton.lean`, flags in `ProtoCfg`).

The data of a chunk is abstracted to what the schedule-quantified properties talk about:
* `colA`, `colB`: two columns of the same rows — each holds the *id of the commit that wrote it
  last* (a commit writes A first, then B, as `commitUpdates` walks the buffers);
* `acc`: a merged value, updated by read-modify-write with an arbitrary merge function.
-/
namespace ColumnVerif.Conc

/-- what the regenerated skeleton says about the protocol (see `Generated/Cfg.lean`) -/
structure ProtoCfg where
  idInsideLatch : Bool      -- `commit.Next()` is called between `Lock(chunk)` and `Unlock(chunk)`
  emitInsideLatch : Bool    -- the logger `Append` is inside the latch section
  applyInsideLatch : Bool   -- the column `Apply` (read-modify-write) is inside the latch section
  readInsideRLatch : Bool   -- reader callbacks run between `RLock(chunk)` and `RUnlock(chunk)`
  deriving DecidableEq, Repr

def ProtoCfg.good : ProtoCfg := ⟨true, true, true, true⟩

/-- program counter of a thread -/
inductive PC where
  | idle                                   -- between transactions / block commits
  | pre (c : Nat) (id : Option Nat)        -- about to take the latch of chunk c (id drawn early iff ¬idInsideLatch)
  | held (c : Nat) (id : Option Nat)       -- holds the write latch of c
  | loaded (c id : Nat) (seen : Nat)       -- merge: has read `acc c`
  | wroteAcc (c id : Nat)                  -- merge: has written `acc c`
  | wroteA (c id : Nat)                    -- has written column A
  | wroteB (c id : Nat)                    -- has written column B (= applied)
  | emitted (c id : Nat)                   -- has handed the commit to the logger
  | rheld (c : Nat)                        -- reader: holds a read latch on c
  | readA (c a : Nat)                      -- reader: has read column A
  | readAB (c a b : Nat)                   -- reader: has read A and B
  deriving DecidableEq, Repr

/-- one applied commit (ghost) -/
structure Rec where
  tid : Nat
  id : Nat
  delta : Nat
  deriving DecidableEq, Repr

structure W where
  next : Nat                      -- the global commit id counter
  holder : Nat → Option Nat       -- write latch of a chunk
  readers : Nat → List Nat        -- threads holding a read latch on the chunk (RWMutex reader count = length)
  colA : Nat → Nat
  colB : Nat → Nat
  acc : Nat → Nat
  applied : Nat → List Rec        -- ghost: commits applied to the chunk, most recent first
  stream : List (Nat × Nat)       -- ghost: (chunk, id) handed to the logger, most recent first
  obs : List (Nat × Nat × Nat)    -- ghost: reader observations (chunk, a, b) made under one latch hold
  pc : Nat → PC
  todo : Nat → List Nat           -- remaining dirty chunks of the thread's transaction
  delta : Nat → Nat               -- the delta the thread merges

def setPc (w : W) (t : Nat) (p : PC) : Nat → PC := fun u => if u = t then p else w.pc u

/-- atomic steps; `merge` is the column's merge function -/
inductive Step (cfg : ProtoCfg) (merge : Nat → Nat → Nat) : W → W → Prop
  /-- `rangeWrite` reaches the next dirty chunk; the id is drawn here iff it is drawn outside the latch -/
  | begin (w : W) (t c : Nat) (rest : List Nat) :
      w.pc t = .idle → w.todo t = c :: rest → cfg.idInsideLatch = true →
      Step cfg merge w { w with pc := setPc w t (.pre c none) }
  | beginEarlyId (w : W) (t c : Nat) (rest : List Nat) :
      w.pc t = .idle → w.todo t = c :: rest → cfg.idInsideLatch = false →
      Step cfg merge w { w with next := w.next + 1, pc := setPc w t (.pre c (some (w.next + 1))) }
  /-- `lock.Lock(chunk)`: exclusive, no readers -/
  | acquire (w : W) (t c : Nat) (id : Option Nat) :
      w.pc t = .pre c id → w.holder c = none → w.readers c = [] →
      Step cfg merge w { w with holder := fun d => if d = c then some t else w.holder d,
                                pc := setPc w t (.held c id) }
  /-- `commit.Next()` inside the latch -/
  | draw (w : W) (t c : Nat) :
      w.pc t = .held c none →
      Step cfg merge w { w with next := w.next + 1, pc := setPc w t (.held c (some (w.next + 1))) }
  /-- merge, first half: read the current value -/
  | load (w : W) (t c id : Nat) :
      w.pc t = .held c (some id) →
      Step cfg merge w { w with pc := setPc w t (.loaded c id (w.acc c)) }
  /-- merge, second half: store merge(read value, delta) — the linearisation point of the commit
      (the ghost record is appended here) -/
  | storeAcc (w : W) (t c id seen : Nat) :
      w.pc t = .loaded c id seen →
      Step cfg merge w { w with acc := fun d => if d = c then merge seen (w.delta t) else w.acc d,
                                applied := fun d => if d = c then ⟨t, id, w.delta t⟩ :: w.applied d else w.applied d,
                                pc := setPc w t (.wroteAcc c id) }
  | writeA (w : W) (t c id : Nat) :
      w.pc t = .wroteAcc c id →
      Step cfg merge w { w with colA := fun d => if d = c then id else w.colA d, pc := setPc w t (.wroteA c id) }
  | writeB (w : W) (t c id : Nat) :
      w.pc t = .wroteA c id →
      Step cfg merge w { w with colB := fun d => if d = c then id else w.colB d,
                                pc := setPc w t (.wroteB c id) }
  /-- the logger `Append` -/
  | emit (w : W) (t c id : Nat) :
      w.pc t = .wroteB c id →
      Step cfg merge w { w with stream := (c, id) :: w.stream, pc := setPc w t (.emitted c id) }
  /-- `lock.Unlock(chunk)` -/
  | release (w : W) (t c id : Nat) :
      w.pc t = .emitted c id →
      Step cfg merge w { w with holder := fun d => if d = c then none else w.holder d,
                                pc := setPc w t .idle,
                                todo := fun u => if u = t then (w.todo u).tail else w.todo u }
  /-- reader: `RLock(chunk)` — shared, excluded by a writer -/
  | racquire (w : W) (t c : Nat) :
      w.pc t = .idle → w.todo t = [] → w.holder c = none →
      Step cfg merge w { w with readers := fun d => if d = c then t :: w.readers d else w.readers d,
                                pc := setPc w t (.rheld c) }
  | rreadA (w : W) (t c : Nat) :
      w.pc t = .rheld c →
      Step cfg merge w { w with pc := setPc w t (.readA c (w.colA c)) }
  | rreadB (w : W) (t c a : Nat) :
      w.pc t = .readA c a →
      Step cfg merge w { w with pc := setPc w t (.readAB c a (w.colB c)) }
  /-- `RUnlock(chunk)`; the observation made under this hold is recorded -/
  | rrelease (w : W) (t c a b : Nat) :
      w.pc t = .readAB c a b →
      Step cfg merge w { w with readers := fun d => if d = c then (w.readers d).erase t else w.readers d,
                                obs := (c, a, b) :: w.obs,
                                pc := setPc w t .idle }

inductive Reach (cfg : ProtoCfg) (merge : Nat → Nat → Nat) (w0 : W) : W → Prop
  | refl : Reach cfg merge w0 w0
  | step {w w'} : Reach cfg merge w0 w → Step cfg merge w w' → Reach cfg merge w0 w'

/-- initial worlds: nobody holds anything, nothing applied yet; arbitrary programs (`todo`, `delta`) -/
structure Init (w : W) : Prop where
  holder : ∀ c, w.holder c = none
  readers : ∀ c, w.readers c = []
  applied : ∀ c, w.applied c = []
  stream : w.stream = []
  obs : w.obs = []
  pc : ∀ t, w.pc t = .idle
  same : ∀ c, w.colA c = w.colB c

/-- ids of a chunk's applied commits, most recent first -/
def idsOf (w : W) (c : Nat) : List Nat := (w.applied c).map (·.id)

/-- strictly decreasing (the list is most-recent-first, so: ids increase in apply order) -/
def Desc : List Nat → Prop
  | [] => True
  | a :: l => (∀ x ∈ l, x < a) ∧ Desc l

/-- the merged value the applied commits define, folding in apply order -/
def foldAcc (merge : Nat → Nat → Nat) (init : Nat) : List Rec → Nat
  | [] => init
  | r :: older => merge (foldAcc merge init older) r.delta

/-- nobody is in the middle of anything -/
def Quiescent (w : W) : Prop := ∀ t, w.pc t = .idle

end ColumnVerif.Conc
