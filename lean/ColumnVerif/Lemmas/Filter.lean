import ColumnVerif.Model.Filter
import ColumnVerif.Lemmas.Bits
/-! Lemmas: the per-chunk loops of the filters are pointwise maps over the whole selection. -/
namespace ColumnVerif.Store
open ColumnVerif.Bits

theorem size_mapChunk (sel : Bitmap) (c : Nat) (f : Nat → Bool → Bool) : (mapChunk sel c f).size = sel.size := by
  unfold mapChunk; simp

theorem get_mapChunk (sel : Bitmap) (c : Nat) (f : Nat → Bool → Bool) (i : Nat) :
    Bits.get (mapChunk sel c f) i =
      if i < sel.size ∧ i / 16384 = c then f i (Bits.get sel i) else Bits.get sel i := by
  unfold mapChunk Bits.get
  by_cases hi : i < sel.size
  · simp [hi]
  · have h1 : sel[i]? = none := Array.getElem?_eq_none (by omega)
    have h2 : (sel.mapIdx (fun i b => if i / 16384 = c then f i b else b))[i]? = none :=
      Array.getElem?_eq_none (by simp; omega)
    simp [hi]

theorem size_mapChunksUpTo (sel : Bitmap) (f : Nat → Bool → Bool) (n : Nat) :
    (mapChunksUpTo sel f n).size = sel.size := by
  induction n with
  | zero => rfl
  | succ k ih => simp [mapChunksUpTo, size_mapChunk, ih]

theorem get_mapChunksUpTo (sel : Bitmap) (f : Nat → Bool → Bool) (n i : Nat) :
    Bits.get (mapChunksUpTo sel f n) i =
      if i < sel.size ∧ i / 16384 < n then f i (Bits.get sel i) else Bits.get sel i := by
  induction n with
  | zero => simp [mapChunksUpTo]
  | succ k ih =>
    simp only [mapChunksUpTo, get_mapChunk, size_mapChunksUpTo, ih]
    by_cases hi : i < sel.size
    · by_cases h1 : i / 16384 = k
      · have : ¬ (i / 16384 < k) := by omega
        have h2 : i / 16384 < k + 1 := by omega
        simp [hi, h1, h2]
      · by_cases h2 : i / 16384 < k
        · have : i / 16384 < k + 1 := by omega
          simp [hi, h1, h2, this]
        · have : ¬ (i / 16384 < k + 1) := by omega
          simp [hi, h1, h2, this]
    · simp [hi]

theorem size_mapChunks (sel : Bitmap) (f : Nat → Bool → Bool) : (mapChunks sel f).size = sel.size :=
  size_mapChunksUpTo sel f _

/-- the chunk loop `0 … len>>8` reaches every bit of the selection, whatever its length -/
theorem get_mapChunks (sel : Bitmap) (f : Nat → Bool → Bool) (i : Nat) :
    Bits.get (mapChunks sel f) i = if i < sel.size then f i (Bits.get sel i) else false := by
  unfold mapChunks
  rw [get_mapChunksUpTo]
  by_cases hi : i < sel.size
  · have : i / 16384 < selLimit sel + 1 := by
      unfold selLimit Bits.words; omega
    simp [hi, this]
  · simp [hi, get_of_ge sel i (by omega)]

end ColumnVerif.Store
